; ModuleID = 'probe1.103258e1af9ac305-cgu.0'
source_filename = "probe1.103258e1af9ac305-cgu.0"
target datalayout = "e-m:e-p270:32:32-p271:32:32-p272:64:64-i64:64-i128:128-f80:128-n8:16:32:64-S128"
target triple = "x86_64-unknown-linux-gnu"

!llvm.module.flags = !{!0, !1}
!llvm.ident = !{!2}

!0 = !{i32 8, !"PIC Level", i32 2}
!1 = !{i32 2, !"RtLibUseGOT", i32 1}
!2 = !{!"rustc version 1.95.0 (59807616e 2026-04-14)"}

use asn1rs::prelude::*;

#[asn(transparent, tag(APPLICATION(9)))]

#[derive(Default, Debug, Clone, PartialEq, Hash)]
pub struct Tapp9(#[asn(integer(0..3))] pub u8);

impl Tapp9 {
    pub const fn value_min() -> u8 {
        0
    }

    pub const fn value_max() -> u8 {
        3
    }
}

impl Tapp9 {
    pub const fn new(value: u8) -> Self {
        Self(value)
    }
}

impl ::core::ops::Deref for Tapp9 {
    type Target = u8;

    fn deref(&self) -> &u8 {
        &self.0
    }
}

impl ::core::ops::DerefMut for Tapp9 {
    fn deref_mut(&mut self) -> &mut u8 {
        &mut self.0
    }
}

impl ::core::convert::From<u8> for Tapp9 {
    fn from(value: u8) -> Self {
        Self(value)
    }
}

impl ::core::convert::From<Tapp9> for u8 {
    fn from(value: Tapp9) -> Self {
        value.0
    }
}

#[asn(sequence)]

#[derive(Default, Debug, Clone, PartialEq, Hash)]
pub struct Tsq {
    #[asn(boolean)] pub z: bool,
}

impl Tsq {
}

#[asn(choice)]

#[derive(Debug, Clone, PartialEq, Hash)]
pub enum Tcho {
    #[asn(boolean, tag(4))] M(bool),
    #[asn(integer(0..7), tag(1))] N(u8),
}

impl Tcho {
    pub fn variants() -> [Self; 2] {
        [
        Tcho::M(Default::default()),
        Tcho::N(Default::default()),
        ]
    }

    pub fn value_index(&self) -> usize {
        match self {
            Tcho::M(_) => 0,
            Tcho::N(_) => 1,
        }
    }

    pub const fn n_min() -> u8 {
        0
    }

    pub const fn n_max() -> u8 {
        7
    }
}

impl Default for Tcho {
    fn default() -> Tcho {
        Tcho::M(Default::default())
    }
}

#[asn(choice, extensible_after(N))]

#[derive(Debug, Clone, PartialEq, Hash)]
pub enum Tchox {
    #[asn(boolean, tag(PRIVATE(1)))] M(bool),
    #[asn(integer(0..7), tag(PRIVATE(3)))] N(u8),
    #[asn(null, tag(APPLICATION(2)))] O(Null),
}

impl Tchox {
    pub fn variants() -> [Self; 3] {
        [
        Tchox::M(Default::default()),
        Tchox::N(Default::default()),
        Tchox::O(Default::default()),
        ]
    }

    pub fn value_index(&self) -> usize {
        match self {
            Tchox::M(_) => 0,
            Tchox::N(_) => 1,
            Tchox::O(_) => 2,
        }
    }

    pub const fn n_min() -> u8 {
        0
    }

    pub const fn n_max() -> u8 {
        7
    }
}

impl Default for Tchox {
    fn default() -> Tchox {
        Tchox::M(Default::default())
    }
}

#[asn(set)]

#[derive(Default, Debug, Clone, PartialEq, Hash)]
pub struct Tst {
    #[asn(boolean)] pub z: bool,
}

impl Tst {
}

#[asn(sequence)]

#[derive(Default, Debug, Clone, PartialEq, Hash)]
pub struct Tsp0p1 {
    #[asn(integer(0..7), tag(UNIVERSAL(30)))] pub x: u8,
    #[asn(optional(integer(0..15)), tag(APPLICATION(1)))] pub a: Option<u8>,
}

impl Tsp0p1 {
    pub const fn x_min() -> u8 {
        0
    }

    pub const fn x_max() -> u8 {
        7
    }

    pub const fn a_min() -> u8 {
        0
    }

    pub const fn a_max() -> u8 {
        15
    }
}

#[asn(sequence)]

#[derive(Default, Debug, Clone, PartialEq, Hash)]
pub struct Tsp0p2 {
    #[asn(integer(0..7), tag(UNIVERSAL(30)))] pub x: u8,
    #[asn(integer(0..31), tag(3))] pub c3: u8,
}

impl Tsp0p2 {
    pub const fn x_min() -> u8 {
        0
    }

    pub const fn x_max() -> u8 {
        7
    }

    pub const fn c3_min() -> u8 {
        0
    }

    pub const fn c3_max() -> u8 {
        31
    }
}

#[asn(sequence)]

#[derive(Default, Debug, Clone, PartialEq, Hash)]
pub struct Tsp0p3 {
    #[asn(integer(0..7), tag(UNIVERSAL(30)))] pub x: u8,
    #[asn(optional(integer(0..63)), tag(0))] pub c0: Option<u8>,
}

impl Tsp0p3 {
    pub const fn x_min() -> u8 {
        0
    }

    pub const fn x_max() -> u8 {
        7
    }

    pub const fn c0_min() -> u8 {
        0
    }

    pub const fn c0_max() -> u8 {
        63
    }
}

#[asn(sequence)]

#[derive(Default, Debug, Clone, PartialEq, Hash)]
pub struct Tsp0p4 {
    #[asn(integer(0..7), tag(UNIVERSAL(30)))] pub x: u8,
    #[asn(integer(0..127), tag(PRIVATE(2)))] pub p: u8,
}

impl Tsp0p4 {
    pub const fn x_min() -> u8 {
        0
    }

    pub const fn x_max() -> u8 {
        7
    }

    pub const fn p_min() -> u8 {
        0
    }

    pub const fn p_max() -> u8 {
        127
    }
}

#[asn(sequence)]

#[derive(Default, Debug, Clone, PartialEq, Hash)]
pub struct Tsp0p5 {
    #[asn(integer(0..7), tag(UNIVERSAL(30)))] pub x: u8,
    #[asn(optional(boolean))] pub b: Option<bool>,
}

impl Tsp0p5 {
    pub const fn x_min() -> u8 {
        0
    }

    pub const fn x_max() -> u8 {
        7
    }
}

#[asn(sequence)]

#[derive(Default, Debug, Clone, PartialEq, Hash)]
pub struct Tsp0p6 {
    #[asn(integer(0..7), tag(UNIVERSAL(30)))] pub x: u8,
    #[asn(integer(0..255))] pub i: u8,
}

impl Tsp0p6 {
    pub const fn x_min() -> u8 {
        0
    }

    pub const fn x_max() -> u8 {
        7
    }

    pub const fn i_min() -> u8 {
        0
    }

    pub const fn i_max() -> u8 {
        255
    }
}

#[asn(sequence)]

#[derive(Default, Debug, Clone, PartialEq, Hash)]
pub struct Tsp0p7 {
    #[asn(integer(0..7), tag(UNIVERSAL(30)))] pub x: u8,
    #[asn(optional(complex(Tapp9, tag(APPLICATION(9)))))] pub ra: Option<Tapp9>,
}

impl Tsp0p7 {
    pub const fn x_min() -> u8 {
        0
    }

    pub const fn x_max() -> u8 {
        7
    }
}

#[asn(sequence)]

#[derive(Default, Debug, Clone, PartialEq, Hash)]
pub struct Tsp0p8 {
    #[asn(integer(0..7), tag(UNIVERSAL(30)))] pub x: u8,
    #[asn(complex(Tsq, tag(UNIVERSAL(16))))] pub rs: Tsq,
}

impl Tsp0p8 {
    pub const fn x_min() -> u8 {
        0
    }

    pub const fn x_max() -> u8 {
        7
    }
}

#[asn(sequence)]

#[derive(Default, Debug, Clone, PartialEq, Hash)]
pub struct Tsp0p9 {
    #[asn(integer(0..7), tag(UNIVERSAL(30)))] pub x: u8,
    #[asn(optional(complex(Tcho, tag(1))))] pub rc: Option<Tcho>,
}

impl Tsp0p9 {
    pub const fn x_min() -> u8 {
        0
    }

    pub const fn x_max() -> u8 {
        7
    }
}

#[asn(sequence)]

#[derive(Default, Debug, Clone, PartialEq, Hash)]
pub struct Tsp0p10 {
    #[asn(integer(0..7), tag(UNIVERSAL(30)))] pub x: u8,
    #[asn(complex(Tst, tag(UNIVERSAL(17))))] pub rt: Tst,
}

impl Tsp0p10 {
    pub const fn x_min() -> u8 {
        0
    }

    pub const fn x_max() -> u8 {
        7
    }
}

#[asn(sequence)]

#[derive(Default, Debug, Clone, PartialEq, Hash)]
pub struct Tsp0p11 {
    #[asn(integer(0..7), tag(UNIVERSAL(30)))] pub x: u8,
    #[asn(optional(sequence_of(size(0..3), boolean)))] pub so: Option<Vec<bool>>,
}

impl Tsp0p11 {
    pub const fn x_min() -> u8 {
        0
    }

    pub const fn x_max() -> u8 {
        7
    }
}

#[asn(sequence)]

#[derive(Default, Debug, Clone, PartialEq, Hash)]
pub struct Tsp0p12 {
    #[asn(integer(0..7), tag(UNIVERSAL(30)))] pub x: u8,
    #[asn(set_of(size(0..2), boolean))] pub st: Vec<bool>,
}

impl Tsp0p12 {
    pub const fn x_min() -> u8 {
        0
    }

    pub const fn x_max() -> u8 {
        7
    }
}

#[asn(sequence)]

#[derive(Default, Debug, Clone, PartialEq, Hash)]
pub struct Tsp0p13 {
    #[asn(integer(0..7), tag(UNIVERSAL(30)))] pub x: u8,
    #[asn(optional(complex(Tchox, tag(PRIVATE(1)))))] pub rx: Option<Tchox>,
}

impl Tsp0p13 {
    pub const fn x_min() -> u8 {
        0
    }

    pub const fn x_max() -> u8 {
        7
    }
}

#[asn(sequence)]

#[derive(Default, Debug, Clone, PartialEq, Hash)]
pub struct Tsp0p14 {
    #[asn(integer(0..7), tag(UNIVERSAL(30)))] pub x: u8,
    #[asn(integer(0..1), tag(UNIVERSAL(2)))] pub u2: u8,
}

impl Tsp0p14 {
    pub const fn x_min() -> u8 {
        0
    }

    pub const fn x_max() -> u8 {
        7
    }

    pub const fn u2_min() -> u8 {
        0
    }

    pub const fn u2_max() -> u8 {
        1
    }
}

#[asn(sequence, tag(APPLICATION(5)))]

#[derive(Default, Debug, Clone, PartialEq, Hash)]
pub struct Tsp0p15Is {
    #[asn(integer(0..3))] pub v: u8,
}

impl Tsp0p15Is {
    pub const fn v_min() -> u8 {
        0
    }

    pub const fn v_max() -> u8 {
        3
    }
}

#[asn(sequence)]

#[derive(Default, Debug, Clone, PartialEq, Hash)]
pub struct Tsp0p15 {
    #[asn(integer(0..7), tag(UNIVERSAL(30)))] pub x: u8,
    #[asn(optional(complex(Tsp0p15Is, tag(APPLICATION(5)))), tag(APPLICATION(5)))] pub is: Option<Tsp0p15Is>,
}

impl Tsp0p15 {
    pub const fn x_min() -> u8 {
        0
    }

    pub const fn x_max() -> u8 {
        7
    }
}

#[asn(sequence)]

#[derive(Default, Debug, Clone, PartialEq, Hash)]
pub struct Tsp1p0 {
    #[asn(optional(integer(0..15)), tag(APPLICATION(1)))] pub a: Option<u8>,
    #[asn(integer(0..7), tag(UNIVERSAL(30)))] pub x: u8,
}

impl Tsp1p0 {
    pub const fn a_min() -> u8 {
        0
    }

    pub const fn a_max() -> u8 {
        15
    }

    pub const fn x_min() -> u8 {
        0
    }

    pub const fn x_max() -> u8 {
        7
    }
}

#[asn(sequence)]

#[derive(Default, Debug, Clone, PartialEq, Hash)]
pub struct Tsp1p2 {
    #[asn(optional(integer(0..15)), tag(APPLICATION(1)))] pub a: Option<u8>,
    #[asn(integer(0..31), tag(3))] pub c3: u8,
}

impl Tsp1p2 {
    pub const fn a_min() -> u8 {
        0
    }

    pub const fn a_max() -> u8 {
        15
    }

    pub const fn c3_min() -> u8 {
        0
    }

    pub const fn c3_max() -> u8 {
        31
    }
}

#[asn(sequence)]

#[derive(Default, Debug, Clone, PartialEq, Hash)]
pub struct Tsp1p3 {
    #[asn(optional(integer(0..15)), tag(APPLICATION(1)))] pub a: Option<u8>,
    #[asn(optional(integer(0..63)), tag(0))] pub c0: Option<u8>,
}

impl Tsp1p3 {
    pub const fn a_min() -> u8 {
        0
    }

    pub const fn a_max() -> u8 {
        15
    }

    pub const fn c0_min() -> u8 {
        0
    }

    pub const fn c0_max() -> u8 {
        63
    }
}

#[asn(sequence)]

#[derive(Default, Debug, Clone, PartialEq, Hash)]
pub struct Tsp1p4 {
    #[asn(optional(integer(0..15)), tag(APPLICATION(1)))] pub a: Option<u8>,
    #[asn(integer(0..127), tag(PRIVATE(2)))] pub p: u8,
}

impl Tsp1p4 {
    pub const fn a_min() -> u8 {
        0
    }

    pub const fn a_max() -> u8 {
        15
    }

    pub const fn p_min() -> u8 {
        0
    }

    pub const fn p_max() -> u8 {
        127
    }
}

#[asn(sequence)]

#[derive(Default, Debug, Clone, PartialEq, Hash)]
pub struct Tsp1p5 {
    #[asn(optional(integer(0..15)), tag(APPLICATION(1)))] pub a: Option<u8>,
    #[asn(optional(boolean))] pub b: Option<bool>,
}

impl Tsp1p5 {
    pub const fn a_min() -> u8 {
        0
    }

    pub const fn a_max() -> u8 {
        15
    }
}

#[asn(sequence)]

#[derive(Default, Debug, Clone, PartialEq, Hash)]
pub struct Tsp1p6 {
    #[asn(optional(integer(0..15)), tag(APPLICATION(1)))] pub a: Option<u8>,
    #[asn(integer(0..255))] pub i: u8,
}

impl Tsp1p6 {
    pub const fn a_min() -> u8 {
        0
    }

    pub const fn a_max() -> u8 {
        15
    }

    pub const fn i_min() -> u8 {
        0
    }

    pub const fn i_max() -> u8 {
        255
    }
}

#[asn(sequence)]

#[derive(Default, Debug, Clone, PartialEq, Hash)]
pub struct Tsp1p7 {
    #[asn(optional(integer(0..15)), tag(APPLICATION(1)))] pub a: Option<u8>,
    #[asn(optional(complex(Tapp9, tag(APPLICATION(9)))))] pub ra: Option<Tapp9>,
}

impl Tsp1p7 {
    pub const fn a_min() -> u8 {
        0
    }

    pub const fn a_max() -> u8 {
        15
    }
}

#[asn(sequence)]

#[derive(Default, Debug, Clone, PartialEq, Hash)]
pub struct Tsp1p8 {
    #[asn(optional(integer(0..15)), tag(APPLICATION(1)))] pub a: Option<u8>,
    #[asn(complex(Tsq, tag(UNIVERSAL(16))))] pub rs: Tsq,
}

impl Tsp1p8 {
    pub const fn a_min() -> u8 {
        0
    }

    pub const fn a_max() -> u8 {
        15
    }
}

#[asn(sequence)]

#[derive(Default, Debug, Clone, PartialEq, Hash)]
pub struct Tsp1p9 {
    #[asn(optional(integer(0..15)), tag(APPLICATION(1)))] pub a: Option<u8>,
    #[asn(optional(complex(Tcho, tag(1))))] pub rc: Option<Tcho>,
}

impl Tsp1p9 {
    pub const fn a_min() -> u8 {
        0
    }

    pub const fn a_max() -> u8 {
        15
    }
}

#[asn(sequence)]

#[derive(Default, Debug, Clone, PartialEq, Hash)]
pub struct Tsp1p10 {
    #[asn(optional(integer(0..15)), tag(APPLICATION(1)))] pub a: Option<u8>,
    #[asn(complex(Tst, tag(UNIVERSAL(17))))] pub rt: Tst,
}

impl Tsp1p10 {
    pub const fn a_min() -> u8 {
        0
    }

    pub const fn a_max() -> u8 {
        15
    }
}

#[asn(sequence)]

#[derive(Default, Debug, Clone, PartialEq, Hash)]
pub struct Tsp1p11 {
    #[asn(optional(integer(0..15)), tag(APPLICATION(1)))] pub a: Option<u8>,
    #[asn(optional(sequence_of(size(0..3), boolean)))] pub so: Option<Vec<bool>>,
}

impl Tsp1p11 {
    pub const fn a_min() -> u8 {
        0
    }

    pub const fn a_max() -> u8 {
        15
    }
}

#[asn(sequence)]

#[derive(Default, Debug, Clone, PartialEq, Hash)]
pub struct Tsp1p12 {
    #[asn(optional(integer(0..15)), tag(APPLICATION(1)))] pub a: Option<u8>,
    #[asn(set_of(size(0..2), boolean))] pub st: Vec<bool>,
}

impl Tsp1p12 {
    pub const fn a_min() -> u8 {
        0
    }

    pub const fn a_max() -> u8 {
        15
    }
}

#[asn(sequence)]

#[derive(Default, Debug, Clone, PartialEq, Hash)]
pub struct Tsp1p13 {
    #[asn(optional(integer(0..15)), tag(APPLICATION(1)))] pub a: Option<u8>,
    #[asn(optional(complex(Tchox, tag(PRIVATE(1)))))] pub rx: Option<Tchox>,
}

impl Tsp1p13 {
    pub const fn a_min() -> u8 {
        0
    }

    pub const fn a_max() -> u8 {
        15
    }
}

#[asn(sequence)]

#[derive(Default, Debug, Clone, PartialEq, Hash)]
pub struct Tsp1p14 {
    #[asn(optional(integer(0..15)), tag(APPLICATION(1)))] pub a: Option<u8>,
    #[asn(integer(0..1), tag(UNIVERSAL(2)))] pub u2: u8,
}

impl Tsp1p14 {
    pub const fn a_min() -> u8 {
        0
    }

    pub const fn a_max() -> u8 {
        15
    }

    pub const fn u2_min() -> u8 {
        0
    }

    pub const fn u2_max() -> u8 {
        1
    }
}

#[asn(sequence, tag(APPLICATION(5)))]

#[derive(Default, Debug, Clone, PartialEq, Hash)]
pub struct Tsp1p15Is {
    #[asn(integer(0..3))] pub v: u8,
}

impl Tsp1p15Is {
    pub const fn v_min() -> u8 {
        0
    }

    pub const fn v_max() -> u8 {
        3
    }
}

#[asn(sequence)]

#[derive(Default, Debug, Clone, PartialEq, Hash)]
pub struct Tsp1p15 {
    #[asn(optional(integer(0..15)), tag(APPLICATION(1)))] pub a: Option<u8>,
    #[asn(optional(complex(Tsp1p15Is, tag(APPLICATION(5)))), tag(APPLICATION(5)))] pub is: Option<Tsp1p15Is>,
}

impl Tsp1p15 {
    pub const fn a_min() -> u8 {
        0
    }

    pub const fn a_max() -> u8 {
        15
    }
}

#[asn(sequence)]

#[derive(Default, Debug, Clone, PartialEq, Hash)]
pub struct Tsp2p0 {
    #[asn(integer(0..31), tag(3))] pub c3: u8,
    #[asn(integer(0..7), tag(UNIVERSAL(30)))] pub x: u8,
}

impl Tsp2p0 {
    pub const fn c3_min() -> u8 {
        0
    }

    pub const fn c3_max() -> u8 {
        31
    }

    pub const fn x_min() -> u8 {
        0
    }

    pub const fn x_max() -> u8 {
        7
    }
}

#[asn(sequence)]

#[derive(Default, Debug, Clone, PartialEq, Hash)]
pub struct Tsp2p1 {
    #[asn(integer(0..31), tag(3))] pub c3: u8,
    #[asn(optional(integer(0..15)), tag(APPLICATION(1)))] pub a: Option<u8>,
}

impl Tsp2p1 {
    pub const fn c3_min() -> u8 {
        0
    }

    pub const fn c3_max() -> u8 {
        31
    }

    pub const fn a_min() -> u8 {
        0
    }

    pub const fn a_max() -> u8 {
        15
    }
}

#[asn(sequence)]

#[derive(Default, Debug, Clone, PartialEq, Hash)]
pub struct Tsp2p3 {
    #[asn(integer(0..31), tag(3))] pub c3: u8,
    #[asn(optional(integer(0..63)), tag(0))] pub c0: Option<u8>,
}

impl Tsp2p3 {
    pub const fn c3_min() -> u8 {
        0
    }

    pub const fn c3_max() -> u8 {
        31
    }

    pub const fn c0_min() -> u8 {
        0
    }

    pub const fn c0_max() -> u8 {
        63
    }
}

#[asn(sequence)]

#[derive(Default, Debug, Clone, PartialEq, Hash)]
pub struct Tsp2p4 {
    #[asn(integer(0..31), tag(3))] pub c3: u8,
    #[asn(integer(0..127), tag(PRIVATE(2)))] pub p: u8,
}

impl Tsp2p4 {
    pub const fn c3_min() -> u8 {
        0
    }

    pub const fn c3_max() -> u8 {
        31
    }

    pub const fn p_min() -> u8 {
        0
    }

    pub const fn p_max() -> u8 {
        127
    }
}

#[asn(sequence)]

#[derive(Default, Debug, Clone, PartialEq, Hash)]
pub struct Tsp2p5 {
    #[asn(integer(0..31), tag(3))] pub c3: u8,
    #[asn(optional(boolean))] pub b: Option<bool>,
}

impl Tsp2p5 {
    pub const fn c3_min() -> u8 {
        0
    }

    pub const fn c3_max() -> u8 {
        31
    }
}

#[asn(sequence)]

#[derive(Default, Debug, Clone, PartialEq, Hash)]
pub struct Tsp2p6 {
    #[asn(integer(0..31), tag(3))] pub c3: u8,
    #[asn(integer(0..255))] pub i: u8,
}

impl Tsp2p6 {
    pub const fn c3_min() -> u8 {
        0
    }

    pub const fn c3_max() -> u8 {
        31
    }

    pub const fn i_min() -> u8 {
        0
    }

    pub const fn i_max() -> u8 {
        255
    }
}

#[asn(sequence)]

#[derive(Default, Debug, Clone, PartialEq, Hash)]
pub struct Tsp2p7 {
    #[asn(integer(0..31), tag(3))] pub c3: u8,
    #[asn(optional(complex(Tapp9, tag(APPLICATION(9)))))] pub ra: Option<Tapp9>,
}

impl Tsp2p7 {
    pub const fn c3_min() -> u8 {
        0
    }

    pub const fn c3_max() -> u8 {
        31
    }
}

#[asn(sequence)]

#[derive(Default, Debug, Clone, PartialEq, Hash)]
pub struct Tsp2p8 {
    #[asn(integer(0..31), tag(3))] pub c3: u8,
    #[asn(complex(Tsq, tag(UNIVERSAL(16))))] pub rs: Tsq,
}

impl Tsp2p8 {
    pub const fn c3_min() -> u8 {
        0
    }

    pub const fn c3_max() -> u8 {
        31
    }
}

#[asn(sequence)]

#[derive(Default, Debug, Clone, PartialEq, Hash)]
pub struct Tsp2p9 {
    #[asn(integer(0..31), tag(3))] pub c3: u8,
    #[asn(optional(complex(Tcho, tag(1))))] pub rc: Option<Tcho>,
}

impl Tsp2p9 {
    pub const fn c3_min() -> u8 {
        0
    }

    pub const fn c3_max() -> u8 {
        31
    }
}

#[asn(sequence)]

#[derive(Default, Debug, Clone, PartialEq, Hash)]
pub struct Tsp2p10 {
    #[asn(integer(0..31), tag(3))] pub c3: u8,
    #[asn(complex(Tst, tag(UNIVERSAL(17))))] pub rt: Tst,
}

impl Tsp2p10 {
    pub const fn c3_min() -> u8 {
        0
    }

    pub const fn c3_max() -> u8 {
        31
    }
}

#[asn(sequence)]

#[derive(Default, Debug, Clone, PartialEq, Hash)]
pub struct Tsp2p11 {
    #[asn(integer(0..31), tag(3))] pub c3: u8,
    #[asn(optional(sequence_of(size(0..3), boolean)))] pub so: Option<Vec<bool>>,
}

impl Tsp2p11 {
    pub const fn c3_min() -> u8 {
        0
    }

    pub const fn c3_max() -> u8 {
        31
    }
}

#[asn(sequence)]

#[derive(Default, Debug, Clone, PartialEq, Hash)]
pub struct Tsp2p12 {
    #[asn(integer(0..31), tag(3))] pub c3: u8,
    #[asn(set_of(size(0..2), boolean))] pub st: Vec<bool>,
}

impl Tsp2p12 {
    pub const fn c3_min() -> u8 {
        0
    }

    pub const fn c3_max() -> u8 {
        31
    }
}

#[asn(sequence)]

#[derive(Default, Debug, Clone, PartialEq, Hash)]
pub struct Tsp2p13 {
    #[asn(integer(0..31), tag(3))] pub c3: u8,
    #[asn(optional(complex(Tchox, tag(PRIVATE(1)))))] pub rx: Option<Tchox>,
}

impl Tsp2p13 {
    pub const fn c3_min() -> u8 {
        0
    }

    pub const fn c3_max() -> u8 {
        31
    }
}

#[asn(sequence)]

#[derive(Default, Debug, Clone, PartialEq, Hash)]
pub struct Tsp2p14 {
    #[asn(integer(0..31), tag(3))] pub c3: u8,
    #[asn(integer(0..1), tag(UNIVERSAL(2)))] pub u2: u8,
}

impl Tsp2p14 {
    pub const fn c3_min() -> u8 {
        0
    }

    pub const fn c3_max() -> u8 {
        31
    }

    pub const fn u2_min() -> u8 {
        0
    }

    pub const fn u2_max() -> u8 {
        1
    }
}

#[asn(sequence, tag(APPLICATION(5)))]

#[derive(Default, Debug, Clone, PartialEq, Hash)]
pub struct Tsp2p15Is {
    #[asn(integer(0..3))] pub v: u8,
}

impl Tsp2p15Is {
    pub const fn v_min() -> u8 {
        0
    }

    pub const fn v_max() -> u8 {
        3
    }
}

#[asn(sequence)]

#[derive(Default, Debug, Clone, PartialEq, Hash)]
pub struct Tsp2p15 {
    #[asn(integer(0..31), tag(3))] pub c3: u8,
    #[asn(optional(complex(Tsp2p15Is, tag(APPLICATION(5)))), tag(APPLICATION(5)))] pub is: Option<Tsp2p15Is>,
}

impl Tsp2p15 {
    pub const fn c3_min() -> u8 {
        0
    }

    pub const fn c3_max() -> u8 {
        31
    }
}

#[asn(sequence)]

#[derive(Default, Debug, Clone, PartialEq, Hash)]
pub struct Tsp3p0 {
    #[asn(optional(integer(0..63)), tag(0))] pub c0: Option<u8>,
    #[asn(integer(0..7), tag(UNIVERSAL(30)))] pub x: u8,
}

impl Tsp3p0 {
    pub const fn c0_min() -> u8 {
        0
    }

    pub const fn c0_max() -> u8 {
        63
    }

    pub const fn x_min() -> u8 {
        0
    }

    pub const fn x_max() -> u8 {
        7
    }
}

#[asn(sequence)]

#[derive(Default, Debug, Clone, PartialEq, Hash)]
pub struct Tsp3p1 {
    #[asn(optional(integer(0..63)), tag(0))] pub c0: Option<u8>,
    #[asn(optional(integer(0..15)), tag(APPLICATION(1)))] pub a: Option<u8>,
}

impl Tsp3p1 {
    pub const fn c0_min() -> u8 {
        0
    }

    pub const fn c0_max() -> u8 {
        63
    }

    pub const fn a_min() -> u8 {
        0
    }

    pub const fn a_max() -> u8 {
        15
    }
}

#[asn(sequence)]

#[derive(Default, Debug, Clone, PartialEq, Hash)]
pub struct Tsp3p2 {
    #[asn(optional(integer(0..63)), tag(0))] pub c0: Option<u8>,
    #[asn(integer(0..31), tag(3))] pub c3: u8,
}

impl Tsp3p2 {
    pub const fn c0_min() -> u8 {
        0
    }

    pub const fn c0_max() -> u8 {
        63
    }

    pub const fn c3_min() -> u8 {
        0
    }

    pub const fn c3_max() -> u8 {
        31
    }
}

#[asn(sequence)]

#[derive(Default, Debug, Clone, PartialEq, Hash)]
pub struct Tsp3p4 {
    #[asn(optional(integer(0..63)), tag(0))] pub c0: Option<u8>,
    #[asn(integer(0..127), tag(PRIVATE(2)))] pub p: u8,
}

impl Tsp3p4 {
    pub const fn c0_min() -> u8 {
        0
    }

    pub const fn c0_max() -> u8 {
        63
    }

    pub const fn p_min() -> u8 {
        0
    }

    pub const fn p_max() -> u8 {
        127
    }
}

#[asn(sequence)]

#[derive(Default, Debug, Clone, PartialEq, Hash)]
pub struct Tsp3p5 {
    #[asn(optional(integer(0..63)), tag(0))] pub c0: Option<u8>,
    #[asn(optional(boolean))] pub b: Option<bool>,
}

impl Tsp3p5 {
    pub const fn c0_min() -> u8 {
        0
    }

    pub const fn c0_max() -> u8 {
        63
    }
}

#[asn(sequence)]

#[derive(Default, Debug, Clone, PartialEq, Hash)]
pub struct Tsp3p6 {
    #[asn(optional(integer(0..63)), tag(0))] pub c0: Option<u8>,
    #[asn(integer(0..255))] pub i: u8,
}

impl Tsp3p6 {
    pub const fn c0_min() -> u8 {
        0
    }

    pub const fn c0_max() -> u8 {
        63
    }

    pub const fn i_min() -> u8 {
        0
    }

    pub const fn i_max() -> u8 {
        255
    }
}

#[asn(sequence)]

#[derive(Default, Debug, Clone, PartialEq, Hash)]
pub struct Tsp3p7 {
    #[asn(optional(integer(0..63)), tag(0))] pub c0: Option<u8>,
    #[asn(optional(complex(Tapp9, tag(APPLICATION(9)))))] pub ra: Option<Tapp9>,
}

impl Tsp3p7 {
    pub const fn c0_min() -> u8 {
        0
    }

    pub const fn c0_max() -> u8 {
        63
    }
}

#[asn(sequence)]

#[derive(Default, Debug, Clone, PartialEq, Hash)]
pub struct Tsp3p8 {
    #[asn(optional(integer(0..63)), tag(0))] pub c0: Option<u8>,
    #[asn(complex(Tsq, tag(UNIVERSAL(16))))] pub rs: Tsq,
}

impl Tsp3p8 {
    pub const fn c0_min() -> u8 {
        0
    }

    pub const fn c0_max() -> u8 {
        63
    }
}

#[asn(sequence)]

#[derive(Default, Debug, Clone, PartialEq, Hash)]
pub struct Tsp3p9 {
    #[asn(optional(integer(0..63)), tag(0))] pub c0: Option<u8>,
    #[asn(optional(complex(Tcho, tag(1))))] pub rc: Option<Tcho>,
}

impl Tsp3p9 {
    pub const fn c0_min() -> u8 {
        0
    }

    pub const fn c0_max() -> u8 {
        63
    }
}

#[asn(sequence)]

#[derive(Default, Debug, Clone, PartialEq, Hash)]
pub struct Tsp3p10 {
    #[asn(optional(integer(0..63)), tag(0))] pub c0: Option<u8>,
    #[asn(complex(Tst, tag(UNIVERSAL(17))))] pub rt: Tst,
}

impl Tsp3p10 {
    pub const fn c0_min() -> u8 {
        0
    }

    pub const fn c0_max() -> u8 {
        63
    }
}

#[asn(sequence)]

#[derive(Default, Debug, Clone, PartialEq, Hash)]
pub struct Tsp3p11 {
    #[asn(optional(integer(0..63)), tag(0))] pub c0: Option<u8>,
    #[asn(optional(sequence_of(size(0..3), boolean)))] pub so: Option<Vec<bool>>,
}

impl Tsp3p11 {
    pub const fn c0_min() -> u8 {
        0
    }

    pub const fn c0_max() -> u8 {
        63
    }
}

#[asn(sequence)]

#[derive(Default, Debug, Clone, PartialEq, Hash)]
pub struct Tsp3p12 {
    #[asn(optional(integer(0..63)), tag(0))] pub c0: Option<u8>,
    #[asn(set_of(size(0..2), boolean))] pub st: Vec<bool>,
}

impl Tsp3p12 {
    pub const fn c0_min() -> u8 {
        0
    }

    pub const fn c0_max() -> u8 {
        63
    }
}

#[asn(sequence)]

#[derive(Default, Debug, Clone, PartialEq, Hash)]
pub struct Tsp3p13 {
    #[asn(optional(integer(0..63)), tag(0))] pub c0: Option<u8>,
    #[asn(optional(complex(Tchox, tag(PRIVATE(1)))))] pub rx: Option<Tchox>,
}

impl Tsp3p13 {
    pub const fn c0_min() -> u8 {
        0
    }

    pub const fn c0_max() -> u8 {
        63
    }
}

#[asn(sequence)]

#[derive(Default, Debug, Clone, PartialEq, Hash)]
pub struct Tsp3p14 {
    #[asn(optional(integer(0..63)), tag(0))] pub c0: Option<u8>,
    #[asn(integer(0..1), tag(UNIVERSAL(2)))] pub u2: u8,
}

impl Tsp3p14 {
    pub const fn c0_min() -> u8 {
        0
    }

    pub const fn c0_max() -> u8 {
        63
    }

    pub const fn u2_min() -> u8 {
        0
    }

    pub const fn u2_max() -> u8 {
        1
    }
}

#[asn(sequence, tag(APPLICATION(5)))]

#[derive(Default, Debug, Clone, PartialEq, Hash)]
pub struct Tsp3p15Is {
    #[asn(integer(0..3))] pub v: u8,
}

impl Tsp3p15Is {
    pub const fn v_min() -> u8 {
        0
    }

    pub const fn v_max() -> u8 {
        3
    }
}

#[asn(sequence)]

#[derive(Default, Debug, Clone, PartialEq, Hash)]
pub struct Tsp3p15 {
    #[asn(optional(integer(0..63)), tag(0))] pub c0: Option<u8>,
    #[asn(optional(complex(Tsp3p15Is, tag(APPLICATION(5)))), tag(APPLICATION(5)))] pub is: Option<Tsp3p15Is>,
}

impl Tsp3p15 {
    pub const fn c0_min() -> u8 {
        0
    }

    pub const fn c0_max() -> u8 {
        63
    }
}

#[asn(sequence)]

#[derive(Default, Debug, Clone, PartialEq, Hash)]
pub struct Tsp4p0 {
    #[asn(integer(0..127), tag(PRIVATE(2)))] pub p: u8,
    #[asn(integer(0..7), tag(UNIVERSAL(30)))] pub x: u8,
}

impl Tsp4p0 {
    pub const fn p_min() -> u8 {
        0
    }

    pub const fn p_max() -> u8 {
        127
    }

    pub const fn x_min() -> u8 {
        0
    }

    pub const fn x_max() -> u8 {
        7
    }
}

#[asn(sequence)]

#[derive(Default, Debug, Clone, PartialEq, Hash)]
pub struct Tsp4p1 {
    #[asn(integer(0..127), tag(PRIVATE(2)))] pub p: u8,
    #[asn(optional(integer(0..15)), tag(APPLICATION(1)))] pub a: Option<u8>,
}

impl Tsp4p1 {
    pub const fn p_min() -> u8 {
        0
    }

    pub const fn p_max() -> u8 {
        127
    }

    pub const fn a_min() -> u8 {
        0
    }

    pub const fn a_max() -> u8 {
        15
    }
}

#[asn(sequence)]

#[derive(Default, Debug, Clone, PartialEq, Hash)]
pub struct Tsp4p2 {
    #[asn(integer(0..127), tag(PRIVATE(2)))] pub p: u8,
    #[asn(integer(0..31), tag(3))] pub c3: u8,
}

impl Tsp4p2 {
    pub const fn p_min() -> u8 {
        0
    }

    pub const fn p_max() -> u8 {
        127
    }

    pub const fn c3_min() -> u8 {
        0
    }

    pub const fn c3_max() -> u8 {
        31
    }
}

#[asn(sequence)]

#[derive(Default, Debug, Clone, PartialEq, Hash)]
pub struct Tsp4p3 {
    #[asn(integer(0..127), tag(PRIVATE(2)))] pub p: u8,
    #[asn(optional(integer(0..63)), tag(0))] pub c0: Option<u8>,
}

impl Tsp4p3 {
    pub const fn p_min() -> u8 {
        0
    }

    pub const fn p_max() -> u8 {
        127
    }

    pub const fn c0_min() -> u8 {
        0
    }

    pub const fn c0_max() -> u8 {
        63
    }
}

#[asn(sequence)]

#[derive(Default, Debug, Clone, PartialEq, Hash)]
pub struct Tsp4p5 {
    #[asn(integer(0..127), tag(PRIVATE(2)))] pub p: u8,
    #[asn(optional(boolean))] pub b: Option<bool>,
}

impl Tsp4p5 {
    pub const fn p_min() -> u8 {
        0
    }

    pub const fn p_max() -> u8 {
        127
    }
}

#[asn(sequence)]

#[derive(Default, Debug, Clone, PartialEq, Hash)]
pub struct Tsp4p6 {
    #[asn(integer(0..127), tag(PRIVATE(2)))] pub p: u8,
    #[asn(integer(0..255))] pub i: u8,
}

impl Tsp4p6 {
    pub const fn p_min() -> u8 {
        0
    }

    pub const fn p_max() -> u8 {
        127
    }

    pub const fn i_min() -> u8 {
        0
    }

    pub const fn i_max() -> u8 {
        255
    }
}

#[asn(sequence)]

#[derive(Default, Debug, Clone, PartialEq, Hash)]
pub struct Tsp4p7 {
    #[asn(integer(0..127), tag(PRIVATE(2)))] pub p: u8,
    #[asn(optional(complex(Tapp9, tag(APPLICATION(9)))))] pub ra: Option<Tapp9>,
}

impl Tsp4p7 {
    pub const fn p_min() -> u8 {
        0
    }

    pub const fn p_max() -> u8 {
        127
    }
}

#[asn(sequence)]

#[derive(Default, Debug, Clone, PartialEq, Hash)]
pub struct Tsp4p8 {
    #[asn(integer(0..127), tag(PRIVATE(2)))] pub p: u8,
    #[asn(complex(Tsq, tag(UNIVERSAL(16))))] pub rs: Tsq,
}

impl Tsp4p8 {
    pub const fn p_min() -> u8 {
        0
    }

    pub const fn p_max() -> u8 {
        127
    }
}

#[asn(sequence)]

#[derive(Default, Debug, Clone, PartialEq, Hash)]
pub struct Tsp4p9 {
    #[asn(integer(0..127), tag(PRIVATE(2)))] pub p: u8,
    #[asn(optional(complex(Tcho, tag(1))))] pub rc: Option<Tcho>,
}

impl Tsp4p9 {
    pub const fn p_min() -> u8 {
        0
    }

    pub const fn p_max() -> u8 {
        127
    }
}

#[asn(sequence)]

#[derive(Default, Debug, Clone, PartialEq, Hash)]
pub struct Tsp4p10 {
    #[asn(integer(0..127), tag(PRIVATE(2)))] pub p: u8,
    #[asn(complex(Tst, tag(UNIVERSAL(17))))] pub rt: Tst,
}

impl Tsp4p10 {
    pub const fn p_min() -> u8 {
        0
    }

    pub const fn p_max() -> u8 {
        127
    }
}

#[asn(sequence)]

#[derive(Default, Debug, Clone, PartialEq, Hash)]
pub struct Tsp4p11 {
    #[asn(integer(0..127), tag(PRIVATE(2)))] pub p: u8,
    #[asn(optional(sequence_of(size(0..3), boolean)))] pub so: Option<Vec<bool>>,
}

impl Tsp4p11 {
    pub const fn p_min() -> u8 {
        0
    }

    pub const fn p_max() -> u8 {
        127
    }
}

#[asn(sequence)]

#[derive(Default, Debug, Clone, PartialEq, Hash)]
pub struct Tsp4p12 {
    #[asn(integer(0..127), tag(PRIVATE(2)))] pub p: u8,
    #[asn(set_of(size(0..2), boolean))] pub st: Vec<bool>,
}

impl Tsp4p12 {
    pub const fn p_min() -> u8 {
        0
    }

    pub const fn p_max() -> u8 {
        127
    }
}

#[asn(sequence)]

#[derive(Default, Debug, Clone, PartialEq, Hash)]
pub struct Tsp4p13 {
    #[asn(integer(0..127), tag(PRIVATE(2)))] pub p: u8,
    #[asn(optional(complex(Tchox, tag(PRIVATE(1)))))] pub rx: Option<Tchox>,
}

impl Tsp4p13 {
    pub const fn p_min() -> u8 {
        0
    }

    pub const fn p_max() -> u8 {
        127
    }
}

#[asn(sequence)]

#[derive(Default, Debug, Clone, PartialEq, Hash)]
pub struct Tsp4p14 {
    #[asn(integer(0..127), tag(PRIVATE(2)))] pub p: u8,
    #[asn(integer(0..1), tag(UNIVERSAL(2)))] pub u2: u8,
}

impl Tsp4p14 {
    pub const fn p_min() -> u8 {
        0
    }

    pub const fn p_max() -> u8 {
        127
    }

    pub const fn u2_min() -> u8 {
        0
    }

    pub const fn u2_max() -> u8 {
        1
    }
}

#[asn(sequence, tag(APPLICATION(5)))]

#[derive(Default, Debug, Clone, PartialEq, Hash)]
pub struct Tsp4p15Is {
    #[asn(integer(0..3))] pub v: u8,
}

impl Tsp4p15Is {
    pub const fn v_min() -> u8 {
        0
    }

    pub const fn v_max() -> u8 {
        3
    }
}

#[asn(sequence)]

#[derive(Default, Debug, Clone, PartialEq, Hash)]
pub struct Tsp4p15 {
    #[asn(integer(0..127), tag(PRIVATE(2)))] pub p: u8,
    #[asn(optional(complex(Tsp4p15Is, tag(APPLICATION(5)))), tag(APPLICATION(5)))] pub is: Option<Tsp4p15Is>,
}

impl Tsp4p15 {
    pub const fn p_min() -> u8 {
        0
    }

    pub const fn p_max() -> u8 {
        127
    }
}

#[asn(sequence)]

#[derive(Default, Debug, Clone, PartialEq, Hash)]
pub struct Tsp5p0 {
    #[asn(optional(boolean))] pub b: Option<bool>,
    #[asn(integer(0..7), tag(UNIVERSAL(30)))] pub x: u8,
}

impl Tsp5p0 {
    pub const fn x_min() -> u8 {
        0
    }

    pub const fn x_max() -> u8 {
        7
    }
}

#[asn(sequence)]

#[derive(Default, Debug, Clone, PartialEq, Hash)]
pub struct Tsp5p1 {
    #[asn(optional(boolean))] pub b: Option<bool>,
    #[asn(optional(integer(0..15)), tag(APPLICATION(1)))] pub a: Option<u8>,
}

impl Tsp5p1 {
    pub const fn a_min() -> u8 {
        0
    }

    pub const fn a_max() -> u8 {
        15
    }
}

#[asn(sequence)]

#[derive(Default, Debug, Clone, PartialEq, Hash)]
pub struct Tsp5p2 {
    #[asn(optional(boolean))] pub b: Option<bool>,
    #[asn(integer(0..31), tag(3))] pub c3: u8,
}

impl Tsp5p2 {
    pub const fn c3_min() -> u8 {
        0
    }

    pub const fn c3_max() -> u8 {
        31
    }
}

#[asn(sequence)]

#[derive(Default, Debug, Clone, PartialEq, Hash)]
pub struct Tsp5p3 {
    #[asn(optional(boolean))] pub b: Option<bool>,
    #[asn(optional(integer(0..63)), tag(0))] pub c0: Option<u8>,
}

impl Tsp5p3 {
    pub const fn c0_min() -> u8 {
        0
    }

    pub const fn c0_max() -> u8 {
        63
    }
}

#[asn(sequence)]

#[derive(Default, Debug, Clone, PartialEq, Hash)]
pub struct Tsp5p4 {
    #[asn(optional(boolean))] pub b: Option<bool>,
    #[asn(integer(0..127), tag(PRIVATE(2)))] pub p: u8,
}

impl Tsp5p4 {
    pub const fn p_min() -> u8 {
        0
    }

    pub const fn p_max() -> u8 {
        127
    }
}

#[asn(sequence)]

#[derive(Default, Debug, Clone, PartialEq, Hash)]
pub struct Tsp5p6 {
    #[asn(optional(boolean))] pub b: Option<bool>,
    #[asn(integer(0..255))] pub i: u8,
}

impl Tsp5p6 {
    pub const fn i_min() -> u8 {
        0
    }

    pub const fn i_max() -> u8 {
        255
    }
}

#[asn(sequence)]

#[derive(Default, Debug, Clone, PartialEq, Hash)]
pub struct Tsp5p7 {
    #[asn(optional(boolean))] pub b: Option<bool>,
    #[asn(optional(complex(Tapp9, tag(APPLICATION(9)))))] pub ra: Option<Tapp9>,
}

impl Tsp5p7 {
}

#[asn(sequence)]

#[derive(Default, Debug, Clone, PartialEq, Hash)]
pub struct Tsp5p8 {
    #[asn(optional(boolean))] pub b: Option<bool>,
    #[asn(complex(Tsq, tag(UNIVERSAL(16))))] pub rs: Tsq,
}

impl Tsp5p8 {
}

#[asn(sequence)]

#[derive(Default, Debug, Clone, PartialEq, Hash)]
pub struct Tsp5p9 {
    #[asn(optional(boolean))] pub b: Option<bool>,
    #[asn(optional(complex(Tcho, tag(1))))] pub rc: Option<Tcho>,
}

impl Tsp5p9 {
}

#[asn(sequence)]

#[derive(Default, Debug, Clone, PartialEq, Hash)]
pub struct Tsp5p10 {
    #[asn(optional(boolean))] pub b: Option<bool>,
    #[asn(complex(Tst, tag(UNIVERSAL(17))))] pub rt: Tst,
}

impl Tsp5p10 {
}

#[asn(sequence)]

#[derive(Default, Debug, Clone, PartialEq, Hash)]
pub struct Tsp5p11 {
    #[asn(optional(boolean))] pub b: Option<bool>,
    #[asn(optional(sequence_of(size(0..3), boolean)))] pub so: Option<Vec<bool>>,
}

impl Tsp5p11 {
}

#[asn(sequence)]

#[derive(Default, Debug, Clone, PartialEq, Hash)]
pub struct Tsp5p12 {
    #[asn(optional(boolean))] pub b: Option<bool>,
    #[asn(set_of(size(0..2), boolean))] pub st: Vec<bool>,
}

impl Tsp5p12 {
}

#[asn(sequence)]

#[derive(Default, Debug, Clone, PartialEq, Hash)]
pub struct Tsp5p13 {
    #[asn(optional(boolean))] pub b: Option<bool>,
    #[asn(optional(complex(Tchox, tag(PRIVATE(1)))))] pub rx: Option<Tchox>,
}

impl Tsp5p13 {
}

#[asn(sequence)]

#[derive(Default, Debug, Clone, PartialEq, Hash)]
pub struct Tsp5p14 {
    #[asn(optional(boolean))] pub b: Option<bool>,
    #[asn(integer(0..1), tag(UNIVERSAL(2)))] pub u2: u8,
}

impl Tsp5p14 {
    pub const fn u2_min() -> u8 {
        0
    }

    pub const fn u2_max() -> u8 {
        1
    }
}

#[asn(sequence, tag(APPLICATION(5)))]

#[derive(Default, Debug, Clone, PartialEq, Hash)]
pub struct Tsp5p15Is {
    #[asn(integer(0..3))] pub v: u8,
}

impl Tsp5p15Is {
    pub const fn v_min() -> u8 {
        0
    }

    pub const fn v_max() -> u8 {
        3
    }
}

#[asn(sequence)]

#[derive(Default, Debug, Clone, PartialEq, Hash)]
pub struct Tsp5p15 {
    #[asn(optional(boolean))] pub b: Option<bool>,
    #[asn(optional(complex(Tsp5p15Is, tag(APPLICATION(5)))), tag(APPLICATION(5)))] pub is: Option<Tsp5p15Is>,
}

impl Tsp5p15 {
}

#[asn(sequence)]

#[derive(Default, Debug, Clone, PartialEq, Hash)]
pub struct Tsp6p0 {
    #[asn(integer(0..255))] pub i: u8,
    #[asn(integer(0..7), tag(UNIVERSAL(30)))] pub x: u8,
}

impl Tsp6p0 {
    pub const fn i_min() -> u8 {
        0
    }

    pub const fn i_max() -> u8 {
        255
    }

    pub const fn x_min() -> u8 {
        0
    }

    pub const fn x_max() -> u8 {
        7
    }
}

#[asn(sequence)]

#[derive(Default, Debug, Clone, PartialEq, Hash)]
pub struct Tsp6p1 {
    #[asn(integer(0..255))] pub i: u8,
    #[asn(optional(integer(0..15)), tag(APPLICATION(1)))] pub a: Option<u8>,
}

impl Tsp6p1 {
    pub const fn i_min() -> u8 {
        0
    }

    pub const fn i_max() -> u8 {
        255
    }

    pub const fn a_min() -> u8 {
        0
    }

    pub const fn a_max() -> u8 {
        15
    }
}

#[asn(sequence)]

#[derive(Default, Debug, Clone, PartialEq, Hash)]
pub struct Tsp6p2 {
    #[asn(integer(0..255))] pub i: u8,
    #[asn(integer(0..31), tag(3))] pub c3: u8,
}

impl Tsp6p2 {
    pub const fn i_min() -> u8 {
        0
    }

    pub const fn i_max() -> u8 {
        255
    }

    pub const fn c3_min() -> u8 {
        0
    }

    pub const fn c3_max() -> u8 {
        31
    }
}

#[asn(sequence)]

#[derive(Default, Debug, Clone, PartialEq, Hash)]
pub struct Tsp6p3 {
    #[asn(integer(0..255))] pub i: u8,
    #[asn(optional(integer(0..63)), tag(0))] pub c0: Option<u8>,
}

impl Tsp6p3 {
    pub const fn i_min() -> u8 {
        0
    }

    pub const fn i_max() -> u8 {
        255
    }

    pub const fn c0_min() -> u8 {
        0
    }

    pub const fn c0_max() -> u8 {
        63
    }
}

#[asn(sequence)]

#[derive(Default, Debug, Clone, PartialEq, Hash)]
pub struct Tsp6p4 {
    #[asn(integer(0..255))] pub i: u8,
    #[asn(integer(0..127), tag(PRIVATE(2)))] pub p: u8,
}

impl Tsp6p4 {
    pub const fn i_min() -> u8 {
        0
    }

    pub const fn i_max() -> u8 {
        255
    }

    pub const fn p_min() -> u8 {
        0
    }

    pub const fn p_max() -> u8 {
        127
    }
}

#[asn(sequence)]

#[derive(Default, Debug, Clone, PartialEq, Hash)]
pub struct Tsp6p5 {
    #[asn(integer(0..255))] pub i: u8,
    #[asn(optional(boolean))] pub b: Option<bool>,
}

impl Tsp6p5 {
    pub const fn i_min() -> u8 {
        0
    }

    pub const fn i_max() -> u8 {
        255
    }
}

#[asn(sequence)]

#[derive(Default, Debug, Clone, PartialEq, Hash)]
pub struct Tsp6p7 {
    #[asn(integer(0..255))] pub i: u8,
    #[asn(optional(complex(Tapp9, tag(APPLICATION(9)))))] pub ra: Option<Tapp9>,
}

impl Tsp6p7 {
    pub const fn i_min() -> u8 {
        0
    }

    pub const fn i_max() -> u8 {
        255
    }
}

#[asn(sequence)]

#[derive(Default, Debug, Clone, PartialEq, Hash)]
pub struct Tsp6p8 {
    #[asn(integer(0..255))] pub i: u8,
    #[asn(complex(Tsq, tag(UNIVERSAL(16))))] pub rs: Tsq,
}

impl Tsp6p8 {
    pub const fn i_min() -> u8 {
        0
    }

    pub const fn i_max() -> u8 {
        255
    }
}

#[asn(sequence)]

#[derive(Default, Debug, Clone, PartialEq, Hash)]
pub struct Tsp6p9 {
    #[asn(integer(0..255))] pub i: u8,
    #[asn(optional(complex(Tcho, tag(1))))] pub rc: Option<Tcho>,
}

impl Tsp6p9 {
    pub const fn i_min() -> u8 {
        0
    }

    pub const fn i_max() -> u8 {
        255
    }
}

#[asn(sequence)]

#[derive(Default, Debug, Clone, PartialEq, Hash)]
pub struct Tsp6p10 {
    #[asn(integer(0..255))] pub i: u8,
    #[asn(complex(Tst, tag(UNIVERSAL(17))))] pub rt: Tst,
}

impl Tsp6p10 {
    pub const fn i_min() -> u8 {
        0
    }

    pub const fn i_max() -> u8 {
        255
    }
}

#[asn(sequence)]

#[derive(Default, Debug, Clone, PartialEq, Hash)]
pub struct Tsp6p11 {
    #[asn(integer(0..255))] pub i: u8,
    #[asn(optional(sequence_of(size(0..3), boolean)))] pub so: Option<Vec<bool>>,
}

impl Tsp6p11 {
    pub const fn i_min() -> u8 {
        0
    }

    pub const fn i_max() -> u8 {
        255
    }
}

#[asn(sequence)]

#[derive(Default, Debug, Clone, PartialEq, Hash)]
pub struct Tsp6p12 {
    #[asn(integer(0..255))] pub i: u8,
    #[asn(set_of(size(0..2), boolean))] pub st: Vec<bool>,
}

impl Tsp6p12 {
    pub const fn i_min() -> u8 {
        0
    }

    pub const fn i_max() -> u8 {
        255
    }
}

#[asn(sequence)]

#[derive(Default, Debug, Clone, PartialEq, Hash)]
pub struct Tsp6p13 {
    #[asn(integer(0..255))] pub i: u8,
    #[asn(optional(complex(Tchox, tag(PRIVATE(1)))))] pub rx: Option<Tchox>,
}

impl Tsp6p13 {
    pub const fn i_min() -> u8 {
        0
    }

    pub const fn i_max() -> u8 {
        255
    }
}

#[asn(sequence)]

#[derive(Default, Debug, Clone, PartialEq, Hash)]
pub struct Tsp6p14 {
    #[asn(integer(0..255))] pub i: u8,
    #[asn(integer(0..1), tag(UNIVERSAL(2)))] pub u2: u8,
}

impl Tsp6p14 {
    pub const fn i_min() -> u8 {
        0
    }

    pub const fn i_max() -> u8 {
        255
    }

    pub const fn u2_min() -> u8 {
        0
    }

    pub const fn u2_max() -> u8 {
        1
    }
}

#[asn(sequence, tag(APPLICATION(5)))]

#[derive(Default, Debug, Clone, PartialEq, Hash)]
pub struct Tsp6p15Is {
    #[asn(integer(0..3))] pub v: u8,
}

impl Tsp6p15Is {
    pub const fn v_min() -> u8 {
        0
    }

    pub const fn v_max() -> u8 {
        3
    }
}

#[asn(sequence)]

#[derive(Default, Debug, Clone, PartialEq, Hash)]
pub struct Tsp6p15 {
    #[asn(integer(0..255))] pub i: u8,
    #[asn(optional(complex(Tsp6p15Is, tag(APPLICATION(5)))), tag(APPLICATION(5)))] pub is: Option<Tsp6p15Is>,
}

impl Tsp6p15 {
    pub const fn i_min() -> u8 {
        0
    }

    pub const fn i_max() -> u8 {
        255
    }
}

#[asn(sequence)]

#[derive(Default, Debug, Clone, PartialEq, Hash)]
pub struct Tsp7p0 {
    #[asn(optional(complex(Tapp9, tag(APPLICATION(9)))))] pub ra: Option<Tapp9>,
    #[asn(integer(0..7), tag(UNIVERSAL(30)))] pub x: u8,
}

impl Tsp7p0 {
    pub const fn x_min() -> u8 {
        0
    }

    pub const fn x_max() -> u8 {
        7
    }
}

#[asn(sequence)]

#[derive(Default, Debug, Clone, PartialEq, Hash)]
pub struct Tsp7p1 {
    #[asn(optional(complex(Tapp9, tag(APPLICATION(9)))))] pub ra: Option<Tapp9>,
    #[asn(optional(integer(0..15)), tag(APPLICATION(1)))] pub a: Option<u8>,
}

impl Tsp7p1 {
    pub const fn a_min() -> u8 {
        0
    }

    pub const fn a_max() -> u8 {
        15
    }
}

#[asn(sequence)]

#[derive(Default, Debug, Clone, PartialEq, Hash)]
pub struct Tsp7p2 {
    #[asn(optional(complex(Tapp9, tag(APPLICATION(9)))))] pub ra: Option<Tapp9>,
    #[asn(integer(0..31), tag(3))] pub c3: u8,
}

impl Tsp7p2 {
    pub const fn c3_min() -> u8 {
        0
    }

    pub const fn c3_max() -> u8 {
        31
    }
}

#[asn(sequence)]

#[derive(Default, Debug, Clone, PartialEq, Hash)]
pub struct Tsp7p3 {
    #[asn(optional(complex(Tapp9, tag(APPLICATION(9)))))] pub ra: Option<Tapp9>,
    #[asn(optional(integer(0..63)), tag(0))] pub c0: Option<u8>,
}

impl Tsp7p3 {
    pub const fn c0_min() -> u8 {
        0
    }

    pub const fn c0_max() -> u8 {
        63
    }
}

#[asn(sequence)]

#[derive(Default, Debug, Clone, PartialEq, Hash)]
pub struct Tsp7p4 {
    #[asn(optional(complex(Tapp9, tag(APPLICATION(9)))))] pub ra: Option<Tapp9>,
    #[asn(integer(0..127), tag(PRIVATE(2)))] pub p: u8,
}

impl Tsp7p4 {
    pub const fn p_min() -> u8 {
        0
    }

    pub const fn p_max() -> u8 {
        127
    }
}

#[asn(sequence)]

#[derive(Default, Debug, Clone, PartialEq, Hash)]
pub struct Tsp7p5 {
    #[asn(optional(complex(Tapp9, tag(APPLICATION(9)))))] pub ra: Option<Tapp9>,
    #[asn(optional(boolean))] pub b: Option<bool>,
}

impl Tsp7p5 {
}

#[asn(sequence)]

#[derive(Default, Debug, Clone, PartialEq, Hash)]
pub struct Tsp7p6 {
    #[asn(optional(complex(Tapp9, tag(APPLICATION(9)))))] pub ra: Option<Tapp9>,
    #[asn(integer(0..255))] pub i: u8,
}

impl Tsp7p6 {
    pub const fn i_min() -> u8 {
        0
    }

    pub const fn i_max() -> u8 {
        255
    }
}

#[asn(sequence)]

#[derive(Default, Debug, Clone, PartialEq, Hash)]
pub struct Tsp7p8 {
    #[asn(optional(complex(Tapp9, tag(APPLICATION(9)))))] pub ra: Option<Tapp9>,
    #[asn(complex(Tsq, tag(UNIVERSAL(16))))] pub rs: Tsq,
}

impl Tsp7p8 {
}

#[asn(sequence)]

#[derive(Default, Debug, Clone, PartialEq, Hash)]
pub struct Tsp7p9 {
    #[asn(optional(complex(Tapp9, tag(APPLICATION(9)))))] pub ra: Option<Tapp9>,
    #[asn(optional(complex(Tcho, tag(1))))] pub rc: Option<Tcho>,
}

impl Tsp7p9 {
}

#[asn(sequence)]

#[derive(Default, Debug, Clone, PartialEq, Hash)]
pub struct Tsp7p10 {
    #[asn(optional(complex(Tapp9, tag(APPLICATION(9)))))] pub ra: Option<Tapp9>,
    #[asn(complex(Tst, tag(UNIVERSAL(17))))] pub rt: Tst,
}

impl Tsp7p10 {
}

#[asn(sequence)]

#[derive(Default, Debug, Clone, PartialEq, Hash)]
pub struct Tsp7p11 {
    #[asn(optional(complex(Tapp9, tag(APPLICATION(9)))))] pub ra: Option<Tapp9>,
    #[asn(optional(sequence_of(size(0..3), boolean)))] pub so: Option<Vec<bool>>,
}

impl Tsp7p11 {
}

#[asn(sequence)]

#[derive(Default, Debug, Clone, PartialEq, Hash)]
pub struct Tsp7p12 {
    #[asn(optional(complex(Tapp9, tag(APPLICATION(9)))))] pub ra: Option<Tapp9>,
    #[asn(set_of(size(0..2), boolean))] pub st: Vec<bool>,
}

impl Tsp7p12 {
}

#[asn(sequence)]

#[derive(Default, Debug, Clone, PartialEq, Hash)]
pub struct Tsp7p13 {
    #[asn(optional(complex(Tapp9, tag(APPLICATION(9)))))] pub ra: Option<Tapp9>,
    #[asn(optional(complex(Tchox, tag(PRIVATE(1)))))] pub rx: Option<Tchox>,
}

impl Tsp7p13 {
}

#[asn(sequence)]

#[derive(Default, Debug, Clone, PartialEq, Hash)]
pub struct Tsp7p14 {
    #[asn(optional(complex(Tapp9, tag(APPLICATION(9)))))] pub ra: Option<Tapp9>,
    #[asn(integer(0..1), tag(UNIVERSAL(2)))] pub u2: u8,
}

impl Tsp7p14 {
    pub const fn u2_min() -> u8 {
        0
    }

    pub const fn u2_max() -> u8 {
        1
    }
}

#[asn(sequence, tag(APPLICATION(5)))]

#[derive(Default, Debug, Clone, PartialEq, Hash)]
pub struct Tsp7p15Is {
    #[asn(integer(0..3))] pub v: u8,
}

impl Tsp7p15Is {
    pub const fn v_min() -> u8 {
        0
    }

    pub const fn v_max() -> u8 {
        3
    }
}

#[asn(sequence)]

#[derive(Default, Debug, Clone, PartialEq, Hash)]
pub struct Tsp7p15 {
    #[asn(optional(complex(Tapp9, tag(APPLICATION(9)))))] pub ra: Option<Tapp9>,
    #[asn(optional(complex(Tsp7p15Is, tag(APPLICATION(5)))), tag(APPLICATION(5)))] pub is: Option<Tsp7p15Is>,
}

impl Tsp7p15 {
}

#[asn(sequence)]

#[derive(Default, Debug, Clone, PartialEq, Hash)]
pub struct Tsp8p0 {
    #[asn(complex(Tsq, tag(UNIVERSAL(16))))] pub rs: Tsq,
    #[asn(integer(0..7), tag(UNIVERSAL(30)))] pub x: u8,
}

impl Tsp8p0 {
    pub const fn x_min() -> u8 {
        0
    }

    pub const fn x_max() -> u8 {
        7
    }
}

#[asn(sequence)]

#[derive(Default, Debug, Clone, PartialEq, Hash)]
pub struct Tsp8p1 {
    #[asn(complex(Tsq, tag(UNIVERSAL(16))))] pub rs: Tsq,
    #[asn(optional(integer(0..15)), tag(APPLICATION(1)))] pub a: Option<u8>,
}

impl Tsp8p1 {
    pub const fn a_min() -> u8 {
        0
    }

    pub const fn a_max() -> u8 {
        15
    }
}

#[asn(sequence)]

#[derive(Default, Debug, Clone, PartialEq, Hash)]
pub struct Tsp8p2 {
    #[asn(complex(Tsq, tag(UNIVERSAL(16))))] pub rs: Tsq,
    #[asn(integer(0..31), tag(3))] pub c3: u8,
}

impl Tsp8p2 {
    pub const fn c3_min() -> u8 {
        0
    }

    pub const fn c3_max() -> u8 {
        31
    }
}

#[asn(sequence)]

#[derive(Default, Debug, Clone, PartialEq, Hash)]
pub struct Tsp8p3 {
    #[asn(complex(Tsq, tag(UNIVERSAL(16))))] pub rs: Tsq,
    #[asn(optional(integer(0..63)), tag(0))] pub c0: Option<u8>,
}

impl Tsp8p3 {
    pub const fn c0_min() -> u8 {
        0
    }

    pub const fn c0_max() -> u8 {
        63
    }
}

#[asn(sequence)]

#[derive(Default, Debug, Clone, PartialEq, Hash)]
pub struct Tsp8p4 {
    #[asn(complex(Tsq, tag(UNIVERSAL(16))))] pub rs: Tsq,
    #[asn(integer(0..127), tag(PRIVATE(2)))] pub p: u8,
}

impl Tsp8p4 {
    pub const fn p_min() -> u8 {
        0
    }

    pub const fn p_max() -> u8 {
        127
    }
}

#[asn(sequence)]

#[derive(Default, Debug, Clone, PartialEq, Hash)]
pub struct Tsp8p5 {
    #[asn(complex(Tsq, tag(UNIVERSAL(16))))] pub rs: Tsq,
    #[asn(optional(boolean))] pub b: Option<bool>,
}

impl Tsp8p5 {
}

#[asn(sequence)]

#[derive(Default, Debug, Clone, PartialEq, Hash)]
pub struct Tsp8p6 {
    #[asn(complex(Tsq, tag(UNIVERSAL(16))))] pub rs: Tsq,
    #[asn(integer(0..255))] pub i: u8,
}

impl Tsp8p6 {
    pub const fn i_min() -> u8 {
        0
    }

    pub const fn i_max() -> u8 {
        255
    }
}

#[asn(sequence)]

#[derive(Default, Debug, Clone, PartialEq, Hash)]
pub struct Tsp8p7 {
    #[asn(complex(Tsq, tag(UNIVERSAL(16))))] pub rs: Tsq,
    #[asn(optional(complex(Tapp9, tag(APPLICATION(9)))))] pub ra: Option<Tapp9>,
}

impl Tsp8p7 {
}

#[asn(sequence)]

#[derive(Default, Debug, Clone, PartialEq, Hash)]
pub struct Tsp8p9 {
    #[asn(complex(Tsq, tag(UNIVERSAL(16))))] pub rs: Tsq,
    #[asn(optional(complex(Tcho, tag(1))))] pub rc: Option<Tcho>,
}

impl Tsp8p9 {
}

#[asn(sequence)]

#[derive(Default, Debug, Clone, PartialEq, Hash)]
pub struct Tsp8p10 {
    #[asn(complex(Tsq, tag(UNIVERSAL(16))))] pub rs: Tsq,
    #[asn(complex(Tst, tag(UNIVERSAL(17))))] pub rt: Tst,
}

impl Tsp8p10 {
}

#[asn(sequence)]

#[derive(Default, Debug, Clone, PartialEq, Hash)]
pub struct Tsp8p11 {
    #[asn(complex(Tsq, tag(UNIVERSAL(16))))] pub rs: Tsq,
    #[asn(optional(sequence_of(size(0..3), boolean)))] pub so: Option<Vec<bool>>,
}

impl Tsp8p11 {
}

#[asn(sequence)]

#[derive(Default, Debug, Clone, PartialEq, Hash)]
pub struct Tsp8p12 {
    #[asn(complex(Tsq, tag(UNIVERSAL(16))))] pub rs: Tsq,
    #[asn(set_of(size(0..2), boolean))] pub st: Vec<bool>,
}

impl Tsp8p12 {
}

#[asn(sequence)]

#[derive(Default, Debug, Clone, PartialEq, Hash)]
pub struct Tsp8p13 {
    #[asn(complex(Tsq, tag(UNIVERSAL(16))))] pub rs: Tsq,
    #[asn(optional(complex(Tchox, tag(PRIVATE(1)))))] pub rx: Option<Tchox>,
}

impl Tsp8p13 {
}

#[asn(sequence)]

#[derive(Default, Debug, Clone, PartialEq, Hash)]
pub struct Tsp8p14 {
    #[asn(complex(Tsq, tag(UNIVERSAL(16))))] pub rs: Tsq,
    #[asn(integer(0..1), tag(UNIVERSAL(2)))] pub u2: u8,
}

impl Tsp8p14 {
    pub const fn u2_min() -> u8 {
        0
    }

    pub const fn u2_max() -> u8 {
        1
    }
}

#[asn(sequence, tag(APPLICATION(5)))]

#[derive(Default, Debug, Clone, PartialEq, Hash)]
pub struct Tsp8p15Is {
    #[asn(integer(0..3))] pub v: u8,
}

impl Tsp8p15Is {
    pub const fn v_min() -> u8 {
        0
    }

    pub const fn v_max() -> u8 {
        3
    }
}

#[asn(sequence)]

#[derive(Default, Debug, Clone, PartialEq, Hash)]
pub struct Tsp8p15 {
    #[asn(complex(Tsq, tag(UNIVERSAL(16))))] pub rs: Tsq,
    #[asn(optional(complex(Tsp8p15Is, tag(APPLICATION(5)))), tag(APPLICATION(5)))] pub is: Option<Tsp8p15Is>,
}

impl Tsp8p15 {
}

#[asn(sequence)]

#[derive(Default, Debug, Clone, PartialEq, Hash)]
pub struct Tsp9p0 {
    #[asn(optional(complex(Tcho, tag(1))))] pub rc: Option<Tcho>,
    #[asn(integer(0..7), tag(UNIVERSAL(30)))] pub x: u8,
}

impl Tsp9p0 {
    pub const fn x_min() -> u8 {
        0
    }

    pub const fn x_max() -> u8 {
        7
    }
}

#[asn(sequence)]

#[derive(Default, Debug, Clone, PartialEq, Hash)]
pub struct Tsp9p1 {
    #[asn(optional(complex(Tcho, tag(1))))] pub rc: Option<Tcho>,
    #[asn(optional(integer(0..15)), tag(APPLICATION(1)))] pub a: Option<u8>,
}

impl Tsp9p1 {
    pub const fn a_min() -> u8 {
        0
    }

    pub const fn a_max() -> u8 {
        15
    }
}

#[asn(sequence)]

#[derive(Default, Debug, Clone, PartialEq, Hash)]
pub struct Tsp9p2 {
    #[asn(optional(complex(Tcho, tag(1))))] pub rc: Option<Tcho>,
    #[asn(integer(0..31), tag(3))] pub c3: u8,
}

impl Tsp9p2 {
    pub const fn c3_min() -> u8 {
        0
    }

    pub const fn c3_max() -> u8 {
        31
    }
}

#[asn(sequence)]

#[derive(Default, Debug, Clone, PartialEq, Hash)]
pub struct Tsp9p3 {
    #[asn(optional(complex(Tcho, tag(1))))] pub rc: Option<Tcho>,
    #[asn(optional(integer(0..63)), tag(0))] pub c0: Option<u8>,
}

impl Tsp9p3 {
    pub const fn c0_min() -> u8 {
        0
    }

    pub const fn c0_max() -> u8 {
        63
    }
}

#[asn(sequence)]

#[derive(Default, Debug, Clone, PartialEq, Hash)]
pub struct Tsp9p4 {
    #[asn(optional(complex(Tcho, tag(1))))] pub rc: Option<Tcho>,
    #[asn(integer(0..127), tag(PRIVATE(2)))] pub p: u8,
}

impl Tsp9p4 {
    pub const fn p_min() -> u8 {
        0
    }

    pub const fn p_max() -> u8 {
        127
    }
}

#[asn(sequence)]

#[derive(Default, Debug, Clone, PartialEq, Hash)]
pub struct Tsp9p5 {
    #[asn(optional(complex(Tcho, tag(1))))] pub rc: Option<Tcho>,
    #[asn(optional(boolean))] pub b: Option<bool>,
}

impl Tsp9p5 {
}

#[asn(sequence)]

#[derive(Default, Debug, Clone, PartialEq, Hash)]
pub struct Tsp9p6 {
    #[asn(optional(complex(Tcho, tag(1))))] pub rc: Option<Tcho>,
    #[asn(integer(0..255))] pub i: u8,
}

impl Tsp9p6 {
    pub const fn i_min() -> u8 {
        0
    }

    pub const fn i_max() -> u8 {
        255
    }
}

#[asn(sequence)]

#[derive(Default, Debug, Clone, PartialEq, Hash)]
pub struct Tsp9p7 {
    #[asn(optional(complex(Tcho, tag(1))))] pub rc: Option<Tcho>,
    #[asn(optional(complex(Tapp9, tag(APPLICATION(9)))))] pub ra: Option<Tapp9>,
}

impl Tsp9p7 {
}

#[asn(sequence)]

#[derive(Default, Debug, Clone, PartialEq, Hash)]
pub struct Tsp9p8 {
    #[asn(optional(complex(Tcho, tag(1))))] pub rc: Option<Tcho>,
    #[asn(complex(Tsq, tag(UNIVERSAL(16))))] pub rs: Tsq,
}

impl Tsp9p8 {
}

#[asn(sequence)]

#[derive(Default, Debug, Clone, PartialEq, Hash)]
pub struct Tsp9p10 {
    #[asn(optional(complex(Tcho, tag(1))))] pub rc: Option<Tcho>,
    #[asn(complex(Tst, tag(UNIVERSAL(17))))] pub rt: Tst,
}

impl Tsp9p10 {
}

#[asn(sequence)]

#[derive(Default, Debug, Clone, PartialEq, Hash)]
pub struct Tsp9p11 {
    #[asn(optional(complex(Tcho, tag(1))))] pub rc: Option<Tcho>,
    #[asn(optional(sequence_of(size(0..3), boolean)))] pub so: Option<Vec<bool>>,
}

impl Tsp9p11 {
}

#[asn(sequence)]

#[derive(Default, Debug, Clone, PartialEq, Hash)]
pub struct Tsp9p12 {
    #[asn(optional(complex(Tcho, tag(1))))] pub rc: Option<Tcho>,
    #[asn(set_of(size(0..2), boolean))] pub st: Vec<bool>,
}

impl Tsp9p12 {
}

#[asn(sequence)]

#[derive(Default, Debug, Clone, PartialEq, Hash)]
pub struct Tsp9p13 {
    #[asn(optional(complex(Tcho, tag(1))))] pub rc: Option<Tcho>,
    #[asn(optional(complex(Tchox, tag(PRIVATE(1)))))] pub rx: Option<Tchox>,
}

impl Tsp9p13 {
}

#[asn(sequence)]

#[derive(Default, Debug, Clone, PartialEq, Hash)]
pub struct Tsp9p14 {
    #[asn(optional(complex(Tcho, tag(1))))] pub rc: Option<Tcho>,
    #[asn(integer(0..1), tag(UNIVERSAL(2)))] pub u2: u8,
}

impl Tsp9p14 {
    pub const fn u2_min() -> u8 {
        0
    }

    pub const fn u2_max() -> u8 {
        1
    }
}

#[asn(sequence, tag(APPLICATION(5)))]

#[derive(Default, Debug, Clone, PartialEq, Hash)]
pub struct Tsp9p15Is {
    #[asn(integer(0..3))] pub v: u8,
}

impl Tsp9p15Is {
    pub const fn v_min() -> u8 {
        0
    }

    pub const fn v_max() -> u8 {
        3
    }
}

#[asn(sequence)]

#[derive(Default, Debug, Clone, PartialEq, Hash)]
pub struct Tsp9p15 {
    #[asn(optional(complex(Tcho, tag(1))))] pub rc: Option<Tcho>,
    #[asn(optional(complex(Tsp9p15Is, tag(APPLICATION(5)))), tag(APPLICATION(5)))] pub is: Option<Tsp9p15Is>,
}

impl Tsp9p15 {
}

#[asn(sequence)]

#[derive(Default, Debug, Clone, PartialEq, Hash)]
pub struct Tsp10p0 {
    #[asn(complex(Tst, tag(UNIVERSAL(17))))] pub rt: Tst,
    #[asn(integer(0..7), tag(UNIVERSAL(30)))] pub x: u8,
}

impl Tsp10p0 {
    pub const fn x_min() -> u8 {
        0
    }

    pub const fn x_max() -> u8 {
        7
    }
}

#[asn(sequence)]

#[derive(Default, Debug, Clone, PartialEq, Hash)]
pub struct Tsp10p1 {
    #[asn(complex(Tst, tag(UNIVERSAL(17))))] pub rt: Tst,
    #[asn(optional(integer(0..15)), tag(APPLICATION(1)))] pub a: Option<u8>,
}

impl Tsp10p1 {
    pub const fn a_min() -> u8 {
        0
    }

    pub const fn a_max() -> u8 {
        15
    }
}

#[asn(sequence)]

#[derive(Default, Debug, Clone, PartialEq, Hash)]
pub struct Tsp10p2 {
    #[asn(complex(Tst, tag(UNIVERSAL(17))))] pub rt: Tst,
    #[asn(integer(0..31), tag(3))] pub c3: u8,
}

impl Tsp10p2 {
    pub const fn c3_min() -> u8 {
        0
    }

    pub const fn c3_max() -> u8 {
        31
    }
}

#[asn(sequence)]

#[derive(Default, Debug, Clone, PartialEq, Hash)]
pub struct Tsp10p3 {
    #[asn(complex(Tst, tag(UNIVERSAL(17))))] pub rt: Tst,
    #[asn(optional(integer(0..63)), tag(0))] pub c0: Option<u8>,
}

impl Tsp10p3 {
    pub const fn c0_min() -> u8 {
        0
    }

    pub const fn c0_max() -> u8 {
        63
    }
}

#[asn(sequence)]

#[derive(Default, Debug, Clone, PartialEq, Hash)]
pub struct Tsp10p4 {
    #[asn(complex(Tst, tag(UNIVERSAL(17))))] pub rt: Tst,
    #[asn(integer(0..127), tag(PRIVATE(2)))] pub p: u8,
}

impl Tsp10p4 {
    pub const fn p_min() -> u8 {
        0
    }

    pub const fn p_max() -> u8 {
        127
    }
}

#[asn(sequence)]

#[derive(Default, Debug, Clone, PartialEq, Hash)]
pub struct Tsp10p5 {
    #[asn(complex(Tst, tag(UNIVERSAL(17))))] pub rt: Tst,
    #[asn(optional(boolean))] pub b: Option<bool>,
}

impl Tsp10p5 {
}

#[asn(sequence)]

#[derive(Default, Debug, Clone, PartialEq, Hash)]
pub struct Tsp10p6 {
    #[asn(complex(Tst, tag(UNIVERSAL(17))))] pub rt: Tst,
    #[asn(integer(0..255))] pub i: u8,
}

impl Tsp10p6 {
    pub const fn i_min() -> u8 {
        0
    }

    pub const fn i_max() -> u8 {
        255
    }
}

#[asn(sequence)]

#[derive(Default, Debug, Clone, PartialEq, Hash)]
pub struct Tsp10p7 {
    #[asn(complex(Tst, tag(UNIVERSAL(17))))] pub rt: Tst,
    #[asn(optional(complex(Tapp9, tag(APPLICATION(9)))))] pub ra: Option<Tapp9>,
}

impl Tsp10p7 {
}

#[asn(sequence)]

#[derive(Default, Debug, Clone, PartialEq, Hash)]
pub struct Tsp10p8 {
    #[asn(complex(Tst, tag(UNIVERSAL(17))))] pub rt: Tst,
    #[asn(complex(Tsq, tag(UNIVERSAL(16))))] pub rs: Tsq,
}

impl Tsp10p8 {
}

#[asn(sequence)]

#[derive(Default, Debug, Clone, PartialEq, Hash)]
pub struct Tsp10p9 {
    #[asn(complex(Tst, tag(UNIVERSAL(17))))] pub rt: Tst,
    #[asn(optional(complex(Tcho, tag(1))))] pub rc: Option<Tcho>,
}

impl Tsp10p9 {
}

#[asn(sequence)]

#[derive(Default, Debug, Clone, PartialEq, Hash)]
pub struct Tsp10p11 {
    #[asn(complex(Tst, tag(UNIVERSAL(17))))] pub rt: Tst,
    #[asn(optional(sequence_of(size(0..3), boolean)))] pub so: Option<Vec<bool>>,
}

impl Tsp10p11 {
}

#[asn(sequence)]

#[derive(Default, Debug, Clone, PartialEq, Hash)]
pub struct Tsp10p12 {
    #[asn(complex(Tst, tag(UNIVERSAL(17))))] pub rt: Tst,
    #[asn(set_of(size(0..2), boolean))] pub st: Vec<bool>,
}

impl Tsp10p12 {
}

#[asn(sequence)]

#[derive(Default, Debug, Clone, PartialEq, Hash)]
pub struct Tsp10p13 {
    #[asn(complex(Tst, tag(UNIVERSAL(17))))] pub rt: Tst,
    #[asn(optional(complex(Tchox, tag(PRIVATE(1)))))] pub rx: Option<Tchox>,
}

impl Tsp10p13 {
}

#[asn(sequence)]

#[derive(Default, Debug, Clone, PartialEq, Hash)]
pub struct Tsp10p14 {
    #[asn(complex(Tst, tag(UNIVERSAL(17))))] pub rt: Tst,
    #[asn(integer(0..1), tag(UNIVERSAL(2)))] pub u2: u8,
}

impl Tsp10p14 {
    pub const fn u2_min() -> u8 {
        0
    }

    pub const fn u2_max() -> u8 {
        1
    }
}

#[asn(sequence, tag(APPLICATION(5)))]

#[derive(Default, Debug, Clone, PartialEq, Hash)]
pub struct Tsp10p15Is {
    #[asn(integer(0..3))] pub v: u8,
}

impl Tsp10p15Is {
    pub const fn v_min() -> u8 {
        0
    }

    pub const fn v_max() -> u8 {
        3
    }
}

#[asn(sequence)]

#[derive(Default, Debug, Clone, PartialEq, Hash)]
pub struct Tsp10p15 {
    #[asn(complex(Tst, tag(UNIVERSAL(17))))] pub rt: Tst,
    #[asn(optional(complex(Tsp10p15Is, tag(APPLICATION(5)))), tag(APPLICATION(5)))] pub is: Option<Tsp10p15Is>,
}

impl Tsp10p15 {
}

#[asn(sequence)]

#[derive(Default, Debug, Clone, PartialEq, Hash)]
pub struct Tsp11p0 {
    #[asn(optional(sequence_of(size(0..3), boolean)))] pub so: Option<Vec<bool>>,
    #[asn(integer(0..7), tag(UNIVERSAL(30)))] pub x: u8,
}

impl Tsp11p0 {
    pub const fn x_min() -> u8 {
        0
    }

    pub const fn x_max() -> u8 {
        7
    }
}

#[asn(sequence)]

#[derive(Default, Debug, Clone, PartialEq, Hash)]
pub struct Tsp11p1 {
    #[asn(optional(sequence_of(size(0..3), boolean)))] pub so: Option<Vec<bool>>,
    #[asn(optional(integer(0..15)), tag(APPLICATION(1)))] pub a: Option<u8>,
}

impl Tsp11p1 {
    pub const fn a_min() -> u8 {
        0
    }

    pub const fn a_max() -> u8 {
        15
    }
}

#[asn(sequence)]

#[derive(Default, Debug, Clone, PartialEq, Hash)]
pub struct Tsp11p2 {
    #[asn(optional(sequence_of(size(0..3), boolean)))] pub so: Option<Vec<bool>>,
    #[asn(integer(0..31), tag(3))] pub c3: u8,
}

impl Tsp11p2 {
    pub const fn c3_min() -> u8 {
        0
    }

    pub const fn c3_max() -> u8 {
        31
    }
}

#[asn(sequence)]

#[derive(Default, Debug, Clone, PartialEq, Hash)]
pub struct Tsp11p3 {
    #[asn(optional(sequence_of(size(0..3), boolean)))] pub so: Option<Vec<bool>>,
    #[asn(optional(integer(0..63)), tag(0))] pub c0: Option<u8>,
}

impl Tsp11p3 {
    pub const fn c0_min() -> u8 {
        0
    }

    pub const fn c0_max() -> u8 {
        63
    }
}

#[asn(sequence)]

#[derive(Default, Debug, Clone, PartialEq, Hash)]
pub struct Tsp11p4 {
    #[asn(optional(sequence_of(size(0..3), boolean)))] pub so: Option<Vec<bool>>,
    #[asn(integer(0..127), tag(PRIVATE(2)))] pub p: u8,
}

impl Tsp11p4 {
    pub const fn p_min() -> u8 {
        0
    }

    pub const fn p_max() -> u8 {
        127
    }
}

#[asn(sequence)]

#[derive(Default, Debug, Clone, PartialEq, Hash)]
pub struct Tsp11p5 {
    #[asn(optional(sequence_of(size(0..3), boolean)))] pub so: Option<Vec<bool>>,
    #[asn(optional(boolean))] pub b: Option<bool>,
}

impl Tsp11p5 {
}

#[asn(sequence)]

#[derive(Default, Debug, Clone, PartialEq, Hash)]
pub struct Tsp11p6 {
    #[asn(optional(sequence_of(size(0..3), boolean)))] pub so: Option<Vec<bool>>,
    #[asn(integer(0..255))] pub i: u8,
}

impl Tsp11p6 {
    pub const fn i_min() -> u8 {
        0
    }

    pub const fn i_max() -> u8 {
        255
    }
}

#[asn(sequence)]

#[derive(Default, Debug, Clone, PartialEq, Hash)]
pub struct Tsp11p7 {
    #[asn(optional(sequence_of(size(0..3), boolean)))] pub so: Option<Vec<bool>>,
    #[asn(optional(complex(Tapp9, tag(APPLICATION(9)))))] pub ra: Option<Tapp9>,
}

impl Tsp11p7 {
}

#[asn(sequence)]

#[derive(Default, Debug, Clone, PartialEq, Hash)]
pub struct Tsp11p8 {
    #[asn(optional(sequence_of(size(0..3), boolean)))] pub so: Option<Vec<bool>>,
    #[asn(complex(Tsq, tag(UNIVERSAL(16))))] pub rs: Tsq,
}

impl Tsp11p8 {
}

#[asn(sequence)]

#[derive(Default, Debug, Clone, PartialEq, Hash)]
pub struct Tsp11p9 {
    #[asn(optional(sequence_of(size(0..3), boolean)))] pub so: Option<Vec<bool>>,
    #[asn(optional(complex(Tcho, tag(1))))] pub rc: Option<Tcho>,
}

impl Tsp11p9 {
}

#[asn(sequence)]

#[derive(Default, Debug, Clone, PartialEq, Hash)]
pub struct Tsp11p10 {
    #[asn(optional(sequence_of(size(0..3), boolean)))] pub so: Option<Vec<bool>>,
    #[asn(complex(Tst, tag(UNIVERSAL(17))))] pub rt: Tst,
}

impl Tsp11p10 {
}

#[asn(sequence)]

#[derive(Default, Debug, Clone, PartialEq, Hash)]
pub struct Tsp11p12 {
    #[asn(optional(sequence_of(size(0..3), boolean)))] pub so: Option<Vec<bool>>,
    #[asn(set_of(size(0..2), boolean))] pub st: Vec<bool>,
}

impl Tsp11p12 {
}

#[asn(sequence)]

#[derive(Default, Debug, Clone, PartialEq, Hash)]
pub struct Tsp11p13 {
    #[asn(optional(sequence_of(size(0..3), boolean)))] pub so: Option<Vec<bool>>,
    #[asn(optional(complex(Tchox, tag(PRIVATE(1)))))] pub rx: Option<Tchox>,
}

impl Tsp11p13 {
}

#[asn(sequence)]

#[derive(Default, Debug, Clone, PartialEq, Hash)]
pub struct Tsp11p14 {
    #[asn(optional(sequence_of(size(0..3), boolean)))] pub so: Option<Vec<bool>>,
    #[asn(integer(0..1), tag(UNIVERSAL(2)))] pub u2: u8,
}

impl Tsp11p14 {
    pub const fn u2_min() -> u8 {
        0
    }

    pub const fn u2_max() -> u8 {
        1
    }
}

#[asn(sequence, tag(APPLICATION(5)))]

#[derive(Default, Debug, Clone, PartialEq, Hash)]
pub struct Tsp11p15Is {
    #[asn(integer(0..3))] pub v: u8,
}

impl Tsp11p15Is {
    pub const fn v_min() -> u8 {
        0
    }

    pub const fn v_max() -> u8 {
        3
    }
}

#[asn(sequence)]

#[derive(Default, Debug, Clone, PartialEq, Hash)]
pub struct Tsp11p15 {
    #[asn(optional(sequence_of(size(0..3), boolean)))] pub so: Option<Vec<bool>>,
    #[asn(optional(complex(Tsp11p15Is, tag(APPLICATION(5)))), tag(APPLICATION(5)))] pub is: Option<Tsp11p15Is>,
}

impl Tsp11p15 {
}

#[asn(sequence)]

#[derive(Default, Debug, Clone, PartialEq, Hash)]
pub struct Tsp12p0 {
    #[asn(set_of(size(0..2), boolean))] pub st: Vec<bool>,
    #[asn(integer(0..7), tag(UNIVERSAL(30)))] pub x: u8,
}

impl Tsp12p0 {
    pub const fn x_min() -> u8 {
        0
    }

    pub const fn x_max() -> u8 {
        7
    }
}

#[asn(sequence)]

#[derive(Default, Debug, Clone, PartialEq, Hash)]
pub struct Tsp12p1 {
    #[asn(set_of(size(0..2), boolean))] pub st: Vec<bool>,
    #[asn(optional(integer(0..15)), tag(APPLICATION(1)))] pub a: Option<u8>,
}

impl Tsp12p1 {
    pub const fn a_min() -> u8 {
        0
    }

    pub const fn a_max() -> u8 {
        15
    }
}

#[asn(sequence)]

#[derive(Default, Debug, Clone, PartialEq, Hash)]
pub struct Tsp12p2 {
    #[asn(set_of(size(0..2), boolean))] pub st: Vec<bool>,
    #[asn(integer(0..31), tag(3))] pub c3: u8,
}

impl Tsp12p2 {
    pub const fn c3_min() -> u8 {
        0
    }

    pub const fn c3_max() -> u8 {
        31
    }
}

#[asn(sequence)]

#[derive(Default, Debug, Clone, PartialEq, Hash)]
pub struct Tsp12p3 {
    #[asn(set_of(size(0..2), boolean))] pub st: Vec<bool>,
    #[asn(optional(integer(0..63)), tag(0))] pub c0: Option<u8>,
}

impl Tsp12p3 {
    pub const fn c0_min() -> u8 {
        0
    }

    pub const fn c0_max() -> u8 {
        63
    }
}

#[asn(sequence)]

#[derive(Default, Debug, Clone, PartialEq, Hash)]
pub struct Tsp12p4 {
    #[asn(set_of(size(0..2), boolean))] pub st: Vec<bool>,
    #[asn(integer(0..127), tag(PRIVATE(2)))] pub p: u8,
}

impl Tsp12p4 {
    pub const fn p_min() -> u8 {
        0
    }

    pub const fn p_max() -> u8 {
        127
    }
}

#[asn(sequence)]

#[derive(Default, Debug, Clone, PartialEq, Hash)]
pub struct Tsp12p5 {
    #[asn(set_of(size(0..2), boolean))] pub st: Vec<bool>,
    #[asn(optional(boolean))] pub b: Option<bool>,
}

impl Tsp12p5 {
}

#[asn(sequence)]

#[derive(Default, Debug, Clone, PartialEq, Hash)]
pub struct Tsp12p6 {
    #[asn(set_of(size(0..2), boolean))] pub st: Vec<bool>,
    #[asn(integer(0..255))] pub i: u8,
}

impl Tsp12p6 {
    pub const fn i_min() -> u8 {
        0
    }

    pub const fn i_max() -> u8 {
        255
    }
}

#[asn(sequence)]

#[derive(Default, Debug, Clone, PartialEq, Hash)]
pub struct Tsp12p7 {
    #[asn(set_of(size(0..2), boolean))] pub st: Vec<bool>,
    #[asn(optional(complex(Tapp9, tag(APPLICATION(9)))))] pub ra: Option<Tapp9>,
}

impl Tsp12p7 {
}

#[asn(sequence)]

#[derive(Default, Debug, Clone, PartialEq, Hash)]
pub struct Tsp12p8 {
    #[asn(set_of(size(0..2), boolean))] pub st: Vec<bool>,
    #[asn(complex(Tsq, tag(UNIVERSAL(16))))] pub rs: Tsq,
}

impl Tsp12p8 {
}

#[asn(sequence)]

#[derive(Default, Debug, Clone, PartialEq, Hash)]
pub struct Tsp12p9 {
    #[asn(set_of(size(0..2), boolean))] pub st: Vec<bool>,
    #[asn(optional(complex(Tcho, tag(1))))] pub rc: Option<Tcho>,
}

impl Tsp12p9 {
}

#[asn(sequence)]

#[derive(Default, Debug, Clone, PartialEq, Hash)]
pub struct Tsp12p10 {
    #[asn(set_of(size(0..2), boolean))] pub st: Vec<bool>,
    #[asn(complex(Tst, tag(UNIVERSAL(17))))] pub rt: Tst,
}

impl Tsp12p10 {
}

#[asn(sequence)]

#[derive(Default, Debug, Clone, PartialEq, Hash)]
pub struct Tsp12p11 {
    #[asn(set_of(size(0..2), boolean))] pub st: Vec<bool>,
    #[asn(optional(sequence_of(size(0..3), boolean)))] pub so: Option<Vec<bool>>,
}

impl Tsp12p11 {
}

#[asn(sequence)]

#[derive(Default, Debug, Clone, PartialEq, Hash)]
pub struct Tsp12p13 {
    #[asn(set_of(size(0..2), boolean))] pub st: Vec<bool>,
    #[asn(optional(complex(Tchox, tag(PRIVATE(1)))))] pub rx: Option<Tchox>,
}

impl Tsp12p13 {
}

#[asn(sequence)]

#[derive(Default, Debug, Clone, PartialEq, Hash)]
pub struct Tsp12p14 {
    #[asn(set_of(size(0..2), boolean))] pub st: Vec<bool>,
    #[asn(integer(0..1), tag(UNIVERSAL(2)))] pub u2: u8,
}

impl Tsp12p14 {
    pub const fn u2_min() -> u8 {
        0
    }

    pub const fn u2_max() -> u8 {
        1
    }
}

#[asn(sequence, tag(APPLICATION(5)))]

#[derive(Default, Debug, Clone, PartialEq, Hash)]
pub struct Tsp12p15Is {
    #[asn(integer(0..3))] pub v: u8,
}

impl Tsp12p15Is {
    pub const fn v_min() -> u8 {
        0
    }

    pub const fn v_max() -> u8 {
        3
    }
}

#[asn(sequence)]

#[derive(Default, Debug, Clone, PartialEq, Hash)]
pub struct Tsp12p15 {
    #[asn(set_of(size(0..2), boolean))] pub st: Vec<bool>,
    #[asn(optional(complex(Tsp12p15Is, tag(APPLICATION(5)))), tag(APPLICATION(5)))] pub is: Option<Tsp12p15Is>,
}

impl Tsp12p15 {
}

#[asn(sequence)]

#[derive(Default, Debug, Clone, PartialEq, Hash)]
pub struct Tsp13p0 {
    #[asn(optional(complex(Tchox, tag(PRIVATE(1)))))] pub rx: Option<Tchox>,
    #[asn(integer(0..7), tag(UNIVERSAL(30)))] pub x: u8,
}

impl Tsp13p0 {
    pub const fn x_min() -> u8 {
        0
    }

    pub const fn x_max() -> u8 {
        7
    }
}

#[asn(sequence)]

#[derive(Default, Debug, Clone, PartialEq, Hash)]
pub struct Tsp13p1 {
    #[asn(optional(complex(Tchox, tag(PRIVATE(1)))))] pub rx: Option<Tchox>,
    #[asn(optional(integer(0..15)), tag(APPLICATION(1)))] pub a: Option<u8>,
}

impl Tsp13p1 {
    pub const fn a_min() -> u8 {
        0
    }

    pub const fn a_max() -> u8 {
        15
    }
}

#[asn(sequence)]

#[derive(Default, Debug, Clone, PartialEq, Hash)]
pub struct Tsp13p2 {
    #[asn(optional(complex(Tchox, tag(PRIVATE(1)))))] pub rx: Option<Tchox>,
    #[asn(integer(0..31), tag(3))] pub c3: u8,
}

impl Tsp13p2 {
    pub const fn c3_min() -> u8 {
        0
    }

    pub const fn c3_max() -> u8 {
        31
    }
}

#[asn(sequence)]

#[derive(Default, Debug, Clone, PartialEq, Hash)]
pub struct Tsp13p3 {
    #[asn(optional(complex(Tchox, tag(PRIVATE(1)))))] pub rx: Option<Tchox>,
    #[asn(optional(integer(0..63)), tag(0))] pub c0: Option<u8>,
}

impl Tsp13p3 {
    pub const fn c0_min() -> u8 {
        0
    }

    pub const fn c0_max() -> u8 {
        63
    }
}

#[asn(sequence)]

#[derive(Default, Debug, Clone, PartialEq, Hash)]
pub struct Tsp13p4 {
    #[asn(optional(complex(Tchox, tag(PRIVATE(1)))))] pub rx: Option<Tchox>,
    #[asn(integer(0..127), tag(PRIVATE(2)))] pub p: u8,
}

impl Tsp13p4 {
    pub const fn p_min() -> u8 {
        0
    }

    pub const fn p_max() -> u8 {
        127
    }
}

#[asn(sequence)]

#[derive(Default, Debug, Clone, PartialEq, Hash)]
pub struct Tsp13p5 {
    #[asn(optional(complex(Tchox, tag(PRIVATE(1)))))] pub rx: Option<Tchox>,
    #[asn(optional(boolean))] pub b: Option<bool>,
}

impl Tsp13p5 {
}

#[asn(sequence)]

#[derive(Default, Debug, Clone, PartialEq, Hash)]
pub struct Tsp13p6 {
    #[asn(optional(complex(Tchox, tag(PRIVATE(1)))))] pub rx: Option<Tchox>,
    #[asn(integer(0..255))] pub i: u8,
}

impl Tsp13p6 {
    pub const fn i_min() -> u8 {
        0
    }

    pub const fn i_max() -> u8 {
        255
    }
}

#[asn(sequence)]

#[derive(Default, Debug, Clone, PartialEq, Hash)]
pub struct Tsp13p7 {
    #[asn(optional(complex(Tchox, tag(PRIVATE(1)))))] pub rx: Option<Tchox>,
    #[asn(optional(complex(Tapp9, tag(APPLICATION(9)))))] pub ra: Option<Tapp9>,
}

impl Tsp13p7 {
}

#[asn(sequence)]

#[derive(Default, Debug, Clone, PartialEq, Hash)]
pub struct Tsp13p8 {
    #[asn(optional(complex(Tchox, tag(PRIVATE(1)))))] pub rx: Option<Tchox>,
    #[asn(complex(Tsq, tag(UNIVERSAL(16))))] pub rs: Tsq,
}

impl Tsp13p8 {
}

#[asn(sequence)]

#[derive(Default, Debug, Clone, PartialEq, Hash)]
pub struct Tsp13p9 {
    #[asn(optional(complex(Tchox, tag(PRIVATE(1)))))] pub rx: Option<Tchox>,
    #[asn(optional(complex(Tcho, tag(1))))] pub rc: Option<Tcho>,
}

impl Tsp13p9 {
}

#[asn(sequence)]

#[derive(Default, Debug, Clone, PartialEq, Hash)]
pub struct Tsp13p10 {
    #[asn(optional(complex(Tchox, tag(PRIVATE(1)))))] pub rx: Option<Tchox>,
    #[asn(complex(Tst, tag(UNIVERSAL(17))))] pub rt: Tst,
}

impl Tsp13p10 {
}

#[asn(sequence)]

#[derive(Default, Debug, Clone, PartialEq, Hash)]
pub struct Tsp13p11 {
    #[asn(optional(complex(Tchox, tag(PRIVATE(1)))))] pub rx: Option<Tchox>,
    #[asn(optional(sequence_of(size(0..3), boolean)))] pub so: Option<Vec<bool>>,
}

impl Tsp13p11 {
}

#[asn(sequence)]

#[derive(Default, Debug, Clone, PartialEq, Hash)]
pub struct Tsp13p12 {
    #[asn(optional(complex(Tchox, tag(PRIVATE(1)))))] pub rx: Option<Tchox>,
    #[asn(set_of(size(0..2), boolean))] pub st: Vec<bool>,
}

impl Tsp13p12 {
}

#[asn(sequence)]

#[derive(Default, Debug, Clone, PartialEq, Hash)]
pub struct Tsp13p14 {
    #[asn(optional(complex(Tchox, tag(PRIVATE(1)))))] pub rx: Option<Tchox>,
    #[asn(integer(0..1), tag(UNIVERSAL(2)))] pub u2: u8,
}

impl Tsp13p14 {
    pub const fn u2_min() -> u8 {
        0
    }

    pub const fn u2_max() -> u8 {
        1
    }
}

#[asn(sequence, tag(APPLICATION(5)))]

#[derive(Default, Debug, Clone, PartialEq, Hash)]
pub struct Tsp13p15Is {
    #[asn(integer(0..3))] pub v: u8,
}

impl Tsp13p15Is {
    pub const fn v_min() -> u8 {
        0
    }

    pub const fn v_max() -> u8 {
        3
    }
}

#[asn(sequence)]

#[derive(Default, Debug, Clone, PartialEq, Hash)]
pub struct Tsp13p15 {
    #[asn(optional(complex(Tchox, tag(PRIVATE(1)))))] pub rx: Option<Tchox>,
    #[asn(optional(complex(Tsp13p15Is, tag(APPLICATION(5)))), tag(APPLICATION(5)))] pub is: Option<Tsp13p15Is>,
}

impl Tsp13p15 {
}

#[asn(sequence)]

#[derive(Default, Debug, Clone, PartialEq, Hash)]
pub struct Tsp14p0 {
    #[asn(integer(0..1), tag(UNIVERSAL(2)))] pub u2: u8,
    #[asn(integer(0..7), tag(UNIVERSAL(30)))] pub x: u8,
}

impl Tsp14p0 {
    pub const fn u2_min() -> u8 {
        0
    }

    pub const fn u2_max() -> u8 {
        1
    }

    pub const fn x_min() -> u8 {
        0
    }

    pub const fn x_max() -> u8 {
        7
    }
}

#[asn(sequence)]

#[derive(Default, Debug, Clone, PartialEq, Hash)]
pub struct Tsp14p1 {
    #[asn(integer(0..1), tag(UNIVERSAL(2)))] pub u2: u8,
    #[asn(optional(integer(0..15)), tag(APPLICATION(1)))] pub a: Option<u8>,
}

impl Tsp14p1 {
    pub const fn u2_min() -> u8 {
        0
    }

    pub const fn u2_max() -> u8 {
        1
    }

    pub const fn a_min() -> u8 {
        0
    }

    pub const fn a_max() -> u8 {
        15
    }
}

#[asn(sequence)]

#[derive(Default, Debug, Clone, PartialEq, Hash)]
pub struct Tsp14p2 {
    #[asn(integer(0..1), tag(UNIVERSAL(2)))] pub u2: u8,
    #[asn(integer(0..31), tag(3))] pub c3: u8,
}

impl Tsp14p2 {
    pub const fn u2_min() -> u8 {
        0
    }

    pub const fn u2_max() -> u8 {
        1
    }

    pub const fn c3_min() -> u8 {
        0
    }

    pub const fn c3_max() -> u8 {
        31
    }
}

#[asn(sequence)]

#[derive(Default, Debug, Clone, PartialEq, Hash)]
pub struct Tsp14p3 {
    #[asn(integer(0..1), tag(UNIVERSAL(2)))] pub u2: u8,
    #[asn(optional(integer(0..63)), tag(0))] pub c0: Option<u8>,
}

impl Tsp14p3 {
    pub const fn u2_min() -> u8 {
        0
    }

    pub const fn u2_max() -> u8 {
        1
    }

    pub const fn c0_min() -> u8 {
        0
    }

    pub const fn c0_max() -> u8 {
        63
    }
}

#[asn(sequence)]

#[derive(Default, Debug, Clone, PartialEq, Hash)]
pub struct Tsp14p4 {
    #[asn(integer(0..1), tag(UNIVERSAL(2)))] pub u2: u8,
    #[asn(integer(0..127), tag(PRIVATE(2)))] pub p: u8,
}

impl Tsp14p4 {
    pub const fn u2_min() -> u8 {
        0
    }

    pub const fn u2_max() -> u8 {
        1
    }

    pub const fn p_min() -> u8 {
        0
    }

    pub const fn p_max() -> u8 {
        127
    }
}

#[asn(sequence)]

#[derive(Default, Debug, Clone, PartialEq, Hash)]
pub struct Tsp14p5 {
    #[asn(integer(0..1), tag(UNIVERSAL(2)))] pub u2: u8,
    #[asn(optional(boolean))] pub b: Option<bool>,
}

impl Tsp14p5 {
    pub const fn u2_min() -> u8 {
        0
    }

    pub const fn u2_max() -> u8 {
        1
    }
}

#[asn(sequence)]

#[derive(Default, Debug, Clone, PartialEq, Hash)]
pub struct Tsp14p6 {
    #[asn(integer(0..1), tag(UNIVERSAL(2)))] pub u2: u8,
    #[asn(integer(0..255))] pub i: u8,
}

impl Tsp14p6 {
    pub const fn u2_min() -> u8 {
        0
    }

    pub const fn u2_max() -> u8 {
        1
    }

    pub const fn i_min() -> u8 {
        0
    }

    pub const fn i_max() -> u8 {
        255
    }
}

#[asn(sequence)]

#[derive(Default, Debug, Clone, PartialEq, Hash)]
pub struct Tsp14p7 {
    #[asn(integer(0..1), tag(UNIVERSAL(2)))] pub u2: u8,
    #[asn(optional(complex(Tapp9, tag(APPLICATION(9)))))] pub ra: Option<Tapp9>,
}

impl Tsp14p7 {
    pub const fn u2_min() -> u8 {
        0
    }

    pub const fn u2_max() -> u8 {
        1
    }
}

#[asn(sequence)]

#[derive(Default, Debug, Clone, PartialEq, Hash)]
pub struct Tsp14p8 {
    #[asn(integer(0..1), tag(UNIVERSAL(2)))] pub u2: u8,
    #[asn(complex(Tsq, tag(UNIVERSAL(16))))] pub rs: Tsq,
}

impl Tsp14p8 {
    pub const fn u2_min() -> u8 {
        0
    }

    pub const fn u2_max() -> u8 {
        1
    }
}

#[asn(sequence)]

#[derive(Default, Debug, Clone, PartialEq, Hash)]
pub struct Tsp14p9 {
    #[asn(integer(0..1), tag(UNIVERSAL(2)))] pub u2: u8,
    #[asn(optional(complex(Tcho, tag(1))))] pub rc: Option<Tcho>,
}

impl Tsp14p9 {
    pub const fn u2_min() -> u8 {
        0
    }

    pub const fn u2_max() -> u8 {
        1
    }
}

#[asn(sequence)]

#[derive(Default, Debug, Clone, PartialEq, Hash)]
pub struct Tsp14p10 {
    #[asn(integer(0..1), tag(UNIVERSAL(2)))] pub u2: u8,
    #[asn(complex(Tst, tag(UNIVERSAL(17))))] pub rt: Tst,
}

impl Tsp14p10 {
    pub const fn u2_min() -> u8 {
        0
    }

    pub const fn u2_max() -> u8 {
        1
    }
}

#[asn(sequence)]

#[derive(Default, Debug, Clone, PartialEq, Hash)]
pub struct Tsp14p11 {
    #[asn(integer(0..1), tag(UNIVERSAL(2)))] pub u2: u8,
    #[asn(optional(sequence_of(size(0..3), boolean)))] pub so: Option<Vec<bool>>,
}

impl Tsp14p11 {
    pub const fn u2_min() -> u8 {
        0
    }

    pub const fn u2_max() -> u8 {
        1
    }
}

#[asn(sequence)]

#[derive(Default, Debug, Clone, PartialEq, Hash)]
pub struct Tsp14p12 {
    #[asn(integer(0..1), tag(UNIVERSAL(2)))] pub u2: u8,
    #[asn(set_of(size(0..2), boolean))] pub st: Vec<bool>,
}

impl Tsp14p12 {
    pub const fn u2_min() -> u8 {
        0
    }

    pub const fn u2_max() -> u8 {
        1
    }
}

#[asn(sequence)]

#[derive(Default, Debug, Clone, PartialEq, Hash)]
pub struct Tsp14p13 {
    #[asn(integer(0..1), tag(UNIVERSAL(2)))] pub u2: u8,
    #[asn(optional(complex(Tchox, tag(PRIVATE(1)))))] pub rx: Option<Tchox>,
}

impl Tsp14p13 {
    pub const fn u2_min() -> u8 {
        0
    }

    pub const fn u2_max() -> u8 {
        1
    }
}

#[asn(sequence, tag(APPLICATION(5)))]

#[derive(Default, Debug, Clone, PartialEq, Hash)]
pub struct Tsp14p15Is {
    #[asn(integer(0..3))] pub v: u8,
}

impl Tsp14p15Is {
    pub const fn v_min() -> u8 {
        0
    }

    pub const fn v_max() -> u8 {
        3
    }
}

#[asn(sequence)]

#[derive(Default, Debug, Clone, PartialEq, Hash)]
pub struct Tsp14p15 {
    #[asn(integer(0..1), tag(UNIVERSAL(2)))] pub u2: u8,
    #[asn(optional(complex(Tsp14p15Is, tag(APPLICATION(5)))), tag(APPLICATION(5)))] pub is: Option<Tsp14p15Is>,
}

impl Tsp14p15 {
    pub const fn u2_min() -> u8 {
        0
    }

    pub const fn u2_max() -> u8 {
        1
    }
}

#[asn(sequence, tag(APPLICATION(5)))]

#[derive(Default, Debug, Clone, PartialEq, Hash)]
pub struct Tsp15p0Is {
    #[asn(integer(0..3))] pub v: u8,
}

impl Tsp15p0Is {
    pub const fn v_min() -> u8 {
        0
    }

    pub const fn v_max() -> u8 {
        3
    }
}

#[asn(sequence)]

#[derive(Default, Debug, Clone, PartialEq, Hash)]
pub struct Tsp15p0 {
    #[asn(optional(complex(Tsp15p0Is, tag(APPLICATION(5)))), tag(APPLICATION(5)))] pub is: Option<Tsp15p0Is>,
    #[asn(integer(0..7), tag(UNIVERSAL(30)))] pub x: u8,
}

impl Tsp15p0 {
    pub const fn x_min() -> u8 {
        0
    }

    pub const fn x_max() -> u8 {
        7
    }
}

#[asn(sequence, tag(APPLICATION(5)))]

#[derive(Default, Debug, Clone, PartialEq, Hash)]
pub struct Tsp15p1Is {
    #[asn(integer(0..3))] pub v: u8,
}

impl Tsp15p1Is {
    pub const fn v_min() -> u8 {
        0
    }

    pub const fn v_max() -> u8 {
        3
    }
}

#[asn(sequence)]

#[derive(Default, Debug, Clone, PartialEq, Hash)]
pub struct Tsp15p1 {
    #[asn(optional(complex(Tsp15p1Is, tag(APPLICATION(5)))), tag(APPLICATION(5)))] pub is: Option<Tsp15p1Is>,
    #[asn(optional(integer(0..15)), tag(APPLICATION(1)))] pub a: Option<u8>,
}

impl Tsp15p1 {
    pub const fn a_min() -> u8 {
        0
    }

    pub const fn a_max() -> u8 {
        15
    }
}

#[asn(sequence, tag(APPLICATION(5)))]

#[derive(Default, Debug, Clone, PartialEq, Hash)]
pub struct Tsp15p2Is {
    #[asn(integer(0..3))] pub v: u8,
}

impl Tsp15p2Is {
    pub const fn v_min() -> u8 {
        0
    }

    pub const fn v_max() -> u8 {
        3
    }
}

#[asn(sequence)]

#[derive(Default, Debug, Clone, PartialEq, Hash)]
pub struct Tsp15p2 {
    #[asn(optional(complex(Tsp15p2Is, tag(APPLICATION(5)))), tag(APPLICATION(5)))] pub is: Option<Tsp15p2Is>,
    #[asn(integer(0..31), tag(3))] pub c3: u8,
}

impl Tsp15p2 {
    pub const fn c3_min() -> u8 {
        0
    }

    pub const fn c3_max() -> u8 {
        31
    }
}

#[asn(sequence, tag(APPLICATION(5)))]

#[derive(Default, Debug, Clone, PartialEq, Hash)]
pub struct Tsp15p3Is {
    #[asn(integer(0..3))] pub v: u8,
}

impl Tsp15p3Is {
    pub const fn v_min() -> u8 {
        0
    }

    pub const fn v_max() -> u8 {
        3
    }
}

#[asn(sequence)]

#[derive(Default, Debug, Clone, PartialEq, Hash)]
pub struct Tsp15p3 {
    #[asn(optional(complex(Tsp15p3Is, tag(APPLICATION(5)))), tag(APPLICATION(5)))] pub is: Option<Tsp15p3Is>,
    #[asn(optional(integer(0..63)), tag(0))] pub c0: Option<u8>,
}

impl Tsp15p3 {
    pub const fn c0_min() -> u8 {
        0
    }

    pub const fn c0_max() -> u8 {
        63
    }
}

#[asn(sequence, tag(APPLICATION(5)))]

#[derive(Default, Debug, Clone, PartialEq, Hash)]
pub struct Tsp15p4Is {
    #[asn(integer(0..3))] pub v: u8,
}

impl Tsp15p4Is {
    pub const fn v_min() -> u8 {
        0
    }

    pub const fn v_max() -> u8 {
        3
    }
}

#[asn(sequence)]

#[derive(Default, Debug, Clone, PartialEq, Hash)]
pub struct Tsp15p4 {
    #[asn(optional(complex(Tsp15p4Is, tag(APPLICATION(5)))), tag(APPLICATION(5)))] pub is: Option<Tsp15p4Is>,
    #[asn(integer(0..127), tag(PRIVATE(2)))] pub p: u8,
}

impl Tsp15p4 {
    pub const fn p_min() -> u8 {
        0
    }

    pub const fn p_max() -> u8 {
        127
    }
}

#[asn(sequence, tag(APPLICATION(5)))]

#[derive(Default, Debug, Clone, PartialEq, Hash)]
pub struct Tsp15p5Is {
    #[asn(integer(0..3))] pub v: u8,
}

impl Tsp15p5Is {
    pub const fn v_min() -> u8 {
        0
    }

    pub const fn v_max() -> u8 {
        3
    }
}

#[asn(sequence)]

#[derive(Default, Debug, Clone, PartialEq, Hash)]
pub struct Tsp15p5 {
    #[asn(optional(complex(Tsp15p5Is, tag(APPLICATION(5)))), tag(APPLICATION(5)))] pub is: Option<Tsp15p5Is>,
    #[asn(optional(boolean))] pub b: Option<bool>,
}

impl Tsp15p5 {
}

#[asn(sequence, tag(APPLICATION(5)))]

#[derive(Default, Debug, Clone, PartialEq, Hash)]
pub struct Tsp15p6Is {
    #[asn(integer(0..3))] pub v: u8,
}

impl Tsp15p6Is {
    pub const fn v_min() -> u8 {
        0
    }

    pub const fn v_max() -> u8 {
        3
    }
}

#[asn(sequence)]

#[derive(Default, Debug, Clone, PartialEq, Hash)]
pub struct Tsp15p6 {
    #[asn(optional(complex(Tsp15p6Is, tag(APPLICATION(5)))), tag(APPLICATION(5)))] pub is: Option<Tsp15p6Is>,
    #[asn(integer(0..255))] pub i: u8,
}

impl Tsp15p6 {
    pub const fn i_min() -> u8 {
        0
    }

    pub const fn i_max() -> u8 {
        255
    }
}

#[asn(sequence, tag(APPLICATION(5)))]

#[derive(Default, Debug, Clone, PartialEq, Hash)]
pub struct Tsp15p7Is {
    #[asn(integer(0..3))] pub v: u8,
}

impl Tsp15p7Is {
    pub const fn v_min() -> u8 {
        0
    }

    pub const fn v_max() -> u8 {
        3
    }
}

#[asn(sequence)]

#[derive(Default, Debug, Clone, PartialEq, Hash)]
pub struct Tsp15p7 {
    #[asn(optional(complex(Tsp15p7Is, tag(APPLICATION(5)))), tag(APPLICATION(5)))] pub is: Option<Tsp15p7Is>,
    #[asn(optional(complex(Tapp9, tag(APPLICATION(9)))))] pub ra: Option<Tapp9>,
}

impl Tsp15p7 {
}

#[asn(sequence, tag(APPLICATION(5)))]

#[derive(Default, Debug, Clone, PartialEq, Hash)]
pub struct Tsp15p8Is {
    #[asn(integer(0..3))] pub v: u8,
}

impl Tsp15p8Is {
    pub const fn v_min() -> u8 {
        0
    }

    pub const fn v_max() -> u8 {
        3
    }
}

#[asn(sequence)]

#[derive(Default, Debug, Clone, PartialEq, Hash)]
pub struct Tsp15p8 {
    #[asn(optional(complex(Tsp15p8Is, tag(APPLICATION(5)))), tag(APPLICATION(5)))] pub is: Option<Tsp15p8Is>,
    #[asn(complex(Tsq, tag(UNIVERSAL(16))))] pub rs: Tsq,
}

impl Tsp15p8 {
}

#[asn(sequence, tag(APPLICATION(5)))]

#[derive(Default, Debug, Clone, PartialEq, Hash)]
pub struct Tsp15p9Is {
    #[asn(integer(0..3))] pub v: u8,
}

impl Tsp15p9Is {
    pub const fn v_min() -> u8 {
        0
    }

    pub const fn v_max() -> u8 {
        3
    }
}

#[asn(sequence)]

#[derive(Default, Debug, Clone, PartialEq, Hash)]
pub struct Tsp15p9 {
    #[asn(optional(complex(Tsp15p9Is, tag(APPLICATION(5)))), tag(APPLICATION(5)))] pub is: Option<Tsp15p9Is>,
    #[asn(optional(complex(Tcho, tag(1))))] pub rc: Option<Tcho>,
}

impl Tsp15p9 {
}

#[asn(sequence, tag(APPLICATION(5)))]

#[derive(Default, Debug, Clone, PartialEq, Hash)]
pub struct Tsp15p10Is {
    #[asn(integer(0..3))] pub v: u8,
}

impl Tsp15p10Is {
    pub const fn v_min() -> u8 {
        0
    }

    pub const fn v_max() -> u8 {
        3
    }
}

#[asn(sequence)]

#[derive(Default, Debug, Clone, PartialEq, Hash)]
pub struct Tsp15p10 {
    #[asn(optional(complex(Tsp15p10Is, tag(APPLICATION(5)))), tag(APPLICATION(5)))] pub is: Option<Tsp15p10Is>,
    #[asn(complex(Tst, tag(UNIVERSAL(17))))] pub rt: Tst,
}

impl Tsp15p10 {
}

#[asn(sequence, tag(APPLICATION(5)))]

#[derive(Default, Debug, Clone, PartialEq, Hash)]
pub struct Tsp15p11Is {
    #[asn(integer(0..3))] pub v: u8,
}

impl Tsp15p11Is {
    pub const fn v_min() -> u8 {
        0
    }

    pub const fn v_max() -> u8 {
        3
    }
}

#[asn(sequence)]

#[derive(Default, Debug, Clone, PartialEq, Hash)]
pub struct Tsp15p11 {
    #[asn(optional(complex(Tsp15p11Is, tag(APPLICATION(5)))), tag(APPLICATION(5)))] pub is: Option<Tsp15p11Is>,
    #[asn(optional(sequence_of(size(0..3), boolean)))] pub so: Option<Vec<bool>>,
}

impl Tsp15p11 {
}

#[asn(sequence, tag(APPLICATION(5)))]

#[derive(Default, Debug, Clone, PartialEq, Hash)]
pub struct Tsp15p12Is {
    #[asn(integer(0..3))] pub v: u8,
}

impl Tsp15p12Is {
    pub const fn v_min() -> u8 {
        0
    }

    pub const fn v_max() -> u8 {
        3
    }
}

#[asn(sequence)]

#[derive(Default, Debug, Clone, PartialEq, Hash)]
pub struct Tsp15p12 {
    #[asn(optional(complex(Tsp15p12Is, tag(APPLICATION(5)))), tag(APPLICATION(5)))] pub is: Option<Tsp15p12Is>,
    #[asn(set_of(size(0..2), boolean))] pub st: Vec<bool>,
}

impl Tsp15p12 {
}

#[asn(sequence, tag(APPLICATION(5)))]

#[derive(Default, Debug, Clone, PartialEq, Hash)]
pub struct Tsp15p13Is {
    #[asn(integer(0..3))] pub v: u8,
}

impl Tsp15p13Is {
    pub const fn v_min() -> u8 {
        0
    }

    pub const fn v_max() -> u8 {
        3
    }
}

#[asn(sequence)]

#[derive(Default, Debug, Clone, PartialEq, Hash)]
pub struct Tsp15p13 {
    #[asn(optional(complex(Tsp15p13Is, tag(APPLICATION(5)))), tag(APPLICATION(5)))] pub is: Option<Tsp15p13Is>,
    #[asn(optional(complex(Tchox, tag(PRIVATE(1)))))] pub rx: Option<Tchox>,
}

impl Tsp15p13 {
}

#[asn(sequence, tag(APPLICATION(5)))]

#[derive(Default, Debug, Clone, PartialEq, Hash)]
pub struct Tsp15p14Is {
    #[asn(integer(0..3))] pub v: u8,
}

impl Tsp15p14Is {
    pub const fn v_min() -> u8 {
        0
    }

    pub const fn v_max() -> u8 {
        3
    }
}

#[asn(sequence)]

#[derive(Default, Debug, Clone, PartialEq, Hash)]
pub struct Tsp15p14 {
    #[asn(optional(complex(Tsp15p14Is, tag(APPLICATION(5)))), tag(APPLICATION(5)))] pub is: Option<Tsp15p14Is>,
    #[asn(integer(0..1), tag(UNIVERSAL(2)))] pub u2: u8,
}

impl Tsp15p14 {
    pub const fn u2_min() -> u8 {
        0
    }

    pub const fn u2_max() -> u8 {
        1
    }
}
// ---- harness conversions (generated by the zoo build script from the items above) ----
impl FromValue for Tapp9 { fn from_value(v: &Value) -> Self { Tapp9(FromValue::from_value(v)) } }
impl ToValue for Tapp9 { fn to_value(&self) -> Value { self.0.to_value() } }
impl FromValue for Tsq {
    fn from_value(v: &Value) -> Self {
        let s = match v { Value::Seq(s) => s, other => panic!("Tsq: expected Seq, got {other:?}") };
        assert_eq!(s.len(), 1, "Tsq: component count");
        let _ = s;
        Tsq {
            z: FromValue::from_value(s[0].as_ref().expect("component z of Tsq must be present")),
        }
    }
}
impl ToValue for Tsq {
    fn to_value(&self) -> Value {
        Value::Seq(vec![
            Some(self.z.to_value()),
        ])
    }
}
impl FromValue for Tcho {
    fn from_value(v: &Value) -> Self {
        let (i, inner) = match v { Value::Choice(i, inner) => (*i, &**inner), other => panic!("Tcho: expected Choice, got {other:?}") };
        match i {
            0 => Tcho::M(FromValue::from_value(inner)),
            1 => Tcho::N(FromValue::from_value(inner)),
            _ => panic!("Tcho: alternative index {i} out of range"),
        }
    }
}
impl ToValue for Tcho {
    fn to_value(&self) -> Value {
        match self {
            Tcho::M(x) => Value::Choice(0, Box::new(x.to_value())),
            Tcho::N(x) => Value::Choice(1, Box::new(x.to_value())),
        }
    }
}
impl FromValue for Tchox {
    fn from_value(v: &Value) -> Self {
        let (i, inner) = match v { Value::Choice(i, inner) => (*i, &**inner), other => panic!("Tchox: expected Choice, got {other:?}") };
        match i {
            0 => Tchox::M(FromValue::from_value(inner)),
            1 => Tchox::N(FromValue::from_value(inner)),
            2 => Tchox::O(FromValue::from_value(inner)),
            _ => panic!("Tchox: alternative index {i} out of range"),
        }
    }
}
impl ToValue for Tchox {
    fn to_value(&self) -> Value {
        match self {
            Tchox::M(x) => Value::Choice(0, Box::new(x.to_value())),
            Tchox::N(x) => Value::Choice(1, Box::new(x.to_value())),
            Tchox::O(x) => Value::Choice(2, Box::new(x.to_value())),
        }
    }
}
impl FromValue for Tst {
    fn from_value(v: &Value) -> Self {
        let s = match v { Value::Seq(s) => s, other => panic!("Tst: expected Seq, got {other:?}") };
        assert_eq!(s.len(), 1, "Tst: component count");
        let _ = s;
        Tst {
            z: FromValue::from_value(s[0].as_ref().expect("component z of Tst must be present")),
        }
    }
}
impl ToValue for Tst {
    fn to_value(&self) -> Value {
        Value::Seq(vec![
            Some(self.z.to_value()),
        ])
    }
}
impl FromValue for Tsp0p1 {
    fn from_value(v: &Value) -> Self {
        let s = match v { Value::Seq(s) => s, other => panic!("Tsp0p1: expected Seq, got {other:?}") };
        assert_eq!(s.len(), 2, "Tsp0p1: component count");
        let _ = s;
        Tsp0p1 {
            x: FromValue::from_value(s[0].as_ref().expect("component x of Tsp0p1 must be present")),
            a: s[1].as_ref().map(FromValue::from_value),
        }
    }
}
impl ToValue for Tsp0p1 {
    fn to_value(&self) -> Value {
        Value::Seq(vec![
            Some(self.x.to_value()),
            self.a.as_ref().map(|x| x.to_value()),
        ])
    }
}
impl FromValue for Tsp0p2 {
    fn from_value(v: &Value) -> Self {
        let s = match v { Value::Seq(s) => s, other => panic!("Tsp0p2: expected Seq, got {other:?}") };
        assert_eq!(s.len(), 2, "Tsp0p2: component count");
        let _ = s;
        Tsp0p2 {
            x: FromValue::from_value(s[0].as_ref().expect("component x of Tsp0p2 must be present")),
            c3: FromValue::from_value(s[1].as_ref().expect("component c3 of Tsp0p2 must be present")),
        }
    }
}
impl ToValue for Tsp0p2 {
    fn to_value(&self) -> Value {
        Value::Seq(vec![
            Some(self.x.to_value()),
            Some(self.c3.to_value()),
        ])
    }
}
impl FromValue for Tsp0p3 {
    fn from_value(v: &Value) -> Self {
        let s = match v { Value::Seq(s) => s, other => panic!("Tsp0p3: expected Seq, got {other:?}") };
        assert_eq!(s.len(), 2, "Tsp0p3: component count");
        let _ = s;
        Tsp0p3 {
            x: FromValue::from_value(s[0].as_ref().expect("component x of Tsp0p3 must be present")),
            c0: s[1].as_ref().map(FromValue::from_value),
        }
    }
}
impl ToValue for Tsp0p3 {
    fn to_value(&self) -> Value {
        Value::Seq(vec![
            Some(self.x.to_value()),
            self.c0.as_ref().map(|x| x.to_value()),
        ])
    }
}
impl FromValue for Tsp0p4 {
    fn from_value(v: &Value) -> Self {
        let s = match v { Value::Seq(s) => s, other => panic!("Tsp0p4: expected Seq, got {other:?}") };
        assert_eq!(s.len(), 2, "Tsp0p4: component count");
        let _ = s;
        Tsp0p4 {
            x: FromValue::from_value(s[0].as_ref().expect("component x of Tsp0p4 must be present")),
            p: FromValue::from_value(s[1].as_ref().expect("component p of Tsp0p4 must be present")),
        }
    }
}
impl ToValue for Tsp0p4 {
    fn to_value(&self) -> Value {
        Value::Seq(vec![
            Some(self.x.to_value()),
            Some(self.p.to_value()),
        ])
    }
}
impl FromValue for Tsp0p5 {
    fn from_value(v: &Value) -> Self {
        let s = match v { Value::Seq(s) => s, other => panic!("Tsp0p5: expected Seq, got {other:?}") };
        assert_eq!(s.len(), 2, "Tsp0p5: component count");
        let _ = s;
        Tsp0p5 {
            x: FromValue::from_value(s[0].as_ref().expect("component x of Tsp0p5 must be present")),
            b: s[1].as_ref().map(FromValue::from_value),
        }
    }
}
impl ToValue for Tsp0p5 {
    fn to_value(&self) -> Value {
        Value::Seq(vec![
            Some(self.x.to_value()),
            self.b.as_ref().map(|x| x.to_value()),
        ])
    }
}
impl FromValue for Tsp0p6 {
    fn from_value(v: &Value) -> Self {
        let s = match v { Value::Seq(s) => s, other => panic!("Tsp0p6: expected Seq, got {other:?}") };
        assert_eq!(s.len(), 2, "Tsp0p6: component count");
        let _ = s;
        Tsp0p6 {
            x: FromValue::from_value(s[0].as_ref().expect("component x of Tsp0p6 must be present")),
            i: FromValue::from_value(s[1].as_ref().expect("component i of Tsp0p6 must be present")),
        }
    }
}
impl ToValue for Tsp0p6 {
    fn to_value(&self) -> Value {
        Value::Seq(vec![
            Some(self.x.to_value()),
            Some(self.i.to_value()),
        ])
    }
}
impl FromValue for Tsp0p7 {
    fn from_value(v: &Value) -> Self {
        let s = match v { Value::Seq(s) => s, other => panic!("Tsp0p7: expected Seq, got {other:?}") };
        assert_eq!(s.len(), 2, "Tsp0p7: component count");
        let _ = s;
        Tsp0p7 {
            x: FromValue::from_value(s[0].as_ref().expect("component x of Tsp0p7 must be present")),
            ra: s[1].as_ref().map(FromValue::from_value),
        }
    }
}
impl ToValue for Tsp0p7 {
    fn to_value(&self) -> Value {
        Value::Seq(vec![
            Some(self.x.to_value()),
            self.ra.as_ref().map(|x| x.to_value()),
        ])
    }
}
impl FromValue for Tsp0p8 {
    fn from_value(v: &Value) -> Self {
        let s = match v { Value::Seq(s) => s, other => panic!("Tsp0p8: expected Seq, got {other:?}") };
        assert_eq!(s.len(), 2, "Tsp0p8: component count");
        let _ = s;
        Tsp0p8 {
            x: FromValue::from_value(s[0].as_ref().expect("component x of Tsp0p8 must be present")),
            rs: FromValue::from_value(s[1].as_ref().expect("component rs of Tsp0p8 must be present")),
        }
    }
}
impl ToValue for Tsp0p8 {
    fn to_value(&self) -> Value {
        Value::Seq(vec![
            Some(self.x.to_value()),
            Some(self.rs.to_value()),
        ])
    }
}
impl FromValue for Tsp0p9 {
    fn from_value(v: &Value) -> Self {
        let s = match v { Value::Seq(s) => s, other => panic!("Tsp0p9: expected Seq, got {other:?}") };
        assert_eq!(s.len(), 2, "Tsp0p9: component count");
        let _ = s;
        Tsp0p9 {
            x: FromValue::from_value(s[0].as_ref().expect("component x of Tsp0p9 must be present")),
            rc: s[1].as_ref().map(FromValue::from_value),
        }
    }
}
impl ToValue for Tsp0p9 {
    fn to_value(&self) -> Value {
        Value::Seq(vec![
            Some(self.x.to_value()),
            self.rc.as_ref().map(|x| x.to_value()),
        ])
    }
}
impl FromValue for Tsp0p10 {
    fn from_value(v: &Value) -> Self {
        let s = match v { Value::Seq(s) => s, other => panic!("Tsp0p10: expected Seq, got {other:?}") };
        assert_eq!(s.len(), 2, "Tsp0p10: component count");
        let _ = s;
        Tsp0p10 {
            x: FromValue::from_value(s[0].as_ref().expect("component x of Tsp0p10 must be present")),
            rt: FromValue::from_value(s[1].as_ref().expect("component rt of Tsp0p10 must be present")),
        }
    }
}
impl ToValue for Tsp0p10 {
    fn to_value(&self) -> Value {
        Value::Seq(vec![
            Some(self.x.to_value()),
            Some(self.rt.to_value()),
        ])
    }
}
impl FromValue for Tsp0p11 {
    fn from_value(v: &Value) -> Self {
        let s = match v { Value::Seq(s) => s, other => panic!("Tsp0p11: expected Seq, got {other:?}") };
        assert_eq!(s.len(), 2, "Tsp0p11: component count");
        let _ = s;
        Tsp0p11 {
            x: FromValue::from_value(s[0].as_ref().expect("component x of Tsp0p11 must be present")),
            so: s[1].as_ref().map(FromValue::from_value),
        }
    }
}
impl ToValue for Tsp0p11 {
    fn to_value(&self) -> Value {
        Value::Seq(vec![
            Some(self.x.to_value()),
            self.so.as_ref().map(|x| x.to_value()),
        ])
    }
}
impl FromValue for Tsp0p12 {
    fn from_value(v: &Value) -> Self {
        let s = match v { Value::Seq(s) => s, other => panic!("Tsp0p12: expected Seq, got {other:?}") };
        assert_eq!(s.len(), 2, "Tsp0p12: component count");
        let _ = s;
        Tsp0p12 {
            x: FromValue::from_value(s[0].as_ref().expect("component x of Tsp0p12 must be present")),
            st: FromValue::from_value(s[1].as_ref().expect("component st of Tsp0p12 must be present")),
        }
    }
}
impl ToValue for Tsp0p12 {
    fn to_value(&self) -> Value {
        Value::Seq(vec![
            Some(self.x.to_value()),
            Some(self.st.to_value()),
        ])
    }
}
impl FromValue for Tsp0p13 {
    fn from_value(v: &Value) -> Self {
        let s = match v { Value::Seq(s) => s, other => panic!("Tsp0p13: expected Seq, got {other:?}") };
        assert_eq!(s.len(), 2, "Tsp0p13: component count");
        let _ = s;
        Tsp0p13 {
            x: FromValue::from_value(s[0].as_ref().expect("component x of Tsp0p13 must be present")),
            rx: s[1].as_ref().map(FromValue::from_value),
        }
    }
}
impl ToValue for Tsp0p13 {
    fn to_value(&self) -> Value {
        Value::Seq(vec![
            Some(self.x.to_value()),
            self.rx.as_ref().map(|x| x.to_value()),
        ])
    }
}
impl FromValue for Tsp0p14 {
    fn from_value(v: &Value) -> Self {
        let s = match v { Value::Seq(s) => s, other => panic!("Tsp0p14: expected Seq, got {other:?}") };
        assert_eq!(s.len(), 2, "Tsp0p14: component count");
        let _ = s;
        Tsp0p14 {
            x: FromValue::from_value(s[0].as_ref().expect("component x of Tsp0p14 must be present")),
            u2: FromValue::from_value(s[1].as_ref().expect("component u2 of Tsp0p14 must be present")),
        }
    }
}
impl ToValue for Tsp0p14 {
    fn to_value(&self) -> Value {
        Value::Seq(vec![
            Some(self.x.to_value()),
            Some(self.u2.to_value()),
        ])
    }
}
impl FromValue for Tsp0p15Is {
    fn from_value(v: &Value) -> Self {
        let s = match v { Value::Seq(s) => s, other => panic!("Tsp0p15Is: expected Seq, got {other:?}") };
        assert_eq!(s.len(), 1, "Tsp0p15Is: component count");
        let _ = s;
        Tsp0p15Is {
            v: FromValue::from_value(s[0].as_ref().expect("component v of Tsp0p15Is must be present")),
        }
    }
}
impl ToValue for Tsp0p15Is {
    fn to_value(&self) -> Value {
        Value::Seq(vec![
            Some(self.v.to_value()),
        ])
    }
}
impl FromValue for Tsp0p15 {
    fn from_value(v: &Value) -> Self {
        let s = match v { Value::Seq(s) => s, other => panic!("Tsp0p15: expected Seq, got {other:?}") };
        assert_eq!(s.len(), 2, "Tsp0p15: component count");
        let _ = s;
        Tsp0p15 {
            x: FromValue::from_value(s[0].as_ref().expect("component x of Tsp0p15 must be present")),
            is: s[1].as_ref().map(FromValue::from_value),
        }
    }
}
impl ToValue for Tsp0p15 {
    fn to_value(&self) -> Value {
        Value::Seq(vec![
            Some(self.x.to_value()),
            self.is.as_ref().map(|x| x.to_value()),
        ])
    }
}
impl FromValue for Tsp1p0 {
    fn from_value(v: &Value) -> Self {
        let s = match v { Value::Seq(s) => s, other => panic!("Tsp1p0: expected Seq, got {other:?}") };
        assert_eq!(s.len(), 2, "Tsp1p0: component count");
        let _ = s;
        Tsp1p0 {
            a: s[0].as_ref().map(FromValue::from_value),
            x: FromValue::from_value(s[1].as_ref().expect("component x of Tsp1p0 must be present")),
        }
    }
}
impl ToValue for Tsp1p0 {
    fn to_value(&self) -> Value {
        Value::Seq(vec![
            self.a.as_ref().map(|x| x.to_value()),
            Some(self.x.to_value()),
        ])
    }
}
impl FromValue for Tsp1p2 {
    fn from_value(v: &Value) -> Self {
        let s = match v { Value::Seq(s) => s, other => panic!("Tsp1p2: expected Seq, got {other:?}") };
        assert_eq!(s.len(), 2, "Tsp1p2: component count");
        let _ = s;
        Tsp1p2 {
            a: s[0].as_ref().map(FromValue::from_value),
            c3: FromValue::from_value(s[1].as_ref().expect("component c3 of Tsp1p2 must be present")),
        }
    }
}
impl ToValue for Tsp1p2 {
    fn to_value(&self) -> Value {
        Value::Seq(vec![
            self.a.as_ref().map(|x| x.to_value()),
            Some(self.c3.to_value()),
        ])
    }
}
impl FromValue for Tsp1p3 {
    fn from_value(v: &Value) -> Self {
        let s = match v { Value::Seq(s) => s, other => panic!("Tsp1p3: expected Seq, got {other:?}") };
        assert_eq!(s.len(), 2, "Tsp1p3: component count");
        let _ = s;
        Tsp1p3 {
            a: s[0].as_ref().map(FromValue::from_value),
            c0: s[1].as_ref().map(FromValue::from_value),
        }
    }
}
impl ToValue for Tsp1p3 {
    fn to_value(&self) -> Value {
        Value::Seq(vec![
            self.a.as_ref().map(|x| x.to_value()),
            self.c0.as_ref().map(|x| x.to_value()),
        ])
    }
}
impl FromValue for Tsp1p4 {
    fn from_value(v: &Value) -> Self {
        let s = match v { Value::Seq(s) => s, other => panic!("Tsp1p4: expected Seq, got {other:?}") };
        assert_eq!(s.len(), 2, "Tsp1p4: component count");
        let _ = s;
        Tsp1p4 {
            a: s[0].as_ref().map(FromValue::from_value),
            p: FromValue::from_value(s[1].as_ref().expect("component p of Tsp1p4 must be present")),
        }
    }
}
impl ToValue for Tsp1p4 {
    fn to_value(&self) -> Value {
        Value::Seq(vec![
            self.a.as_ref().map(|x| x.to_value()),
            Some(self.p.to_value()),
        ])
    }
}
impl FromValue for Tsp1p5 {
    fn from_value(v: &Value) -> Self {
        let s = match v { Value::Seq(s) => s, other => panic!("Tsp1p5: expected Seq, got {other:?}") };
        assert_eq!(s.len(), 2, "Tsp1p5: component count");
        let _ = s;
        Tsp1p5 {
            a: s[0].as_ref().map(FromValue::from_value),
            b: s[1].as_ref().map(FromValue::from_value),
        }
    }
}
impl ToValue for Tsp1p5 {
    fn to_value(&self) -> Value {
        Value::Seq(vec![
            self.a.as_ref().map(|x| x.to_value()),
            self.b.as_ref().map(|x| x.to_value()),
        ])
    }
}
impl FromValue for Tsp1p6 {
    fn from_value(v: &Value) -> Self {
        let s = match v { Value::Seq(s) => s, other => panic!("Tsp1p6: expected Seq, got {other:?}") };
        assert_eq!(s.len(), 2, "Tsp1p6: component count");
        let _ = s;
        Tsp1p6 {
            a: s[0].as_ref().map(FromValue::from_value),
            i: FromValue::from_value(s[1].as_ref().expect("component i of Tsp1p6 must be present")),
        }
    }
}
impl ToValue for Tsp1p6 {
    fn to_value(&self) -> Value {
        Value::Seq(vec![
            self.a.as_ref().map(|x| x.to_value()),
            Some(self.i.to_value()),
        ])
    }
}
impl FromValue for Tsp1p7 {
    fn from_value(v: &Value) -> Self {
        let s = match v { Value::Seq(s) => s, other => panic!("Tsp1p7: expected Seq, got {other:?}") };
        assert_eq!(s.len(), 2, "Tsp1p7: component count");
        let _ = s;
        Tsp1p7 {
            a: s[0].as_ref().map(FromValue::from_value),
            ra: s[1].as_ref().map(FromValue::from_value),
        }
    }
}
impl ToValue for Tsp1p7 {
    fn to_value(&self) -> Value {
        Value::Seq(vec![
            self.a.as_ref().map(|x| x.to_value()),
            self.ra.as_ref().map(|x| x.to_value()),
        ])
    }
}
impl FromValue for Tsp1p8 {
    fn from_value(v: &Value) -> Self {
        let s = match v { Value::Seq(s) => s, other => panic!("Tsp1p8: expected Seq, got {other:?}") };
        assert_eq!(s.len(), 2, "Tsp1p8: component count");
        let _ = s;
        Tsp1p8 {
            a: s[0].as_ref().map(FromValue::from_value),
            rs: FromValue::from_value(s[1].as_ref().expect("component rs of Tsp1p8 must be present")),
        }
    }
}
impl ToValue for Tsp1p8 {
    fn to_value(&self) -> Value {
        Value::Seq(vec![
            self.a.as_ref().map(|x| x.to_value()),
            Some(self.rs.to_value()),
        ])
    }
}
impl FromValue for Tsp1p9 {
    fn from_value(v: &Value) -> Self {
        let s = match v { Value::Seq(s) => s, other => panic!("Tsp1p9: expected Seq, got {other:?}") };
        assert_eq!(s.len(), 2, "Tsp1p9: component count");
        let _ = s;
        Tsp1p9 {
            a: s[0].as_ref().map(FromValue::from_value),
            rc: s[1].as_ref().map(FromValue::from_value),
        }
    }
}
impl ToValue for Tsp1p9 {
    fn to_value(&self) -> Value {
        Value::Seq(vec![
            self.a.as_ref().map(|x| x.to_value()),
            self.rc.as_ref().map(|x| x.to_value()),
        ])
    }
}
impl FromValue for Tsp1p10 {
    fn from_value(v: &Value) -> Self {
        let s = match v { Value::Seq(s) => s, other => panic!("Tsp1p10: expected Seq, got {other:?}") };
        assert_eq!(s.len(), 2, "Tsp1p10: component count");
        let _ = s;
        Tsp1p10 {
            a: s[0].as_ref().map(FromValue::from_value),
            rt: FromValue::from_value(s[1].as_ref().expect("component rt of Tsp1p10 must be present")),
        }
    }
}
impl ToValue for Tsp1p10 {
    fn to_value(&self) -> Value {
        Value::Seq(vec![
            self.a.as_ref().map(|x| x.to_value()),
            Some(self.rt.to_value()),
        ])
    }
}
impl FromValue for Tsp1p11 {
    fn from_value(v: &Value) -> Self {
        let s = match v { Value::Seq(s) => s, other => panic!("Tsp1p11: expected Seq, got {other:?}") };
        assert_eq!(s.len(), 2, "Tsp1p11: component count");
        let _ = s;
        Tsp1p11 {
            a: s[0].as_ref().map(FromValue::from_value),
            so: s[1].as_ref().map(FromValue::from_value),
        }
    }
}
impl ToValue for Tsp1p11 {
    fn to_value(&self) -> Value {
        Value::Seq(vec![
            self.a.as_ref().map(|x| x.to_value()),
            self.so.as_ref().map(|x| x.to_value()),
        ])
    }
}
impl FromValue for Tsp1p12 {
    fn from_value(v: &Value) -> Self {
        let s = match v { Value::Seq(s) => s, other => panic!("Tsp1p12: expected Seq, got {other:?}") };
        assert_eq!(s.len(), 2, "Tsp1p12: component count");
        let _ = s;
        Tsp1p12 {
            a: s[0].as_ref().map(FromValue::from_value),
            st: FromValue::from_value(s[1].as_ref().expect("component st of Tsp1p12 must be present")),
        }
    }
}
impl ToValue for Tsp1p12 {
    fn to_value(&self) -> Value {
        Value::Seq(vec![
            self.a.as_ref().map(|x| x.to_value()),
            Some(self.st.to_value()),
        ])
    }
}
impl FromValue for Tsp1p13 {
    fn from_value(v: &Value) -> Self {
        let s = match v { Value::Seq(s) => s, other => panic!("Tsp1p13: expected Seq, got {other:?}") };
        assert_eq!(s.len(), 2, "Tsp1p13: component count");
        let _ = s;
        Tsp1p13 {
            a: s[0].as_ref().map(FromValue::from_value),
            rx: s[1].as_ref().map(FromValue::from_value),
        }
    }
}
impl ToValue for Tsp1p13 {
    fn to_value(&self) -> Value {
        Value::Seq(vec![
            self.a.as_ref().map(|x| x.to_value()),
            self.rx.as_ref().map(|x| x.to_value()),
        ])
    }
}
impl FromValue for Tsp1p14 {
    fn from_value(v: &Value) -> Self {
        let s = match v { Value::Seq(s) => s, other => panic!("Tsp1p14: expected Seq, got {other:?}") };
        assert_eq!(s.len(), 2, "Tsp1p14: component count");
        let _ = s;
        Tsp1p14 {
            a: s[0].as_ref().map(FromValue::from_value),
            u2: FromValue::from_value(s[1].as_ref().expect("component u2 of Tsp1p14 must be present")),
        }
    }
}
impl ToValue for Tsp1p14 {
    fn to_value(&self) -> Value {
        Value::Seq(vec![
            self.a.as_ref().map(|x| x.to_value()),
            Some(self.u2.to_value()),
        ])
    }
}
impl FromValue for Tsp1p15Is {
    fn from_value(v: &Value) -> Self {
        let s = match v { Value::Seq(s) => s, other => panic!("Tsp1p15Is: expected Seq, got {other:?}") };
        assert_eq!(s.len(), 1, "Tsp1p15Is: component count");
        let _ = s;
        Tsp1p15Is {
            v: FromValue::from_value(s[0].as_ref().expect("component v of Tsp1p15Is must be present")),
        }
    }
}
impl ToValue for Tsp1p15Is {
    fn to_value(&self) -> Value {
        Value::Seq(vec![
            Some(self.v.to_value()),
        ])
    }
}
impl FromValue for Tsp1p15 {
    fn from_value(v: &Value) -> Self {
        let s = match v { Value::Seq(s) => s, other => panic!("Tsp1p15: expected Seq, got {other:?}") };
        assert_eq!(s.len(), 2, "Tsp1p15: component count");
        let _ = s;
        Tsp1p15 {
            a: s[0].as_ref().map(FromValue::from_value),
            is: s[1].as_ref().map(FromValue::from_value),
        }
    }
}
impl ToValue for Tsp1p15 {
    fn to_value(&self) -> Value {
        Value::Seq(vec![
            self.a.as_ref().map(|x| x.to_value()),
            self.is.as_ref().map(|x| x.to_value()),
        ])
    }
}
impl FromValue for Tsp2p0 {
    fn from_value(v: &Value) -> Self {
        let s = match v { Value::Seq(s) => s, other => panic!("Tsp2p0: expected Seq, got {other:?}") };
        assert_eq!(s.len(), 2, "Tsp2p0: component count");
        let _ = s;
        Tsp2p0 {
            c3: FromValue::from_value(s[0].as_ref().expect("component c3 of Tsp2p0 must be present")),
            x: FromValue::from_value(s[1].as_ref().expect("component x of Tsp2p0 must be present")),
        }
    }
}
impl ToValue for Tsp2p0 {
    fn to_value(&self) -> Value {
        Value::Seq(vec![
            Some(self.c3.to_value()),
            Some(self.x.to_value()),
        ])
    }
}
impl FromValue for Tsp2p1 {
    fn from_value(v: &Value) -> Self {
        let s = match v { Value::Seq(s) => s, other => panic!("Tsp2p1: expected Seq, got {other:?}") };
        assert_eq!(s.len(), 2, "Tsp2p1: component count");
        let _ = s;
        Tsp2p1 {
            c3: FromValue::from_value(s[0].as_ref().expect("component c3 of Tsp2p1 must be present")),
            a: s[1].as_ref().map(FromValue::from_value),
        }
    }
}
impl ToValue for Tsp2p1 {
    fn to_value(&self) -> Value {
        Value::Seq(vec![
            Some(self.c3.to_value()),
            self.a.as_ref().map(|x| x.to_value()),
        ])
    }
}
impl FromValue for Tsp2p3 {
    fn from_value(v: &Value) -> Self {
        let s = match v { Value::Seq(s) => s, other => panic!("Tsp2p3: expected Seq, got {other:?}") };
        assert_eq!(s.len(), 2, "Tsp2p3: component count");
        let _ = s;
        Tsp2p3 {
            c3: FromValue::from_value(s[0].as_ref().expect("component c3 of Tsp2p3 must be present")),
            c0: s[1].as_ref().map(FromValue::from_value),
        }
    }
}
impl ToValue for Tsp2p3 {
    fn to_value(&self) -> Value {
        Value::Seq(vec![
            Some(self.c3.to_value()),
            self.c0.as_ref().map(|x| x.to_value()),
        ])
    }
}
impl FromValue for Tsp2p4 {
    fn from_value(v: &Value) -> Self {
        let s = match v { Value::Seq(s) => s, other => panic!("Tsp2p4: expected Seq, got {other:?}") };
        assert_eq!(s.len(), 2, "Tsp2p4: component count");
        let _ = s;
        Tsp2p4 {
            c3: FromValue::from_value(s[0].as_ref().expect("component c3 of Tsp2p4 must be present")),
            p: FromValue::from_value(s[1].as_ref().expect("component p of Tsp2p4 must be present")),
        }
    }
}
impl ToValue for Tsp2p4 {
    fn to_value(&self) -> Value {
        Value::Seq(vec![
            Some(self.c3.to_value()),
            Some(self.p.to_value()),
        ])
    }
}
impl FromValue for Tsp2p5 {
    fn from_value(v: &Value) -> Self {
        let s = match v { Value::Seq(s) => s, other => panic!("Tsp2p5: expected Seq, got {other:?}") };
        assert_eq!(s.len(), 2, "Tsp2p5: component count");
        let _ = s;
        Tsp2p5 {
            c3: FromValue::from_value(s[0].as_ref().expect("component c3 of Tsp2p5 must be present")),
            b: s[1].as_ref().map(FromValue::from_value),
        }
    }
}
impl ToValue for Tsp2p5 {
    fn to_value(&self) -> Value {
        Value::Seq(vec![
            Some(self.c3.to_value()),
            self.b.as_ref().map(|x| x.to_value()),
        ])
    }
}
impl FromValue for Tsp2p6 {
    fn from_value(v: &Value) -> Self {
        let s = match v { Value::Seq(s) => s, other => panic!("Tsp2p6: expected Seq, got {other:?}") };
        assert_eq!(s.len(), 2, "Tsp2p6: component count");
        let _ = s;
        Tsp2p6 {
            c3: FromValue::from_value(s[0].as_ref().expect("component c3 of Tsp2p6 must be present")),
            i: FromValue::from_value(s[1].as_ref().expect("component i of Tsp2p6 must be present")),
        }
    }
}
impl ToValue for Tsp2p6 {
    fn to_value(&self) -> Value {
        Value::Seq(vec![
            Some(self.c3.to_value()),
            Some(self.i.to_value()),
        ])
    }
}
impl FromValue for Tsp2p7 {
    fn from_value(v: &Value) -> Self {
        let s = match v { Value::Seq(s) => s, other => panic!("Tsp2p7: expected Seq, got {other:?}") };
        assert_eq!(s.len(), 2, "Tsp2p7: component count");
        let _ = s;
        Tsp2p7 {
            c3: FromValue::from_value(s[0].as_ref().expect("component c3 of Tsp2p7 must be present")),
            ra: s[1].as_ref().map(FromValue::from_value),
        }
    }
}
impl ToValue for Tsp2p7 {
    fn to_value(&self) -> Value {
        Value::Seq(vec![
            Some(self.c3.to_value()),
            self.ra.as_ref().map(|x| x.to_value()),
        ])
    }
}
impl FromValue for Tsp2p8 {
    fn from_value(v: &Value) -> Self {
        let s = match v { Value::Seq(s) => s, other => panic!("Tsp2p8: expected Seq, got {other:?}") };
        assert_eq!(s.len(), 2, "Tsp2p8: component count");
        let _ = s;
        Tsp2p8 {
            c3: FromValue::from_value(s[0].as_ref().expect("component c3 of Tsp2p8 must be present")),
            rs: FromValue::from_value(s[1].as_ref().expect("component rs of Tsp2p8 must be present")),
        }
    }
}
impl ToValue for Tsp2p8 {
    fn to_value(&self) -> Value {
        Value::Seq(vec![
            Some(self.c3.to_value()),
            Some(self.rs.to_value()),
        ])
    }
}
impl FromValue for Tsp2p9 {
    fn from_value(v: &Value) -> Self {
        let s = match v { Value::Seq(s) => s, other => panic!("Tsp2p9: expected Seq, got {other:?}") };
        assert_eq!(s.len(), 2, "Tsp2p9: component count");
        let _ = s;
        Tsp2p9 {
            c3: FromValue::from_value(s[0].as_ref().expect("component c3 of Tsp2p9 must be present")),
            rc: s[1].as_ref().map(FromValue::from_value),
        }
    }
}
impl ToValue for Tsp2p9 {
    fn to_value(&self) -> Value {
        Value::Seq(vec![
            Some(self.c3.to_value()),
            self.rc.as_ref().map(|x| x.to_value()),
        ])
    }
}
impl FromValue for Tsp2p10 {
    fn from_value(v: &Value) -> Self {
        let s = match v { Value::Seq(s) => s, other => panic!("Tsp2p10: expected Seq, got {other:?}") };
        assert_eq!(s.len(), 2, "Tsp2p10: component count");
        let _ = s;
        Tsp2p10 {
            c3: FromValue::from_value(s[0].as_ref().expect("component c3 of Tsp2p10 must be present")),
            rt: FromValue::from_value(s[1].as_ref().expect("component rt of Tsp2p10 must be present")),
        }
    }
}
impl ToValue for Tsp2p10 {
    fn to_value(&self) -> Value {
        Value::Seq(vec![
            Some(self.c3.to_value()),
            Some(self.rt.to_value()),
        ])
    }
}
impl FromValue for Tsp2p11 {
    fn from_value(v: &Value) -> Self {
        let s = match v { Value::Seq(s) => s, other => panic!("Tsp2p11: expected Seq, got {other:?}") };
        assert_eq!(s.len(), 2, "Tsp2p11: component count");
        let _ = s;
        Tsp2p11 {
            c3: FromValue::from_value(s[0].as_ref().expect("component c3 of Tsp2p11 must be present")),
            so: s[1].as_ref().map(FromValue::from_value),
        }
    }
}
impl ToValue for Tsp2p11 {
    fn to_value(&self) -> Value {
        Value::Seq(vec![
            Some(self.c3.to_value()),
            self.so.as_ref().map(|x| x.to_value()),
        ])
    }
}
impl FromValue for Tsp2p12 {
    fn from_value(v: &Value) -> Self {
        let s = match v { Value::Seq(s) => s, other => panic!("Tsp2p12: expected Seq, got {other:?}") };
        assert_eq!(s.len(), 2, "Tsp2p12: component count");
        let _ = s;
        Tsp2p12 {
            c3: FromValue::from_value(s[0].as_ref().expect("component c3 of Tsp2p12 must be present")),
            st: FromValue::from_value(s[1].as_ref().expect("component st of Tsp2p12 must be present")),
        }
    }
}
impl ToValue for Tsp2p12 {
    fn to_value(&self) -> Value {
        Value::Seq(vec![
            Some(self.c3.to_value()),
            Some(self.st.to_value()),
        ])
    }
}
impl FromValue for Tsp2p13 {
    fn from_value(v: &Value) -> Self {
        let s = match v { Value::Seq(s) => s, other => panic!("Tsp2p13: expected Seq, got {other:?}") };
        assert_eq!(s.len(), 2, "Tsp2p13: component count");
        let _ = s;
        Tsp2p13 {
            c3: FromValue::from_value(s[0].as_ref().expect("component c3 of Tsp2p13 must be present")),
            rx: s[1].as_ref().map(FromValue::from_value),
        }
    }
}
impl ToValue for Tsp2p13 {
    fn to_value(&self) -> Value {
        Value::Seq(vec![
            Some(self.c3.to_value()),
            self.rx.as_ref().map(|x| x.to_value()),
        ])
    }
}
impl FromValue for Tsp2p14 {
    fn from_value(v: &Value) -> Self {
        let s = match v { Value::Seq(s) => s, other => panic!("Tsp2p14: expected Seq, got {other:?}") };
        assert_eq!(s.len(), 2, "Tsp2p14: component count");
        let _ = s;
        Tsp2p14 {
            c3: FromValue::from_value(s[0].as_ref().expect("component c3 of Tsp2p14 must be present")),
            u2: FromValue::from_value(s[1].as_ref().expect("component u2 of Tsp2p14 must be present")),
        }
    }
}
impl ToValue for Tsp2p14 {
    fn to_value(&self) -> Value {
        Value::Seq(vec![
            Some(self.c3.to_value()),
            Some(self.u2.to_value()),
        ])
    }
}
impl FromValue for Tsp2p15Is {
    fn from_value(v: &Value) -> Self {
        let s = match v { Value::Seq(s) => s, other => panic!("Tsp2p15Is: expected Seq, got {other:?}") };
        assert_eq!(s.len(), 1, "Tsp2p15Is: component count");
        let _ = s;
        Tsp2p15Is {
            v: FromValue::from_value(s[0].as_ref().expect("component v of Tsp2p15Is must be present")),
        }
    }
}
impl ToValue for Tsp2p15Is {
    fn to_value(&self) -> Value {
        Value::Seq(vec![
            Some(self.v.to_value()),
        ])
    }
}
impl FromValue for Tsp2p15 {
    fn from_value(v: &Value) -> Self {
        let s = match v { Value::Seq(s) => s, other => panic!("Tsp2p15: expected Seq, got {other:?}") };
        assert_eq!(s.len(), 2, "Tsp2p15: component count");
        let _ = s;
        Tsp2p15 {
            c3: FromValue::from_value(s[0].as_ref().expect("component c3 of Tsp2p15 must be present")),
            is: s[1].as_ref().map(FromValue::from_value),
        }
    }
}
impl ToValue for Tsp2p15 {
    fn to_value(&self) -> Value {
        Value::Seq(vec![
            Some(self.c3.to_value()),
            self.is.as_ref().map(|x| x.to_value()),
        ])
    }
}
impl FromValue for Tsp3p0 {
    fn from_value(v: &Value) -> Self {
        let s = match v { Value::Seq(s) => s, other => panic!("Tsp3p0: expected Seq, got {other:?}") };
        assert_eq!(s.len(), 2, "Tsp3p0: component count");
        let _ = s;
        Tsp3p0 {
            c0: s[0].as_ref().map(FromValue::from_value),
            x: FromValue::from_value(s[1].as_ref().expect("component x of Tsp3p0 must be present")),
        }
    }
}
impl ToValue for Tsp3p0 {
    fn to_value(&self) -> Value {
        Value::Seq(vec![
            self.c0.as_ref().map(|x| x.to_value()),
            Some(self.x.to_value()),
        ])
    }
}
impl FromValue for Tsp3p1 {
    fn from_value(v: &Value) -> Self {
        let s = match v { Value::Seq(s) => s, other => panic!("Tsp3p1: expected Seq, got {other:?}") };
        assert_eq!(s.len(), 2, "Tsp3p1: component count");
        let _ = s;
        Tsp3p1 {
            c0: s[0].as_ref().map(FromValue::from_value),
            a: s[1].as_ref().map(FromValue::from_value),
        }
    }
}
impl ToValue for Tsp3p1 {
    fn to_value(&self) -> Value {
        Value::Seq(vec![
            self.c0.as_ref().map(|x| x.to_value()),
            self.a.as_ref().map(|x| x.to_value()),
        ])
    }
}
impl FromValue for Tsp3p2 {
    fn from_value(v: &Value) -> Self {
        let s = match v { Value::Seq(s) => s, other => panic!("Tsp3p2: expected Seq, got {other:?}") };
        assert_eq!(s.len(), 2, "Tsp3p2: component count");
        let _ = s;
        Tsp3p2 {
            c0: s[0].as_ref().map(FromValue::from_value),
            c3: FromValue::from_value(s[1].as_ref().expect("component c3 of Tsp3p2 must be present")),
        }
    }
}
impl ToValue for Tsp3p2 {
    fn to_value(&self) -> Value {
        Value::Seq(vec![
            self.c0.as_ref().map(|x| x.to_value()),
            Some(self.c3.to_value()),
        ])
    }
}
impl FromValue for Tsp3p4 {
    fn from_value(v: &Value) -> Self {
        let s = match v { Value::Seq(s) => s, other => panic!("Tsp3p4: expected Seq, got {other:?}") };
        assert_eq!(s.len(), 2, "Tsp3p4: component count");
        let _ = s;
        Tsp3p4 {
            c0: s[0].as_ref().map(FromValue::from_value),
            p: FromValue::from_value(s[1].as_ref().expect("component p of Tsp3p4 must be present")),
        }
    }
}
impl ToValue for Tsp3p4 {
    fn to_value(&self) -> Value {
        Value::Seq(vec![
            self.c0.as_ref().map(|x| x.to_value()),
            Some(self.p.to_value()),
        ])
    }
}
impl FromValue for Tsp3p5 {
    fn from_value(v: &Value) -> Self {
        let s = match v { Value::Seq(s) => s, other => panic!("Tsp3p5: expected Seq, got {other:?}") };
        assert_eq!(s.len(), 2, "Tsp3p5: component count");
        let _ = s;
        Tsp3p5 {
            c0: s[0].as_ref().map(FromValue::from_value),
            b: s[1].as_ref().map(FromValue::from_value),
        }
    }
}
impl ToValue for Tsp3p5 {
    fn to_value(&self) -> Value {
        Value::Seq(vec![
            self.c0.as_ref().map(|x| x.to_value()),
            self.b.as_ref().map(|x| x.to_value()),
        ])
    }
}
impl FromValue for Tsp3p6 {
    fn from_value(v: &Value) -> Self {
        let s = match v { Value::Seq(s) => s, other => panic!("Tsp3p6: expected Seq, got {other:?}") };
        assert_eq!(s.len(), 2, "Tsp3p6: component count");
        let _ = s;
        Tsp3p6 {
            c0: s[0].as_ref().map(FromValue::from_value),
            i: FromValue::from_value(s[1].as_ref().expect("component i of Tsp3p6 must be present")),
        }
    }
}
impl ToValue for Tsp3p6 {
    fn to_value(&self) -> Value {
        Value::Seq(vec![
            self.c0.as_ref().map(|x| x.to_value()),
            Some(self.i.to_value()),
        ])
    }
}
impl FromValue for Tsp3p7 {
    fn from_value(v: &Value) -> Self {
        let s = match v { Value::Seq(s) => s, other => panic!("Tsp3p7: expected Seq, got {other:?}") };
        assert_eq!(s.len(), 2, "Tsp3p7: component count");
        let _ = s;
        Tsp3p7 {
            c0: s[0].as_ref().map(FromValue::from_value),
            ra: s[1].as_ref().map(FromValue::from_value),
        }
    }
}
impl ToValue for Tsp3p7 {
    fn to_value(&self) -> Value {
        Value::Seq(vec![
            self.c0.as_ref().map(|x| x.to_value()),
            self.ra.as_ref().map(|x| x.to_value()),
        ])
    }
}
impl FromValue for Tsp3p8 {
    fn from_value(v: &Value) -> Self {
        let s = match v { Value::Seq(s) => s, other => panic!("Tsp3p8: expected Seq, got {other:?}") };
        assert_eq!(s.len(), 2, "Tsp3p8: component count");
        let _ = s;
        Tsp3p8 {
            c0: s[0].as_ref().map(FromValue::from_value),
            rs: FromValue::from_value(s[1].as_ref().expect("component rs of Tsp3p8 must be present")),
        }
    }
}
impl ToValue for Tsp3p8 {
    fn to_value(&self) -> Value {
        Value::Seq(vec![
            self.c0.as_ref().map(|x| x.to_value()),
            Some(self.rs.to_value()),
        ])
    }
}
impl FromValue for Tsp3p9 {
    fn from_value(v: &Value) -> Self {
        let s = match v { Value::Seq(s) => s, other => panic!("Tsp3p9: expected Seq, got {other:?}") };
        assert_eq!(s.len(), 2, "Tsp3p9: component count");
        let _ = s;
        Tsp3p9 {
            c0: s[0].as_ref().map(FromValue::from_value),
            rc: s[1].as_ref().map(FromValue::from_value),
        }
    }
}
impl ToValue for Tsp3p9 {
    fn to_value(&self) -> Value {
        Value::Seq(vec![
            self.c0.as_ref().map(|x| x.to_value()),
            self.rc.as_ref().map(|x| x.to_value()),
        ])
    }
}
impl FromValue for Tsp3p10 {
    fn from_value(v: &Value) -> Self {
        let s = match v { Value::Seq(s) => s, other => panic!("Tsp3p10: expected Seq, got {other:?}") };
        assert_eq!(s.len(), 2, "Tsp3p10: component count");
        let _ = s;
        Tsp3p10 {
            c0: s[0].as_ref().map(FromValue::from_value),
            rt: FromValue::from_value(s[1].as_ref().expect("component rt of Tsp3p10 must be present")),
        }
    }
}
impl ToValue for Tsp3p10 {
    fn to_value(&self) -> Value {
        Value::Seq(vec![
            self.c0.as_ref().map(|x| x.to_value()),
            Some(self.rt.to_value()),
        ])
    }
}
impl FromValue for Tsp3p11 {
    fn from_value(v: &Value) -> Self {
        let s = match v { Value::Seq(s) => s, other => panic!("Tsp3p11: expected Seq, got {other:?}") };
        assert_eq!(s.len(), 2, "Tsp3p11: component count");
        let _ = s;
        Tsp3p11 {
            c0: s[0].as_ref().map(FromValue::from_value),
            so: s[1].as_ref().map(FromValue::from_value),
        }
    }
}
impl ToValue for Tsp3p11 {
    fn to_value(&self) -> Value {
        Value::Seq(vec![
            self.c0.as_ref().map(|x| x.to_value()),
            self.so.as_ref().map(|x| x.to_value()),
        ])
    }
}
impl FromValue for Tsp3p12 {
    fn from_value(v: &Value) -> Self {
        let s = match v { Value::Seq(s) => s, other => panic!("Tsp3p12: expected Seq, got {other:?}") };
        assert_eq!(s.len(), 2, "Tsp3p12: component count");
        let _ = s;
        Tsp3p12 {
            c0: s[0].as_ref().map(FromValue::from_value),
            st: FromValue::from_value(s[1].as_ref().expect("component st of Tsp3p12 must be present")),
        }
    }
}
impl ToValue for Tsp3p12 {
    fn to_value(&self) -> Value {
        Value::Seq(vec![
            self.c0.as_ref().map(|x| x.to_value()),
            Some(self.st.to_value()),
        ])
    }
}
impl FromValue for Tsp3p13 {
    fn from_value(v: &Value) -> Self {
        let s = match v { Value::Seq(s) => s, other => panic!("Tsp3p13: expected Seq, got {other:?}") };
        assert_eq!(s.len(), 2, "Tsp3p13: component count");
        let _ = s;
        Tsp3p13 {
            c0: s[0].as_ref().map(FromValue::from_value),
            rx: s[1].as_ref().map(FromValue::from_value),
        }
    }
}
impl ToValue for Tsp3p13 {
    fn to_value(&self) -> Value {
        Value::Seq(vec![
            self.c0.as_ref().map(|x| x.to_value()),
            self.rx.as_ref().map(|x| x.to_value()),
        ])
    }
}
impl FromValue for Tsp3p14 {
    fn from_value(v: &Value) -> Self {
        let s = match v { Value::Seq(s) => s, other => panic!("Tsp3p14: expected Seq, got {other:?}") };
        assert_eq!(s.len(), 2, "Tsp3p14: component count");
        let _ = s;
        Tsp3p14 {
            c0: s[0].as_ref().map(FromValue::from_value),
            u2: FromValue::from_value(s[1].as_ref().expect("component u2 of Tsp3p14 must be present")),
        }
    }
}
impl ToValue for Tsp3p14 {
    fn to_value(&self) -> Value {
        Value::Seq(vec![
            self.c0.as_ref().map(|x| x.to_value()),
            Some(self.u2.to_value()),
        ])
    }
}
impl FromValue for Tsp3p15Is {
    fn from_value(v: &Value) -> Self {
        let s = match v { Value::Seq(s) => s, other => panic!("Tsp3p15Is: expected Seq, got {other:?}") };
        assert_eq!(s.len(), 1, "Tsp3p15Is: component count");
        let _ = s;
        Tsp3p15Is {
            v: FromValue::from_value(s[0].as_ref().expect("component v of Tsp3p15Is must be present")),
        }
    }
}
impl ToValue for Tsp3p15Is {
    fn to_value(&self) -> Value {
        Value::Seq(vec![
            Some(self.v.to_value()),
        ])
    }
}
impl FromValue for Tsp3p15 {
    fn from_value(v: &Value) -> Self {
        let s = match v { Value::Seq(s) => s, other => panic!("Tsp3p15: expected Seq, got {other:?}") };
        assert_eq!(s.len(), 2, "Tsp3p15: component count");
        let _ = s;
        Tsp3p15 {
            c0: s[0].as_ref().map(FromValue::from_value),
            is: s[1].as_ref().map(FromValue::from_value),
        }
    }
}
impl ToValue for Tsp3p15 {
    fn to_value(&self) -> Value {
        Value::Seq(vec![
            self.c0.as_ref().map(|x| x.to_value()),
            self.is.as_ref().map(|x| x.to_value()),
        ])
    }
}
impl FromValue for Tsp4p0 {
    fn from_value(v: &Value) -> Self {
        let s = match v { Value::Seq(s) => s, other => panic!("Tsp4p0: expected Seq, got {other:?}") };
        assert_eq!(s.len(), 2, "Tsp4p0: component count");
        let _ = s;
        Tsp4p0 {
            p: FromValue::from_value(s[0].as_ref().expect("component p of Tsp4p0 must be present")),
            x: FromValue::from_value(s[1].as_ref().expect("component x of Tsp4p0 must be present")),
        }
    }
}
impl ToValue for Tsp4p0 {
    fn to_value(&self) -> Value {
        Value::Seq(vec![
            Some(self.p.to_value()),
            Some(self.x.to_value()),
        ])
    }
}
impl FromValue for Tsp4p1 {
    fn from_value(v: &Value) -> Self {
        let s = match v { Value::Seq(s) => s, other => panic!("Tsp4p1: expected Seq, got {other:?}") };
        assert_eq!(s.len(), 2, "Tsp4p1: component count");
        let _ = s;
        Tsp4p1 {
            p: FromValue::from_value(s[0].as_ref().expect("component p of Tsp4p1 must be present")),
            a: s[1].as_ref().map(FromValue::from_value),
        }
    }
}
impl ToValue for Tsp4p1 {
    fn to_value(&self) -> Value {
        Value::Seq(vec![
            Some(self.p.to_value()),
            self.a.as_ref().map(|x| x.to_value()),
        ])
    }
}
impl FromValue for Tsp4p2 {
    fn from_value(v: &Value) -> Self {
        let s = match v { Value::Seq(s) => s, other => panic!("Tsp4p2: expected Seq, got {other:?}") };
        assert_eq!(s.len(), 2, "Tsp4p2: component count");
        let _ = s;
        Tsp4p2 {
            p: FromValue::from_value(s[0].as_ref().expect("component p of Tsp4p2 must be present")),
            c3: FromValue::from_value(s[1].as_ref().expect("component c3 of Tsp4p2 must be present")),
        }
    }
}
impl ToValue for Tsp4p2 {
    fn to_value(&self) -> Value {
        Value::Seq(vec![
            Some(self.p.to_value()),
            Some(self.c3.to_value()),
        ])
    }
}
impl FromValue for Tsp4p3 {
    fn from_value(v: &Value) -> Self {
        let s = match v { Value::Seq(s) => s, other => panic!("Tsp4p3: expected Seq, got {other:?}") };
        assert_eq!(s.len(), 2, "Tsp4p3: component count");
        let _ = s;
        Tsp4p3 {
            p: FromValue::from_value(s[0].as_ref().expect("component p of Tsp4p3 must be present")),
            c0: s[1].as_ref().map(FromValue::from_value),
        }
    }
}
impl ToValue for Tsp4p3 {
    fn to_value(&self) -> Value {
        Value::Seq(vec![
            Some(self.p.to_value()),
            self.c0.as_ref().map(|x| x.to_value()),
        ])
    }
}
impl FromValue for Tsp4p5 {
    fn from_value(v: &Value) -> Self {
        let s = match v { Value::Seq(s) => s, other => panic!("Tsp4p5: expected Seq, got {other:?}") };
        assert_eq!(s.len(), 2, "Tsp4p5: component count");
        let _ = s;
        Tsp4p5 {
            p: FromValue::from_value(s[0].as_ref().expect("component p of Tsp4p5 must be present")),
            b: s[1].as_ref().map(FromValue::from_value),
        }
    }
}
impl ToValue for Tsp4p5 {
    fn to_value(&self) -> Value {
        Value::Seq(vec![
            Some(self.p.to_value()),
            self.b.as_ref().map(|x| x.to_value()),
        ])
    }
}
impl FromValue for Tsp4p6 {
    fn from_value(v: &Value) -> Self {
        let s = match v { Value::Seq(s) => s, other => panic!("Tsp4p6: expected Seq, got {other:?}") };
        assert_eq!(s.len(), 2, "Tsp4p6: component count");
        let _ = s;
        Tsp4p6 {
            p: FromValue::from_value(s[0].as_ref().expect("component p of Tsp4p6 must be present")),
            i: FromValue::from_value(s[1].as_ref().expect("component i of Tsp4p6 must be present")),
        }
    }
}
impl ToValue for Tsp4p6 {
    fn to_value(&self) -> Value {
        Value::Seq(vec![
            Some(self.p.to_value()),
            Some(self.i.to_value()),
        ])
    }
}
impl FromValue for Tsp4p7 {
    fn from_value(v: &Value) -> Self {
        let s = match v { Value::Seq(s) => s, other => panic!("Tsp4p7: expected Seq, got {other:?}") };
        assert_eq!(s.len(), 2, "Tsp4p7: component count");
        let _ = s;
        Tsp4p7 {
            p: FromValue::from_value(s[0].as_ref().expect("component p of Tsp4p7 must be present")),
            ra: s[1].as_ref().map(FromValue::from_value),
        }
    }
}
impl ToValue for Tsp4p7 {
    fn to_value(&self) -> Value {
        Value::Seq(vec![
            Some(self.p.to_value()),
            self.ra.as_ref().map(|x| x.to_value()),
        ])
    }
}
impl FromValue for Tsp4p8 {
    fn from_value(v: &Value) -> Self {
        let s = match v { Value::Seq(s) => s, other => panic!("Tsp4p8: expected Seq, got {other:?}") };
        assert_eq!(s.len(), 2, "Tsp4p8: component count");
        let _ = s;
        Tsp4p8 {
            p: FromValue::from_value(s[0].as_ref().expect("component p of Tsp4p8 must be present")),
            rs: FromValue::from_value(s[1].as_ref().expect("component rs of Tsp4p8 must be present")),
        }
    }
}
impl ToValue for Tsp4p8 {
    fn to_value(&self) -> Value {
        Value::Seq(vec![
            Some(self.p.to_value()),
            Some(self.rs.to_value()),
        ])
    }
}
impl FromValue for Tsp4p9 {
    fn from_value(v: &Value) -> Self {
        let s = match v { Value::Seq(s) => s, other => panic!("Tsp4p9: expected Seq, got {other:?}") };
        assert_eq!(s.len(), 2, "Tsp4p9: component count");
        let _ = s;
        Tsp4p9 {
            p: FromValue::from_value(s[0].as_ref().expect("component p of Tsp4p9 must be present")),
            rc: s[1].as_ref().map(FromValue::from_value),
        }
    }
}
impl ToValue for Tsp4p9 {
    fn to_value(&self) -> Value {
        Value::Seq(vec![
            Some(self.p.to_value()),
            self.rc.as_ref().map(|x| x.to_value()),
        ])
    }
}
impl FromValue for Tsp4p10 {
    fn from_value(v: &Value) -> Self {
        let s = match v { Value::Seq(s) => s, other => panic!("Tsp4p10: expected Seq, got {other:?}") };
        assert_eq!(s.len(), 2, "Tsp4p10: component count");
        let _ = s;
        Tsp4p10 {
            p: FromValue::from_value(s[0].as_ref().expect("component p of Tsp4p10 must be present")),
            rt: FromValue::from_value(s[1].as_ref().expect("component rt of Tsp4p10 must be present")),
        }
    }
}
impl ToValue for Tsp4p10 {
    fn to_value(&self) -> Value {
        Value::Seq(vec![
            Some(self.p.to_value()),
            Some(self.rt.to_value()),
        ])
    }
}
impl FromValue for Tsp4p11 {
    fn from_value(v: &Value) -> Self {
        let s = match v { Value::Seq(s) => s, other => panic!("Tsp4p11: expected Seq, got {other:?}") };
        assert_eq!(s.len(), 2, "Tsp4p11: component count");
        let _ = s;
        Tsp4p11 {
            p: FromValue::from_value(s[0].as_ref().expect("component p of Tsp4p11 must be present")),
            so: s[1].as_ref().map(FromValue::from_value),
        }
    }
}
impl ToValue for Tsp4p11 {
    fn to_value(&self) -> Value {
        Value::Seq(vec![
            Some(self.p.to_value()),
            self.so.as_ref().map(|x| x.to_value()),
        ])
    }
}
impl FromValue for Tsp4p12 {
    fn from_value(v: &Value) -> Self {
        let s = match v { Value::Seq(s) => s, other => panic!("Tsp4p12: expected Seq, got {other:?}") };
        assert_eq!(s.len(), 2, "Tsp4p12: component count");
        let _ = s;
        Tsp4p12 {
            p: FromValue::from_value(s[0].as_ref().expect("component p of Tsp4p12 must be present")),
            st: FromValue::from_value(s[1].as_ref().expect("component st of Tsp4p12 must be present")),
        }
    }
}
impl ToValue for Tsp4p12 {
    fn to_value(&self) -> Value {
        Value::Seq(vec![
            Some(self.p.to_value()),
            Some(self.st.to_value()),
        ])
    }
}
impl FromValue for Tsp4p13 {
    fn from_value(v: &Value) -> Self {
        let s = match v { Value::Seq(s) => s, other => panic!("Tsp4p13: expected Seq, got {other:?}") };
        assert_eq!(s.len(), 2, "Tsp4p13: component count");
        let _ = s;
        Tsp4p13 {
            p: FromValue::from_value(s[0].as_ref().expect("component p of Tsp4p13 must be present")),
            rx: s[1].as_ref().map(FromValue::from_value),
        }
    }
}
impl ToValue for Tsp4p13 {
    fn to_value(&self) -> Value {
        Value::Seq(vec![
            Some(self.p.to_value()),
            self.rx.as_ref().map(|x| x.to_value()),
        ])
    }
}
impl FromValue for Tsp4p14 {
    fn from_value(v: &Value) -> Self {
        let s = match v { Value::Seq(s) => s, other => panic!("Tsp4p14: expected Seq, got {other:?}") };
        assert_eq!(s.len(), 2, "Tsp4p14: component count");
        let _ = s;
        Tsp4p14 {
            p: FromValue::from_value(s[0].as_ref().expect("component p of Tsp4p14 must be present")),
            u2: FromValue::from_value(s[1].as_ref().expect("component u2 of Tsp4p14 must be present")),
        }
    }
}
impl ToValue for Tsp4p14 {
    fn to_value(&self) -> Value {
        Value::Seq(vec![
            Some(self.p.to_value()),
            Some(self.u2.to_value()),
        ])
    }
}
impl FromValue for Tsp4p15Is {
    fn from_value(v: &Value) -> Self {
        let s = match v { Value::Seq(s) => s, other => panic!("Tsp4p15Is: expected Seq, got {other:?}") };
        assert_eq!(s.len(), 1, "Tsp4p15Is: component count");
        let _ = s;
        Tsp4p15Is {
            v: FromValue::from_value(s[0].as_ref().expect("component v of Tsp4p15Is must be present")),
        }
    }
}
impl ToValue for Tsp4p15Is {
    fn to_value(&self) -> Value {
        Value::Seq(vec![
            Some(self.v.to_value()),
        ])
    }
}
impl FromValue for Tsp4p15 {
    fn from_value(v: &Value) -> Self {
        let s = match v { Value::Seq(s) => s, other => panic!("Tsp4p15: expected Seq, got {other:?}") };
        assert_eq!(s.len(), 2, "Tsp4p15: component count");
        let _ = s;
        Tsp4p15 {
            p: FromValue::from_value(s[0].as_ref().expect("component p of Tsp4p15 must be present")),
            is: s[1].as_ref().map(FromValue::from_value),
        }
    }
}
impl ToValue for Tsp4p15 {
    fn to_value(&self) -> Value {
        Value::Seq(vec![
            Some(self.p.to_value()),
            self.is.as_ref().map(|x| x.to_value()),
        ])
    }
}
impl FromValue for Tsp5p0 {
    fn from_value(v: &Value) -> Self {
        let s = match v { Value::Seq(s) => s, other => panic!("Tsp5p0: expected Seq, got {other:?}") };
        assert_eq!(s.len(), 2, "Tsp5p0: component count");
        let _ = s;
        Tsp5p0 {
            b: s[0].as_ref().map(FromValue::from_value),
            x: FromValue::from_value(s[1].as_ref().expect("component x of Tsp5p0 must be present")),
        }
    }
}
impl ToValue for Tsp5p0 {
    fn to_value(&self) -> Value {
        Value::Seq(vec![
            self.b.as_ref().map(|x| x.to_value()),
            Some(self.x.to_value()),
        ])
    }
}
impl FromValue for Tsp5p1 {
    fn from_value(v: &Value) -> Self {
        let s = match v { Value::Seq(s) => s, other => panic!("Tsp5p1: expected Seq, got {other:?}") };
        assert_eq!(s.len(), 2, "Tsp5p1: component count");
        let _ = s;
        Tsp5p1 {
            b: s[0].as_ref().map(FromValue::from_value),
            a: s[1].as_ref().map(FromValue::from_value),
        }
    }
}
impl ToValue for Tsp5p1 {
    fn to_value(&self) -> Value {
        Value::Seq(vec![
            self.b.as_ref().map(|x| x.to_value()),
            self.a.as_ref().map(|x| x.to_value()),
        ])
    }
}
impl FromValue for Tsp5p2 {
    fn from_value(v: &Value) -> Self {
        let s = match v { Value::Seq(s) => s, other => panic!("Tsp5p2: expected Seq, got {other:?}") };
        assert_eq!(s.len(), 2, "Tsp5p2: component count");
        let _ = s;
        Tsp5p2 {
            b: s[0].as_ref().map(FromValue::from_value),
            c3: FromValue::from_value(s[1].as_ref().expect("component c3 of Tsp5p2 must be present")),
        }
    }
}
impl ToValue for Tsp5p2 {
    fn to_value(&self) -> Value {
        Value::Seq(vec![
            self.b.as_ref().map(|x| x.to_value()),
            Some(self.c3.to_value()),
        ])
    }
}
impl FromValue for Tsp5p3 {
    fn from_value(v: &Value) -> Self {
        let s = match v { Value::Seq(s) => s, other => panic!("Tsp5p3: expected Seq, got {other:?}") };
        assert_eq!(s.len(), 2, "Tsp5p3: component count");
        let _ = s;
        Tsp5p3 {
            b: s[0].as_ref().map(FromValue::from_value),
            c0: s[1].as_ref().map(FromValue::from_value),
        }
    }
}
impl ToValue for Tsp5p3 {
    fn to_value(&self) -> Value {
        Value::Seq(vec![
            self.b.as_ref().map(|x| x.to_value()),
            self.c0.as_ref().map(|x| x.to_value()),
        ])
    }
}
impl FromValue for Tsp5p4 {
    fn from_value(v: &Value) -> Self {
        let s = match v { Value::Seq(s) => s, other => panic!("Tsp5p4: expected Seq, got {other:?}") };
        assert_eq!(s.len(), 2, "Tsp5p4: component count");
        let _ = s;
        Tsp5p4 {
            b: s[0].as_ref().map(FromValue::from_value),
            p: FromValue::from_value(s[1].as_ref().expect("component p of Tsp5p4 must be present")),
        }
    }
}
impl ToValue for Tsp5p4 {
    fn to_value(&self) -> Value {
        Value::Seq(vec![
            self.b.as_ref().map(|x| x.to_value()),
            Some(self.p.to_value()),
        ])
    }
}
impl FromValue for Tsp5p6 {
    fn from_value(v: &Value) -> Self {
        let s = match v { Value::Seq(s) => s, other => panic!("Tsp5p6: expected Seq, got {other:?}") };
        assert_eq!(s.len(), 2, "Tsp5p6: component count");
        let _ = s;
        Tsp5p6 {
            b: s[0].as_ref().map(FromValue::from_value),
            i: FromValue::from_value(s[1].as_ref().expect("component i of Tsp5p6 must be present")),
        }
    }
}
impl ToValue for Tsp5p6 {
    fn to_value(&self) -> Value {
        Value::Seq(vec![
            self.b.as_ref().map(|x| x.to_value()),
            Some(self.i.to_value()),
        ])
    }
}
impl FromValue for Tsp5p7 {
    fn from_value(v: &Value) -> Self {
        let s = match v { Value::Seq(s) => s, other => panic!("Tsp5p7: expected Seq, got {other:?}") };
        assert_eq!(s.len(), 2, "Tsp5p7: component count");
        let _ = s;
        Tsp5p7 {
            b: s[0].as_ref().map(FromValue::from_value),
            ra: s[1].as_ref().map(FromValue::from_value),
        }
    }
}
impl ToValue for Tsp5p7 {
    fn to_value(&self) -> Value {
        Value::Seq(vec![
            self.b.as_ref().map(|x| x.to_value()),
            self.ra.as_ref().map(|x| x.to_value()),
        ])
    }
}
impl FromValue for Tsp5p8 {
    fn from_value(v: &Value) -> Self {
        let s = match v { Value::Seq(s) => s, other => panic!("Tsp5p8: expected Seq, got {other:?}") };
        assert_eq!(s.len(), 2, "Tsp5p8: component count");
        let _ = s;
        Tsp5p8 {
            b: s[0].as_ref().map(FromValue::from_value),
            rs: FromValue::from_value(s[1].as_ref().expect("component rs of Tsp5p8 must be present")),
        }
    }
}
impl ToValue for Tsp5p8 {
    fn to_value(&self) -> Value {
        Value::Seq(vec![
            self.b.as_ref().map(|x| x.to_value()),
            Some(self.rs.to_value()),
        ])
    }
}
impl FromValue for Tsp5p9 {
    fn from_value(v: &Value) -> Self {
        let s = match v { Value::Seq(s) => s, other => panic!("Tsp5p9: expected Seq, got {other:?}") };
        assert_eq!(s.len(), 2, "Tsp5p9: component count");
        let _ = s;
        Tsp5p9 {
            b: s[0].as_ref().map(FromValue::from_value),
            rc: s[1].as_ref().map(FromValue::from_value),
        }
    }
}
impl ToValue for Tsp5p9 {
    fn to_value(&self) -> Value {
        Value::Seq(vec![
            self.b.as_ref().map(|x| x.to_value()),
            self.rc.as_ref().map(|x| x.to_value()),
        ])
    }
}
impl FromValue for Tsp5p10 {
    fn from_value(v: &Value) -> Self {
        let s = match v { Value::Seq(s) => s, other => panic!("Tsp5p10: expected Seq, got {other:?}") };
        assert_eq!(s.len(), 2, "Tsp5p10: component count");
        let _ = s;
        Tsp5p10 {
            b: s[0].as_ref().map(FromValue::from_value),
            rt: FromValue::from_value(s[1].as_ref().expect("component rt of Tsp5p10 must be present")),
        }
    }
}
impl ToValue for Tsp5p10 {
    fn to_value(&self) -> Value {
        Value::Seq(vec![
            self.b.as_ref().map(|x| x.to_value()),
            Some(self.rt.to_value()),
        ])
    }
}
impl FromValue for Tsp5p11 {
    fn from_value(v: &Value) -> Self {
        let s = match v { Value::Seq(s) => s, other => panic!("Tsp5p11: expected Seq, got {other:?}") };
        assert_eq!(s.len(), 2, "Tsp5p11: component count");
        let _ = s;
        Tsp5p11 {
            b: s[0].as_ref().map(FromValue::from_value),
            so: s[1].as_ref().map(FromValue::from_value),
        }
    }
}
impl ToValue for Tsp5p11 {
    fn to_value(&self) -> Value {
        Value::Seq(vec![
            self.b.as_ref().map(|x| x.to_value()),
            self.so.as_ref().map(|x| x.to_value()),
        ])
    }
}
impl FromValue for Tsp5p12 {
    fn from_value(v: &Value) -> Self {
        let s = match v { Value::Seq(s) => s, other => panic!("Tsp5p12: expected Seq, got {other:?}") };
        assert_eq!(s.len(), 2, "Tsp5p12: component count");
        let _ = s;
        Tsp5p12 {
            b: s[0].as_ref().map(FromValue::from_value),
            st: FromValue::from_value(s[1].as_ref().expect("component st of Tsp5p12 must be present")),
        }
    }
}
impl ToValue for Tsp5p12 {
    fn to_value(&self) -> Value {
        Value::Seq(vec![
            self.b.as_ref().map(|x| x.to_value()),
            Some(self.st.to_value()),
        ])
    }
}
impl FromValue for Tsp5p13 {
    fn from_value(v: &Value) -> Self {
        let s = match v { Value::Seq(s) => s, other => panic!("Tsp5p13: expected Seq, got {other:?}") };
        assert_eq!(s.len(), 2, "Tsp5p13: component count");
        let _ = s;
        Tsp5p13 {
            b: s[0].as_ref().map(FromValue::from_value),
            rx: s[1].as_ref().map(FromValue::from_value),
        }
    }
}
impl ToValue for Tsp5p13 {
    fn to_value(&self) -> Value {
        Value::Seq(vec![
            self.b.as_ref().map(|x| x.to_value()),
            self.rx.as_ref().map(|x| x.to_value()),
        ])
    }
}
impl FromValue for Tsp5p14 {
    fn from_value(v: &Value) -> Self {
        let s = match v { Value::Seq(s) => s, other => panic!("Tsp5p14: expected Seq, got {other:?}") };
        assert_eq!(s.len(), 2, "Tsp5p14: component count");
        let _ = s;
        Tsp5p14 {
            b: s[0].as_ref().map(FromValue::from_value),
            u2: FromValue::from_value(s[1].as_ref().expect("component u2 of Tsp5p14 must be present")),
        }
    }
}
impl ToValue for Tsp5p14 {
    fn to_value(&self) -> Value {
        Value::Seq(vec![
            self.b.as_ref().map(|x| x.to_value()),
            Some(self.u2.to_value()),
        ])
    }
}
impl FromValue for Tsp5p15Is {
    fn from_value(v: &Value) -> Self {
        let s = match v { Value::Seq(s) => s, other => panic!("Tsp5p15Is: expected Seq, got {other:?}") };
        assert_eq!(s.len(), 1, "Tsp5p15Is: component count");
        let _ = s;
        Tsp5p15Is {
            v: FromValue::from_value(s[0].as_ref().expect("component v of Tsp5p15Is must be present")),
        }
    }
}
impl ToValue for Tsp5p15Is {
    fn to_value(&self) -> Value {
        Value::Seq(vec![
            Some(self.v.to_value()),
        ])
    }
}
impl FromValue for Tsp5p15 {
    fn from_value(v: &Value) -> Self {
        let s = match v { Value::Seq(s) => s, other => panic!("Tsp5p15: expected Seq, got {other:?}") };
        assert_eq!(s.len(), 2, "Tsp5p15: component count");
        let _ = s;
        Tsp5p15 {
            b: s[0].as_ref().map(FromValue::from_value),
            is: s[1].as_ref().map(FromValue::from_value),
        }
    }
}
impl ToValue for Tsp5p15 {
    fn to_value(&self) -> Value {
        Value::Seq(vec![
            self.b.as_ref().map(|x| x.to_value()),
            self.is.as_ref().map(|x| x.to_value()),
        ])
    }
}
impl FromValue for Tsp6p0 {
    fn from_value(v: &Value) -> Self {
        let s = match v { Value::Seq(s) => s, other => panic!("Tsp6p0: expected Seq, got {other:?}") };
        assert_eq!(s.len(), 2, "Tsp6p0: component count");
        let _ = s;
        Tsp6p0 {
            i: FromValue::from_value(s[0].as_ref().expect("component i of Tsp6p0 must be present")),
            x: FromValue::from_value(s[1].as_ref().expect("component x of Tsp6p0 must be present")),
        }
    }
}
impl ToValue for Tsp6p0 {
    fn to_value(&self) -> Value {
        Value::Seq(vec![
            Some(self.i.to_value()),
            Some(self.x.to_value()),
        ])
    }
}
impl FromValue for Tsp6p1 {
    fn from_value(v: &Value) -> Self {
        let s = match v { Value::Seq(s) => s, other => panic!("Tsp6p1: expected Seq, got {other:?}") };
        assert_eq!(s.len(), 2, "Tsp6p1: component count");
        let _ = s;
        Tsp6p1 {
            i: FromValue::from_value(s[0].as_ref().expect("component i of Tsp6p1 must be present")),
            a: s[1].as_ref().map(FromValue::from_value),
        }
    }
}
impl ToValue for Tsp6p1 {
    fn to_value(&self) -> Value {
        Value::Seq(vec![
            Some(self.i.to_value()),
            self.a.as_ref().map(|x| x.to_value()),
        ])
    }
}
impl FromValue for Tsp6p2 {
    fn from_value(v: &Value) -> Self {
        let s = match v { Value::Seq(s) => s, other => panic!("Tsp6p2: expected Seq, got {other:?}") };
        assert_eq!(s.len(), 2, "Tsp6p2: component count");
        let _ = s;
        Tsp6p2 {
            i: FromValue::from_value(s[0].as_ref().expect("component i of Tsp6p2 must be present")),
            c3: FromValue::from_value(s[1].as_ref().expect("component c3 of Tsp6p2 must be present")),
        }
    }
}
impl ToValue for Tsp6p2 {
    fn to_value(&self) -> Value {
        Value::Seq(vec![
            Some(self.i.to_value()),
            Some(self.c3.to_value()),
        ])
    }
}
impl FromValue for Tsp6p3 {
    fn from_value(v: &Value) -> Self {
        let s = match v { Value::Seq(s) => s, other => panic!("Tsp6p3: expected Seq, got {other:?}") };
        assert_eq!(s.len(), 2, "Tsp6p3: component count");
        let _ = s;
        Tsp6p3 {
            i: FromValue::from_value(s[0].as_ref().expect("component i of Tsp6p3 must be present")),
            c0: s[1].as_ref().map(FromValue::from_value),
        }
    }
}
impl ToValue for Tsp6p3 {
    fn to_value(&self) -> Value {
        Value::Seq(vec![
            Some(self.i.to_value()),
            self.c0.as_ref().map(|x| x.to_value()),
        ])
    }
}
impl FromValue for Tsp6p4 {
    fn from_value(v: &Value) -> Self {
        let s = match v { Value::Seq(s) => s, other => panic!("Tsp6p4: expected Seq, got {other:?}") };
        assert_eq!(s.len(), 2, "Tsp6p4: component count");
        let _ = s;
        Tsp6p4 {
            i: FromValue::from_value(s[0].as_ref().expect("component i of Tsp6p4 must be present")),
            p: FromValue::from_value(s[1].as_ref().expect("component p of Tsp6p4 must be present")),
        }
    }
}
impl ToValue for Tsp6p4 {
    fn to_value(&self) -> Value {
        Value::Seq(vec![
            Some(self.i.to_value()),
            Some(self.p.to_value()),
        ])
    }
}
impl FromValue for Tsp6p5 {
    fn from_value(v: &Value) -> Self {
        let s = match v { Value::Seq(s) => s, other => panic!("Tsp6p5: expected Seq, got {other:?}") };
        assert_eq!(s.len(), 2, "Tsp6p5: component count");
        let _ = s;
        Tsp6p5 {
            i: FromValue::from_value(s[0].as_ref().expect("component i of Tsp6p5 must be present")),
            b: s[1].as_ref().map(FromValue::from_value),
        }
    }
}
impl ToValue for Tsp6p5 {
    fn to_value(&self) -> Value {
        Value::Seq(vec![
            Some(self.i.to_value()),
            self.b.as_ref().map(|x| x.to_value()),
        ])
    }
}
impl FromValue for Tsp6p7 {
    fn from_value(v: &Value) -> Self {
        let s = match v { Value::Seq(s) => s, other => panic!("Tsp6p7: expected Seq, got {other:?}") };
        assert_eq!(s.len(), 2, "Tsp6p7: component count");
        let _ = s;
        Tsp6p7 {
            i: FromValue::from_value(s[0].as_ref().expect("component i of Tsp6p7 must be present")),
            ra: s[1].as_ref().map(FromValue::from_value),
        }
    }
}
impl ToValue for Tsp6p7 {
    fn to_value(&self) -> Value {
        Value::Seq(vec![
            Some(self.i.to_value()),
            self.ra.as_ref().map(|x| x.to_value()),
        ])
    }
}
impl FromValue for Tsp6p8 {
    fn from_value(v: &Value) -> Self {
        let s = match v { Value::Seq(s) => s, other => panic!("Tsp6p8: expected Seq, got {other:?}") };
        assert_eq!(s.len(), 2, "Tsp6p8: component count");
        let _ = s;
        Tsp6p8 {
            i: FromValue::from_value(s[0].as_ref().expect("component i of Tsp6p8 must be present")),
            rs: FromValue::from_value(s[1].as_ref().expect("component rs of Tsp6p8 must be present")),
        }
    }
}
impl ToValue for Tsp6p8 {
    fn to_value(&self) -> Value {
        Value::Seq(vec![
            Some(self.i.to_value()),
            Some(self.rs.to_value()),
        ])
    }
}
impl FromValue for Tsp6p9 {
    fn from_value(v: &Value) -> Self {
        let s = match v { Value::Seq(s) => s, other => panic!("Tsp6p9: expected Seq, got {other:?}") };
        assert_eq!(s.len(), 2, "Tsp6p9: component count");
        let _ = s;
        Tsp6p9 {
            i: FromValue::from_value(s[0].as_ref().expect("component i of Tsp6p9 must be present")),
            rc: s[1].as_ref().map(FromValue::from_value),
        }
    }
}
impl ToValue for Tsp6p9 {
    fn to_value(&self) -> Value {
        Value::Seq(vec![
            Some(self.i.to_value()),
            self.rc.as_ref().map(|x| x.to_value()),
        ])
    }
}
impl FromValue for Tsp6p10 {
    fn from_value(v: &Value) -> Self {
        let s = match v { Value::Seq(s) => s, other => panic!("Tsp6p10: expected Seq, got {other:?}") };
        assert_eq!(s.len(), 2, "Tsp6p10: component count");
        let _ = s;
        Tsp6p10 {
            i: FromValue::from_value(s[0].as_ref().expect("component i of Tsp6p10 must be present")),
            rt: FromValue::from_value(s[1].as_ref().expect("component rt of Tsp6p10 must be present")),
        }
    }
}
impl ToValue for Tsp6p10 {
    fn to_value(&self) -> Value {
        Value::Seq(vec![
            Some(self.i.to_value()),
            Some(self.rt.to_value()),
        ])
    }
}
impl FromValue for Tsp6p11 {
    fn from_value(v: &Value) -> Self {
        let s = match v { Value::Seq(s) => s, other => panic!("Tsp6p11: expected Seq, got {other:?}") };
        assert_eq!(s.len(), 2, "Tsp6p11: component count");
        let _ = s;
        Tsp6p11 {
            i: FromValue::from_value(s[0].as_ref().expect("component i of Tsp6p11 must be present")),
            so: s[1].as_ref().map(FromValue::from_value),
        }
    }
}
impl ToValue for Tsp6p11 {
    fn to_value(&self) -> Value {
        Value::Seq(vec![
            Some(self.i.to_value()),
            self.so.as_ref().map(|x| x.to_value()),
        ])
    }
}
impl FromValue for Tsp6p12 {
    fn from_value(v: &Value) -> Self {
        let s = match v { Value::Seq(s) => s, other => panic!("Tsp6p12: expected Seq, got {other:?}") };
        assert_eq!(s.len(), 2, "Tsp6p12: component count");
        let _ = s;
        Tsp6p12 {
            i: FromValue::from_value(s[0].as_ref().expect("component i of Tsp6p12 must be present")),
            st: FromValue::from_value(s[1].as_ref().expect("component st of Tsp6p12 must be present")),
        }
    }
}
impl ToValue for Tsp6p12 {
    fn to_value(&self) -> Value {
        Value::Seq(vec![
            Some(self.i.to_value()),
            Some(self.st.to_value()),
        ])
    }
}
impl FromValue for Tsp6p13 {
    fn from_value(v: &Value) -> Self {
        let s = match v { Value::Seq(s) => s, other => panic!("Tsp6p13: expected Seq, got {other:?}") };
        assert_eq!(s.len(), 2, "Tsp6p13: component count");
        let _ = s;
        Tsp6p13 {
            i: FromValue::from_value(s[0].as_ref().expect("component i of Tsp6p13 must be present")),
            rx: s[1].as_ref().map(FromValue::from_value),
        }
    }
}
impl ToValue for Tsp6p13 {
    fn to_value(&self) -> Value {
        Value::Seq(vec![
            Some(self.i.to_value()),
            self.rx.as_ref().map(|x| x.to_value()),
        ])
    }
}
impl FromValue for Tsp6p14 {
    fn from_value(v: &Value) -> Self {
        let s = match v { Value::Seq(s) => s, other => panic!("Tsp6p14: expected Seq, got {other:?}") };
        assert_eq!(s.len(), 2, "Tsp6p14: component count");
        let _ = s;
        Tsp6p14 {
            i: FromValue::from_value(s[0].as_ref().expect("component i of Tsp6p14 must be present")),
            u2: FromValue::from_value(s[1].as_ref().expect("component u2 of Tsp6p14 must be present")),
        }
    }
}
impl ToValue for Tsp6p14 {
    fn to_value(&self) -> Value {
        Value::Seq(vec![
            Some(self.i.to_value()),
            Some(self.u2.to_value()),
        ])
    }
}
impl FromValue for Tsp6p15Is {
    fn from_value(v: &Value) -> Self {
        let s = match v { Value::Seq(s) => s, other => panic!("Tsp6p15Is: expected Seq, got {other:?}") };
        assert_eq!(s.len(), 1, "Tsp6p15Is: component count");
        let _ = s;
        Tsp6p15Is {
            v: FromValue::from_value(s[0].as_ref().expect("component v of Tsp6p15Is must be present")),
        }
    }
}
impl ToValue for Tsp6p15Is {
    fn to_value(&self) -> Value {
        Value::Seq(vec![
            Some(self.v.to_value()),
        ])
    }
}
impl FromValue for Tsp6p15 {
    fn from_value(v: &Value) -> Self {
        let s = match v { Value::Seq(s) => s, other => panic!("Tsp6p15: expected Seq, got {other:?}") };
        assert_eq!(s.len(), 2, "Tsp6p15: component count");
        let _ = s;
        Tsp6p15 {
            i: FromValue::from_value(s[0].as_ref().expect("component i of Tsp6p15 must be present")),
            is: s[1].as_ref().map(FromValue::from_value),
        }
    }
}
impl ToValue for Tsp6p15 {
    fn to_value(&self) -> Value {
        Value::Seq(vec![
            Some(self.i.to_value()),
            self.is.as_ref().map(|x| x.to_value()),
        ])
    }
}
impl FromValue for Tsp7p0 {
    fn from_value(v: &Value) -> Self {
        let s = match v { Value::Seq(s) => s, other => panic!("Tsp7p0: expected Seq, got {other:?}") };
        assert_eq!(s.len(), 2, "Tsp7p0: component count");
        let _ = s;
        Tsp7p0 {
            ra: s[0].as_ref().map(FromValue::from_value),
            x: FromValue::from_value(s[1].as_ref().expect("component x of Tsp7p0 must be present")),
        }
    }
}
impl ToValue for Tsp7p0 {
    fn to_value(&self) -> Value {
        Value::Seq(vec![
            self.ra.as_ref().map(|x| x.to_value()),
            Some(self.x.to_value()),
        ])
    }
}
impl FromValue for Tsp7p1 {
    fn from_value(v: &Value) -> Self {
        let s = match v { Value::Seq(s) => s, other => panic!("Tsp7p1: expected Seq, got {other:?}") };
        assert_eq!(s.len(), 2, "Tsp7p1: component count");
        let _ = s;
        Tsp7p1 {
            ra: s[0].as_ref().map(FromValue::from_value),
            a: s[1].as_ref().map(FromValue::from_value),
        }
    }
}
impl ToValue for Tsp7p1 {
    fn to_value(&self) -> Value {
        Value::Seq(vec![
            self.ra.as_ref().map(|x| x.to_value()),
            self.a.as_ref().map(|x| x.to_value()),
        ])
    }
}
impl FromValue for Tsp7p2 {
    fn from_value(v: &Value) -> Self {
        let s = match v { Value::Seq(s) => s, other => panic!("Tsp7p2: expected Seq, got {other:?}") };
        assert_eq!(s.len(), 2, "Tsp7p2: component count");
        let _ = s;
        Tsp7p2 {
            ra: s[0].as_ref().map(FromValue::from_value),
            c3: FromValue::from_value(s[1].as_ref().expect("component c3 of Tsp7p2 must be present")),
        }
    }
}
impl ToValue for Tsp7p2 {
    fn to_value(&self) -> Value {
        Value::Seq(vec![
            self.ra.as_ref().map(|x| x.to_value()),
            Some(self.c3.to_value()),
        ])
    }
}
impl FromValue for Tsp7p3 {
    fn from_value(v: &Value) -> Self {
        let s = match v { Value::Seq(s) => s, other => panic!("Tsp7p3: expected Seq, got {other:?}") };
        assert_eq!(s.len(), 2, "Tsp7p3: component count");
        let _ = s;
        Tsp7p3 {
            ra: s[0].as_ref().map(FromValue::from_value),
            c0: s[1].as_ref().map(FromValue::from_value),
        }
    }
}
impl ToValue for Tsp7p3 {
    fn to_value(&self) -> Value {
        Value::Seq(vec![
            self.ra.as_ref().map(|x| x.to_value()),
            self.c0.as_ref().map(|x| x.to_value()),
        ])
    }
}
impl FromValue for Tsp7p4 {
    fn from_value(v: &Value) -> Self {
        let s = match v { Value::Seq(s) => s, other => panic!("Tsp7p4: expected Seq, got {other:?}") };
        assert_eq!(s.len(), 2, "Tsp7p4: component count");
        let _ = s;
        Tsp7p4 {
            ra: s[0].as_ref().map(FromValue::from_value),
            p: FromValue::from_value(s[1].as_ref().expect("component p of Tsp7p4 must be present")),
        }
    }
}
impl ToValue for Tsp7p4 {
    fn to_value(&self) -> Value {
        Value::Seq(vec![
            self.ra.as_ref().map(|x| x.to_value()),
            Some(self.p.to_value()),
        ])
    }
}
impl FromValue for Tsp7p5 {
    fn from_value(v: &Value) -> Self {
        let s = match v { Value::Seq(s) => s, other => panic!("Tsp7p5: expected Seq, got {other:?}") };
        assert_eq!(s.len(), 2, "Tsp7p5: component count");
        let _ = s;
        Tsp7p5 {
            ra: s[0].as_ref().map(FromValue::from_value),
            b: s[1].as_ref().map(FromValue::from_value),
        }
    }
}
impl ToValue for Tsp7p5 {
    fn to_value(&self) -> Value {
        Value::Seq(vec![
            self.ra.as_ref().map(|x| x.to_value()),
            self.b.as_ref().map(|x| x.to_value()),
        ])
    }
}
impl FromValue for Tsp7p6 {
    fn from_value(v: &Value) -> Self {
        let s = match v { Value::Seq(s) => s, other => panic!("Tsp7p6: expected Seq, got {other:?}") };
        assert_eq!(s.len(), 2, "Tsp7p6: component count");
        let _ = s;
        Tsp7p6 {
            ra: s[0].as_ref().map(FromValue::from_value),
            i: FromValue::from_value(s[1].as_ref().expect("component i of Tsp7p6 must be present")),
        }
    }
}
impl ToValue for Tsp7p6 {
    fn to_value(&self) -> Value {
        Value::Seq(vec![
            self.ra.as_ref().map(|x| x.to_value()),
            Some(self.i.to_value()),
        ])
    }
}
impl FromValue for Tsp7p8 {
    fn from_value(v: &Value) -> Self {
        let s = match v { Value::Seq(s) => s, other => panic!("Tsp7p8: expected Seq, got {other:?}") };
        assert_eq!(s.len(), 2, "Tsp7p8: component count");
        let _ = s;
        Tsp7p8 {
            ra: s[0].as_ref().map(FromValue::from_value),
            rs: FromValue::from_value(s[1].as_ref().expect("component rs of Tsp7p8 must be present")),
        }
    }
}
impl ToValue for Tsp7p8 {
    fn to_value(&self) -> Value {
        Value::Seq(vec![
            self.ra.as_ref().map(|x| x.to_value()),
            Some(self.rs.to_value()),
        ])
    }
}
impl FromValue for Tsp7p9 {
    fn from_value(v: &Value) -> Self {
        let s = match v { Value::Seq(s) => s, other => panic!("Tsp7p9: expected Seq, got {other:?}") };
        assert_eq!(s.len(), 2, "Tsp7p9: component count");
        let _ = s;
        Tsp7p9 {
            ra: s[0].as_ref().map(FromValue::from_value),
            rc: s[1].as_ref().map(FromValue::from_value),
        }
    }
}
impl ToValue for Tsp7p9 {
    fn to_value(&self) -> Value {
        Value::Seq(vec![
            self.ra.as_ref().map(|x| x.to_value()),
            self.rc.as_ref().map(|x| x.to_value()),
        ])
    }
}
impl FromValue for Tsp7p10 {
    fn from_value(v: &Value) -> Self {
        let s = match v { Value::Seq(s) => s, other => panic!("Tsp7p10: expected Seq, got {other:?}") };
        assert_eq!(s.len(), 2, "Tsp7p10: component count");
        let _ = s;
        Tsp7p10 {
            ra: s[0].as_ref().map(FromValue::from_value),
            rt: FromValue::from_value(s[1].as_ref().expect("component rt of Tsp7p10 must be present")),
        }
    }
}
impl ToValue for Tsp7p10 {
    fn to_value(&self) -> Value {
        Value::Seq(vec![
            self.ra.as_ref().map(|x| x.to_value()),
            Some(self.rt.to_value()),
        ])
    }
}
impl FromValue for Tsp7p11 {
    fn from_value(v: &Value) -> Self {
        let s = match v { Value::Seq(s) => s, other => panic!("Tsp7p11: expected Seq, got {other:?}") };
        assert_eq!(s.len(), 2, "Tsp7p11: component count");
        let _ = s;
        Tsp7p11 {
            ra: s[0].as_ref().map(FromValue::from_value),
            so: s[1].as_ref().map(FromValue::from_value),
        }
    }
}
impl ToValue for Tsp7p11 {
    fn to_value(&self) -> Value {
        Value::Seq(vec![
            self.ra.as_ref().map(|x| x.to_value()),
            self.so.as_ref().map(|x| x.to_value()),
        ])
    }
}
impl FromValue for Tsp7p12 {
    fn from_value(v: &Value) -> Self {
        let s = match v { Value::Seq(s) => s, other => panic!("Tsp7p12: expected Seq, got {other:?}") };
        assert_eq!(s.len(), 2, "Tsp7p12: component count");
        let _ = s;
        Tsp7p12 {
            ra: s[0].as_ref().map(FromValue::from_value),
            st: FromValue::from_value(s[1].as_ref().expect("component st of Tsp7p12 must be present")),
        }
    }
}
impl ToValue for Tsp7p12 {
    fn to_value(&self) -> Value {
        Value::Seq(vec![
            self.ra.as_ref().map(|x| x.to_value()),
            Some(self.st.to_value()),
        ])
    }
}
impl FromValue for Tsp7p13 {
    fn from_value(v: &Value) -> Self {
        let s = match v { Value::Seq(s) => s, other => panic!("Tsp7p13: expected Seq, got {other:?}") };
        assert_eq!(s.len(), 2, "Tsp7p13: component count");
        let _ = s;
        Tsp7p13 {
            ra: s[0].as_ref().map(FromValue::from_value),
            rx: s[1].as_ref().map(FromValue::from_value),
        }
    }
}
impl ToValue for Tsp7p13 {
    fn to_value(&self) -> Value {
        Value::Seq(vec![
            self.ra.as_ref().map(|x| x.to_value()),
            self.rx.as_ref().map(|x| x.to_value()),
        ])
    }
}
impl FromValue for Tsp7p14 {
    fn from_value(v: &Value) -> Self {
        let s = match v { Value::Seq(s) => s, other => panic!("Tsp7p14: expected Seq, got {other:?}") };
        assert_eq!(s.len(), 2, "Tsp7p14: component count");
        let _ = s;
        Tsp7p14 {
            ra: s[0].as_ref().map(FromValue::from_value),
            u2: FromValue::from_value(s[1].as_ref().expect("component u2 of Tsp7p14 must be present")),
        }
    }
}
impl ToValue for Tsp7p14 {
    fn to_value(&self) -> Value {
        Value::Seq(vec![
            self.ra.as_ref().map(|x| x.to_value()),
            Some(self.u2.to_value()),
        ])
    }
}
impl FromValue for Tsp7p15Is {
    fn from_value(v: &Value) -> Self {
        let s = match v { Value::Seq(s) => s, other => panic!("Tsp7p15Is: expected Seq, got {other:?}") };
        assert_eq!(s.len(), 1, "Tsp7p15Is: component count");
        let _ = s;
        Tsp7p15Is {
            v: FromValue::from_value(s[0].as_ref().expect("component v of Tsp7p15Is must be present")),
        }
    }
}
impl ToValue for Tsp7p15Is {
    fn to_value(&self) -> Value {
        Value::Seq(vec![
            Some(self.v.to_value()),
        ])
    }
}
impl FromValue for Tsp7p15 {
    fn from_value(v: &Value) -> Self {
        let s = match v { Value::Seq(s) => s, other => panic!("Tsp7p15: expected Seq, got {other:?}") };
        assert_eq!(s.len(), 2, "Tsp7p15: component count");
        let _ = s;
        Tsp7p15 {
            ra: s[0].as_ref().map(FromValue::from_value),
            is: s[1].as_ref().map(FromValue::from_value),
        }
    }
}
impl ToValue for Tsp7p15 {
    fn to_value(&self) -> Value {
        Value::Seq(vec![
            self.ra.as_ref().map(|x| x.to_value()),
            self.is.as_ref().map(|x| x.to_value()),
        ])
    }
}
impl FromValue for Tsp8p0 {
    fn from_value(v: &Value) -> Self {
        let s = match v { Value::Seq(s) => s, other => panic!("Tsp8p0: expected Seq, got {other:?}") };
        assert_eq!(s.len(), 2, "Tsp8p0: component count");
        let _ = s;
        Tsp8p0 {
            rs: FromValue::from_value(s[0].as_ref().expect("component rs of Tsp8p0 must be present")),
            x: FromValue::from_value(s[1].as_ref().expect("component x of Tsp8p0 must be present")),
        }
    }
}
impl ToValue for Tsp8p0 {
    fn to_value(&self) -> Value {
        Value::Seq(vec![
            Some(self.rs.to_value()),
            Some(self.x.to_value()),
        ])
    }
}
impl FromValue for Tsp8p1 {
    fn from_value(v: &Value) -> Self {
        let s = match v { Value::Seq(s) => s, other => panic!("Tsp8p1: expected Seq, got {other:?}") };
        assert_eq!(s.len(), 2, "Tsp8p1: component count");
        let _ = s;
        Tsp8p1 {
            rs: FromValue::from_value(s[0].as_ref().expect("component rs of Tsp8p1 must be present")),
            a: s[1].as_ref().map(FromValue::from_value),
        }
    }
}
impl ToValue for Tsp8p1 {
    fn to_value(&self) -> Value {
        Value::Seq(vec![
            Some(self.rs.to_value()),
            self.a.as_ref().map(|x| x.to_value()),
        ])
    }
}
impl FromValue for Tsp8p2 {
    fn from_value(v: &Value) -> Self {
        let s = match v { Value::Seq(s) => s, other => panic!("Tsp8p2: expected Seq, got {other:?}") };
        assert_eq!(s.len(), 2, "Tsp8p2: component count");
        let _ = s;
        Tsp8p2 {
            rs: FromValue::from_value(s[0].as_ref().expect("component rs of Tsp8p2 must be present")),
            c3: FromValue::from_value(s[1].as_ref().expect("component c3 of Tsp8p2 must be present")),
        }
    }
}
impl ToValue for Tsp8p2 {
    fn to_value(&self) -> Value {
        Value::Seq(vec![
            Some(self.rs.to_value()),
            Some(self.c3.to_value()),
        ])
    }
}
impl FromValue for Tsp8p3 {
    fn from_value(v: &Value) -> Self {
        let s = match v { Value::Seq(s) => s, other => panic!("Tsp8p3: expected Seq, got {other:?}") };
        assert_eq!(s.len(), 2, "Tsp8p3: component count");
        let _ = s;
        Tsp8p3 {
            rs: FromValue::from_value(s[0].as_ref().expect("component rs of Tsp8p3 must be present")),
            c0: s[1].as_ref().map(FromValue::from_value),
        }
    }
}
impl ToValue for Tsp8p3 {
    fn to_value(&self) -> Value {
        Value::Seq(vec![
            Some(self.rs.to_value()),
            self.c0.as_ref().map(|x| x.to_value()),
        ])
    }
}
impl FromValue for Tsp8p4 {
    fn from_value(v: &Value) -> Self {
        let s = match v { Value::Seq(s) => s, other => panic!("Tsp8p4: expected Seq, got {other:?}") };
        assert_eq!(s.len(), 2, "Tsp8p4: component count");
        let _ = s;
        Tsp8p4 {
            rs: FromValue::from_value(s[0].as_ref().expect("component rs of Tsp8p4 must be present")),
            p: FromValue::from_value(s[1].as_ref().expect("component p of Tsp8p4 must be present")),
        }
    }
}
impl ToValue for Tsp8p4 {
    fn to_value(&self) -> Value {
        Value::Seq(vec![
            Some(self.rs.to_value()),
            Some(self.p.to_value()),
        ])
    }
}
impl FromValue for Tsp8p5 {
    fn from_value(v: &Value) -> Self {
        let s = match v { Value::Seq(s) => s, other => panic!("Tsp8p5: expected Seq, got {other:?}") };
        assert_eq!(s.len(), 2, "Tsp8p5: component count");
        let _ = s;
        Tsp8p5 {
            rs: FromValue::from_value(s[0].as_ref().expect("component rs of Tsp8p5 must be present")),
            b: s[1].as_ref().map(FromValue::from_value),
        }
    }
}
impl ToValue for Tsp8p5 {
    fn to_value(&self) -> Value {
        Value::Seq(vec![
            Some(self.rs.to_value()),
            self.b.as_ref().map(|x| x.to_value()),
        ])
    }
}
impl FromValue for Tsp8p6 {
    fn from_value(v: &Value) -> Self {
        let s = match v { Value::Seq(s) => s, other => panic!("Tsp8p6: expected Seq, got {other:?}") };
        assert_eq!(s.len(), 2, "Tsp8p6: component count");
        let _ = s;
        Tsp8p6 {
            rs: FromValue::from_value(s[0].as_ref().expect("component rs of Tsp8p6 must be present")),
            i: FromValue::from_value(s[1].as_ref().expect("component i of Tsp8p6 must be present")),
        }
    }
}
impl ToValue for Tsp8p6 {
    fn to_value(&self) -> Value {
        Value::Seq(vec![
            Some(self.rs.to_value()),
            Some(self.i.to_value()),
        ])
    }
}
impl FromValue for Tsp8p7 {
    fn from_value(v: &Value) -> Self {
        let s = match v { Value::Seq(s) => s, other => panic!("Tsp8p7: expected Seq, got {other:?}") };
        assert_eq!(s.len(), 2, "Tsp8p7: component count");
        let _ = s;
        Tsp8p7 {
            rs: FromValue::from_value(s[0].as_ref().expect("component rs of Tsp8p7 must be present")),
            ra: s[1].as_ref().map(FromValue::from_value),
        }
    }
}
impl ToValue for Tsp8p7 {
    fn to_value(&self) -> Value {
        Value::Seq(vec![
            Some(self.rs.to_value()),
            self.ra.as_ref().map(|x| x.to_value()),
        ])
    }
}
impl FromValue for Tsp8p9 {
    fn from_value(v: &Value) -> Self {
        let s = match v { Value::Seq(s) => s, other => panic!("Tsp8p9: expected Seq, got {other:?}") };
        assert_eq!(s.len(), 2, "Tsp8p9: component count");
        let _ = s;
        Tsp8p9 {
            rs: FromValue::from_value(s[0].as_ref().expect("component rs of Tsp8p9 must be present")),
            rc: s[1].as_ref().map(FromValue::from_value),
        }
    }
}
impl ToValue for Tsp8p9 {
    fn to_value(&self) -> Value {
        Value::Seq(vec![
            Some(self.rs.to_value()),
            self.rc.as_ref().map(|x| x.to_value()),
        ])
    }
}
impl FromValue for Tsp8p10 {
    fn from_value(v: &Value) -> Self {
        let s = match v { Value::Seq(s) => s, other => panic!("Tsp8p10: expected Seq, got {other:?}") };
        assert_eq!(s.len(), 2, "Tsp8p10: component count");
        let _ = s;
        Tsp8p10 {
            rs: FromValue::from_value(s[0].as_ref().expect("component rs of Tsp8p10 must be present")),
            rt: FromValue::from_value(s[1].as_ref().expect("component rt of Tsp8p10 must be present")),
        }
    }
}
impl ToValue for Tsp8p10 {
    fn to_value(&self) -> Value {
        Value::Seq(vec![
            Some(self.rs.to_value()),
            Some(self.rt.to_value()),
        ])
    }
}
impl FromValue for Tsp8p11 {
    fn from_value(v: &Value) -> Self {
        let s = match v { Value::Seq(s) => s, other => panic!("Tsp8p11: expected Seq, got {other:?}") };
        assert_eq!(s.len(), 2, "Tsp8p11: component count");
        let _ = s;
        Tsp8p11 {
            rs: FromValue::from_value(s[0].as_ref().expect("component rs of Tsp8p11 must be present")),
            so: s[1].as_ref().map(FromValue::from_value),
        }
    }
}
impl ToValue for Tsp8p11 {
    fn to_value(&self) -> Value {
        Value::Seq(vec![
            Some(self.rs.to_value()),
            self.so.as_ref().map(|x| x.to_value()),
        ])
    }
}
impl FromValue for Tsp8p12 {
    fn from_value(v: &Value) -> Self {
        let s = match v { Value::Seq(s) => s, other => panic!("Tsp8p12: expected Seq, got {other:?}") };
        assert_eq!(s.len(), 2, "Tsp8p12: component count");
        let _ = s;
        Tsp8p12 {
            rs: FromValue::from_value(s[0].as_ref().expect("component rs of Tsp8p12 must be present")),
            st: FromValue::from_value(s[1].as_ref().expect("component st of Tsp8p12 must be present")),
        }
    }
}
impl ToValue for Tsp8p12 {
    fn to_value(&self) -> Value {
        Value::Seq(vec![
            Some(self.rs.to_value()),
            Some(self.st.to_value()),
        ])
    }
}
impl FromValue for Tsp8p13 {
    fn from_value(v: &Value) -> Self {
        let s = match v { Value::Seq(s) => s, other => panic!("Tsp8p13: expected Seq, got {other:?}") };
        assert_eq!(s.len(), 2, "Tsp8p13: component count");
        let _ = s;
        Tsp8p13 {
            rs: FromValue::from_value(s[0].as_ref().expect("component rs of Tsp8p13 must be present")),
            rx: s[1].as_ref().map(FromValue::from_value),
        }
    }
}
impl ToValue for Tsp8p13 {
    fn to_value(&self) -> Value {
        Value::Seq(vec![
            Some(self.rs.to_value()),
            self.rx.as_ref().map(|x| x.to_value()),
        ])
    }
}
impl FromValue for Tsp8p14 {
    fn from_value(v: &Value) -> Self {
        let s = match v { Value::Seq(s) => s, other => panic!("Tsp8p14: expected Seq, got {other:?}") };
        assert_eq!(s.len(), 2, "Tsp8p14: component count");
        let _ = s;
        Tsp8p14 {
            rs: FromValue::from_value(s[0].as_ref().expect("component rs of Tsp8p14 must be present")),
            u2: FromValue::from_value(s[1].as_ref().expect("component u2 of Tsp8p14 must be present")),
        }
    }
}
impl ToValue for Tsp8p14 {
    fn to_value(&self) -> Value {
        Value::Seq(vec![
            Some(self.rs.to_value()),
            Some(self.u2.to_value()),
        ])
    }
}
impl FromValue for Tsp8p15Is {
    fn from_value(v: &Value) -> Self {
        let s = match v { Value::Seq(s) => s, other => panic!("Tsp8p15Is: expected Seq, got {other:?}") };
        assert_eq!(s.len(), 1, "Tsp8p15Is: component count");
        let _ = s;
        Tsp8p15Is {
            v: FromValue::from_value(s[0].as_ref().expect("component v of Tsp8p15Is must be present")),
        }
    }
}
impl ToValue for Tsp8p15Is {
    fn to_value(&self) -> Value {
        Value::Seq(vec![
            Some(self.v.to_value()),
        ])
    }
}
impl FromValue for Tsp8p15 {
    fn from_value(v: &Value) -> Self {
        let s = match v { Value::Seq(s) => s, other => panic!("Tsp8p15: expected Seq, got {other:?}") };
        assert_eq!(s.len(), 2, "Tsp8p15: component count");
        let _ = s;
        Tsp8p15 {
            rs: FromValue::from_value(s[0].as_ref().expect("component rs of Tsp8p15 must be present")),
            is: s[1].as_ref().map(FromValue::from_value),
        }
    }
}
impl ToValue for Tsp8p15 {
    fn to_value(&self) -> Value {
        Value::Seq(vec![
            Some(self.rs.to_value()),
            self.is.as_ref().map(|x| x.to_value()),
        ])
    }
}
impl FromValue for Tsp9p0 {
    fn from_value(v: &Value) -> Self {
        let s = match v { Value::Seq(s) => s, other => panic!("Tsp9p0: expected Seq, got {other:?}") };
        assert_eq!(s.len(), 2, "Tsp9p0: component count");
        let _ = s;
        Tsp9p0 {
            rc: s[0].as_ref().map(FromValue::from_value),
            x: FromValue::from_value(s[1].as_ref().expect("component x of Tsp9p0 must be present")),
        }
    }
}
impl ToValue for Tsp9p0 {
    fn to_value(&self) -> Value {
        Value::Seq(vec![
            self.rc.as_ref().map(|x| x.to_value()),
            Some(self.x.to_value()),
        ])
    }
}
impl FromValue for Tsp9p1 {
    fn from_value(v: &Value) -> Self {
        let s = match v { Value::Seq(s) => s, other => panic!("Tsp9p1: expected Seq, got {other:?}") };
        assert_eq!(s.len(), 2, "Tsp9p1: component count");
        let _ = s;
        Tsp9p1 {
            rc: s[0].as_ref().map(FromValue::from_value),
            a: s[1].as_ref().map(FromValue::from_value),
        }
    }
}
impl ToValue for Tsp9p1 {
    fn to_value(&self) -> Value {
        Value::Seq(vec![
            self.rc.as_ref().map(|x| x.to_value()),
            self.a.as_ref().map(|x| x.to_value()),
        ])
    }
}
impl FromValue for Tsp9p2 {
    fn from_value(v: &Value) -> Self {
        let s = match v { Value::Seq(s) => s, other => panic!("Tsp9p2: expected Seq, got {other:?}") };
        assert_eq!(s.len(), 2, "Tsp9p2: component count");
        let _ = s;
        Tsp9p2 {
            rc: s[0].as_ref().map(FromValue::from_value),
            c3: FromValue::from_value(s[1].as_ref().expect("component c3 of Tsp9p2 must be present")),
        }
    }
}
impl ToValue for Tsp9p2 {
    fn to_value(&self) -> Value {
        Value::Seq(vec![
            self.rc.as_ref().map(|x| x.to_value()),
            Some(self.c3.to_value()),
        ])
    }
}
impl FromValue for Tsp9p3 {
    fn from_value(v: &Value) -> Self {
        let s = match v { Value::Seq(s) => s, other => panic!("Tsp9p3: expected Seq, got {other:?}") };
        assert_eq!(s.len(), 2, "Tsp9p3: component count");
        let _ = s;
        Tsp9p3 {
            rc: s[0].as_ref().map(FromValue::from_value),
            c0: s[1].as_ref().map(FromValue::from_value),
        }
    }
}
impl ToValue for Tsp9p3 {
    fn to_value(&self) -> Value {
        Value::Seq(vec![
            self.rc.as_ref().map(|x| x.to_value()),
            self.c0.as_ref().map(|x| x.to_value()),
        ])
    }
}
impl FromValue for Tsp9p4 {
    fn from_value(v: &Value) -> Self {
        let s = match v { Value::Seq(s) => s, other => panic!("Tsp9p4: expected Seq, got {other:?}") };
        assert_eq!(s.len(), 2, "Tsp9p4: component count");
        let _ = s;
        Tsp9p4 {
            rc: s[0].as_ref().map(FromValue::from_value),
            p: FromValue::from_value(s[1].as_ref().expect("component p of Tsp9p4 must be present")),
        }
    }
}
impl ToValue for Tsp9p4 {
    fn to_value(&self) -> Value {
        Value::Seq(vec![
            self.rc.as_ref().map(|x| x.to_value()),
            Some(self.p.to_value()),
        ])
    }
}
impl FromValue for Tsp9p5 {
    fn from_value(v: &Value) -> Self {
        let s = match v { Value::Seq(s) => s, other => panic!("Tsp9p5: expected Seq, got {other:?}") };
        assert_eq!(s.len(), 2, "Tsp9p5: component count");
        let _ = s;
        Tsp9p5 {
            rc: s[0].as_ref().map(FromValue::from_value),
            b: s[1].as_ref().map(FromValue::from_value),
        }
    }
}
impl ToValue for Tsp9p5 {
    fn to_value(&self) -> Value {
        Value::Seq(vec![
            self.rc.as_ref().map(|x| x.to_value()),
            self.b.as_ref().map(|x| x.to_value()),
        ])
    }
}
impl FromValue for Tsp9p6 {
    fn from_value(v: &Value) -> Self {
        let s = match v { Value::Seq(s) => s, other => panic!("Tsp9p6: expected Seq, got {other:?}") };
        assert_eq!(s.len(), 2, "Tsp9p6: component count");
        let _ = s;
        Tsp9p6 {
            rc: s[0].as_ref().map(FromValue::from_value),
            i: FromValue::from_value(s[1].as_ref().expect("component i of Tsp9p6 must be present")),
        }
    }
}
impl ToValue for Tsp9p6 {
    fn to_value(&self) -> Value {
        Value::Seq(vec![
            self.rc.as_ref().map(|x| x.to_value()),
            Some(self.i.to_value()),
        ])
    }
}
impl FromValue for Tsp9p7 {
    fn from_value(v: &Value) -> Self {
        let s = match v { Value::Seq(s) => s, other => panic!("Tsp9p7: expected Seq, got {other:?}") };
        assert_eq!(s.len(), 2, "Tsp9p7: component count");
        let _ = s;
        Tsp9p7 {
            rc: s[0].as_ref().map(FromValue::from_value),
            ra: s[1].as_ref().map(FromValue::from_value),
        }
    }
}
impl ToValue for Tsp9p7 {
    fn to_value(&self) -> Value {
        Value::Seq(vec![
            self.rc.as_ref().map(|x| x.to_value()),
            self.ra.as_ref().map(|x| x.to_value()),
        ])
    }
}
impl FromValue for Tsp9p8 {
    fn from_value(v: &Value) -> Self {
        let s = match v { Value::Seq(s) => s, other => panic!("Tsp9p8: expected Seq, got {other:?}") };
        assert_eq!(s.len(), 2, "Tsp9p8: component count");
        let _ = s;
        Tsp9p8 {
            rc: s[0].as_ref().map(FromValue::from_value),
            rs: FromValue::from_value(s[1].as_ref().expect("component rs of Tsp9p8 must be present")),
        }
    }
}
impl ToValue for Tsp9p8 {
    fn to_value(&self) -> Value {
        Value::Seq(vec![
            self.rc.as_ref().map(|x| x.to_value()),
            Some(self.rs.to_value()),
        ])
    }
}
impl FromValue for Tsp9p10 {
    fn from_value(v: &Value) -> Self {
        let s = match v { Value::Seq(s) => s, other => panic!("Tsp9p10: expected Seq, got {other:?}") };
        assert_eq!(s.len(), 2, "Tsp9p10: component count");
        let _ = s;
        Tsp9p10 {
            rc: s[0].as_ref().map(FromValue::from_value),
            rt: FromValue::from_value(s[1].as_ref().expect("component rt of Tsp9p10 must be present")),
        }
    }
}
impl ToValue for Tsp9p10 {
    fn to_value(&self) -> Value {
        Value::Seq(vec![
            self.rc.as_ref().map(|x| x.to_value()),
            Some(self.rt.to_value()),
        ])
    }
}
impl FromValue for Tsp9p11 {
    fn from_value(v: &Value) -> Self {
        let s = match v { Value::Seq(s) => s, other => panic!("Tsp9p11: expected Seq, got {other:?}") };
        assert_eq!(s.len(), 2, "Tsp9p11: component count");
        let _ = s;
        Tsp9p11 {
            rc: s[0].as_ref().map(FromValue::from_value),
            so: s[1].as_ref().map(FromValue::from_value),
        }
    }
}
impl ToValue for Tsp9p11 {
    fn to_value(&self) -> Value {
        Value::Seq(vec![
            self.rc.as_ref().map(|x| x.to_value()),
            self.so.as_ref().map(|x| x.to_value()),
        ])
    }
}
impl FromValue for Tsp9p12 {
    fn from_value(v: &Value) -> Self {
        let s = match v { Value::Seq(s) => s, other => panic!("Tsp9p12: expected Seq, got {other:?}") };
        assert_eq!(s.len(), 2, "Tsp9p12: component count");
        let _ = s;
        Tsp9p12 {
            rc: s[0].as_ref().map(FromValue::from_value),
            st: FromValue::from_value(s[1].as_ref().expect("component st of Tsp9p12 must be present")),
        }
    }
}
impl ToValue for Tsp9p12 {
    fn to_value(&self) -> Value {
        Value::Seq(vec![
            self.rc.as_ref().map(|x| x.to_value()),
            Some(self.st.to_value()),
        ])
    }
}
impl FromValue for Tsp9p13 {
    fn from_value(v: &Value) -> Self {
        let s = match v { Value::Seq(s) => s, other => panic!("Tsp9p13: expected Seq, got {other:?}") };
        assert_eq!(s.len(), 2, "Tsp9p13: component count");
        let _ = s;
        Tsp9p13 {
            rc: s[0].as_ref().map(FromValue::from_value),
            rx: s[1].as_ref().map(FromValue::from_value),
        }
    }
}
impl ToValue for Tsp9p13 {
    fn to_value(&self) -> Value {
        Value::Seq(vec![
            self.rc.as_ref().map(|x| x.to_value()),
            self.rx.as_ref().map(|x| x.to_value()),
        ])
    }
}
impl FromValue for Tsp9p14 {
    fn from_value(v: &Value) -> Self {
        let s = match v { Value::Seq(s) => s, other => panic!("Tsp9p14: expected Seq, got {other:?}") };
        assert_eq!(s.len(), 2, "Tsp9p14: component count");
        let _ = s;
        Tsp9p14 {
            rc: s[0].as_ref().map(FromValue::from_value),
            u2: FromValue::from_value(s[1].as_ref().expect("component u2 of Tsp9p14 must be present")),
        }
    }
}
impl ToValue for Tsp9p14 {
    fn to_value(&self) -> Value {
        Value::Seq(vec![
            self.rc.as_ref().map(|x| x.to_value()),
            Some(self.u2.to_value()),
        ])
    }
}
impl FromValue for Tsp9p15Is {
    fn from_value(v: &Value) -> Self {
        let s = match v { Value::Seq(s) => s, other => panic!("Tsp9p15Is: expected Seq, got {other:?}") };
        assert_eq!(s.len(), 1, "Tsp9p15Is: component count");
        let _ = s;
        Tsp9p15Is {
            v: FromValue::from_value(s[0].as_ref().expect("component v of Tsp9p15Is must be present")),
        }
    }
}
impl ToValue for Tsp9p15Is {
    fn to_value(&self) -> Value {
        Value::Seq(vec![
            Some(self.v.to_value()),
        ])
    }
}
impl FromValue for Tsp9p15 {
    fn from_value(v: &Value) -> Self {
        let s = match v { Value::Seq(s) => s, other => panic!("Tsp9p15: expected Seq, got {other:?}") };
        assert_eq!(s.len(), 2, "Tsp9p15: component count");
        let _ = s;
        Tsp9p15 {
            rc: s[0].as_ref().map(FromValue::from_value),
            is: s[1].as_ref().map(FromValue::from_value),
        }
    }
}
impl ToValue for Tsp9p15 {
    fn to_value(&self) -> Value {
        Value::Seq(vec![
            self.rc.as_ref().map(|x| x.to_value()),
            self.is.as_ref().map(|x| x.to_value()),
        ])
    }
}
impl FromValue for Tsp10p0 {
    fn from_value(v: &Value) -> Self {
        let s = match v { Value::Seq(s) => s, other => panic!("Tsp10p0: expected Seq, got {other:?}") };
        assert_eq!(s.len(), 2, "Tsp10p0: component count");
        let _ = s;
        Tsp10p0 {
            rt: FromValue::from_value(s[0].as_ref().expect("component rt of Tsp10p0 must be present")),
            x: FromValue::from_value(s[1].as_ref().expect("component x of Tsp10p0 must be present")),
        }
    }
}
impl ToValue for Tsp10p0 {
    fn to_value(&self) -> Value {
        Value::Seq(vec![
            Some(self.rt.to_value()),
            Some(self.x.to_value()),
        ])
    }
}
impl FromValue for Tsp10p1 {
    fn from_value(v: &Value) -> Self {
        let s = match v { Value::Seq(s) => s, other => panic!("Tsp10p1: expected Seq, got {other:?}") };
        assert_eq!(s.len(), 2, "Tsp10p1: component count");
        let _ = s;
        Tsp10p1 {
            rt: FromValue::from_value(s[0].as_ref().expect("component rt of Tsp10p1 must be present")),
            a: s[1].as_ref().map(FromValue::from_value),
        }
    }
}
impl ToValue for Tsp10p1 {
    fn to_value(&self) -> Value {
        Value::Seq(vec![
            Some(self.rt.to_value()),
            self.a.as_ref().map(|x| x.to_value()),
        ])
    }
}
impl FromValue for Tsp10p2 {
    fn from_value(v: &Value) -> Self {
        let s = match v { Value::Seq(s) => s, other => panic!("Tsp10p2: expected Seq, got {other:?}") };
        assert_eq!(s.len(), 2, "Tsp10p2: component count");
        let _ = s;
        Tsp10p2 {
            rt: FromValue::from_value(s[0].as_ref().expect("component rt of Tsp10p2 must be present")),
            c3: FromValue::from_value(s[1].as_ref().expect("component c3 of Tsp10p2 must be present")),
        }
    }
}
impl ToValue for Tsp10p2 {
    fn to_value(&self) -> Value {
        Value::Seq(vec![
            Some(self.rt.to_value()),
            Some(self.c3.to_value()),
        ])
    }
}
impl FromValue for Tsp10p3 {
    fn from_value(v: &Value) -> Self {
        let s = match v { Value::Seq(s) => s, other => panic!("Tsp10p3: expected Seq, got {other:?}") };
        assert_eq!(s.len(), 2, "Tsp10p3: component count");
        let _ = s;
        Tsp10p3 {
            rt: FromValue::from_value(s[0].as_ref().expect("component rt of Tsp10p3 must be present")),
            c0: s[1].as_ref().map(FromValue::from_value),
        }
    }
}
impl ToValue for Tsp10p3 {
    fn to_value(&self) -> Value {
        Value::Seq(vec![
            Some(self.rt.to_value()),
            self.c0.as_ref().map(|x| x.to_value()),
        ])
    }
}
impl FromValue for Tsp10p4 {
    fn from_value(v: &Value) -> Self {
        let s = match v { Value::Seq(s) => s, other => panic!("Tsp10p4: expected Seq, got {other:?}") };
        assert_eq!(s.len(), 2, "Tsp10p4: component count");
        let _ = s;
        Tsp10p4 {
            rt: FromValue::from_value(s[0].as_ref().expect("component rt of Tsp10p4 must be present")),
            p: FromValue::from_value(s[1].as_ref().expect("component p of Tsp10p4 must be present")),
        }
    }
}
impl ToValue for Tsp10p4 {
    fn to_value(&self) -> Value {
        Value::Seq(vec![
            Some(self.rt.to_value()),
            Some(self.p.to_value()),
        ])
    }
}
impl FromValue for Tsp10p5 {
    fn from_value(v: &Value) -> Self {
        let s = match v { Value::Seq(s) => s, other => panic!("Tsp10p5: expected Seq, got {other:?}") };
        assert_eq!(s.len(), 2, "Tsp10p5: component count");
        let _ = s;
        Tsp10p5 {
            rt: FromValue::from_value(s[0].as_ref().expect("component rt of Tsp10p5 must be present")),
            b: s[1].as_ref().map(FromValue::from_value),
        }
    }
}
impl ToValue for Tsp10p5 {
    fn to_value(&self) -> Value {
        Value::Seq(vec![
            Some(self.rt.to_value()),
            self.b.as_ref().map(|x| x.to_value()),
        ])
    }
}
impl FromValue for Tsp10p6 {
    fn from_value(v: &Value) -> Self {
        let s = match v { Value::Seq(s) => s, other => panic!("Tsp10p6: expected Seq, got {other:?}") };
        assert_eq!(s.len(), 2, "Tsp10p6: component count");
        let _ = s;
        Tsp10p6 {
            rt: FromValue::from_value(s[0].as_ref().expect("component rt of Tsp10p6 must be present")),
            i: FromValue::from_value(s[1].as_ref().expect("component i of Tsp10p6 must be present")),
        }
    }
}
impl ToValue for Tsp10p6 {
    fn to_value(&self) -> Value {
        Value::Seq(vec![
            Some(self.rt.to_value()),
            Some(self.i.to_value()),
        ])
    }
}
impl FromValue for Tsp10p7 {
    fn from_value(v: &Value) -> Self {
        let s = match v { Value::Seq(s) => s, other => panic!("Tsp10p7: expected Seq, got {other:?}") };
        assert_eq!(s.len(), 2, "Tsp10p7: component count");
        let _ = s;
        Tsp10p7 {
            rt: FromValue::from_value(s[0].as_ref().expect("component rt of Tsp10p7 must be present")),
            ra: s[1].as_ref().map(FromValue::from_value),
        }
    }
}
impl ToValue for Tsp10p7 {
    fn to_value(&self) -> Value {
        Value::Seq(vec![
            Some(self.rt.to_value()),
            self.ra.as_ref().map(|x| x.to_value()),
        ])
    }
}
impl FromValue for Tsp10p8 {
    fn from_value(v: &Value) -> Self {
        let s = match v { Value::Seq(s) => s, other => panic!("Tsp10p8: expected Seq, got {other:?}") };
        assert_eq!(s.len(), 2, "Tsp10p8: component count");
        let _ = s;
        Tsp10p8 {
            rt: FromValue::from_value(s[0].as_ref().expect("component rt of Tsp10p8 must be present")),
            rs: FromValue::from_value(s[1].as_ref().expect("component rs of Tsp10p8 must be present")),
        }
    }
}
impl ToValue for Tsp10p8 {
    fn to_value(&self) -> Value {
        Value::Seq(vec![
            Some(self.rt.to_value()),
            Some(self.rs.to_value()),
        ])
    }
}
impl FromValue for Tsp10p9 {
    fn from_value(v: &Value) -> Self {
        let s = match v { Value::Seq(s) => s, other => panic!("Tsp10p9: expected Seq, got {other:?}") };
        assert_eq!(s.len(), 2, "Tsp10p9: component count");
        let _ = s;
        Tsp10p9 {
            rt: FromValue::from_value(s[0].as_ref().expect("component rt of Tsp10p9 must be present")),
            rc: s[1].as_ref().map(FromValue::from_value),
        }
    }
}
impl ToValue for Tsp10p9 {
    fn to_value(&self) -> Value {
        Value::Seq(vec![
            Some(self.rt.to_value()),
            self.rc.as_ref().map(|x| x.to_value()),
        ])
    }
}
impl FromValue for Tsp10p11 {
    fn from_value(v: &Value) -> Self {
        let s = match v { Value::Seq(s) => s, other => panic!("Tsp10p11: expected Seq, got {other:?}") };
        assert_eq!(s.len(), 2, "Tsp10p11: component count");
        let _ = s;
        Tsp10p11 {
            rt: FromValue::from_value(s[0].as_ref().expect("component rt of Tsp10p11 must be present")),
            so: s[1].as_ref().map(FromValue::from_value),
        }
    }
}
impl ToValue for Tsp10p11 {
    fn to_value(&self) -> Value {
        Value::Seq(vec![
            Some(self.rt.to_value()),
            self.so.as_ref().map(|x| x.to_value()),
        ])
    }
}
impl FromValue for Tsp10p12 {
    fn from_value(v: &Value) -> Self {
        let s = match v { Value::Seq(s) => s, other => panic!("Tsp10p12: expected Seq, got {other:?}") };
        assert_eq!(s.len(), 2, "Tsp10p12: component count");
        let _ = s;
        Tsp10p12 {
            rt: FromValue::from_value(s[0].as_ref().expect("component rt of Tsp10p12 must be present")),
            st: FromValue::from_value(s[1].as_ref().expect("component st of Tsp10p12 must be present")),
        }
    }
}
impl ToValue for Tsp10p12 {
    fn to_value(&self) -> Value {
        Value::Seq(vec![
            Some(self.rt.to_value()),
            Some(self.st.to_value()),
        ])
    }
}
impl FromValue for Tsp10p13 {
    fn from_value(v: &Value) -> Self {
        let s = match v { Value::Seq(s) => s, other => panic!("Tsp10p13: expected Seq, got {other:?}") };
        assert_eq!(s.len(), 2, "Tsp10p13: component count");
        let _ = s;
        Tsp10p13 {
            rt: FromValue::from_value(s[0].as_ref().expect("component rt of Tsp10p13 must be present")),
            rx: s[1].as_ref().map(FromValue::from_value),
        }
    }
}
impl ToValue for Tsp10p13 {
    fn to_value(&self) -> Value {
        Value::Seq(vec![
            Some(self.rt.to_value()),
            self.rx.as_ref().map(|x| x.to_value()),
        ])
    }
}
impl FromValue for Tsp10p14 {
    fn from_value(v: &Value) -> Self {
        let s = match v { Value::Seq(s) => s, other => panic!("Tsp10p14: expected Seq, got {other:?}") };
        assert_eq!(s.len(), 2, "Tsp10p14: component count");
        let _ = s;
        Tsp10p14 {
            rt: FromValue::from_value(s[0].as_ref().expect("component rt of Tsp10p14 must be present")),
            u2: FromValue::from_value(s[1].as_ref().expect("component u2 of Tsp10p14 must be present")),
        }
    }
}
impl ToValue for Tsp10p14 {
    fn to_value(&self) -> Value {
        Value::Seq(vec![
            Some(self.rt.to_value()),
            Some(self.u2.to_value()),
        ])
    }
}
impl FromValue for Tsp10p15Is {
    fn from_value(v: &Value) -> Self {
        let s = match v { Value::Seq(s) => s, other => panic!("Tsp10p15Is: expected Seq, got {other:?}") };
        assert_eq!(s.len(), 1, "Tsp10p15Is: component count");
        let _ = s;
        Tsp10p15Is {
            v: FromValue::from_value(s[0].as_ref().expect("component v of Tsp10p15Is must be present")),
        }
    }
}
impl ToValue for Tsp10p15Is {
    fn to_value(&self) -> Value {
        Value::Seq(vec![
            Some(self.v.to_value()),
        ])
    }
}
impl FromValue for Tsp10p15 {
    fn from_value(v: &Value) -> Self {
        let s = match v { Value::Seq(s) => s, other => panic!("Tsp10p15: expected Seq, got {other:?}") };
        assert_eq!(s.len(), 2, "Tsp10p15: component count");
        let _ = s;
        Tsp10p15 {
            rt: FromValue::from_value(s[0].as_ref().expect("component rt of Tsp10p15 must be present")),
            is: s[1].as_ref().map(FromValue::from_value),
        }
    }
}
impl ToValue for Tsp10p15 {
    fn to_value(&self) -> Value {
        Value::Seq(vec![
            Some(self.rt.to_value()),
            self.is.as_ref().map(|x| x.to_value()),
        ])
    }
}
impl FromValue for Tsp11p0 {
    fn from_value(v: &Value) -> Self {
        let s = match v { Value::Seq(s) => s, other => panic!("Tsp11p0: expected Seq, got {other:?}") };
        assert_eq!(s.len(), 2, "Tsp11p0: component count");
        let _ = s;
        Tsp11p0 {
            so: s[0].as_ref().map(FromValue::from_value),
            x: FromValue::from_value(s[1].as_ref().expect("component x of Tsp11p0 must be present")),
        }
    }
}
impl ToValue for Tsp11p0 {
    fn to_value(&self) -> Value {
        Value::Seq(vec![
            self.so.as_ref().map(|x| x.to_value()),
            Some(self.x.to_value()),
        ])
    }
}
impl FromValue for Tsp11p1 {
    fn from_value(v: &Value) -> Self {
        let s = match v { Value::Seq(s) => s, other => panic!("Tsp11p1: expected Seq, got {other:?}") };
        assert_eq!(s.len(), 2, "Tsp11p1: component count");
        let _ = s;
        Tsp11p1 {
            so: s[0].as_ref().map(FromValue::from_value),
            a: s[1].as_ref().map(FromValue::from_value),
        }
    }
}
impl ToValue for Tsp11p1 {
    fn to_value(&self) -> Value {
        Value::Seq(vec![
            self.so.as_ref().map(|x| x.to_value()),
            self.a.as_ref().map(|x| x.to_value()),
        ])
    }
}
impl FromValue for Tsp11p2 {
    fn from_value(v: &Value) -> Self {
        let s = match v { Value::Seq(s) => s, other => panic!("Tsp11p2: expected Seq, got {other:?}") };
        assert_eq!(s.len(), 2, "Tsp11p2: component count");
        let _ = s;
        Tsp11p2 {
            so: s[0].as_ref().map(FromValue::from_value),
            c3: FromValue::from_value(s[1].as_ref().expect("component c3 of Tsp11p2 must be present")),
        }
    }
}
impl ToValue for Tsp11p2 {
    fn to_value(&self) -> Value {
        Value::Seq(vec![
            self.so.as_ref().map(|x| x.to_value()),
            Some(self.c3.to_value()),
        ])
    }
}
impl FromValue for Tsp11p3 {
    fn from_value(v: &Value) -> Self {
        let s = match v { Value::Seq(s) => s, other => panic!("Tsp11p3: expected Seq, got {other:?}") };
        assert_eq!(s.len(), 2, "Tsp11p3: component count");
        let _ = s;
        Tsp11p3 {
            so: s[0].as_ref().map(FromValue::from_value),
            c0: s[1].as_ref().map(FromValue::from_value),
        }
    }
}
impl ToValue for Tsp11p3 {
    fn to_value(&self) -> Value {
        Value::Seq(vec![
            self.so.as_ref().map(|x| x.to_value()),
            self.c0.as_ref().map(|x| x.to_value()),
        ])
    }
}
impl FromValue for Tsp11p4 {
    fn from_value(v: &Value) -> Self {
        let s = match v { Value::Seq(s) => s, other => panic!("Tsp11p4: expected Seq, got {other:?}") };
        assert_eq!(s.len(), 2, "Tsp11p4: component count");
        let _ = s;
        Tsp11p4 {
            so: s[0].as_ref().map(FromValue::from_value),
            p: FromValue::from_value(s[1].as_ref().expect("component p of Tsp11p4 must be present")),
        }
    }
}
impl ToValue for Tsp11p4 {
    fn to_value(&self) -> Value {
        Value::Seq(vec![
            self.so.as_ref().map(|x| x.to_value()),
            Some(self.p.to_value()),
        ])
    }
}
impl FromValue for Tsp11p5 {
    fn from_value(v: &Value) -> Self {
        let s = match v { Value::Seq(s) => s, other => panic!("Tsp11p5: expected Seq, got {other:?}") };
        assert_eq!(s.len(), 2, "Tsp11p5: component count");
        let _ = s;
        Tsp11p5 {
            so: s[0].as_ref().map(FromValue::from_value),
            b: s[1].as_ref().map(FromValue::from_value),
        }
    }
}
impl ToValue for Tsp11p5 {
    fn to_value(&self) -> Value {
        Value::Seq(vec![
            self.so.as_ref().map(|x| x.to_value()),
            self.b.as_ref().map(|x| x.to_value()),
        ])
    }
}
impl FromValue for Tsp11p6 {
    fn from_value(v: &Value) -> Self {
        let s = match v { Value::Seq(s) => s, other => panic!("Tsp11p6: expected Seq, got {other:?}") };
        assert_eq!(s.len(), 2, "Tsp11p6: component count");
        let _ = s;
        Tsp11p6 {
            so: s[0].as_ref().map(FromValue::from_value),
            i: FromValue::from_value(s[1].as_ref().expect("component i of Tsp11p6 must be present")),
        }
    }
}
impl ToValue for Tsp11p6 {
    fn to_value(&self) -> Value {
        Value::Seq(vec![
            self.so.as_ref().map(|x| x.to_value()),
            Some(self.i.to_value()),
        ])
    }
}
impl FromValue for Tsp11p7 {
    fn from_value(v: &Value) -> Self {
        let s = match v { Value::Seq(s) => s, other => panic!("Tsp11p7: expected Seq, got {other:?}") };
        assert_eq!(s.len(), 2, "Tsp11p7: component count");
        let _ = s;
        Tsp11p7 {
            so: s[0].as_ref().map(FromValue::from_value),
            ra: s[1].as_ref().map(FromValue::from_value),
        }
    }
}
impl ToValue for Tsp11p7 {
    fn to_value(&self) -> Value {
        Value::Seq(vec![
            self.so.as_ref().map(|x| x.to_value()),
            self.ra.as_ref().map(|x| x.to_value()),
        ])
    }
}
impl FromValue for Tsp11p8 {
    fn from_value(v: &Value) -> Self {
        let s = match v { Value::Seq(s) => s, other => panic!("Tsp11p8: expected Seq, got {other:?}") };
        assert_eq!(s.len(), 2, "Tsp11p8: component count");
        let _ = s;
        Tsp11p8 {
            so: s[0].as_ref().map(FromValue::from_value),
            rs: FromValue::from_value(s[1].as_ref().expect("component rs of Tsp11p8 must be present")),
        }
    }
}
impl ToValue for Tsp11p8 {
    fn to_value(&self) -> Value {
        Value::Seq(vec![
            self.so.as_ref().map(|x| x.to_value()),
            Some(self.rs.to_value()),
        ])
    }
}
impl FromValue for Tsp11p9 {
    fn from_value(v: &Value) -> Self {
        let s = match v { Value::Seq(s) => s, other => panic!("Tsp11p9: expected Seq, got {other:?}") };
        assert_eq!(s.len(), 2, "Tsp11p9: component count");
        let _ = s;
        Tsp11p9 {
            so: s[0].as_ref().map(FromValue::from_value),
            rc: s[1].as_ref().map(FromValue::from_value),
        }
    }
}
impl ToValue for Tsp11p9 {
    fn to_value(&self) -> Value {
        Value::Seq(vec![
            self.so.as_ref().map(|x| x.to_value()),
            self.rc.as_ref().map(|x| x.to_value()),
        ])
    }
}
impl FromValue for Tsp11p10 {
    fn from_value(v: &Value) -> Self {
        let s = match v { Value::Seq(s) => s, other => panic!("Tsp11p10: expected Seq, got {other:?}") };
        assert_eq!(s.len(), 2, "Tsp11p10: component count");
        let _ = s;
        Tsp11p10 {
            so: s[0].as_ref().map(FromValue::from_value),
            rt: FromValue::from_value(s[1].as_ref().expect("component rt of Tsp11p10 must be present")),
        }
    }
}
impl ToValue for Tsp11p10 {
    fn to_value(&self) -> Value {
        Value::Seq(vec![
            self.so.as_ref().map(|x| x.to_value()),
            Some(self.rt.to_value()),
        ])
    }
}
impl FromValue for Tsp11p12 {
    fn from_value(v: &Value) -> Self {
        let s = match v { Value::Seq(s) => s, other => panic!("Tsp11p12: expected Seq, got {other:?}") };
        assert_eq!(s.len(), 2, "Tsp11p12: component count");
        let _ = s;
        Tsp11p12 {
            so: s[0].as_ref().map(FromValue::from_value),
            st: FromValue::from_value(s[1].as_ref().expect("component st of Tsp11p12 must be present")),
        }
    }
}
impl ToValue for Tsp11p12 {
    fn to_value(&self) -> Value {
        Value::Seq(vec![
            self.so.as_ref().map(|x| x.to_value()),
            Some(self.st.to_value()),
        ])
    }
}
impl FromValue for Tsp11p13 {
    fn from_value(v: &Value) -> Self {
        let s = match v { Value::Seq(s) => s, other => panic!("Tsp11p13: expected Seq, got {other:?}") };
        assert_eq!(s.len(), 2, "Tsp11p13: component count");
        let _ = s;
        Tsp11p13 {
            so: s[0].as_ref().map(FromValue::from_value),
            rx: s[1].as_ref().map(FromValue::from_value),
        }
    }
}
impl ToValue for Tsp11p13 {
    fn to_value(&self) -> Value {
        Value::Seq(vec![
            self.so.as_ref().map(|x| x.to_value()),
            self.rx.as_ref().map(|x| x.to_value()),
        ])
    }
}
impl FromValue for Tsp11p14 {
    fn from_value(v: &Value) -> Self {
        let s = match v { Value::Seq(s) => s, other => panic!("Tsp11p14: expected Seq, got {other:?}") };
        assert_eq!(s.len(), 2, "Tsp11p14: component count");
        let _ = s;
        Tsp11p14 {
            so: s[0].as_ref().map(FromValue::from_value),
            u2: FromValue::from_value(s[1].as_ref().expect("component u2 of Tsp11p14 must be present")),
        }
    }
}
impl ToValue for Tsp11p14 {
    fn to_value(&self) -> Value {
        Value::Seq(vec![
            self.so.as_ref().map(|x| x.to_value()),
            Some(self.u2.to_value()),
        ])
    }
}
impl FromValue for Tsp11p15Is {
    fn from_value(v: &Value) -> Self {
        let s = match v { Value::Seq(s) => s, other => panic!("Tsp11p15Is: expected Seq, got {other:?}") };
        assert_eq!(s.len(), 1, "Tsp11p15Is: component count");
        let _ = s;
        Tsp11p15Is {
            v: FromValue::from_value(s[0].as_ref().expect("component v of Tsp11p15Is must be present")),
        }
    }
}
impl ToValue for Tsp11p15Is {
    fn to_value(&self) -> Value {
        Value::Seq(vec![
            Some(self.v.to_value()),
        ])
    }
}
impl FromValue for Tsp11p15 {
    fn from_value(v: &Value) -> Self {
        let s = match v { Value::Seq(s) => s, other => panic!("Tsp11p15: expected Seq, got {other:?}") };
        assert_eq!(s.len(), 2, "Tsp11p15: component count");
        let _ = s;
        Tsp11p15 {
            so: s[0].as_ref().map(FromValue::from_value),
            is: s[1].as_ref().map(FromValue::from_value),
        }
    }
}
impl ToValue for Tsp11p15 {
    fn to_value(&self) -> Value {
        Value::Seq(vec![
            self.so.as_ref().map(|x| x.to_value()),
            self.is.as_ref().map(|x| x.to_value()),
        ])
    }
}
impl FromValue for Tsp12p0 {
    fn from_value(v: &Value) -> Self {
        let s = match v { Value::Seq(s) => s, other => panic!("Tsp12p0: expected Seq, got {other:?}") };
        assert_eq!(s.len(), 2, "Tsp12p0: component count");
        let _ = s;
        Tsp12p0 {
            st: FromValue::from_value(s[0].as_ref().expect("component st of Tsp12p0 must be present")),
            x: FromValue::from_value(s[1].as_ref().expect("component x of Tsp12p0 must be present")),
        }
    }
}
impl ToValue for Tsp12p0 {
    fn to_value(&self) -> Value {
        Value::Seq(vec![
            Some(self.st.to_value()),
            Some(self.x.to_value()),
        ])
    }
}
impl FromValue for Tsp12p1 {
    fn from_value(v: &Value) -> Self {
        let s = match v { Value::Seq(s) => s, other => panic!("Tsp12p1: expected Seq, got {other:?}") };
        assert_eq!(s.len(), 2, "Tsp12p1: component count");
        let _ = s;
        Tsp12p1 {
            st: FromValue::from_value(s[0].as_ref().expect("component st of Tsp12p1 must be present")),
            a: s[1].as_ref().map(FromValue::from_value),
        }
    }
}
impl ToValue for Tsp12p1 {
    fn to_value(&self) -> Value {
        Value::Seq(vec![
            Some(self.st.to_value()),
            self.a.as_ref().map(|x| x.to_value()),
        ])
    }
}
impl FromValue for Tsp12p2 {
    fn from_value(v: &Value) -> Self {
        let s = match v { Value::Seq(s) => s, other => panic!("Tsp12p2: expected Seq, got {other:?}") };
        assert_eq!(s.len(), 2, "Tsp12p2: component count");
        let _ = s;
        Tsp12p2 {
            st: FromValue::from_value(s[0].as_ref().expect("component st of Tsp12p2 must be present")),
            c3: FromValue::from_value(s[1].as_ref().expect("component c3 of Tsp12p2 must be present")),
        }
    }
}
impl ToValue for Tsp12p2 {
    fn to_value(&self) -> Value {
        Value::Seq(vec![
            Some(self.st.to_value()),
            Some(self.c3.to_value()),
        ])
    }
}
impl FromValue for Tsp12p3 {
    fn from_value(v: &Value) -> Self {
        let s = match v { Value::Seq(s) => s, other => panic!("Tsp12p3: expected Seq, got {other:?}") };
        assert_eq!(s.len(), 2, "Tsp12p3: component count");
        let _ = s;
        Tsp12p3 {
            st: FromValue::from_value(s[0].as_ref().expect("component st of Tsp12p3 must be present")),
            c0: s[1].as_ref().map(FromValue::from_value),
        }
    }
}
impl ToValue for Tsp12p3 {
    fn to_value(&self) -> Value {
        Value::Seq(vec![
            Some(self.st.to_value()),
            self.c0.as_ref().map(|x| x.to_value()),
        ])
    }
}
impl FromValue for Tsp12p4 {
    fn from_value(v: &Value) -> Self {
        let s = match v { Value::Seq(s) => s, other => panic!("Tsp12p4: expected Seq, got {other:?}") };
        assert_eq!(s.len(), 2, "Tsp12p4: component count");
        let _ = s;
        Tsp12p4 {
            st: FromValue::from_value(s[0].as_ref().expect("component st of Tsp12p4 must be present")),
            p: FromValue::from_value(s[1].as_ref().expect("component p of Tsp12p4 must be present")),
        }
    }
}
impl ToValue for Tsp12p4 {
    fn to_value(&self) -> Value {
        Value::Seq(vec![
            Some(self.st.to_value()),
            Some(self.p.to_value()),
        ])
    }
}
impl FromValue for Tsp12p5 {
    fn from_value(v: &Value) -> Self {
        let s = match v { Value::Seq(s) => s, other => panic!("Tsp12p5: expected Seq, got {other:?}") };
        assert_eq!(s.len(), 2, "Tsp12p5: component count");
        let _ = s;
        Tsp12p5 {
            st: FromValue::from_value(s[0].as_ref().expect("component st of Tsp12p5 must be present")),
            b: s[1].as_ref().map(FromValue::from_value),
        }
    }
}
impl ToValue for Tsp12p5 {
    fn to_value(&self) -> Value {
        Value::Seq(vec![
            Some(self.st.to_value()),
            self.b.as_ref().map(|x| x.to_value()),
        ])
    }
}
impl FromValue for Tsp12p6 {
    fn from_value(v: &Value) -> Self {
        let s = match v { Value::Seq(s) => s, other => panic!("Tsp12p6: expected Seq, got {other:?}") };
        assert_eq!(s.len(), 2, "Tsp12p6: component count");
        let _ = s;
        Tsp12p6 {
            st: FromValue::from_value(s[0].as_ref().expect("component st of Tsp12p6 must be present")),
            i: FromValue::from_value(s[1].as_ref().expect("component i of Tsp12p6 must be present")),
        }
    }
}
impl ToValue for Tsp12p6 {
    fn to_value(&self) -> Value {
        Value::Seq(vec![
            Some(self.st.to_value()),
            Some(self.i.to_value()),
        ])
    }
}
impl FromValue for Tsp12p7 {
    fn from_value(v: &Value) -> Self {
        let s = match v { Value::Seq(s) => s, other => panic!("Tsp12p7: expected Seq, got {other:?}") };
        assert_eq!(s.len(), 2, "Tsp12p7: component count");
        let _ = s;
        Tsp12p7 {
            st: FromValue::from_value(s[0].as_ref().expect("component st of Tsp12p7 must be present")),
            ra: s[1].as_ref().map(FromValue::from_value),
        }
    }
}
impl ToValue for Tsp12p7 {
    fn to_value(&self) -> Value {
        Value::Seq(vec![
            Some(self.st.to_value()),
            self.ra.as_ref().map(|x| x.to_value()),
        ])
    }
}
impl FromValue for Tsp12p8 {
    fn from_value(v: &Value) -> Self {
        let s = match v { Value::Seq(s) => s, other => panic!("Tsp12p8: expected Seq, got {other:?}") };
        assert_eq!(s.len(), 2, "Tsp12p8: component count");
        let _ = s;
        Tsp12p8 {
            st: FromValue::from_value(s[0].as_ref().expect("component st of Tsp12p8 must be present")),
            rs: FromValue::from_value(s[1].as_ref().expect("component rs of Tsp12p8 must be present")),
        }
    }
}
impl ToValue for Tsp12p8 {
    fn to_value(&self) -> Value {
        Value::Seq(vec![
            Some(self.st.to_value()),
            Some(self.rs.to_value()),
        ])
    }
}
impl FromValue for Tsp12p9 {
    fn from_value(v: &Value) -> Self {
        let s = match v { Value::Seq(s) => s, other => panic!("Tsp12p9: expected Seq, got {other:?}") };
        assert_eq!(s.len(), 2, "Tsp12p9: component count");
        let _ = s;
        Tsp12p9 {
            st: FromValue::from_value(s[0].as_ref().expect("component st of Tsp12p9 must be present")),
            rc: s[1].as_ref().map(FromValue::from_value),
        }
    }
}
impl ToValue for Tsp12p9 {
    fn to_value(&self) -> Value {
        Value::Seq(vec![
            Some(self.st.to_value()),
            self.rc.as_ref().map(|x| x.to_value()),
        ])
    }
}
impl FromValue for Tsp12p10 {
    fn from_value(v: &Value) -> Self {
        let s = match v { Value::Seq(s) => s, other => panic!("Tsp12p10: expected Seq, got {other:?}") };
        assert_eq!(s.len(), 2, "Tsp12p10: component count");
        let _ = s;
        Tsp12p10 {
            st: FromValue::from_value(s[0].as_ref().expect("component st of Tsp12p10 must be present")),
            rt: FromValue::from_value(s[1].as_ref().expect("component rt of Tsp12p10 must be present")),
        }
    }
}
impl ToValue for Tsp12p10 {
    fn to_value(&self) -> Value {
        Value::Seq(vec![
            Some(self.st.to_value()),
            Some(self.rt.to_value()),
        ])
    }
}
impl FromValue for Tsp12p11 {
    fn from_value(v: &Value) -> Self {
        let s = match v { Value::Seq(s) => s, other => panic!("Tsp12p11: expected Seq, got {other:?}") };
        assert_eq!(s.len(), 2, "Tsp12p11: component count");
        let _ = s;
        Tsp12p11 {
            st: FromValue::from_value(s[0].as_ref().expect("component st of Tsp12p11 must be present")),
            so: s[1].as_ref().map(FromValue::from_value),
        }
    }
}
impl ToValue for Tsp12p11 {
    fn to_value(&self) -> Value {
        Value::Seq(vec![
            Some(self.st.to_value()),
            self.so.as_ref().map(|x| x.to_value()),
        ])
    }
}
impl FromValue for Tsp12p13 {
    fn from_value(v: &Value) -> Self {
        let s = match v { Value::Seq(s) => s, other => panic!("Tsp12p13: expected Seq, got {other:?}") };
        assert_eq!(s.len(), 2, "Tsp12p13: component count");
        let _ = s;
        Tsp12p13 {
            st: FromValue::from_value(s[0].as_ref().expect("component st of Tsp12p13 must be present")),
            rx: s[1].as_ref().map(FromValue::from_value),
        }
    }
}
impl ToValue for Tsp12p13 {
    fn to_value(&self) -> Value {
        Value::Seq(vec![
            Some(self.st.to_value()),
            self.rx.as_ref().map(|x| x.to_value()),
        ])
    }
}
impl FromValue for Tsp12p14 {
    fn from_value(v: &Value) -> Self {
        let s = match v { Value::Seq(s) => s, other => panic!("Tsp12p14: expected Seq, got {other:?}") };
        assert_eq!(s.len(), 2, "Tsp12p14: component count");
        let _ = s;
        Tsp12p14 {
            st: FromValue::from_value(s[0].as_ref().expect("component st of Tsp12p14 must be present")),
            u2: FromValue::from_value(s[1].as_ref().expect("component u2 of Tsp12p14 must be present")),
        }
    }
}
impl ToValue for Tsp12p14 {
    fn to_value(&self) -> Value {
        Value::Seq(vec![
            Some(self.st.to_value()),
            Some(self.u2.to_value()),
        ])
    }
}
impl FromValue for Tsp12p15Is {
    fn from_value(v: &Value) -> Self {
        let s = match v { Value::Seq(s) => s, other => panic!("Tsp12p15Is: expected Seq, got {other:?}") };
        assert_eq!(s.len(), 1, "Tsp12p15Is: component count");
        let _ = s;
        Tsp12p15Is {
            v: FromValue::from_value(s[0].as_ref().expect("component v of Tsp12p15Is must be present")),
        }
    }
}
impl ToValue for Tsp12p15Is {
    fn to_value(&self) -> Value {
        Value::Seq(vec![
            Some(self.v.to_value()),
        ])
    }
}
impl FromValue for Tsp12p15 {
    fn from_value(v: &Value) -> Self {
        let s = match v { Value::Seq(s) => s, other => panic!("Tsp12p15: expected Seq, got {other:?}") };
        assert_eq!(s.len(), 2, "Tsp12p15: component count");
        let _ = s;
        Tsp12p15 {
            st: FromValue::from_value(s[0].as_ref().expect("component st of Tsp12p15 must be present")),
            is: s[1].as_ref().map(FromValue::from_value),
        }
    }
}
impl ToValue for Tsp12p15 {
    fn to_value(&self) -> Value {
        Value::Seq(vec![
            Some(self.st.to_value()),
            self.is.as_ref().map(|x| x.to_value()),
        ])
    }
}
impl FromValue for Tsp13p0 {
    fn from_value(v: &Value) -> Self {
        let s = match v { Value::Seq(s) => s, other => panic!("Tsp13p0: expected Seq, got {other:?}") };
        assert_eq!(s.len(), 2, "Tsp13p0: component count");
        let _ = s;
        Tsp13p0 {
            rx: s[0].as_ref().map(FromValue::from_value),
            x: FromValue::from_value(s[1].as_ref().expect("component x of Tsp13p0 must be present")),
        }
    }
}
impl ToValue for Tsp13p0 {
    fn to_value(&self) -> Value {
        Value::Seq(vec![
            self.rx.as_ref().map(|x| x.to_value()),
            Some(self.x.to_value()),
        ])
    }
}
impl FromValue for Tsp13p1 {
    fn from_value(v: &Value) -> Self {
        let s = match v { Value::Seq(s) => s, other => panic!("Tsp13p1: expected Seq, got {other:?}") };
        assert_eq!(s.len(), 2, "Tsp13p1: component count");
        let _ = s;
        Tsp13p1 {
            rx: s[0].as_ref().map(FromValue::from_value),
            a: s[1].as_ref().map(FromValue::from_value),
        }
    }
}
impl ToValue for Tsp13p1 {
    fn to_value(&self) -> Value {
        Value::Seq(vec![
            self.rx.as_ref().map(|x| x.to_value()),
            self.a.as_ref().map(|x| x.to_value()),
        ])
    }
}
impl FromValue for Tsp13p2 {
    fn from_value(v: &Value) -> Self {
        let s = match v { Value::Seq(s) => s, other => panic!("Tsp13p2: expected Seq, got {other:?}") };
        assert_eq!(s.len(), 2, "Tsp13p2: component count");
        let _ = s;
        Tsp13p2 {
            rx: s[0].as_ref().map(FromValue::from_value),
            c3: FromValue::from_value(s[1].as_ref().expect("component c3 of Tsp13p2 must be present")),
        }
    }
}
impl ToValue for Tsp13p2 {
    fn to_value(&self) -> Value {
        Value::Seq(vec![
            self.rx.as_ref().map(|x| x.to_value()),
            Some(self.c3.to_value()),
        ])
    }
}
impl FromValue for Tsp13p3 {
    fn from_value(v: &Value) -> Self {
        let s = match v { Value::Seq(s) => s, other => panic!("Tsp13p3: expected Seq, got {other:?}") };
        assert_eq!(s.len(), 2, "Tsp13p3: component count");
        let _ = s;
        Tsp13p3 {
            rx: s[0].as_ref().map(FromValue::from_value),
            c0: s[1].as_ref().map(FromValue::from_value),
        }
    }
}
impl ToValue for Tsp13p3 {
    fn to_value(&self) -> Value {
        Value::Seq(vec![
            self.rx.as_ref().map(|x| x.to_value()),
            self.c0.as_ref().map(|x| x.to_value()),
        ])
    }
}
impl FromValue for Tsp13p4 {
    fn from_value(v: &Value) -> Self {
        let s = match v { Value::Seq(s) => s, other => panic!("Tsp13p4: expected Seq, got {other:?}") };
        assert_eq!(s.len(), 2, "Tsp13p4: component count");
        let _ = s;
        Tsp13p4 {
            rx: s[0].as_ref().map(FromValue::from_value),
            p: FromValue::from_value(s[1].as_ref().expect("component p of Tsp13p4 must be present")),
        }
    }
}
impl ToValue for Tsp13p4 {
    fn to_value(&self) -> Value {
        Value::Seq(vec![
            self.rx.as_ref().map(|x| x.to_value()),
            Some(self.p.to_value()),
        ])
    }
}
impl FromValue for Tsp13p5 {
    fn from_value(v: &Value) -> Self {
        let s = match v { Value::Seq(s) => s, other => panic!("Tsp13p5: expected Seq, got {other:?}") };
        assert_eq!(s.len(), 2, "Tsp13p5: component count");
        let _ = s;
        Tsp13p5 {
            rx: s[0].as_ref().map(FromValue::from_value),
            b: s[1].as_ref().map(FromValue::from_value),
        }
    }
}
impl ToValue for Tsp13p5 {
    fn to_value(&self) -> Value {
        Value::Seq(vec![
            self.rx.as_ref().map(|x| x.to_value()),
            self.b.as_ref().map(|x| x.to_value()),
        ])
    }
}
impl FromValue for Tsp13p6 {
    fn from_value(v: &Value) -> Self {
        let s = match v { Value::Seq(s) => s, other => panic!("Tsp13p6: expected Seq, got {other:?}") };
        assert_eq!(s.len(), 2, "Tsp13p6: component count");
        let _ = s;
        Tsp13p6 {
            rx: s[0].as_ref().map(FromValue::from_value),
            i: FromValue::from_value(s[1].as_ref().expect("component i of Tsp13p6 must be present")),
        }
    }
}
impl ToValue for Tsp13p6 {
    fn to_value(&self) -> Value {
        Value::Seq(vec![
            self.rx.as_ref().map(|x| x.to_value()),
            Some(self.i.to_value()),
        ])
    }
}
impl FromValue for Tsp13p7 {
    fn from_value(v: &Value) -> Self {
        let s = match v { Value::Seq(s) => s, other => panic!("Tsp13p7: expected Seq, got {other:?}") };
        assert_eq!(s.len(), 2, "Tsp13p7: component count");
        let _ = s;
        Tsp13p7 {
            rx: s[0].as_ref().map(FromValue::from_value),
            ra: s[1].as_ref().map(FromValue::from_value),
        }
    }
}
impl ToValue for Tsp13p7 {
    fn to_value(&self) -> Value {
        Value::Seq(vec![
            self.rx.as_ref().map(|x| x.to_value()),
            self.ra.as_ref().map(|x| x.to_value()),
        ])
    }
}
impl FromValue for Tsp13p8 {
    fn from_value(v: &Value) -> Self {
        let s = match v { Value::Seq(s) => s, other => panic!("Tsp13p8: expected Seq, got {other:?}") };
        assert_eq!(s.len(), 2, "Tsp13p8: component count");
        let _ = s;
        Tsp13p8 {
            rx: s[0].as_ref().map(FromValue::from_value),
            rs: FromValue::from_value(s[1].as_ref().expect("component rs of Tsp13p8 must be present")),
        }
    }
}
impl ToValue for Tsp13p8 {
    fn to_value(&self) -> Value {
        Value::Seq(vec![
            self.rx.as_ref().map(|x| x.to_value()),
            Some(self.rs.to_value()),
        ])
    }
}
impl FromValue for Tsp13p9 {
    fn from_value(v: &Value) -> Self {
        let s = match v { Value::Seq(s) => s, other => panic!("Tsp13p9: expected Seq, got {other:?}") };
        assert_eq!(s.len(), 2, "Tsp13p9: component count");
        let _ = s;
        Tsp13p9 {
            rx: s[0].as_ref().map(FromValue::from_value),
            rc: s[1].as_ref().map(FromValue::from_value),
        }
    }
}
impl ToValue for Tsp13p9 {
    fn to_value(&self) -> Value {
        Value::Seq(vec![
            self.rx.as_ref().map(|x| x.to_value()),
            self.rc.as_ref().map(|x| x.to_value()),
        ])
    }
}
impl FromValue for Tsp13p10 {
    fn from_value(v: &Value) -> Self {
        let s = match v { Value::Seq(s) => s, other => panic!("Tsp13p10: expected Seq, got {other:?}") };
        assert_eq!(s.len(), 2, "Tsp13p10: component count");
        let _ = s;
        Tsp13p10 {
            rx: s[0].as_ref().map(FromValue::from_value),
            rt: FromValue::from_value(s[1].as_ref().expect("component rt of Tsp13p10 must be present")),
        }
    }
}
impl ToValue for Tsp13p10 {
    fn to_value(&self) -> Value {
        Value::Seq(vec![
            self.rx.as_ref().map(|x| x.to_value()),
            Some(self.rt.to_value()),
        ])
    }
}
impl FromValue for Tsp13p11 {
    fn from_value(v: &Value) -> Self {
        let s = match v { Value::Seq(s) => s, other => panic!("Tsp13p11: expected Seq, got {other:?}") };
        assert_eq!(s.len(), 2, "Tsp13p11: component count");
        let _ = s;
        Tsp13p11 {
            rx: s[0].as_ref().map(FromValue::from_value),
            so: s[1].as_ref().map(FromValue::from_value),
        }
    }
}
impl ToValue for Tsp13p11 {
    fn to_value(&self) -> Value {
        Value::Seq(vec![
            self.rx.as_ref().map(|x| x.to_value()),
            self.so.as_ref().map(|x| x.to_value()),
        ])
    }
}
impl FromValue for Tsp13p12 {
    fn from_value(v: &Value) -> Self {
        let s = match v { Value::Seq(s) => s, other => panic!("Tsp13p12: expected Seq, got {other:?}") };
        assert_eq!(s.len(), 2, "Tsp13p12: component count");
        let _ = s;
        Tsp13p12 {
            rx: s[0].as_ref().map(FromValue::from_value),
            st: FromValue::from_value(s[1].as_ref().expect("component st of Tsp13p12 must be present")),
        }
    }
}
impl ToValue for Tsp13p12 {
    fn to_value(&self) -> Value {
        Value::Seq(vec![
            self.rx.as_ref().map(|x| x.to_value()),
            Some(self.st.to_value()),
        ])
    }
}
impl FromValue for Tsp13p14 {
    fn from_value(v: &Value) -> Self {
        let s = match v { Value::Seq(s) => s, other => panic!("Tsp13p14: expected Seq, got {other:?}") };
        assert_eq!(s.len(), 2, "Tsp13p14: component count");
        let _ = s;
        Tsp13p14 {
            rx: s[0].as_ref().map(FromValue::from_value),
            u2: FromValue::from_value(s[1].as_ref().expect("component u2 of Tsp13p14 must be present")),
        }
    }
}
impl ToValue for Tsp13p14 {
    fn to_value(&self) -> Value {
        Value::Seq(vec![
            self.rx.as_ref().map(|x| x.to_value()),
            Some(self.u2.to_value()),
        ])
    }
}
impl FromValue for Tsp13p15Is {
    fn from_value(v: &Value) -> Self {
        let s = match v { Value::Seq(s) => s, other => panic!("Tsp13p15Is: expected Seq, got {other:?}") };
        assert_eq!(s.len(), 1, "Tsp13p15Is: component count");
        let _ = s;
        Tsp13p15Is {
            v: FromValue::from_value(s[0].as_ref().expect("component v of Tsp13p15Is must be present")),
        }
    }
}
impl ToValue for Tsp13p15Is {
    fn to_value(&self) -> Value {
        Value::Seq(vec![
            Some(self.v.to_value()),
        ])
    }
}
impl FromValue for Tsp13p15 {
    fn from_value(v: &Value) -> Self {
        let s = match v { Value::Seq(s) => s, other => panic!("Tsp13p15: expected Seq, got {other:?}") };
        assert_eq!(s.len(), 2, "Tsp13p15: component count");
        let _ = s;
        Tsp13p15 {
            rx: s[0].as_ref().map(FromValue::from_value),
            is: s[1].as_ref().map(FromValue::from_value),
        }
    }
}
impl ToValue for Tsp13p15 {
    fn to_value(&self) -> Value {
        Value::Seq(vec![
            self.rx.as_ref().map(|x| x.to_value()),
            self.is.as_ref().map(|x| x.to_value()),
        ])
    }
}
impl FromValue for Tsp14p0 {
    fn from_value(v: &Value) -> Self {
        let s = match v { Value::Seq(s) => s, other => panic!("Tsp14p0: expected Seq, got {other:?}") };
        assert_eq!(s.len(), 2, "Tsp14p0: component count");
        let _ = s;
        Tsp14p0 {
            u2: FromValue::from_value(s[0].as_ref().expect("component u2 of Tsp14p0 must be present")),
            x: FromValue::from_value(s[1].as_ref().expect("component x of Tsp14p0 must be present")),
        }
    }
}
impl ToValue for Tsp14p0 {
    fn to_value(&self) -> Value {
        Value::Seq(vec![
            Some(self.u2.to_value()),
            Some(self.x.to_value()),
        ])
    }
}
impl FromValue for Tsp14p1 {
    fn from_value(v: &Value) -> Self {
        let s = match v { Value::Seq(s) => s, other => panic!("Tsp14p1: expected Seq, got {other:?}") };
        assert_eq!(s.len(), 2, "Tsp14p1: component count");
        let _ = s;
        Tsp14p1 {
            u2: FromValue::from_value(s[0].as_ref().expect("component u2 of Tsp14p1 must be present")),
            a: s[1].as_ref().map(FromValue::from_value),
        }
    }
}
impl ToValue for Tsp14p1 {
    fn to_value(&self) -> Value {
        Value::Seq(vec![
            Some(self.u2.to_value()),
            self.a.as_ref().map(|x| x.to_value()),
        ])
    }
}
impl FromValue for Tsp14p2 {
    fn from_value(v: &Value) -> Self {
        let s = match v { Value::Seq(s) => s, other => panic!("Tsp14p2: expected Seq, got {other:?}") };
        assert_eq!(s.len(), 2, "Tsp14p2: component count");
        let _ = s;
        Tsp14p2 {
            u2: FromValue::from_value(s[0].as_ref().expect("component u2 of Tsp14p2 must be present")),
            c3: FromValue::from_value(s[1].as_ref().expect("component c3 of Tsp14p2 must be present")),
        }
    }
}
impl ToValue for Tsp14p2 {
    fn to_value(&self) -> Value {
        Value::Seq(vec![
            Some(self.u2.to_value()),
            Some(self.c3.to_value()),
        ])
    }
}
impl FromValue for Tsp14p3 {
    fn from_value(v: &Value) -> Self {
        let s = match v { Value::Seq(s) => s, other => panic!("Tsp14p3: expected Seq, got {other:?}") };
        assert_eq!(s.len(), 2, "Tsp14p3: component count");
        let _ = s;
        Tsp14p3 {
            u2: FromValue::from_value(s[0].as_ref().expect("component u2 of Tsp14p3 must be present")),
            c0: s[1].as_ref().map(FromValue::from_value),
        }
    }
}
impl ToValue for Tsp14p3 {
    fn to_value(&self) -> Value {
        Value::Seq(vec![
            Some(self.u2.to_value()),
            self.c0.as_ref().map(|x| x.to_value()),
        ])
    }
}
impl FromValue for Tsp14p4 {
    fn from_value(v: &Value) -> Self {
        let s = match v { Value::Seq(s) => s, other => panic!("Tsp14p4: expected Seq, got {other:?}") };
        assert_eq!(s.len(), 2, "Tsp14p4: component count");
        let _ = s;
        Tsp14p4 {
            u2: FromValue::from_value(s[0].as_ref().expect("component u2 of Tsp14p4 must be present")),
            p: FromValue::from_value(s[1].as_ref().expect("component p of Tsp14p4 must be present")),
        }
    }
}
impl ToValue for Tsp14p4 {
    fn to_value(&self) -> Value {
        Value::Seq(vec![
            Some(self.u2.to_value()),
            Some(self.p.to_value()),
        ])
    }
}
impl FromValue for Tsp14p5 {
    fn from_value(v: &Value) -> Self {
        let s = match v { Value::Seq(s) => s, other => panic!("Tsp14p5: expected Seq, got {other:?}") };
        assert_eq!(s.len(), 2, "Tsp14p5: component count");
        let _ = s;
        Tsp14p5 {
            u2: FromValue::from_value(s[0].as_ref().expect("component u2 of Tsp14p5 must be present")),
            b: s[1].as_ref().map(FromValue::from_value),
        }
    }
}
impl ToValue for Tsp14p5 {
    fn to_value(&self) -> Value {
        Value::Seq(vec![
            Some(self.u2.to_value()),
            self.b.as_ref().map(|x| x.to_value()),
        ])
    }
}
impl FromValue for Tsp14p6 {
    fn from_value(v: &Value) -> Self {
        let s = match v { Value::Seq(s) => s, other => panic!("Tsp14p6: expected Seq, got {other:?}") };
        assert_eq!(s.len(), 2, "Tsp14p6: component count");
        let _ = s;
        Tsp14p6 {
            u2: FromValue::from_value(s[0].as_ref().expect("component u2 of Tsp14p6 must be present")),
            i: FromValue::from_value(s[1].as_ref().expect("component i of Tsp14p6 must be present")),
        }
    }
}
impl ToValue for Tsp14p6 {
    fn to_value(&self) -> Value {
        Value::Seq(vec![
            Some(self.u2.to_value()),
            Some(self.i.to_value()),
        ])
    }
}
impl FromValue for Tsp14p7 {
    fn from_value(v: &Value) -> Self {
        let s = match v { Value::Seq(s) => s, other => panic!("Tsp14p7: expected Seq, got {other:?}") };
        assert_eq!(s.len(), 2, "Tsp14p7: component count");
        let _ = s;
        Tsp14p7 {
            u2: FromValue::from_value(s[0].as_ref().expect("component u2 of Tsp14p7 must be present")),
            ra: s[1].as_ref().map(FromValue::from_value),
        }
    }
}
impl ToValue for Tsp14p7 {
    fn to_value(&self) -> Value {
        Value::Seq(vec![
            Some(self.u2.to_value()),
            self.ra.as_ref().map(|x| x.to_value()),
        ])
    }
}
impl FromValue for Tsp14p8 {
    fn from_value(v: &Value) -> Self {
        let s = match v { Value::Seq(s) => s, other => panic!("Tsp14p8: expected Seq, got {other:?}") };
        assert_eq!(s.len(), 2, "Tsp14p8: component count");
        let _ = s;
        Tsp14p8 {
            u2: FromValue::from_value(s[0].as_ref().expect("component u2 of Tsp14p8 must be present")),
            rs: FromValue::from_value(s[1].as_ref().expect("component rs of Tsp14p8 must be present")),
        }
    }
}
impl ToValue for Tsp14p8 {
    fn to_value(&self) -> Value {
        Value::Seq(vec![
            Some(self.u2.to_value()),
            Some(self.rs.to_value()),
        ])
    }
}
impl FromValue for Tsp14p9 {
    fn from_value(v: &Value) -> Self {
        let s = match v { Value::Seq(s) => s, other => panic!("Tsp14p9: expected Seq, got {other:?}") };
        assert_eq!(s.len(), 2, "Tsp14p9: component count");
        let _ = s;
        Tsp14p9 {
            u2: FromValue::from_value(s[0].as_ref().expect("component u2 of Tsp14p9 must be present")),
            rc: s[1].as_ref().map(FromValue::from_value),
        }
    }
}
impl ToValue for Tsp14p9 {
    fn to_value(&self) -> Value {
        Value::Seq(vec![
            Some(self.u2.to_value()),
            self.rc.as_ref().map(|x| x.to_value()),
        ])
    }
}
impl FromValue for Tsp14p10 {
    fn from_value(v: &Value) -> Self {
        let s = match v { Value::Seq(s) => s, other => panic!("Tsp14p10: expected Seq, got {other:?}") };
        assert_eq!(s.len(), 2, "Tsp14p10: component count");
        let _ = s;
        Tsp14p10 {
            u2: FromValue::from_value(s[0].as_ref().expect("component u2 of Tsp14p10 must be present")),
            rt: FromValue::from_value(s[1].as_ref().expect("component rt of Tsp14p10 must be present")),
        }
    }
}
impl ToValue for Tsp14p10 {
    fn to_value(&self) -> Value {
        Value::Seq(vec![
            Some(self.u2.to_value()),
            Some(self.rt.to_value()),
        ])
    }
}
impl FromValue for Tsp14p11 {
    fn from_value(v: &Value) -> Self {
        let s = match v { Value::Seq(s) => s, other => panic!("Tsp14p11: expected Seq, got {other:?}") };
        assert_eq!(s.len(), 2, "Tsp14p11: component count");
        let _ = s;
        Tsp14p11 {
            u2: FromValue::from_value(s[0].as_ref().expect("component u2 of Tsp14p11 must be present")),
            so: s[1].as_ref().map(FromValue::from_value),
        }
    }
}
impl ToValue for Tsp14p11 {
    fn to_value(&self) -> Value {
        Value::Seq(vec![
            Some(self.u2.to_value()),
            self.so.as_ref().map(|x| x.to_value()),
        ])
    }
}
impl FromValue for Tsp14p12 {
    fn from_value(v: &Value) -> Self {
        let s = match v { Value::Seq(s) => s, other => panic!("Tsp14p12: expected Seq, got {other:?}") };
        assert_eq!(s.len(), 2, "Tsp14p12: component count");
        let _ = s;
        Tsp14p12 {
            u2: FromValue::from_value(s[0].as_ref().expect("component u2 of Tsp14p12 must be present")),
            st: FromValue::from_value(s[1].as_ref().expect("component st of Tsp14p12 must be present")),
        }
    }
}
impl ToValue for Tsp14p12 {
    fn to_value(&self) -> Value {
        Value::Seq(vec![
            Some(self.u2.to_value()),
            Some(self.st.to_value()),
        ])
    }
}
impl FromValue for Tsp14p13 {
    fn from_value(v: &Value) -> Self {
        let s = match v { Value::Seq(s) => s, other => panic!("Tsp14p13: expected Seq, got {other:?}") };
        assert_eq!(s.len(), 2, "Tsp14p13: component count");
        let _ = s;
        Tsp14p13 {
            u2: FromValue::from_value(s[0].as_ref().expect("component u2 of Tsp14p13 must be present")),
            rx: s[1].as_ref().map(FromValue::from_value),
        }
    }
}
impl ToValue for Tsp14p13 {
    fn to_value(&self) -> Value {
        Value::Seq(vec![
            Some(self.u2.to_value()),
            self.rx.as_ref().map(|x| x.to_value()),
        ])
    }
}
impl FromValue for Tsp14p15Is {
    fn from_value(v: &Value) -> Self {
        let s = match v { Value::Seq(s) => s, other => panic!("Tsp14p15Is: expected Seq, got {other:?}") };
        assert_eq!(s.len(), 1, "Tsp14p15Is: component count");
        let _ = s;
        Tsp14p15Is {
            v: FromValue::from_value(s[0].as_ref().expect("component v of Tsp14p15Is must be present")),
        }
    }
}
impl ToValue for Tsp14p15Is {
    fn to_value(&self) -> Value {
        Value::Seq(vec![
            Some(self.v.to_value()),
        ])
    }
}
impl FromValue for Tsp14p15 {
    fn from_value(v: &Value) -> Self {
        let s = match v { Value::Seq(s) => s, other => panic!("Tsp14p15: expected Seq, got {other:?}") };
        assert_eq!(s.len(), 2, "Tsp14p15: component count");
        let _ = s;
        Tsp14p15 {
            u2: FromValue::from_value(s[0].as_ref().expect("component u2 of Tsp14p15 must be present")),
            is: s[1].as_ref().map(FromValue::from_value),
        }
    }
}
impl ToValue for Tsp14p15 {
    fn to_value(&self) -> Value {
        Value::Seq(vec![
            Some(self.u2.to_value()),
            self.is.as_ref().map(|x| x.to_value()),
        ])
    }
}
impl FromValue for Tsp15p0Is {
    fn from_value(v: &Value) -> Self {
        let s = match v { Value::Seq(s) => s, other => panic!("Tsp15p0Is: expected Seq, got {other:?}") };
        assert_eq!(s.len(), 1, "Tsp15p0Is: component count");
        let _ = s;
        Tsp15p0Is {
            v: FromValue::from_value(s[0].as_ref().expect("component v of Tsp15p0Is must be present")),
        }
    }
}
impl ToValue for Tsp15p0Is {
    fn to_value(&self) -> Value {
        Value::Seq(vec![
            Some(self.v.to_value()),
        ])
    }
}
impl FromValue for Tsp15p0 {
    fn from_value(v: &Value) -> Self {
        let s = match v { Value::Seq(s) => s, other => panic!("Tsp15p0: expected Seq, got {other:?}") };
        assert_eq!(s.len(), 2, "Tsp15p0: component count");
        let _ = s;
        Tsp15p0 {
            is: s[0].as_ref().map(FromValue::from_value),
            x: FromValue::from_value(s[1].as_ref().expect("component x of Tsp15p0 must be present")),
        }
    }
}
impl ToValue for Tsp15p0 {
    fn to_value(&self) -> Value {
        Value::Seq(vec![
            self.is.as_ref().map(|x| x.to_value()),
            Some(self.x.to_value()),
        ])
    }
}
impl FromValue for Tsp15p1Is {
    fn from_value(v: &Value) -> Self {
        let s = match v { Value::Seq(s) => s, other => panic!("Tsp15p1Is: expected Seq, got {other:?}") };
        assert_eq!(s.len(), 1, "Tsp15p1Is: component count");
        let _ = s;
        Tsp15p1Is {
            v: FromValue::from_value(s[0].as_ref().expect("component v of Tsp15p1Is must be present")),
        }
    }
}
impl ToValue for Tsp15p1Is {
    fn to_value(&self) -> Value {
        Value::Seq(vec![
            Some(self.v.to_value()),
        ])
    }
}
impl FromValue for Tsp15p1 {
    fn from_value(v: &Value) -> Self {
        let s = match v { Value::Seq(s) => s, other => panic!("Tsp15p1: expected Seq, got {other:?}") };
        assert_eq!(s.len(), 2, "Tsp15p1: component count");
        let _ = s;
        Tsp15p1 {
            is: s[0].as_ref().map(FromValue::from_value),
            a: s[1].as_ref().map(FromValue::from_value),
        }
    }
}
impl ToValue for Tsp15p1 {
    fn to_value(&self) -> Value {
        Value::Seq(vec![
            self.is.as_ref().map(|x| x.to_value()),
            self.a.as_ref().map(|x| x.to_value()),
        ])
    }
}
impl FromValue for Tsp15p2Is {
    fn from_value(v: &Value) -> Self {
        let s = match v { Value::Seq(s) => s, other => panic!("Tsp15p2Is: expected Seq, got {other:?}") };
        assert_eq!(s.len(), 1, "Tsp15p2Is: component count");
        let _ = s;
        Tsp15p2Is {
            v: FromValue::from_value(s[0].as_ref().expect("component v of Tsp15p2Is must be present")),
        }
    }
}
impl ToValue for Tsp15p2Is {
    fn to_value(&self) -> Value {
        Value::Seq(vec![
            Some(self.v.to_value()),
        ])
    }
}
impl FromValue for Tsp15p2 {
    fn from_value(v: &Value) -> Self {
        let s = match v { Value::Seq(s) => s, other => panic!("Tsp15p2: expected Seq, got {other:?}") };
        assert_eq!(s.len(), 2, "Tsp15p2: component count");
        let _ = s;
        Tsp15p2 {
            is: s[0].as_ref().map(FromValue::from_value),
            c3: FromValue::from_value(s[1].as_ref().expect("component c3 of Tsp15p2 must be present")),
        }
    }
}
impl ToValue for Tsp15p2 {
    fn to_value(&self) -> Value {
        Value::Seq(vec![
            self.is.as_ref().map(|x| x.to_value()),
            Some(self.c3.to_value()),
        ])
    }
}
impl FromValue for Tsp15p3Is {
    fn from_value(v: &Value) -> Self {
        let s = match v { Value::Seq(s) => s, other => panic!("Tsp15p3Is: expected Seq, got {other:?}") };
        assert_eq!(s.len(), 1, "Tsp15p3Is: component count");
        let _ = s;
        Tsp15p3Is {
            v: FromValue::from_value(s[0].as_ref().expect("component v of Tsp15p3Is must be present")),
        }
    }
}
impl ToValue for Tsp15p3Is {
    fn to_value(&self) -> Value {
        Value::Seq(vec![
            Some(self.v.to_value()),
        ])
    }
}
impl FromValue for Tsp15p3 {
    fn from_value(v: &Value) -> Self {
        let s = match v { Value::Seq(s) => s, other => panic!("Tsp15p3: expected Seq, got {other:?}") };
        assert_eq!(s.len(), 2, "Tsp15p3: component count");
        let _ = s;
        Tsp15p3 {
            is: s[0].as_ref().map(FromValue::from_value),
            c0: s[1].as_ref().map(FromValue::from_value),
        }
    }
}
impl ToValue for Tsp15p3 {
    fn to_value(&self) -> Value {
        Value::Seq(vec![
            self.is.as_ref().map(|x| x.to_value()),
            self.c0.as_ref().map(|x| x.to_value()),
        ])
    }
}
impl FromValue for Tsp15p4Is {
    fn from_value(v: &Value) -> Self {
        let s = match v { Value::Seq(s) => s, other => panic!("Tsp15p4Is: expected Seq, got {other:?}") };
        assert_eq!(s.len(), 1, "Tsp15p4Is: component count");
        let _ = s;
        Tsp15p4Is {
            v: FromValue::from_value(s[0].as_ref().expect("component v of Tsp15p4Is must be present")),
        }
    }
}
impl ToValue for Tsp15p4Is {
    fn to_value(&self) -> Value {
        Value::Seq(vec![
            Some(self.v.to_value()),
        ])
    }
}
impl FromValue for Tsp15p4 {
    fn from_value(v: &Value) -> Self {
        let s = match v { Value::Seq(s) => s, other => panic!("Tsp15p4: expected Seq, got {other:?}") };
        assert_eq!(s.len(), 2, "Tsp15p4: component count");
        let _ = s;
        Tsp15p4 {
            is: s[0].as_ref().map(FromValue::from_value),
            p: FromValue::from_value(s[1].as_ref().expect("component p of Tsp15p4 must be present")),
        }
    }
}
impl ToValue for Tsp15p4 {
    fn to_value(&self) -> Value {
        Value::Seq(vec![
            self.is.as_ref().map(|x| x.to_value()),
            Some(self.p.to_value()),
        ])
    }
}
impl FromValue for Tsp15p5Is {
    fn from_value(v: &Value) -> Self {
        let s = match v { Value::Seq(s) => s, other => panic!("Tsp15p5Is: expected Seq, got {other:?}") };
        assert_eq!(s.len(), 1, "Tsp15p5Is: component count");
        let _ = s;
        Tsp15p5Is {
            v: FromValue::from_value(s[0].as_ref().expect("component v of Tsp15p5Is must be present")),
        }
    }
}
impl ToValue for Tsp15p5Is {
    fn to_value(&self) -> Value {
        Value::Seq(vec![
            Some(self.v.to_value()),
        ])
    }
}
impl FromValue for Tsp15p5 {
    fn from_value(v: &Value) -> Self {
        let s = match v { Value::Seq(s) => s, other => panic!("Tsp15p5: expected Seq, got {other:?}") };
        assert_eq!(s.len(), 2, "Tsp15p5: component count");
        let _ = s;
        Tsp15p5 {
            is: s[0].as_ref().map(FromValue::from_value),
            b: s[1].as_ref().map(FromValue::from_value),
        }
    }
}
impl ToValue for Tsp15p5 {
    fn to_value(&self) -> Value {
        Value::Seq(vec![
            self.is.as_ref().map(|x| x.to_value()),
            self.b.as_ref().map(|x| x.to_value()),
        ])
    }
}
impl FromValue for Tsp15p6Is {
    fn from_value(v: &Value) -> Self {
        let s = match v { Value::Seq(s) => s, other => panic!("Tsp15p6Is: expected Seq, got {other:?}") };
        assert_eq!(s.len(), 1, "Tsp15p6Is: component count");
        let _ = s;
        Tsp15p6Is {
            v: FromValue::from_value(s[0].as_ref().expect("component v of Tsp15p6Is must be present")),
        }
    }
}
impl ToValue for Tsp15p6Is {
    fn to_value(&self) -> Value {
        Value::Seq(vec![
            Some(self.v.to_value()),
        ])
    }
}
impl FromValue for Tsp15p6 {
    fn from_value(v: &Value) -> Self {
        let s = match v { Value::Seq(s) => s, other => panic!("Tsp15p6: expected Seq, got {other:?}") };
        assert_eq!(s.len(), 2, "Tsp15p6: component count");
        let _ = s;
        Tsp15p6 {
            is: s[0].as_ref().map(FromValue::from_value),
            i: FromValue::from_value(s[1].as_ref().expect("component i of Tsp15p6 must be present")),
        }
    }
}
impl ToValue for Tsp15p6 {
    fn to_value(&self) -> Value {
        Value::Seq(vec![
            self.is.as_ref().map(|x| x.to_value()),
            Some(self.i.to_value()),
        ])
    }
}
impl FromValue for Tsp15p7Is {
    fn from_value(v: &Value) -> Self {
        let s = match v { Value::Seq(s) => s, other => panic!("Tsp15p7Is: expected Seq, got {other:?}") };
        assert_eq!(s.len(), 1, "Tsp15p7Is: component count");
        let _ = s;
        Tsp15p7Is {
            v: FromValue::from_value(s[0].as_ref().expect("component v of Tsp15p7Is must be present")),
        }
    }
}
impl ToValue for Tsp15p7Is {
    fn to_value(&self) -> Value {
        Value::Seq(vec![
            Some(self.v.to_value()),
        ])
    }
}
impl FromValue for Tsp15p7 {
    fn from_value(v: &Value) -> Self {
        let s = match v { Value::Seq(s) => s, other => panic!("Tsp15p7: expected Seq, got {other:?}") };
        assert_eq!(s.len(), 2, "Tsp15p7: component count");
        let _ = s;
        Tsp15p7 {
            is: s[0].as_ref().map(FromValue::from_value),
            ra: s[1].as_ref().map(FromValue::from_value),
        }
    }
}
impl ToValue for Tsp15p7 {
    fn to_value(&self) -> Value {
        Value::Seq(vec![
            self.is.as_ref().map(|x| x.to_value()),
            self.ra.as_ref().map(|x| x.to_value()),
        ])
    }
}
impl FromValue for Tsp15p8Is {
    fn from_value(v: &Value) -> Self {
        let s = match v { Value::Seq(s) => s, other => panic!("Tsp15p8Is: expected Seq, got {other:?}") };
        assert_eq!(s.len(), 1, "Tsp15p8Is: component count");
        let _ = s;
        Tsp15p8Is {
            v: FromValue::from_value(s[0].as_ref().expect("component v of Tsp15p8Is must be present")),
        }
    }
}
impl ToValue for Tsp15p8Is {
    fn to_value(&self) -> Value {
        Value::Seq(vec![
            Some(self.v.to_value()),
        ])
    }
}
impl FromValue for Tsp15p8 {
    fn from_value(v: &Value) -> Self {
        let s = match v { Value::Seq(s) => s, other => panic!("Tsp15p8: expected Seq, got {other:?}") };
        assert_eq!(s.len(), 2, "Tsp15p8: component count");
        let _ = s;
        Tsp15p8 {
            is: s[0].as_ref().map(FromValue::from_value),
            rs: FromValue::from_value(s[1].as_ref().expect("component rs of Tsp15p8 must be present")),
        }
    }
}
impl ToValue for Tsp15p8 {
    fn to_value(&self) -> Value {
        Value::Seq(vec![
            self.is.as_ref().map(|x| x.to_value()),
            Some(self.rs.to_value()),
        ])
    }
}
impl FromValue for Tsp15p9Is {
    fn from_value(v: &Value) -> Self {
        let s = match v { Value::Seq(s) => s, other => panic!("Tsp15p9Is: expected Seq, got {other:?}") };
        assert_eq!(s.len(), 1, "Tsp15p9Is: component count");
        let _ = s;
        Tsp15p9Is {
            v: FromValue::from_value(s[0].as_ref().expect("component v of Tsp15p9Is must be present")),
        }
    }
}
impl ToValue for Tsp15p9Is {
    fn to_value(&self) -> Value {
        Value::Seq(vec![
            Some(self.v.to_value()),
        ])
    }
}
impl FromValue for Tsp15p9 {
    fn from_value(v: &Value) -> Self {
        let s = match v { Value::Seq(s) => s, other => panic!("Tsp15p9: expected Seq, got {other:?}") };
        assert_eq!(s.len(), 2, "Tsp15p9: component count");
        let _ = s;
        Tsp15p9 {
            is: s[0].as_ref().map(FromValue::from_value),
            rc: s[1].as_ref().map(FromValue::from_value),
        }
    }
}
impl ToValue for Tsp15p9 {
    fn to_value(&self) -> Value {
        Value::Seq(vec![
            self.is.as_ref().map(|x| x.to_value()),
            self.rc.as_ref().map(|x| x.to_value()),
        ])
    }
}
impl FromValue for Tsp15p10Is {
    fn from_value(v: &Value) -> Self {
        let s = match v { Value::Seq(s) => s, other => panic!("Tsp15p10Is: expected Seq, got {other:?}") };
        assert_eq!(s.len(), 1, "Tsp15p10Is: component count");
        let _ = s;
        Tsp15p10Is {
            v: FromValue::from_value(s[0].as_ref().expect("component v of Tsp15p10Is must be present")),
        }
    }
}
impl ToValue for Tsp15p10Is {
    fn to_value(&self) -> Value {
        Value::Seq(vec![
            Some(self.v.to_value()),
        ])
    }
}
impl FromValue for Tsp15p10 {
    fn from_value(v: &Value) -> Self {
        let s = match v { Value::Seq(s) => s, other => panic!("Tsp15p10: expected Seq, got {other:?}") };
        assert_eq!(s.len(), 2, "Tsp15p10: component count");
        let _ = s;
        Tsp15p10 {
            is: s[0].as_ref().map(FromValue::from_value),
            rt: FromValue::from_value(s[1].as_ref().expect("component rt of Tsp15p10 must be present")),
        }
    }
}
impl ToValue for Tsp15p10 {
    fn to_value(&self) -> Value {
        Value::Seq(vec![
            self.is.as_ref().map(|x| x.to_value()),
            Some(self.rt.to_value()),
        ])
    }
}
impl FromValue for Tsp15p11Is {
    fn from_value(v: &Value) -> Self {
        let s = match v { Value::Seq(s) => s, other => panic!("Tsp15p11Is: expected Seq, got {other:?}") };
        assert_eq!(s.len(), 1, "Tsp15p11Is: component count");
        let _ = s;
        Tsp15p11Is {
            v: FromValue::from_value(s[0].as_ref().expect("component v of Tsp15p11Is must be present")),
        }
    }
}
impl ToValue for Tsp15p11Is {
    fn to_value(&self) -> Value {
        Value::Seq(vec![
            Some(self.v.to_value()),
        ])
    }
}
impl FromValue for Tsp15p11 {
    fn from_value(v: &Value) -> Self {
        let s = match v { Value::Seq(s) => s, other => panic!("Tsp15p11: expected Seq, got {other:?}") };
        assert_eq!(s.len(), 2, "Tsp15p11: component count");
        let _ = s;
        Tsp15p11 {
            is: s[0].as_ref().map(FromValue::from_value),
            so: s[1].as_ref().map(FromValue::from_value),
        }
    }
}
impl ToValue for Tsp15p11 {
    fn to_value(&self) -> Value {
        Value::Seq(vec![
            self.is.as_ref().map(|x| x.to_value()),
            self.so.as_ref().map(|x| x.to_value()),
        ])
    }
}
impl FromValue for Tsp15p12Is {
    fn from_value(v: &Value) -> Self {
        let s = match v { Value::Seq(s) => s, other => panic!("Tsp15p12Is: expected Seq, got {other:?}") };
        assert_eq!(s.len(), 1, "Tsp15p12Is: component count");
        let _ = s;
        Tsp15p12Is {
            v: FromValue::from_value(s[0].as_ref().expect("component v of Tsp15p12Is must be present")),
        }
    }
}
impl ToValue for Tsp15p12Is {
    fn to_value(&self) -> Value {
        Value::Seq(vec![
            Some(self.v.to_value()),
        ])
    }
}
impl FromValue for Tsp15p12 {
    fn from_value(v: &Value) -> Self {
        let s = match v { Value::Seq(s) => s, other => panic!("Tsp15p12: expected Seq, got {other:?}") };
        assert_eq!(s.len(), 2, "Tsp15p12: component count");
        let _ = s;
        Tsp15p12 {
            is: s[0].as_ref().map(FromValue::from_value),
            st: FromValue::from_value(s[1].as_ref().expect("component st of Tsp15p12 must be present")),
        }
    }
}
impl ToValue for Tsp15p12 {
    fn to_value(&self) -> Value {
        Value::Seq(vec![
            self.is.as_ref().map(|x| x.to_value()),
            Some(self.st.to_value()),
        ])
    }
}
impl FromValue for Tsp15p13Is {
    fn from_value(v: &Value) -> Self {
        let s = match v { Value::Seq(s) => s, other => panic!("Tsp15p13Is: expected Seq, got {other:?}") };
        assert_eq!(s.len(), 1, "Tsp15p13Is: component count");
        let _ = s;
        Tsp15p13Is {
            v: FromValue::from_value(s[0].as_ref().expect("component v of Tsp15p13Is must be present")),
        }
    }
}
impl ToValue for Tsp15p13Is {
    fn to_value(&self) -> Value {
        Value::Seq(vec![
            Some(self.v.to_value()),
        ])
    }
}
impl FromValue for Tsp15p13 {
    fn from_value(v: &Value) -> Self {
        let s = match v { Value::Seq(s) => s, other => panic!("Tsp15p13: expected Seq, got {other:?}") };
        assert_eq!(s.len(), 2, "Tsp15p13: component count");
        let _ = s;
        Tsp15p13 {
            is: s[0].as_ref().map(FromValue::from_value),
            rx: s[1].as_ref().map(FromValue::from_value),
        }
    }
}
impl ToValue for Tsp15p13 {
    fn to_value(&self) -> Value {
        Value::Seq(vec![
            self.is.as_ref().map(|x| x.to_value()),
            self.rx.as_ref().map(|x| x.to_value()),
        ])
    }
}
impl FromValue for Tsp15p14Is {
    fn from_value(v: &Value) -> Self {
        let s = match v { Value::Seq(s) => s, other => panic!("Tsp15p14Is: expected Seq, got {other:?}") };
        assert_eq!(s.len(), 1, "Tsp15p14Is: component count");
        let _ = s;
        Tsp15p14Is {
            v: FromValue::from_value(s[0].as_ref().expect("component v of Tsp15p14Is must be present")),
        }
    }
}
impl ToValue for Tsp15p14Is {
    fn to_value(&self) -> Value {
        Value::Seq(vec![
            Some(self.v.to_value()),
        ])
    }
}
impl FromValue for Tsp15p14 {
    fn from_value(v: &Value) -> Self {
        let s = match v { Value::Seq(s) => s, other => panic!("Tsp15p14: expected Seq, got {other:?}") };
        assert_eq!(s.len(), 2, "Tsp15p14: component count");
        let _ = s;
        Tsp15p14 {
            is: s[0].as_ref().map(FromValue::from_value),
            u2: FromValue::from_value(s[1].as_ref().expect("component u2 of Tsp15p14 must be present")),
        }
    }
}
impl ToValue for Tsp15p14 {
    fn to_value(&self) -> Value {
        Value::Seq(vec![
            self.is.as_ref().map(|x| x.to_value()),
            Some(self.u2.to_value()),
        ])
    }
}

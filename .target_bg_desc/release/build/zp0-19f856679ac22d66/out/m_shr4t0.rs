use asn1rs::prelude::*;

#[asn(sequence)]

#[derive(Default, Debug, Clone, PartialEq, Hash)]
pub struct Tplain {
    #[asn(integer(0..7))] pub p: u8,
    #[asn(boolean)] pub q: bool,
}

impl Tplain {
    pub const fn p_min() -> u8 {
        0
    }

    pub const fn p_max() -> u8 {
        7
    }
}

#[asn(transparent)]

#[derive(Default, Debug, Clone, PartialEq, Hash)]
pub struct Tsmall(#[asn(integer(0..255))] pub u8);

impl Tsmall {
    pub const fn value_min() -> u8 {
        0
    }

    pub const fn value_max() -> u8 {
        255
    }
}

impl Tsmall {
    pub const fn new(value: u8) -> Self {
        Self(value)
    }
}

impl ::core::ops::Deref for Tsmall {
    type Target = u8;

    fn deref(&self) -> &u8 {
        &self.0
    }
}

impl ::core::ops::DerefMut for Tsmall {
    fn deref_mut(&mut self) -> &mut u8 {
        &mut self.0
    }
}

impl ::core::convert::From<u8> for Tsmall {
    fn from(value: u8) -> Self {
        Self(value)
    }
}

impl ::core::convert::From<Tsmall> for u8 {
    fn from(value: Tsmall) -> Self {
        value.0
    }
}

#[asn(choice)]

#[derive(Debug, Clone, PartialEq, Hash)]
pub enum Tchoice {
    #[asn(integer(0..7))] I(u8),
    #[asn(boolean)] B(bool),
}

impl Tchoice {
    pub fn variants() -> [Self; 2] {
        [
        Tchoice::I(Default::default()),
        Tchoice::B(Default::default()),
        ]
    }

    pub fn value_index(&self) -> usize {
        match self {
            Tchoice::I(_) => 0,
            Tchoice::B(_) => 1,
        }
    }

    pub const fn i_min() -> u8 {
        0
    }

    pub const fn i_max() -> u8 {
        7
    }
}

impl Default for Tchoice {
    fn default() -> Tchoice {
        Tchoice::I(Default::default())
    }
}

#[asn(sequence)]

#[derive(Default, Debug, Clone, PartialEq, Hash)]
pub struct Tr4mmmmn {
    #[asn(complex(Tchoice, tag(UNIVERSAL(1))))] pub f0: Tchoice,
    #[asn(complex(Tplain, tag(UNIVERSAL(16))))] pub f1: Tplain,
    #[asn(complex(Tsmall, tag(UNIVERSAL(2))))] pub f2: Tsmall,
    #[asn(complex(Tchoice, tag(UNIVERSAL(1))))] pub f3: Tchoice,
}

impl Tr4mmmmn {
}

#[asn(sequence, extensible_after(f0))]

#[derive(Default, Debug, Clone, PartialEq, Hash)]
pub struct Tr4mmmme0 {
    #[asn(complex(Tchoice, tag(UNIVERSAL(1))))] pub f0: Tchoice,
    #[asn(optional(complex(Tplain, tag(UNIVERSAL(16)))))] pub f1: Option<Tplain>,
    #[asn(optional(complex(Tsmall, tag(UNIVERSAL(2)))))] pub f2: Option<Tsmall>,
    #[asn(optional(complex(Tchoice, tag(UNIVERSAL(1)))))] pub f3: Option<Tchoice>,
}

impl Tr4mmmme0 {
}

#[asn(sequence, extensible_after(f0))]

#[derive(Default, Debug, Clone, PartialEq, Hash)]
pub struct Tr4mmmme1 {
    #[asn(complex(Tchoice, tag(UNIVERSAL(1))))] pub f0: Tchoice,
    #[asn(optional(complex(Tplain, tag(UNIVERSAL(16)))))] pub f1: Option<Tplain>,
    #[asn(optional(complex(Tsmall, tag(UNIVERSAL(2)))))] pub f2: Option<Tsmall>,
    #[asn(optional(complex(Tchoice, tag(UNIVERSAL(1)))))] pub f3: Option<Tchoice>,
}

impl Tr4mmmme1 {
}

#[asn(sequence, extensible_after(f1))]

#[derive(Default, Debug, Clone, PartialEq, Hash)]
pub struct Tr4mmmme2 {
    #[asn(complex(Tchoice, tag(UNIVERSAL(1))))] pub f0: Tchoice,
    #[asn(complex(Tplain, tag(UNIVERSAL(16))))] pub f1: Tplain,
    #[asn(optional(complex(Tsmall, tag(UNIVERSAL(2)))))] pub f2: Option<Tsmall>,
    #[asn(optional(complex(Tchoice, tag(UNIVERSAL(1)))))] pub f3: Option<Tchoice>,
}

impl Tr4mmmme2 {
}

#[asn(sequence, extensible_after(f2))]

#[derive(Default, Debug, Clone, PartialEq, Hash)]
pub struct Tr4mmmme3 {
    #[asn(complex(Tchoice, tag(UNIVERSAL(1))))] pub f0: Tchoice,
    #[asn(complex(Tplain, tag(UNIVERSAL(16))))] pub f1: Tplain,
    #[asn(complex(Tsmall, tag(UNIVERSAL(2))))] pub f2: Tsmall,
    #[asn(optional(complex(Tchoice, tag(UNIVERSAL(1)))))] pub f3: Option<Tchoice>,
}

impl Tr4mmmme3 {
}

#[asn(sequence, extensible_after(f3))]

#[derive(Default, Debug, Clone, PartialEq, Hash)]
pub struct Tr4mmmme4 {
    #[asn(complex(Tchoice, tag(UNIVERSAL(1))))] pub f0: Tchoice,
    #[asn(complex(Tplain, tag(UNIVERSAL(16))))] pub f1: Tplain,
    #[asn(complex(Tsmall, tag(UNIVERSAL(2))))] pub f2: Tsmall,
    #[asn(complex(Tchoice, tag(UNIVERSAL(1))))] pub f3: Tchoice,
}

impl Tr4mmmme4 {
}

#[asn(sequence)]

#[derive(Default, Debug, Clone, PartialEq, Hash)]
pub struct Tr4ommmn {
    #[asn(optional(complex(Tchoice, tag(UNIVERSAL(1)))))] pub f0: Option<Tchoice>,
    #[asn(complex(Tplain, tag(UNIVERSAL(16))))] pub f1: Tplain,
    #[asn(complex(Tsmall, tag(UNIVERSAL(2))))] pub f2: Tsmall,
    #[asn(complex(Tchoice, tag(UNIVERSAL(1))))] pub f3: Tchoice,
}

impl Tr4ommmn {
}

#[asn(sequence, extensible_after(f0))]

#[derive(Default, Debug, Clone, PartialEq, Hash)]
pub struct Tr4ommme0 {
    #[asn(optional(complex(Tchoice, tag(UNIVERSAL(1)))))] pub f0: Option<Tchoice>,
    #[asn(optional(complex(Tplain, tag(UNIVERSAL(16)))))] pub f1: Option<Tplain>,
    #[asn(optional(complex(Tsmall, tag(UNIVERSAL(2)))))] pub f2: Option<Tsmall>,
    #[asn(optional(complex(Tchoice, tag(UNIVERSAL(1)))))] pub f3: Option<Tchoice>,
}

impl Tr4ommme0 {
}

#[asn(sequence, extensible_after(f0))]

#[derive(Default, Debug, Clone, PartialEq, Hash)]
pub struct Tr4ommme1 {
    #[asn(optional(complex(Tchoice, tag(UNIVERSAL(1)))))] pub f0: Option<Tchoice>,
    #[asn(optional(complex(Tplain, tag(UNIVERSAL(16)))))] pub f1: Option<Tplain>,
    #[asn(optional(complex(Tsmall, tag(UNIVERSAL(2)))))] pub f2: Option<Tsmall>,
    #[asn(optional(complex(Tchoice, tag(UNIVERSAL(1)))))] pub f3: Option<Tchoice>,
}

impl Tr4ommme1 {
}

#[asn(sequence, extensible_after(f1))]

#[derive(Default, Debug, Clone, PartialEq, Hash)]
pub struct Tr4ommme2 {
    #[asn(optional(complex(Tchoice, tag(UNIVERSAL(1)))))] pub f0: Option<Tchoice>,
    #[asn(complex(Tplain, tag(UNIVERSAL(16))))] pub f1: Tplain,
    #[asn(optional(complex(Tsmall, tag(UNIVERSAL(2)))))] pub f2: Option<Tsmall>,
    #[asn(optional(complex(Tchoice, tag(UNIVERSAL(1)))))] pub f3: Option<Tchoice>,
}

impl Tr4ommme2 {
}

#[asn(sequence, extensible_after(f2))]

#[derive(Default, Debug, Clone, PartialEq, Hash)]
pub struct Tr4ommme3 {
    #[asn(optional(complex(Tchoice, tag(UNIVERSAL(1)))))] pub f0: Option<Tchoice>,
    #[asn(complex(Tplain, tag(UNIVERSAL(16))))] pub f1: Tplain,
    #[asn(complex(Tsmall, tag(UNIVERSAL(2))))] pub f2: Tsmall,
    #[asn(optional(complex(Tchoice, tag(UNIVERSAL(1)))))] pub f3: Option<Tchoice>,
}

impl Tr4ommme3 {
}

#[asn(sequence, extensible_after(f3))]

#[derive(Default, Debug, Clone, PartialEq, Hash)]
pub struct Tr4ommme4 {
    #[asn(optional(complex(Tchoice, tag(UNIVERSAL(1)))))] pub f0: Option<Tchoice>,
    #[asn(complex(Tplain, tag(UNIVERSAL(16))))] pub f1: Tplain,
    #[asn(complex(Tsmall, tag(UNIVERSAL(2))))] pub f2: Tsmall,
    #[asn(complex(Tchoice, tag(UNIVERSAL(1))))] pub f3: Tchoice,
}

impl Tr4ommme4 {
}

#[asn(sequence)]

#[derive(Default, Debug, Clone, PartialEq, Hash)]
pub struct Tr4mommn {
    #[asn(complex(Tchoice, tag(UNIVERSAL(1))))] pub f0: Tchoice,
    #[asn(optional(complex(Tplain, tag(UNIVERSAL(16)))))] pub f1: Option<Tplain>,
    #[asn(complex(Tsmall, tag(UNIVERSAL(2))))] pub f2: Tsmall,
    #[asn(complex(Tchoice, tag(UNIVERSAL(1))))] pub f3: Tchoice,
}

impl Tr4mommn {
}

#[asn(sequence, extensible_after(f0))]

#[derive(Default, Debug, Clone, PartialEq, Hash)]
pub struct Tr4momme0 {
    #[asn(complex(Tchoice, tag(UNIVERSAL(1))))] pub f0: Tchoice,
    #[asn(optional(complex(Tplain, tag(UNIVERSAL(16)))))] pub f1: Option<Tplain>,
    #[asn(optional(complex(Tsmall, tag(UNIVERSAL(2)))))] pub f2: Option<Tsmall>,
    #[asn(optional(complex(Tchoice, tag(UNIVERSAL(1)))))] pub f3: Option<Tchoice>,
}

impl Tr4momme0 {
}

#[asn(sequence, extensible_after(f0))]

#[derive(Default, Debug, Clone, PartialEq, Hash)]
pub struct Tr4momme1 {
    #[asn(complex(Tchoice, tag(UNIVERSAL(1))))] pub f0: Tchoice,
    #[asn(optional(complex(Tplain, tag(UNIVERSAL(16)))))] pub f1: Option<Tplain>,
    #[asn(optional(complex(Tsmall, tag(UNIVERSAL(2)))))] pub f2: Option<Tsmall>,
    #[asn(optional(complex(Tchoice, tag(UNIVERSAL(1)))))] pub f3: Option<Tchoice>,
}

impl Tr4momme1 {
}

#[asn(sequence, extensible_after(f1))]

#[derive(Default, Debug, Clone, PartialEq, Hash)]
pub struct Tr4momme2 {
    #[asn(complex(Tchoice, tag(UNIVERSAL(1))))] pub f0: Tchoice,
    #[asn(optional(complex(Tplain, tag(UNIVERSAL(16)))))] pub f1: Option<Tplain>,
    #[asn(optional(complex(Tsmall, tag(UNIVERSAL(2)))))] pub f2: Option<Tsmall>,
    #[asn(optional(complex(Tchoice, tag(UNIVERSAL(1)))))] pub f3: Option<Tchoice>,
}

impl Tr4momme2 {
}

#[asn(sequence, extensible_after(f2))]

#[derive(Default, Debug, Clone, PartialEq, Hash)]
pub struct Tr4momme3 {
    #[asn(complex(Tchoice, tag(UNIVERSAL(1))))] pub f0: Tchoice,
    #[asn(optional(complex(Tplain, tag(UNIVERSAL(16)))))] pub f1: Option<Tplain>,
    #[asn(complex(Tsmall, tag(UNIVERSAL(2))))] pub f2: Tsmall,
    #[asn(optional(complex(Tchoice, tag(UNIVERSAL(1)))))] pub f3: Option<Tchoice>,
}

impl Tr4momme3 {
}

#[asn(sequence, extensible_after(f3))]

#[derive(Default, Debug, Clone, PartialEq, Hash)]
pub struct Tr4momme4 {
    #[asn(complex(Tchoice, tag(UNIVERSAL(1))))] pub f0: Tchoice,
    #[asn(optional(complex(Tplain, tag(UNIVERSAL(16)))))] pub f1: Option<Tplain>,
    #[asn(complex(Tsmall, tag(UNIVERSAL(2))))] pub f2: Tsmall,
    #[asn(complex(Tchoice, tag(UNIVERSAL(1))))] pub f3: Tchoice,
}

impl Tr4momme4 {
}

#[asn(sequence)]

#[derive(Default, Debug, Clone, PartialEq, Hash)]
pub struct Tr4oommn {
    #[asn(optional(complex(Tchoice, tag(UNIVERSAL(1)))))] pub f0: Option<Tchoice>,
    #[asn(optional(complex(Tplain, tag(UNIVERSAL(16)))))] pub f1: Option<Tplain>,
    #[asn(complex(Tsmall, tag(UNIVERSAL(2))))] pub f2: Tsmall,
    #[asn(complex(Tchoice, tag(UNIVERSAL(1))))] pub f3: Tchoice,
}

impl Tr4oommn {
}

#[asn(sequence, extensible_after(f0))]

#[derive(Default, Debug, Clone, PartialEq, Hash)]
pub struct Tr4oomme0 {
    #[asn(optional(complex(Tchoice, tag(UNIVERSAL(1)))))] pub f0: Option<Tchoice>,
    #[asn(optional(complex(Tplain, tag(UNIVERSAL(16)))))] pub f1: Option<Tplain>,
    #[asn(optional(complex(Tsmall, tag(UNIVERSAL(2)))))] pub f2: Option<Tsmall>,
    #[asn(optional(complex(Tchoice, tag(UNIVERSAL(1)))))] pub f3: Option<Tchoice>,
}

impl Tr4oomme0 {
}

#[asn(sequence, extensible_after(f0))]

#[derive(Default, Debug, Clone, PartialEq, Hash)]
pub struct Tr4oomme1 {
    #[asn(optional(complex(Tchoice, tag(UNIVERSAL(1)))))] pub f0: Option<Tchoice>,
    #[asn(optional(complex(Tplain, tag(UNIVERSAL(16)))))] pub f1: Option<Tplain>,
    #[asn(optional(complex(Tsmall, tag(UNIVERSAL(2)))))] pub f2: Option<Tsmall>,
    #[asn(optional(complex(Tchoice, tag(UNIVERSAL(1)))))] pub f3: Option<Tchoice>,
}

impl Tr4oomme1 {
}

#[asn(sequence, extensible_after(f1))]

#[derive(Default, Debug, Clone, PartialEq, Hash)]
pub struct Tr4oomme2 {
    #[asn(optional(complex(Tchoice, tag(UNIVERSAL(1)))))] pub f0: Option<Tchoice>,
    #[asn(optional(complex(Tplain, tag(UNIVERSAL(16)))))] pub f1: Option<Tplain>,
    #[asn(optional(complex(Tsmall, tag(UNIVERSAL(2)))))] pub f2: Option<Tsmall>,
    #[asn(optional(complex(Tchoice, tag(UNIVERSAL(1)))))] pub f3: Option<Tchoice>,
}

impl Tr4oomme2 {
}

#[asn(sequence, extensible_after(f2))]

#[derive(Default, Debug, Clone, PartialEq, Hash)]
pub struct Tr4oomme3 {
    #[asn(optional(complex(Tchoice, tag(UNIVERSAL(1)))))] pub f0: Option<Tchoice>,
    #[asn(optional(complex(Tplain, tag(UNIVERSAL(16)))))] pub f1: Option<Tplain>,
    #[asn(complex(Tsmall, tag(UNIVERSAL(2))))] pub f2: Tsmall,
    #[asn(optional(complex(Tchoice, tag(UNIVERSAL(1)))))] pub f3: Option<Tchoice>,
}

impl Tr4oomme3 {
}

#[asn(sequence, extensible_after(f3))]

#[derive(Default, Debug, Clone, PartialEq, Hash)]
pub struct Tr4oomme4 {
    #[asn(optional(complex(Tchoice, tag(UNIVERSAL(1)))))] pub f0: Option<Tchoice>,
    #[asn(optional(complex(Tplain, tag(UNIVERSAL(16)))))] pub f1: Option<Tplain>,
    #[asn(complex(Tsmall, tag(UNIVERSAL(2))))] pub f2: Tsmall,
    #[asn(complex(Tchoice, tag(UNIVERSAL(1))))] pub f3: Tchoice,
}

impl Tr4oomme4 {
}

#[asn(sequence)]

#[derive(Default, Debug, Clone, PartialEq, Hash)]
pub struct Tr4mmomn {
    #[asn(complex(Tchoice, tag(UNIVERSAL(1))))] pub f0: Tchoice,
    #[asn(complex(Tplain, tag(UNIVERSAL(16))))] pub f1: Tplain,
    #[asn(optional(complex(Tsmall, tag(UNIVERSAL(2)))))] pub f2: Option<Tsmall>,
    #[asn(complex(Tchoice, tag(UNIVERSAL(1))))] pub f3: Tchoice,
}

impl Tr4mmomn {
}

#[asn(sequence, extensible_after(f0))]

#[derive(Default, Debug, Clone, PartialEq, Hash)]
pub struct Tr4mmome0 {
    #[asn(complex(Tchoice, tag(UNIVERSAL(1))))] pub f0: Tchoice,
    #[asn(optional(complex(Tplain, tag(UNIVERSAL(16)))))] pub f1: Option<Tplain>,
    #[asn(optional(complex(Tsmall, tag(UNIVERSAL(2)))))] pub f2: Option<Tsmall>,
    #[asn(optional(complex(Tchoice, tag(UNIVERSAL(1)))))] pub f3: Option<Tchoice>,
}

impl Tr4mmome0 {
}

#[asn(sequence, extensible_after(f0))]

#[derive(Default, Debug, Clone, PartialEq, Hash)]
pub struct Tr4mmome1 {
    #[asn(complex(Tchoice, tag(UNIVERSAL(1))))] pub f0: Tchoice,
    #[asn(optional(complex(Tplain, tag(UNIVERSAL(16)))))] pub f1: Option<Tplain>,
    #[asn(optional(complex(Tsmall, tag(UNIVERSAL(2)))))] pub f2: Option<Tsmall>,
    #[asn(optional(complex(Tchoice, tag(UNIVERSAL(1)))))] pub f3: Option<Tchoice>,
}

impl Tr4mmome1 {
}

#[asn(sequence, extensible_after(f1))]

#[derive(Default, Debug, Clone, PartialEq, Hash)]
pub struct Tr4mmome2 {
    #[asn(complex(Tchoice, tag(UNIVERSAL(1))))] pub f0: Tchoice,
    #[asn(complex(Tplain, tag(UNIVERSAL(16))))] pub f1: Tplain,
    #[asn(optional(complex(Tsmall, tag(UNIVERSAL(2)))))] pub f2: Option<Tsmall>,
    #[asn(optional(complex(Tchoice, tag(UNIVERSAL(1)))))] pub f3: Option<Tchoice>,
}

impl Tr4mmome2 {
}

#[asn(sequence, extensible_after(f2))]

#[derive(Default, Debug, Clone, PartialEq, Hash)]
pub struct Tr4mmome3 {
    #[asn(complex(Tchoice, tag(UNIVERSAL(1))))] pub f0: Tchoice,
    #[asn(complex(Tplain, tag(UNIVERSAL(16))))] pub f1: Tplain,
    #[asn(optional(complex(Tsmall, tag(UNIVERSAL(2)))))] pub f2: Option<Tsmall>,
    #[asn(optional(complex(Tchoice, tag(UNIVERSAL(1)))))] pub f3: Option<Tchoice>,
}

impl Tr4mmome3 {
}

#[asn(sequence, extensible_after(f3))]

#[derive(Default, Debug, Clone, PartialEq, Hash)]
pub struct Tr4mmome4 {
    #[asn(complex(Tchoice, tag(UNIVERSAL(1))))] pub f0: Tchoice,
    #[asn(complex(Tplain, tag(UNIVERSAL(16))))] pub f1: Tplain,
    #[asn(optional(complex(Tsmall, tag(UNIVERSAL(2)))))] pub f2: Option<Tsmall>,
    #[asn(complex(Tchoice, tag(UNIVERSAL(1))))] pub f3: Tchoice,
}

impl Tr4mmome4 {
}

#[asn(sequence)]

#[derive(Default, Debug, Clone, PartialEq, Hash)]
pub struct Tr4omomn {
    #[asn(optional(complex(Tchoice, tag(UNIVERSAL(1)))))] pub f0: Option<Tchoice>,
    #[asn(complex(Tplain, tag(UNIVERSAL(16))))] pub f1: Tplain,
    #[asn(optional(complex(Tsmall, tag(UNIVERSAL(2)))))] pub f2: Option<Tsmall>,
    #[asn(complex(Tchoice, tag(UNIVERSAL(1))))] pub f3: Tchoice,
}

impl Tr4omomn {
}

#[asn(sequence, extensible_after(f0))]

#[derive(Default, Debug, Clone, PartialEq, Hash)]
pub struct Tr4omome0 {
    #[asn(optional(complex(Tchoice, tag(UNIVERSAL(1)))))] pub f0: Option<Tchoice>,
    #[asn(optional(complex(Tplain, tag(UNIVERSAL(16)))))] pub f1: Option<Tplain>,
    #[asn(optional(complex(Tsmall, tag(UNIVERSAL(2)))))] pub f2: Option<Tsmall>,
    #[asn(optional(complex(Tchoice, tag(UNIVERSAL(1)))))] pub f3: Option<Tchoice>,
}

impl Tr4omome0 {
}

#[asn(sequence, extensible_after(f0))]

#[derive(Default, Debug, Clone, PartialEq, Hash)]
pub struct Tr4omome1 {
    #[asn(optional(complex(Tchoice, tag(UNIVERSAL(1)))))] pub f0: Option<Tchoice>,
    #[asn(optional(complex(Tplain, tag(UNIVERSAL(16)))))] pub f1: Option<Tplain>,
    #[asn(optional(complex(Tsmall, tag(UNIVERSAL(2)))))] pub f2: Option<Tsmall>,
    #[asn(optional(complex(Tchoice, tag(UNIVERSAL(1)))))] pub f3: Option<Tchoice>,
}

impl Tr4omome1 {
}

#[asn(sequence, extensible_after(f1))]

#[derive(Default, Debug, Clone, PartialEq, Hash)]
pub struct Tr4omome2 {
    #[asn(optional(complex(Tchoice, tag(UNIVERSAL(1)))))] pub f0: Option<Tchoice>,
    #[asn(complex(Tplain, tag(UNIVERSAL(16))))] pub f1: Tplain,
    #[asn(optional(complex(Tsmall, tag(UNIVERSAL(2)))))] pub f2: Option<Tsmall>,
    #[asn(optional(complex(Tchoice, tag(UNIVERSAL(1)))))] pub f3: Option<Tchoice>,
}

impl Tr4omome2 {
}

#[asn(sequence, extensible_after(f2))]

#[derive(Default, Debug, Clone, PartialEq, Hash)]
pub struct Tr4omome3 {
    #[asn(optional(complex(Tchoice, tag(UNIVERSAL(1)))))] pub f0: Option<Tchoice>,
    #[asn(complex(Tplain, tag(UNIVERSAL(16))))] pub f1: Tplain,
    #[asn(optional(complex(Tsmall, tag(UNIVERSAL(2)))))] pub f2: Option<Tsmall>,
    #[asn(optional(complex(Tchoice, tag(UNIVERSAL(1)))))] pub f3: Option<Tchoice>,
}

impl Tr4omome3 {
}

#[asn(sequence, extensible_after(f3))]

#[derive(Default, Debug, Clone, PartialEq, Hash)]
pub struct Tr4omome4 {
    #[asn(optional(complex(Tchoice, tag(UNIVERSAL(1)))))] pub f0: Option<Tchoice>,
    #[asn(complex(Tplain, tag(UNIVERSAL(16))))] pub f1: Tplain,
    #[asn(optional(complex(Tsmall, tag(UNIVERSAL(2)))))] pub f2: Option<Tsmall>,
    #[asn(complex(Tchoice, tag(UNIVERSAL(1))))] pub f3: Tchoice,
}

impl Tr4omome4 {
}

#[asn(sequence)]

#[derive(Default, Debug, Clone, PartialEq, Hash)]
pub struct Tr4moomn {
    #[asn(complex(Tchoice, tag(UNIVERSAL(1))))] pub f0: Tchoice,
    #[asn(optional(complex(Tplain, tag(UNIVERSAL(16)))))] pub f1: Option<Tplain>,
    #[asn(optional(complex(Tsmall, tag(UNIVERSAL(2)))))] pub f2: Option<Tsmall>,
    #[asn(complex(Tchoice, tag(UNIVERSAL(1))))] pub f3: Tchoice,
}

impl Tr4moomn {
}

#[asn(sequence, extensible_after(f0))]

#[derive(Default, Debug, Clone, PartialEq, Hash)]
pub struct Tr4moome0 {
    #[asn(complex(Tchoice, tag(UNIVERSAL(1))))] pub f0: Tchoice,
    #[asn(optional(complex(Tplain, tag(UNIVERSAL(16)))))] pub f1: Option<Tplain>,
    #[asn(optional(complex(Tsmall, tag(UNIVERSAL(2)))))] pub f2: Option<Tsmall>,
    #[asn(optional(complex(Tchoice, tag(UNIVERSAL(1)))))] pub f3: Option<Tchoice>,
}

impl Tr4moome0 {
}

#[asn(sequence, extensible_after(f0))]

#[derive(Default, Debug, Clone, PartialEq, Hash)]
pub struct Tr4moome1 {
    #[asn(complex(Tchoice, tag(UNIVERSAL(1))))] pub f0: Tchoice,
    #[asn(optional(complex(Tplain, tag(UNIVERSAL(16)))))] pub f1: Option<Tplain>,
    #[asn(optional(complex(Tsmall, tag(UNIVERSAL(2)))))] pub f2: Option<Tsmall>,
    #[asn(optional(complex(Tchoice, tag(UNIVERSAL(1)))))] pub f3: Option<Tchoice>,
}

impl Tr4moome1 {
}

#[asn(sequence, extensible_after(f1))]

#[derive(Default, Debug, Clone, PartialEq, Hash)]
pub struct Tr4moome2 {
    #[asn(complex(Tchoice, tag(UNIVERSAL(1))))] pub f0: Tchoice,
    #[asn(optional(complex(Tplain, tag(UNIVERSAL(16)))))] pub f1: Option<Tplain>,
    #[asn(optional(complex(Tsmall, tag(UNIVERSAL(2)))))] pub f2: Option<Tsmall>,
    #[asn(optional(complex(Tchoice, tag(UNIVERSAL(1)))))] pub f3: Option<Tchoice>,
}

impl Tr4moome2 {
}

#[asn(sequence, extensible_after(f2))]

#[derive(Default, Debug, Clone, PartialEq, Hash)]
pub struct Tr4moome3 {
    #[asn(complex(Tchoice, tag(UNIVERSAL(1))))] pub f0: Tchoice,
    #[asn(optional(complex(Tplain, tag(UNIVERSAL(16)))))] pub f1: Option<Tplain>,
    #[asn(optional(complex(Tsmall, tag(UNIVERSAL(2)))))] pub f2: Option<Tsmall>,
    #[asn(optional(complex(Tchoice, tag(UNIVERSAL(1)))))] pub f3: Option<Tchoice>,
}

impl Tr4moome3 {
}

#[asn(sequence, extensible_after(f3))]

#[derive(Default, Debug, Clone, PartialEq, Hash)]
pub struct Tr4moome4 {
    #[asn(complex(Tchoice, tag(UNIVERSAL(1))))] pub f0: Tchoice,
    #[asn(optional(complex(Tplain, tag(UNIVERSAL(16)))))] pub f1: Option<Tplain>,
    #[asn(optional(complex(Tsmall, tag(UNIVERSAL(2)))))] pub f2: Option<Tsmall>,
    #[asn(complex(Tchoice, tag(UNIVERSAL(1))))] pub f3: Tchoice,
}

impl Tr4moome4 {
}

#[asn(sequence)]

#[derive(Default, Debug, Clone, PartialEq, Hash)]
pub struct Tr4ooomn {
    #[asn(optional(complex(Tchoice, tag(UNIVERSAL(1)))))] pub f0: Option<Tchoice>,
    #[asn(optional(complex(Tplain, tag(UNIVERSAL(16)))))] pub f1: Option<Tplain>,
    #[asn(optional(complex(Tsmall, tag(UNIVERSAL(2)))))] pub f2: Option<Tsmall>,
    #[asn(complex(Tchoice, tag(UNIVERSAL(1))))] pub f3: Tchoice,
}

impl Tr4ooomn {
}

#[asn(sequence, extensible_after(f0))]

#[derive(Default, Debug, Clone, PartialEq, Hash)]
pub struct Tr4ooome0 {
    #[asn(optional(complex(Tchoice, tag(UNIVERSAL(1)))))] pub f0: Option<Tchoice>,
    #[asn(optional(complex(Tplain, tag(UNIVERSAL(16)))))] pub f1: Option<Tplain>,
    #[asn(optional(complex(Tsmall, tag(UNIVERSAL(2)))))] pub f2: Option<Tsmall>,
    #[asn(optional(complex(Tchoice, tag(UNIVERSAL(1)))))] pub f3: Option<Tchoice>,
}

impl Tr4ooome0 {
}

#[asn(sequence, extensible_after(f0))]

#[derive(Default, Debug, Clone, PartialEq, Hash)]
pub struct Tr4ooome1 {
    #[asn(optional(complex(Tchoice, tag(UNIVERSAL(1)))))] pub f0: Option<Tchoice>,
    #[asn(optional(complex(Tplain, tag(UNIVERSAL(16)))))] pub f1: Option<Tplain>,
    #[asn(optional(complex(Tsmall, tag(UNIVERSAL(2)))))] pub f2: Option<Tsmall>,
    #[asn(optional(complex(Tchoice, tag(UNIVERSAL(1)))))] pub f3: Option<Tchoice>,
}

impl Tr4ooome1 {
}

#[asn(sequence, extensible_after(f1))]

#[derive(Default, Debug, Clone, PartialEq, Hash)]
pub struct Tr4ooome2 {
    #[asn(optional(complex(Tchoice, tag(UNIVERSAL(1)))))] pub f0: Option<Tchoice>,
    #[asn(optional(complex(Tplain, tag(UNIVERSAL(16)))))] pub f1: Option<Tplain>,
    #[asn(optional(complex(Tsmall, tag(UNIVERSAL(2)))))] pub f2: Option<Tsmall>,
    #[asn(optional(complex(Tchoice, tag(UNIVERSAL(1)))))] pub f3: Option<Tchoice>,
}

impl Tr4ooome2 {
}

#[asn(sequence, extensible_after(f2))]

#[derive(Default, Debug, Clone, PartialEq, Hash)]
pub struct Tr4ooome3 {
    #[asn(optional(complex(Tchoice, tag(UNIVERSAL(1)))))] pub f0: Option<Tchoice>,
    #[asn(optional(complex(Tplain, tag(UNIVERSAL(16)))))] pub f1: Option<Tplain>,
    #[asn(optional(complex(Tsmall, tag(UNIVERSAL(2)))))] pub f2: Option<Tsmall>,
    #[asn(optional(complex(Tchoice, tag(UNIVERSAL(1)))))] pub f3: Option<Tchoice>,
}

impl Tr4ooome3 {
}

#[asn(sequence, extensible_after(f3))]

#[derive(Default, Debug, Clone, PartialEq, Hash)]
pub struct Tr4ooome4 {
    #[asn(optional(complex(Tchoice, tag(UNIVERSAL(1)))))] pub f0: Option<Tchoice>,
    #[asn(optional(complex(Tplain, tag(UNIVERSAL(16)))))] pub f1: Option<Tplain>,
    #[asn(optional(complex(Tsmall, tag(UNIVERSAL(2)))))] pub f2: Option<Tsmall>,
    #[asn(complex(Tchoice, tag(UNIVERSAL(1))))] pub f3: Tchoice,
}

impl Tr4ooome4 {
}

#[asn(sequence)]

#[derive(Default, Debug, Clone, PartialEq, Hash)]
pub struct Tr4mmmon {
    #[asn(complex(Tchoice, tag(UNIVERSAL(1))))] pub f0: Tchoice,
    #[asn(complex(Tplain, tag(UNIVERSAL(16))))] pub f1: Tplain,
    #[asn(complex(Tsmall, tag(UNIVERSAL(2))))] pub f2: Tsmall,
    #[asn(optional(complex(Tchoice, tag(UNIVERSAL(1)))))] pub f3: Option<Tchoice>,
}

impl Tr4mmmon {
}

#[asn(sequence, extensible_after(f0))]

#[derive(Default, Debug, Clone, PartialEq, Hash)]
pub struct Tr4mmmoe0 {
    #[asn(complex(Tchoice, tag(UNIVERSAL(1))))] pub f0: Tchoice,
    #[asn(optional(complex(Tplain, tag(UNIVERSAL(16)))))] pub f1: Option<Tplain>,
    #[asn(optional(complex(Tsmall, tag(UNIVERSAL(2)))))] pub f2: Option<Tsmall>,
    #[asn(optional(complex(Tchoice, tag(UNIVERSAL(1)))))] pub f3: Option<Tchoice>,
}

impl Tr4mmmoe0 {
}

#[asn(sequence, extensible_after(f0))]

#[derive(Default, Debug, Clone, PartialEq, Hash)]
pub struct Tr4mmmoe1 {
    #[asn(complex(Tchoice, tag(UNIVERSAL(1))))] pub f0: Tchoice,
    #[asn(optional(complex(Tplain, tag(UNIVERSAL(16)))))] pub f1: Option<Tplain>,
    #[asn(optional(complex(Tsmall, tag(UNIVERSAL(2)))))] pub f2: Option<Tsmall>,
    #[asn(optional(complex(Tchoice, tag(UNIVERSAL(1)))))] pub f3: Option<Tchoice>,
}

impl Tr4mmmoe1 {
}

#[asn(sequence, extensible_after(f1))]

#[derive(Default, Debug, Clone, PartialEq, Hash)]
pub struct Tr4mmmoe2 {
    #[asn(complex(Tchoice, tag(UNIVERSAL(1))))] pub f0: Tchoice,
    #[asn(complex(Tplain, tag(UNIVERSAL(16))))] pub f1: Tplain,
    #[asn(optional(complex(Tsmall, tag(UNIVERSAL(2)))))] pub f2: Option<Tsmall>,
    #[asn(optional(complex(Tchoice, tag(UNIVERSAL(1)))))] pub f3: Option<Tchoice>,
}

impl Tr4mmmoe2 {
}

#[asn(sequence, extensible_after(f2))]

#[derive(Default, Debug, Clone, PartialEq, Hash)]
pub struct Tr4mmmoe3 {
    #[asn(complex(Tchoice, tag(UNIVERSAL(1))))] pub f0: Tchoice,
    #[asn(complex(Tplain, tag(UNIVERSAL(16))))] pub f1: Tplain,
    #[asn(complex(Tsmall, tag(UNIVERSAL(2))))] pub f2: Tsmall,
    #[asn(optional(complex(Tchoice, tag(UNIVERSAL(1)))))] pub f3: Option<Tchoice>,
}

impl Tr4mmmoe3 {
}

#[asn(sequence, extensible_after(f3))]

#[derive(Default, Debug, Clone, PartialEq, Hash)]
pub struct Tr4mmmoe4 {
    #[asn(complex(Tchoice, tag(UNIVERSAL(1))))] pub f0: Tchoice,
    #[asn(complex(Tplain, tag(UNIVERSAL(16))))] pub f1: Tplain,
    #[asn(complex(Tsmall, tag(UNIVERSAL(2))))] pub f2: Tsmall,
    #[asn(optional(complex(Tchoice, tag(UNIVERSAL(1)))))] pub f3: Option<Tchoice>,
}

impl Tr4mmmoe4 {
}

#[asn(sequence)]

#[derive(Default, Debug, Clone, PartialEq, Hash)]
pub struct Tr4ommon {
    #[asn(optional(complex(Tchoice, tag(UNIVERSAL(1)))))] pub f0: Option<Tchoice>,
    #[asn(complex(Tplain, tag(UNIVERSAL(16))))] pub f1: Tplain,
    #[asn(complex(Tsmall, tag(UNIVERSAL(2))))] pub f2: Tsmall,
    #[asn(optional(complex(Tchoice, tag(UNIVERSAL(1)))))] pub f3: Option<Tchoice>,
}

impl Tr4ommon {
}

#[asn(sequence, extensible_after(f0))]

#[derive(Default, Debug, Clone, PartialEq, Hash)]
pub struct Tr4ommoe0 {
    #[asn(optional(complex(Tchoice, tag(UNIVERSAL(1)))))] pub f0: Option<Tchoice>,
    #[asn(optional(complex(Tplain, tag(UNIVERSAL(16)))))] pub f1: Option<Tplain>,
    #[asn(optional(complex(Tsmall, tag(UNIVERSAL(2)))))] pub f2: Option<Tsmall>,
    #[asn(optional(complex(Tchoice, tag(UNIVERSAL(1)))))] pub f3: Option<Tchoice>,
}

impl Tr4ommoe0 {
}

#[asn(sequence, extensible_after(f0))]

#[derive(Default, Debug, Clone, PartialEq, Hash)]
pub struct Tr4ommoe1 {
    #[asn(optional(complex(Tchoice, tag(UNIVERSAL(1)))))] pub f0: Option<Tchoice>,
    #[asn(optional(complex(Tplain, tag(UNIVERSAL(16)))))] pub f1: Option<Tplain>,
    #[asn(optional(complex(Tsmall, tag(UNIVERSAL(2)))))] pub f2: Option<Tsmall>,
    #[asn(optional(complex(Tchoice, tag(UNIVERSAL(1)))))] pub f3: Option<Tchoice>,
}

impl Tr4ommoe1 {
}

#[asn(sequence, extensible_after(f1))]

#[derive(Default, Debug, Clone, PartialEq, Hash)]
pub struct Tr4ommoe2 {
    #[asn(optional(complex(Tchoice, tag(UNIVERSAL(1)))))] pub f0: Option<Tchoice>,
    #[asn(complex(Tplain, tag(UNIVERSAL(16))))] pub f1: Tplain,
    #[asn(optional(complex(Tsmall, tag(UNIVERSAL(2)))))] pub f2: Option<Tsmall>,
    #[asn(optional(complex(Tchoice, tag(UNIVERSAL(1)))))] pub f3: Option<Tchoice>,
}

impl Tr4ommoe2 {
}

#[asn(sequence, extensible_after(f2))]

#[derive(Default, Debug, Clone, PartialEq, Hash)]
pub struct Tr4ommoe3 {
    #[asn(optional(complex(Tchoice, tag(UNIVERSAL(1)))))] pub f0: Option<Tchoice>,
    #[asn(complex(Tplain, tag(UNIVERSAL(16))))] pub f1: Tplain,
    #[asn(complex(Tsmall, tag(UNIVERSAL(2))))] pub f2: Tsmall,
    #[asn(optional(complex(Tchoice, tag(UNIVERSAL(1)))))] pub f3: Option<Tchoice>,
}

impl Tr4ommoe3 {
}

#[asn(sequence, extensible_after(f3))]

#[derive(Default, Debug, Clone, PartialEq, Hash)]
pub struct Tr4ommoe4 {
    #[asn(optional(complex(Tchoice, tag(UNIVERSAL(1)))))] pub f0: Option<Tchoice>,
    #[asn(complex(Tplain, tag(UNIVERSAL(16))))] pub f1: Tplain,
    #[asn(complex(Tsmall, tag(UNIVERSAL(2))))] pub f2: Tsmall,
    #[asn(optional(complex(Tchoice, tag(UNIVERSAL(1)))))] pub f3: Option<Tchoice>,
}

impl Tr4ommoe4 {
}

#[asn(sequence)]

#[derive(Default, Debug, Clone, PartialEq, Hash)]
pub struct Tr4momon {
    #[asn(complex(Tchoice, tag(UNIVERSAL(1))))] pub f0: Tchoice,
    #[asn(optional(complex(Tplain, tag(UNIVERSAL(16)))))] pub f1: Option<Tplain>,
    #[asn(complex(Tsmall, tag(UNIVERSAL(2))))] pub f2: Tsmall,
    #[asn(optional(complex(Tchoice, tag(UNIVERSAL(1)))))] pub f3: Option<Tchoice>,
}

impl Tr4momon {
}

#[asn(sequence, extensible_after(f0))]

#[derive(Default, Debug, Clone, PartialEq, Hash)]
pub struct Tr4momoe0 {
    #[asn(complex(Tchoice, tag(UNIVERSAL(1))))] pub f0: Tchoice,
    #[asn(optional(complex(Tplain, tag(UNIVERSAL(16)))))] pub f1: Option<Tplain>,
    #[asn(optional(complex(Tsmall, tag(UNIVERSAL(2)))))] pub f2: Option<Tsmall>,
    #[asn(optional(complex(Tchoice, tag(UNIVERSAL(1)))))] pub f3: Option<Tchoice>,
}

impl Tr4momoe0 {
}

#[asn(sequence, extensible_after(f0))]

#[derive(Default, Debug, Clone, PartialEq, Hash)]
pub struct Tr4momoe1 {
    #[asn(complex(Tchoice, tag(UNIVERSAL(1))))] pub f0: Tchoice,
    #[asn(optional(complex(Tplain, tag(UNIVERSAL(16)))))] pub f1: Option<Tplain>,
    #[asn(optional(complex(Tsmall, tag(UNIVERSAL(2)))))] pub f2: Option<Tsmall>,
    #[asn(optional(complex(Tchoice, tag(UNIVERSAL(1)))))] pub f3: Option<Tchoice>,
}

impl Tr4momoe1 {
}

#[asn(sequence, extensible_after(f1))]

#[derive(Default, Debug, Clone, PartialEq, Hash)]
pub struct Tr4momoe2 {
    #[asn(complex(Tchoice, tag(UNIVERSAL(1))))] pub f0: Tchoice,
    #[asn(optional(complex(Tplain, tag(UNIVERSAL(16)))))] pub f1: Option<Tplain>,
    #[asn(optional(complex(Tsmall, tag(UNIVERSAL(2)))))] pub f2: Option<Tsmall>,
    #[asn(optional(complex(Tchoice, tag(UNIVERSAL(1)))))] pub f3: Option<Tchoice>,
}

impl Tr4momoe2 {
}

#[asn(sequence, extensible_after(f2))]

#[derive(Default, Debug, Clone, PartialEq, Hash)]
pub struct Tr4momoe3 {
    #[asn(complex(Tchoice, tag(UNIVERSAL(1))))] pub f0: Tchoice,
    #[asn(optional(complex(Tplain, tag(UNIVERSAL(16)))))] pub f1: Option<Tplain>,
    #[asn(complex(Tsmall, tag(UNIVERSAL(2))))] pub f2: Tsmall,
    #[asn(optional(complex(Tchoice, tag(UNIVERSAL(1)))))] pub f3: Option<Tchoice>,
}

impl Tr4momoe3 {
}

#[asn(sequence, extensible_after(f3))]

#[derive(Default, Debug, Clone, PartialEq, Hash)]
pub struct Tr4momoe4 {
    #[asn(complex(Tchoice, tag(UNIVERSAL(1))))] pub f0: Tchoice,
    #[asn(optional(complex(Tplain, tag(UNIVERSAL(16)))))] pub f1: Option<Tplain>,
    #[asn(complex(Tsmall, tag(UNIVERSAL(2))))] pub f2: Tsmall,
    #[asn(optional(complex(Tchoice, tag(UNIVERSAL(1)))))] pub f3: Option<Tchoice>,
}

impl Tr4momoe4 {
}

#[asn(sequence)]

#[derive(Default, Debug, Clone, PartialEq, Hash)]
pub struct Tr4oomon {
    #[asn(optional(complex(Tchoice, tag(UNIVERSAL(1)))))] pub f0: Option<Tchoice>,
    #[asn(optional(complex(Tplain, tag(UNIVERSAL(16)))))] pub f1: Option<Tplain>,
    #[asn(complex(Tsmall, tag(UNIVERSAL(2))))] pub f2: Tsmall,
    #[asn(optional(complex(Tchoice, tag(UNIVERSAL(1)))))] pub f3: Option<Tchoice>,
}

impl Tr4oomon {
}

#[asn(sequence, extensible_after(f0))]

#[derive(Default, Debug, Clone, PartialEq, Hash)]
pub struct Tr4oomoe0 {
    #[asn(optional(complex(Tchoice, tag(UNIVERSAL(1)))))] pub f0: Option<Tchoice>,
    #[asn(optional(complex(Tplain, tag(UNIVERSAL(16)))))] pub f1: Option<Tplain>,
    #[asn(optional(complex(Tsmall, tag(UNIVERSAL(2)))))] pub f2: Option<Tsmall>,
    #[asn(optional(complex(Tchoice, tag(UNIVERSAL(1)))))] pub f3: Option<Tchoice>,
}

impl Tr4oomoe0 {
}

#[asn(sequence, extensible_after(f0))]

#[derive(Default, Debug, Clone, PartialEq, Hash)]
pub struct Tr4oomoe1 {
    #[asn(optional(complex(Tchoice, tag(UNIVERSAL(1)))))] pub f0: Option<Tchoice>,
    #[asn(optional(complex(Tplain, tag(UNIVERSAL(16)))))] pub f1: Option<Tplain>,
    #[asn(optional(complex(Tsmall, tag(UNIVERSAL(2)))))] pub f2: Option<Tsmall>,
    #[asn(optional(complex(Tchoice, tag(UNIVERSAL(1)))))] pub f3: Option<Tchoice>,
}

impl Tr4oomoe1 {
}

#[asn(sequence, extensible_after(f1))]

#[derive(Default, Debug, Clone, PartialEq, Hash)]
pub struct Tr4oomoe2 {
    #[asn(optional(complex(Tchoice, tag(UNIVERSAL(1)))))] pub f0: Option<Tchoice>,
    #[asn(optional(complex(Tplain, tag(UNIVERSAL(16)))))] pub f1: Option<Tplain>,
    #[asn(optional(complex(Tsmall, tag(UNIVERSAL(2)))))] pub f2: Option<Tsmall>,
    #[asn(optional(complex(Tchoice, tag(UNIVERSAL(1)))))] pub f3: Option<Tchoice>,
}

impl Tr4oomoe2 {
}

#[asn(sequence, extensible_after(f2))]

#[derive(Default, Debug, Clone, PartialEq, Hash)]
pub struct Tr4oomoe3 {
    #[asn(optional(complex(Tchoice, tag(UNIVERSAL(1)))))] pub f0: Option<Tchoice>,
    #[asn(optional(complex(Tplain, tag(UNIVERSAL(16)))))] pub f1: Option<Tplain>,
    #[asn(complex(Tsmall, tag(UNIVERSAL(2))))] pub f2: Tsmall,
    #[asn(optional(complex(Tchoice, tag(UNIVERSAL(1)))))] pub f3: Option<Tchoice>,
}

impl Tr4oomoe3 {
}

#[asn(sequence, extensible_after(f3))]

#[derive(Default, Debug, Clone, PartialEq, Hash)]
pub struct Tr4oomoe4 {
    #[asn(optional(complex(Tchoice, tag(UNIVERSAL(1)))))] pub f0: Option<Tchoice>,
    #[asn(optional(complex(Tplain, tag(UNIVERSAL(16)))))] pub f1: Option<Tplain>,
    #[asn(complex(Tsmall, tag(UNIVERSAL(2))))] pub f2: Tsmall,
    #[asn(optional(complex(Tchoice, tag(UNIVERSAL(1)))))] pub f3: Option<Tchoice>,
}

impl Tr4oomoe4 {
}

#[asn(sequence)]

#[derive(Default, Debug, Clone, PartialEq, Hash)]
pub struct Tr4mmoon {
    #[asn(complex(Tchoice, tag(UNIVERSAL(1))))] pub f0: Tchoice,
    #[asn(complex(Tplain, tag(UNIVERSAL(16))))] pub f1: Tplain,
    #[asn(optional(complex(Tsmall, tag(UNIVERSAL(2)))))] pub f2: Option<Tsmall>,
    #[asn(optional(complex(Tchoice, tag(UNIVERSAL(1)))))] pub f3: Option<Tchoice>,
}

impl Tr4mmoon {
}

#[asn(sequence, extensible_after(f0))]

#[derive(Default, Debug, Clone, PartialEq, Hash)]
pub struct Tr4mmooe0 {
    #[asn(complex(Tchoice, tag(UNIVERSAL(1))))] pub f0: Tchoice,
    #[asn(optional(complex(Tplain, tag(UNIVERSAL(16)))))] pub f1: Option<Tplain>,
    #[asn(optional(complex(Tsmall, tag(UNIVERSAL(2)))))] pub f2: Option<Tsmall>,
    #[asn(optional(complex(Tchoice, tag(UNIVERSAL(1)))))] pub f3: Option<Tchoice>,
}

impl Tr4mmooe0 {
}

#[asn(sequence, extensible_after(f0))]

#[derive(Default, Debug, Clone, PartialEq, Hash)]
pub struct Tr4mmooe1 {
    #[asn(complex(Tchoice, tag(UNIVERSAL(1))))] pub f0: Tchoice,
    #[asn(optional(complex(Tplain, tag(UNIVERSAL(16)))))] pub f1: Option<Tplain>,
    #[asn(optional(complex(Tsmall, tag(UNIVERSAL(2)))))] pub f2: Option<Tsmall>,
    #[asn(optional(complex(Tchoice, tag(UNIVERSAL(1)))))] pub f3: Option<Tchoice>,
}

impl Tr4mmooe1 {
}

#[asn(sequence, extensible_after(f1))]

#[derive(Default, Debug, Clone, PartialEq, Hash)]
pub struct Tr4mmooe2 {
    #[asn(complex(Tchoice, tag(UNIVERSAL(1))))] pub f0: Tchoice,
    #[asn(complex(Tplain, tag(UNIVERSAL(16))))] pub f1: Tplain,
    #[asn(optional(complex(Tsmall, tag(UNIVERSAL(2)))))] pub f2: Option<Tsmall>,
    #[asn(optional(complex(Tchoice, tag(UNIVERSAL(1)))))] pub f3: Option<Tchoice>,
}

impl Tr4mmooe2 {
}

#[asn(sequence, extensible_after(f2))]

#[derive(Default, Debug, Clone, PartialEq, Hash)]
pub struct Tr4mmooe3 {
    #[asn(complex(Tchoice, tag(UNIVERSAL(1))))] pub f0: Tchoice,
    #[asn(complex(Tplain, tag(UNIVERSAL(16))))] pub f1: Tplain,
    #[asn(optional(complex(Tsmall, tag(UNIVERSAL(2)))))] pub f2: Option<Tsmall>,
    #[asn(optional(complex(Tchoice, tag(UNIVERSAL(1)))))] pub f3: Option<Tchoice>,
}

impl Tr4mmooe3 {
}

#[asn(sequence, extensible_after(f3))]

#[derive(Default, Debug, Clone, PartialEq, Hash)]
pub struct Tr4mmooe4 {
    #[asn(complex(Tchoice, tag(UNIVERSAL(1))))] pub f0: Tchoice,
    #[asn(complex(Tplain, tag(UNIVERSAL(16))))] pub f1: Tplain,
    #[asn(optional(complex(Tsmall, tag(UNIVERSAL(2)))))] pub f2: Option<Tsmall>,
    #[asn(optional(complex(Tchoice, tag(UNIVERSAL(1)))))] pub f3: Option<Tchoice>,
}

impl Tr4mmooe4 {
}

#[asn(sequence)]

#[derive(Default, Debug, Clone, PartialEq, Hash)]
pub struct Tr4omoon {
    #[asn(optional(complex(Tchoice, tag(UNIVERSAL(1)))))] pub f0: Option<Tchoice>,
    #[asn(complex(Tplain, tag(UNIVERSAL(16))))] pub f1: Tplain,
    #[asn(optional(complex(Tsmall, tag(UNIVERSAL(2)))))] pub f2: Option<Tsmall>,
    #[asn(optional(complex(Tchoice, tag(UNIVERSAL(1)))))] pub f3: Option<Tchoice>,
}

impl Tr4omoon {
}

#[asn(sequence, extensible_after(f0))]

#[derive(Default, Debug, Clone, PartialEq, Hash)]
pub struct Tr4omooe0 {
    #[asn(optional(complex(Tchoice, tag(UNIVERSAL(1)))))] pub f0: Option<Tchoice>,
    #[asn(optional(complex(Tplain, tag(UNIVERSAL(16)))))] pub f1: Option<Tplain>,
    #[asn(optional(complex(Tsmall, tag(UNIVERSAL(2)))))] pub f2: Option<Tsmall>,
    #[asn(optional(complex(Tchoice, tag(UNIVERSAL(1)))))] pub f3: Option<Tchoice>,
}

impl Tr4omooe0 {
}

#[asn(sequence, extensible_after(f0))]

#[derive(Default, Debug, Clone, PartialEq, Hash)]
pub struct Tr4omooe1 {
    #[asn(optional(complex(Tchoice, tag(UNIVERSAL(1)))))] pub f0: Option<Tchoice>,
    #[asn(optional(complex(Tplain, tag(UNIVERSAL(16)))))] pub f1: Option<Tplain>,
    #[asn(optional(complex(Tsmall, tag(UNIVERSAL(2)))))] pub f2: Option<Tsmall>,
    #[asn(optional(complex(Tchoice, tag(UNIVERSAL(1)))))] pub f3: Option<Tchoice>,
}

impl Tr4omooe1 {
}

#[asn(sequence, extensible_after(f1))]

#[derive(Default, Debug, Clone, PartialEq, Hash)]
pub struct Tr4omooe2 {
    #[asn(optional(complex(Tchoice, tag(UNIVERSAL(1)))))] pub f0: Option<Tchoice>,
    #[asn(complex(Tplain, tag(UNIVERSAL(16))))] pub f1: Tplain,
    #[asn(optional(complex(Tsmall, tag(UNIVERSAL(2)))))] pub f2: Option<Tsmall>,
    #[asn(optional(complex(Tchoice, tag(UNIVERSAL(1)))))] pub f3: Option<Tchoice>,
}

impl Tr4omooe2 {
}

#[asn(sequence, extensible_after(f2))]

#[derive(Default, Debug, Clone, PartialEq, Hash)]
pub struct Tr4omooe3 {
    #[asn(optional(complex(Tchoice, tag(UNIVERSAL(1)))))] pub f0: Option<Tchoice>,
    #[asn(complex(Tplain, tag(UNIVERSAL(16))))] pub f1: Tplain,
    #[asn(optional(complex(Tsmall, tag(UNIVERSAL(2)))))] pub f2: Option<Tsmall>,
    #[asn(optional(complex(Tchoice, tag(UNIVERSAL(1)))))] pub f3: Option<Tchoice>,
}

impl Tr4omooe3 {
}

#[asn(sequence, extensible_after(f3))]

#[derive(Default, Debug, Clone, PartialEq, Hash)]
pub struct Tr4omooe4 {
    #[asn(optional(complex(Tchoice, tag(UNIVERSAL(1)))))] pub f0: Option<Tchoice>,
    #[asn(complex(Tplain, tag(UNIVERSAL(16))))] pub f1: Tplain,
    #[asn(optional(complex(Tsmall, tag(UNIVERSAL(2)))))] pub f2: Option<Tsmall>,
    #[asn(optional(complex(Tchoice, tag(UNIVERSAL(1)))))] pub f3: Option<Tchoice>,
}

impl Tr4omooe4 {
}

#[asn(sequence)]

#[derive(Default, Debug, Clone, PartialEq, Hash)]
pub struct Tr4mooon {
    #[asn(complex(Tchoice, tag(UNIVERSAL(1))))] pub f0: Tchoice,
    #[asn(optional(complex(Tplain, tag(UNIVERSAL(16)))))] pub f1: Option<Tplain>,
    #[asn(optional(complex(Tsmall, tag(UNIVERSAL(2)))))] pub f2: Option<Tsmall>,
    #[asn(optional(complex(Tchoice, tag(UNIVERSAL(1)))))] pub f3: Option<Tchoice>,
}

impl Tr4mooon {
}

#[asn(sequence, extensible_after(f0))]

#[derive(Default, Debug, Clone, PartialEq, Hash)]
pub struct Tr4moooe0 {
    #[asn(complex(Tchoice, tag(UNIVERSAL(1))))] pub f0: Tchoice,
    #[asn(optional(complex(Tplain, tag(UNIVERSAL(16)))))] pub f1: Option<Tplain>,
    #[asn(optional(complex(Tsmall, tag(UNIVERSAL(2)))))] pub f2: Option<Tsmall>,
    #[asn(optional(complex(Tchoice, tag(UNIVERSAL(1)))))] pub f3: Option<Tchoice>,
}

impl Tr4moooe0 {
}

#[asn(sequence, extensible_after(f0))]

#[derive(Default, Debug, Clone, PartialEq, Hash)]
pub struct Tr4moooe1 {
    #[asn(complex(Tchoice, tag(UNIVERSAL(1))))] pub f0: Tchoice,
    #[asn(optional(complex(Tplain, tag(UNIVERSAL(16)))))] pub f1: Option<Tplain>,
    #[asn(optional(complex(Tsmall, tag(UNIVERSAL(2)))))] pub f2: Option<Tsmall>,
    #[asn(optional(complex(Tchoice, tag(UNIVERSAL(1)))))] pub f3: Option<Tchoice>,
}

impl Tr4moooe1 {
}

#[asn(sequence, extensible_after(f1))]

#[derive(Default, Debug, Clone, PartialEq, Hash)]
pub struct Tr4moooe2 {
    #[asn(complex(Tchoice, tag(UNIVERSAL(1))))] pub f0: Tchoice,
    #[asn(optional(complex(Tplain, tag(UNIVERSAL(16)))))] pub f1: Option<Tplain>,
    #[asn(optional(complex(Tsmall, tag(UNIVERSAL(2)))))] pub f2: Option<Tsmall>,
    #[asn(optional(complex(Tchoice, tag(UNIVERSAL(1)))))] pub f3: Option<Tchoice>,
}

impl Tr4moooe2 {
}

#[asn(sequence, extensible_after(f2))]

#[derive(Default, Debug, Clone, PartialEq, Hash)]
pub struct Tr4moooe3 {
    #[asn(complex(Tchoice, tag(UNIVERSAL(1))))] pub f0: Tchoice,
    #[asn(optional(complex(Tplain, tag(UNIVERSAL(16)))))] pub f1: Option<Tplain>,
    #[asn(optional(complex(Tsmall, tag(UNIVERSAL(2)))))] pub f2: Option<Tsmall>,
    #[asn(optional(complex(Tchoice, tag(UNIVERSAL(1)))))] pub f3: Option<Tchoice>,
}

impl Tr4moooe3 {
}

#[asn(sequence, extensible_after(f3))]

#[derive(Default, Debug, Clone, PartialEq, Hash)]
pub struct Tr4moooe4 {
    #[asn(complex(Tchoice, tag(UNIVERSAL(1))))] pub f0: Tchoice,
    #[asn(optional(complex(Tplain, tag(UNIVERSAL(16)))))] pub f1: Option<Tplain>,
    #[asn(optional(complex(Tsmall, tag(UNIVERSAL(2)))))] pub f2: Option<Tsmall>,
    #[asn(optional(complex(Tchoice, tag(UNIVERSAL(1)))))] pub f3: Option<Tchoice>,
}

impl Tr4moooe4 {
}

#[asn(sequence)]

#[derive(Default, Debug, Clone, PartialEq, Hash)]
pub struct Tr4oooon {
    #[asn(optional(complex(Tchoice, tag(UNIVERSAL(1)))))] pub f0: Option<Tchoice>,
    #[asn(optional(complex(Tplain, tag(UNIVERSAL(16)))))] pub f1: Option<Tplain>,
    #[asn(optional(complex(Tsmall, tag(UNIVERSAL(2)))))] pub f2: Option<Tsmall>,
    #[asn(optional(complex(Tchoice, tag(UNIVERSAL(1)))))] pub f3: Option<Tchoice>,
}

impl Tr4oooon {
}

#[asn(sequence, extensible_after(f0))]

#[derive(Default, Debug, Clone, PartialEq, Hash)]
pub struct Tr4ooooe0 {
    #[asn(optional(complex(Tchoice, tag(UNIVERSAL(1)))))] pub f0: Option<Tchoice>,
    #[asn(optional(complex(Tplain, tag(UNIVERSAL(16)))))] pub f1: Option<Tplain>,
    #[asn(optional(complex(Tsmall, tag(UNIVERSAL(2)))))] pub f2: Option<Tsmall>,
    #[asn(optional(complex(Tchoice, tag(UNIVERSAL(1)))))] pub f3: Option<Tchoice>,
}

impl Tr4ooooe0 {
}

#[asn(sequence, extensible_after(f0))]

#[derive(Default, Debug, Clone, PartialEq, Hash)]
pub struct Tr4ooooe1 {
    #[asn(optional(complex(Tchoice, tag(UNIVERSAL(1)))))] pub f0: Option<Tchoice>,
    #[asn(optional(complex(Tplain, tag(UNIVERSAL(16)))))] pub f1: Option<Tplain>,
    #[asn(optional(complex(Tsmall, tag(UNIVERSAL(2)))))] pub f2: Option<Tsmall>,
    #[asn(optional(complex(Tchoice, tag(UNIVERSAL(1)))))] pub f3: Option<Tchoice>,
}

impl Tr4ooooe1 {
}

#[asn(sequence, extensible_after(f1))]

#[derive(Default, Debug, Clone, PartialEq, Hash)]
pub struct Tr4ooooe2 {
    #[asn(optional(complex(Tchoice, tag(UNIVERSAL(1)))))] pub f0: Option<Tchoice>,
    #[asn(optional(complex(Tplain, tag(UNIVERSAL(16)))))] pub f1: Option<Tplain>,
    #[asn(optional(complex(Tsmall, tag(UNIVERSAL(2)))))] pub f2: Option<Tsmall>,
    #[asn(optional(complex(Tchoice, tag(UNIVERSAL(1)))))] pub f3: Option<Tchoice>,
}

impl Tr4ooooe2 {
}

#[asn(sequence, extensible_after(f2))]

#[derive(Default, Debug, Clone, PartialEq, Hash)]
pub struct Tr4ooooe3 {
    #[asn(optional(complex(Tchoice, tag(UNIVERSAL(1)))))] pub f0: Option<Tchoice>,
    #[asn(optional(complex(Tplain, tag(UNIVERSAL(16)))))] pub f1: Option<Tplain>,
    #[asn(optional(complex(Tsmall, tag(UNIVERSAL(2)))))] pub f2: Option<Tsmall>,
    #[asn(optional(complex(Tchoice, tag(UNIVERSAL(1)))))] pub f3: Option<Tchoice>,
}

impl Tr4ooooe3 {
}

#[asn(sequence, extensible_after(f3))]

#[derive(Default, Debug, Clone, PartialEq, Hash)]
pub struct Tr4ooooe4 {
    #[asn(optional(complex(Tchoice, tag(UNIVERSAL(1)))))] pub f0: Option<Tchoice>,
    #[asn(optional(complex(Tplain, tag(UNIVERSAL(16)))))] pub f1: Option<Tplain>,
    #[asn(optional(complex(Tsmall, tag(UNIVERSAL(2)))))] pub f2: Option<Tsmall>,
    #[asn(optional(complex(Tchoice, tag(UNIVERSAL(1)))))] pub f3: Option<Tchoice>,
}

impl Tr4ooooe4 {
}
// ---- harness conversions (generated by the zoo build script from the items above) ----
impl FromValue for Tplain {
    fn from_value(v: &Value) -> Self {
        let s = match v { Value::Seq(s) => s, other => panic!("Tplain: expected Seq, got {other:?}") };
        assert_eq!(s.len(), 2, "Tplain: component count");
        let _ = s;
        Tplain {
            p: FromValue::from_value(s[0].as_ref().expect("component p of Tplain must be present")),
            q: FromValue::from_value(s[1].as_ref().expect("component q of Tplain must be present")),
        }
    }
}
impl ToValue for Tplain {
    fn to_value(&self) -> Value {
        Value::Seq(vec![
            Some(self.p.to_value()),
            Some(self.q.to_value()),
        ])
    }
}
impl FromValue for Tsmall { fn from_value(v: &Value) -> Self { Tsmall(FromValue::from_value(v)) } }
impl ToValue for Tsmall { fn to_value(&self) -> Value { self.0.to_value() } }
impl FromValue for Tchoice {
    fn from_value(v: &Value) -> Self {
        let (i, inner) = match v { Value::Choice(i, inner) => (*i, &**inner), other => panic!("Tchoice: expected Choice, got {other:?}") };
        match i {
            0 => Tchoice::I(FromValue::from_value(inner)),
            1 => Tchoice::B(FromValue::from_value(inner)),
            _ => panic!("Tchoice: alternative index {i} out of range"),
        }
    }
}
impl ToValue for Tchoice {
    fn to_value(&self) -> Value {
        match self {
            Tchoice::I(x) => Value::Choice(0, Box::new(x.to_value())),
            Tchoice::B(x) => Value::Choice(1, Box::new(x.to_value())),
        }
    }
}
impl FromValue for Tr4mmmmn {
    fn from_value(v: &Value) -> Self {
        let s = match v { Value::Seq(s) => s, other => panic!("Tr4mmmmn: expected Seq, got {other:?}") };
        assert_eq!(s.len(), 4, "Tr4mmmmn: component count");
        let _ = s;
        Tr4mmmmn {
            f0: FromValue::from_value(s[0].as_ref().expect("component f0 of Tr4mmmmn must be present")),
            f1: FromValue::from_value(s[1].as_ref().expect("component f1 of Tr4mmmmn must be present")),
            f2: FromValue::from_value(s[2].as_ref().expect("component f2 of Tr4mmmmn must be present")),
            f3: FromValue::from_value(s[3].as_ref().expect("component f3 of Tr4mmmmn must be present")),
        }
    }
}
impl ToValue for Tr4mmmmn {
    fn to_value(&self) -> Value {
        Value::Seq(vec![
            Some(self.f0.to_value()),
            Some(self.f1.to_value()),
            Some(self.f2.to_value()),
            Some(self.f3.to_value()),
        ])
    }
}
impl FromValue for Tr4mmmme0 {
    fn from_value(v: &Value) -> Self {
        let s = match v { Value::Seq(s) => s, other => panic!("Tr4mmmme0: expected Seq, got {other:?}") };
        assert_eq!(s.len(), 4, "Tr4mmmme0: component count");
        let _ = s;
        Tr4mmmme0 {
            f0: FromValue::from_value(s[0].as_ref().expect("component f0 of Tr4mmmme0 must be present")),
            f1: s[1].as_ref().map(FromValue::from_value),
            f2: s[2].as_ref().map(FromValue::from_value),
            f3: s[3].as_ref().map(FromValue::from_value),
        }
    }
}
impl ToValue for Tr4mmmme0 {
    fn to_value(&self) -> Value {
        Value::Seq(vec![
            Some(self.f0.to_value()),
            self.f1.as_ref().map(|x| x.to_value()),
            self.f2.as_ref().map(|x| x.to_value()),
            self.f3.as_ref().map(|x| x.to_value()),
        ])
    }
}
impl FromValue for Tr4mmmme1 {
    fn from_value(v: &Value) -> Self {
        let s = match v { Value::Seq(s) => s, other => panic!("Tr4mmmme1: expected Seq, got {other:?}") };
        assert_eq!(s.len(), 4, "Tr4mmmme1: component count");
        let _ = s;
        Tr4mmmme1 {
            f0: FromValue::from_value(s[0].as_ref().expect("component f0 of Tr4mmmme1 must be present")),
            f1: s[1].as_ref().map(FromValue::from_value),
            f2: s[2].as_ref().map(FromValue::from_value),
            f3: s[3].as_ref().map(FromValue::from_value),
        }
    }
}
impl ToValue for Tr4mmmme1 {
    fn to_value(&self) -> Value {
        Value::Seq(vec![
            Some(self.f0.to_value()),
            self.f1.as_ref().map(|x| x.to_value()),
            self.f2.as_ref().map(|x| x.to_value()),
            self.f3.as_ref().map(|x| x.to_value()),
        ])
    }
}
impl FromValue for Tr4mmmme2 {
    fn from_value(v: &Value) -> Self {
        let s = match v { Value::Seq(s) => s, other => panic!("Tr4mmmme2: expected Seq, got {other:?}") };
        assert_eq!(s.len(), 4, "Tr4mmmme2: component count");
        let _ = s;
        Tr4mmmme2 {
            f0: FromValue::from_value(s[0].as_ref().expect("component f0 of Tr4mmmme2 must be present")),
            f1: FromValue::from_value(s[1].as_ref().expect("component f1 of Tr4mmmme2 must be present")),
            f2: s[2].as_ref().map(FromValue::from_value),
            f3: s[3].as_ref().map(FromValue::from_value),
        }
    }
}
impl ToValue for Tr4mmmme2 {
    fn to_value(&self) -> Value {
        Value::Seq(vec![
            Some(self.f0.to_value()),
            Some(self.f1.to_value()),
            self.f2.as_ref().map(|x| x.to_value()),
            self.f3.as_ref().map(|x| x.to_value()),
        ])
    }
}
impl FromValue for Tr4mmmme3 {
    fn from_value(v: &Value) -> Self {
        let s = match v { Value::Seq(s) => s, other => panic!("Tr4mmmme3: expected Seq, got {other:?}") };
        assert_eq!(s.len(), 4, "Tr4mmmme3: component count");
        let _ = s;
        Tr4mmmme3 {
            f0: FromValue::from_value(s[0].as_ref().expect("component f0 of Tr4mmmme3 must be present")),
            f1: FromValue::from_value(s[1].as_ref().expect("component f1 of Tr4mmmme3 must be present")),
            f2: FromValue::from_value(s[2].as_ref().expect("component f2 of Tr4mmmme3 must be present")),
            f3: s[3].as_ref().map(FromValue::from_value),
        }
    }
}
impl ToValue for Tr4mmmme3 {
    fn to_value(&self) -> Value {
        Value::Seq(vec![
            Some(self.f0.to_value()),
            Some(self.f1.to_value()),
            Some(self.f2.to_value()),
            self.f3.as_ref().map(|x| x.to_value()),
        ])
    }
}
impl FromValue for Tr4mmmme4 {
    fn from_value(v: &Value) -> Self {
        let s = match v { Value::Seq(s) => s, other => panic!("Tr4mmmme4: expected Seq, got {other:?}") };
        assert_eq!(s.len(), 4, "Tr4mmmme4: component count");
        let _ = s;
        Tr4mmmme4 {
            f0: FromValue::from_value(s[0].as_ref().expect("component f0 of Tr4mmmme4 must be present")),
            f1: FromValue::from_value(s[1].as_ref().expect("component f1 of Tr4mmmme4 must be present")),
            f2: FromValue::from_value(s[2].as_ref().expect("component f2 of Tr4mmmme4 must be present")),
            f3: FromValue::from_value(s[3].as_ref().expect("component f3 of Tr4mmmme4 must be present")),
        }
    }
}
impl ToValue for Tr4mmmme4 {
    fn to_value(&self) -> Value {
        Value::Seq(vec![
            Some(self.f0.to_value()),
            Some(self.f1.to_value()),
            Some(self.f2.to_value()),
            Some(self.f3.to_value()),
        ])
    }
}
impl FromValue for Tr4ommmn {
    fn from_value(v: &Value) -> Self {
        let s = match v { Value::Seq(s) => s, other => panic!("Tr4ommmn: expected Seq, got {other:?}") };
        assert_eq!(s.len(), 4, "Tr4ommmn: component count");
        let _ = s;
        Tr4ommmn {
            f0: s[0].as_ref().map(FromValue::from_value),
            f1: FromValue::from_value(s[1].as_ref().expect("component f1 of Tr4ommmn must be present")),
            f2: FromValue::from_value(s[2].as_ref().expect("component f2 of Tr4ommmn must be present")),
            f3: FromValue::from_value(s[3].as_ref().expect("component f3 of Tr4ommmn must be present")),
        }
    }
}
impl ToValue for Tr4ommmn {
    fn to_value(&self) -> Value {
        Value::Seq(vec![
            self.f0.as_ref().map(|x| x.to_value()),
            Some(self.f1.to_value()),
            Some(self.f2.to_value()),
            Some(self.f3.to_value()),
        ])
    }
}
impl FromValue for Tr4ommme0 {
    fn from_value(v: &Value) -> Self {
        let s = match v { Value::Seq(s) => s, other => panic!("Tr4ommme0: expected Seq, got {other:?}") };
        assert_eq!(s.len(), 4, "Tr4ommme0: component count");
        let _ = s;
        Tr4ommme0 {
            f0: s[0].as_ref().map(FromValue::from_value),
            f1: s[1].as_ref().map(FromValue::from_value),
            f2: s[2].as_ref().map(FromValue::from_value),
            f3: s[3].as_ref().map(FromValue::from_value),
        }
    }
}
impl ToValue for Tr4ommme0 {
    fn to_value(&self) -> Value {
        Value::Seq(vec![
            self.f0.as_ref().map(|x| x.to_value()),
            self.f1.as_ref().map(|x| x.to_value()),
            self.f2.as_ref().map(|x| x.to_value()),
            self.f3.as_ref().map(|x| x.to_value()),
        ])
    }
}
impl FromValue for Tr4ommme1 {
    fn from_value(v: &Value) -> Self {
        let s = match v { Value::Seq(s) => s, other => panic!("Tr4ommme1: expected Seq, got {other:?}") };
        assert_eq!(s.len(), 4, "Tr4ommme1: component count");
        let _ = s;
        Tr4ommme1 {
            f0: s[0].as_ref().map(FromValue::from_value),
            f1: s[1].as_ref().map(FromValue::from_value),
            f2: s[2].as_ref().map(FromValue::from_value),
            f3: s[3].as_ref().map(FromValue::from_value),
        }
    }
}
impl ToValue for Tr4ommme1 {
    fn to_value(&self) -> Value {
        Value::Seq(vec![
            self.f0.as_ref().map(|x| x.to_value()),
            self.f1.as_ref().map(|x| x.to_value()),
            self.f2.as_ref().map(|x| x.to_value()),
            self.f3.as_ref().map(|x| x.to_value()),
        ])
    }
}
impl FromValue for Tr4ommme2 {
    fn from_value(v: &Value) -> Self {
        let s = match v { Value::Seq(s) => s, other => panic!("Tr4ommme2: expected Seq, got {other:?}") };
        assert_eq!(s.len(), 4, "Tr4ommme2: component count");
        let _ = s;
        Tr4ommme2 {
            f0: s[0].as_ref().map(FromValue::from_value),
            f1: FromValue::from_value(s[1].as_ref().expect("component f1 of Tr4ommme2 must be present")),
            f2: s[2].as_ref().map(FromValue::from_value),
            f3: s[3].as_ref().map(FromValue::from_value),
        }
    }
}
impl ToValue for Tr4ommme2 {
    fn to_value(&self) -> Value {
        Value::Seq(vec![
            self.f0.as_ref().map(|x| x.to_value()),
            Some(self.f1.to_value()),
            self.f2.as_ref().map(|x| x.to_value()),
            self.f3.as_ref().map(|x| x.to_value()),
        ])
    }
}
impl FromValue for Tr4ommme3 {
    fn from_value(v: &Value) -> Self {
        let s = match v { Value::Seq(s) => s, other => panic!("Tr4ommme3: expected Seq, got {other:?}") };
        assert_eq!(s.len(), 4, "Tr4ommme3: component count");
        let _ = s;
        Tr4ommme3 {
            f0: s[0].as_ref().map(FromValue::from_value),
            f1: FromValue::from_value(s[1].as_ref().expect("component f1 of Tr4ommme3 must be present")),
            f2: FromValue::from_value(s[2].as_ref().expect("component f2 of Tr4ommme3 must be present")),
            f3: s[3].as_ref().map(FromValue::from_value),
        }
    }
}
impl ToValue for Tr4ommme3 {
    fn to_value(&self) -> Value {
        Value::Seq(vec![
            self.f0.as_ref().map(|x| x.to_value()),
            Some(self.f1.to_value()),
            Some(self.f2.to_value()),
            self.f3.as_ref().map(|x| x.to_value()),
        ])
    }
}
impl FromValue for Tr4ommme4 {
    fn from_value(v: &Value) -> Self {
        let s = match v { Value::Seq(s) => s, other => panic!("Tr4ommme4: expected Seq, got {other:?}") };
        assert_eq!(s.len(), 4, "Tr4ommme4: component count");
        let _ = s;
        Tr4ommme4 {
            f0: s[0].as_ref().map(FromValue::from_value),
            f1: FromValue::from_value(s[1].as_ref().expect("component f1 of Tr4ommme4 must be present")),
            f2: FromValue::from_value(s[2].as_ref().expect("component f2 of Tr4ommme4 must be present")),
            f3: FromValue::from_value(s[3].as_ref().expect("component f3 of Tr4ommme4 must be present")),
        }
    }
}
impl ToValue for Tr4ommme4 {
    fn to_value(&self) -> Value {
        Value::Seq(vec![
            self.f0.as_ref().map(|x| x.to_value()),
            Some(self.f1.to_value()),
            Some(self.f2.to_value()),
            Some(self.f3.to_value()),
        ])
    }
}
impl FromValue for Tr4mommn {
    fn from_value(v: &Value) -> Self {
        let s = match v { Value::Seq(s) => s, other => panic!("Tr4mommn: expected Seq, got {other:?}") };
        assert_eq!(s.len(), 4, "Tr4mommn: component count");
        let _ = s;
        Tr4mommn {
            f0: FromValue::from_value(s[0].as_ref().expect("component f0 of Tr4mommn must be present")),
            f1: s[1].as_ref().map(FromValue::from_value),
            f2: FromValue::from_value(s[2].as_ref().expect("component f2 of Tr4mommn must be present")),
            f3: FromValue::from_value(s[3].as_ref().expect("component f3 of Tr4mommn must be present")),
        }
    }
}
impl ToValue for Tr4mommn {
    fn to_value(&self) -> Value {
        Value::Seq(vec![
            Some(self.f0.to_value()),
            self.f1.as_ref().map(|x| x.to_value()),
            Some(self.f2.to_value()),
            Some(self.f3.to_value()),
        ])
    }
}
impl FromValue for Tr4momme0 {
    fn from_value(v: &Value) -> Self {
        let s = match v { Value::Seq(s) => s, other => panic!("Tr4momme0: expected Seq, got {other:?}") };
        assert_eq!(s.len(), 4, "Tr4momme0: component count");
        let _ = s;
        Tr4momme0 {
            f0: FromValue::from_value(s[0].as_ref().expect("component f0 of Tr4momme0 must be present")),
            f1: s[1].as_ref().map(FromValue::from_value),
            f2: s[2].as_ref().map(FromValue::from_value),
            f3: s[3].as_ref().map(FromValue::from_value),
        }
    }
}
impl ToValue for Tr4momme0 {
    fn to_value(&self) -> Value {
        Value::Seq(vec![
            Some(self.f0.to_value()),
            self.f1.as_ref().map(|x| x.to_value()),
            self.f2.as_ref().map(|x| x.to_value()),
            self.f3.as_ref().map(|x| x.to_value()),
        ])
    }
}
impl FromValue for Tr4momme1 {
    fn from_value(v: &Value) -> Self {
        let s = match v { Value::Seq(s) => s, other => panic!("Tr4momme1: expected Seq, got {other:?}") };
        assert_eq!(s.len(), 4, "Tr4momme1: component count");
        let _ = s;
        Tr4momme1 {
            f0: FromValue::from_value(s[0].as_ref().expect("component f0 of Tr4momme1 must be present")),
            f1: s[1].as_ref().map(FromValue::from_value),
            f2: s[2].as_ref().map(FromValue::from_value),
            f3: s[3].as_ref().map(FromValue::from_value),
        }
    }
}
impl ToValue for Tr4momme1 {
    fn to_value(&self) -> Value {
        Value::Seq(vec![
            Some(self.f0.to_value()),
            self.f1.as_ref().map(|x| x.to_value()),
            self.f2.as_ref().map(|x| x.to_value()),
            self.f3.as_ref().map(|x| x.to_value()),
        ])
    }
}
impl FromValue for Tr4momme2 {
    fn from_value(v: &Value) -> Self {
        let s = match v { Value::Seq(s) => s, other => panic!("Tr4momme2: expected Seq, got {other:?}") };
        assert_eq!(s.len(), 4, "Tr4momme2: component count");
        let _ = s;
        Tr4momme2 {
            f0: FromValue::from_value(s[0].as_ref().expect("component f0 of Tr4momme2 must be present")),
            f1: s[1].as_ref().map(FromValue::from_value),
            f2: s[2].as_ref().map(FromValue::from_value),
            f3: s[3].as_ref().map(FromValue::from_value),
        }
    }
}
impl ToValue for Tr4momme2 {
    fn to_value(&self) -> Value {
        Value::Seq(vec![
            Some(self.f0.to_value()),
            self.f1.as_ref().map(|x| x.to_value()),
            self.f2.as_ref().map(|x| x.to_value()),
            self.f3.as_ref().map(|x| x.to_value()),
        ])
    }
}
impl FromValue for Tr4momme3 {
    fn from_value(v: &Value) -> Self {
        let s = match v { Value::Seq(s) => s, other => panic!("Tr4momme3: expected Seq, got {other:?}") };
        assert_eq!(s.len(), 4, "Tr4momme3: component count");
        let _ = s;
        Tr4momme3 {
            f0: FromValue::from_value(s[0].as_ref().expect("component f0 of Tr4momme3 must be present")),
            f1: s[1].as_ref().map(FromValue::from_value),
            f2: FromValue::from_value(s[2].as_ref().expect("component f2 of Tr4momme3 must be present")),
            f3: s[3].as_ref().map(FromValue::from_value),
        }
    }
}
impl ToValue for Tr4momme3 {
    fn to_value(&self) -> Value {
        Value::Seq(vec![
            Some(self.f0.to_value()),
            self.f1.as_ref().map(|x| x.to_value()),
            Some(self.f2.to_value()),
            self.f3.as_ref().map(|x| x.to_value()),
        ])
    }
}
impl FromValue for Tr4momme4 {
    fn from_value(v: &Value) -> Self {
        let s = match v { Value::Seq(s) => s, other => panic!("Tr4momme4: expected Seq, got {other:?}") };
        assert_eq!(s.len(), 4, "Tr4momme4: component count");
        let _ = s;
        Tr4momme4 {
            f0: FromValue::from_value(s[0].as_ref().expect("component f0 of Tr4momme4 must be present")),
            f1: s[1].as_ref().map(FromValue::from_value),
            f2: FromValue::from_value(s[2].as_ref().expect("component f2 of Tr4momme4 must be present")),
            f3: FromValue::from_value(s[3].as_ref().expect("component f3 of Tr4momme4 must be present")),
        }
    }
}
impl ToValue for Tr4momme4 {
    fn to_value(&self) -> Value {
        Value::Seq(vec![
            Some(self.f0.to_value()),
            self.f1.as_ref().map(|x| x.to_value()),
            Some(self.f2.to_value()),
            Some(self.f3.to_value()),
        ])
    }
}
impl FromValue for Tr4oommn {
    fn from_value(v: &Value) -> Self {
        let s = match v { Value::Seq(s) => s, other => panic!("Tr4oommn: expected Seq, got {other:?}") };
        assert_eq!(s.len(), 4, "Tr4oommn: component count");
        let _ = s;
        Tr4oommn {
            f0: s[0].as_ref().map(FromValue::from_value),
            f1: s[1].as_ref().map(FromValue::from_value),
            f2: FromValue::from_value(s[2].as_ref().expect("component f2 of Tr4oommn must be present")),
            f3: FromValue::from_value(s[3].as_ref().expect("component f3 of Tr4oommn must be present")),
        }
    }
}
impl ToValue for Tr4oommn {
    fn to_value(&self) -> Value {
        Value::Seq(vec![
            self.f0.as_ref().map(|x| x.to_value()),
            self.f1.as_ref().map(|x| x.to_value()),
            Some(self.f2.to_value()),
            Some(self.f3.to_value()),
        ])
    }
}
impl FromValue for Tr4oomme0 {
    fn from_value(v: &Value) -> Self {
        let s = match v { Value::Seq(s) => s, other => panic!("Tr4oomme0: expected Seq, got {other:?}") };
        assert_eq!(s.len(), 4, "Tr4oomme0: component count");
        let _ = s;
        Tr4oomme0 {
            f0: s[0].as_ref().map(FromValue::from_value),
            f1: s[1].as_ref().map(FromValue::from_value),
            f2: s[2].as_ref().map(FromValue::from_value),
            f3: s[3].as_ref().map(FromValue::from_value),
        }
    }
}
impl ToValue for Tr4oomme0 {
    fn to_value(&self) -> Value {
        Value::Seq(vec![
            self.f0.as_ref().map(|x| x.to_value()),
            self.f1.as_ref().map(|x| x.to_value()),
            self.f2.as_ref().map(|x| x.to_value()),
            self.f3.as_ref().map(|x| x.to_value()),
        ])
    }
}
impl FromValue for Tr4oomme1 {
    fn from_value(v: &Value) -> Self {
        let s = match v { Value::Seq(s) => s, other => panic!("Tr4oomme1: expected Seq, got {other:?}") };
        assert_eq!(s.len(), 4, "Tr4oomme1: component count");
        let _ = s;
        Tr4oomme1 {
            f0: s[0].as_ref().map(FromValue::from_value),
            f1: s[1].as_ref().map(FromValue::from_value),
            f2: s[2].as_ref().map(FromValue::from_value),
            f3: s[3].as_ref().map(FromValue::from_value),
        }
    }
}
impl ToValue for Tr4oomme1 {
    fn to_value(&self) -> Value {
        Value::Seq(vec![
            self.f0.as_ref().map(|x| x.to_value()),
            self.f1.as_ref().map(|x| x.to_value()),
            self.f2.as_ref().map(|x| x.to_value()),
            self.f3.as_ref().map(|x| x.to_value()),
        ])
    }
}
impl FromValue for Tr4oomme2 {
    fn from_value(v: &Value) -> Self {
        let s = match v { Value::Seq(s) => s, other => panic!("Tr4oomme2: expected Seq, got {other:?}") };
        assert_eq!(s.len(), 4, "Tr4oomme2: component count");
        let _ = s;
        Tr4oomme2 {
            f0: s[0].as_ref().map(FromValue::from_value),
            f1: s[1].as_ref().map(FromValue::from_value),
            f2: s[2].as_ref().map(FromValue::from_value),
            f3: s[3].as_ref().map(FromValue::from_value),
        }
    }
}
impl ToValue for Tr4oomme2 {
    fn to_value(&self) -> Value {
        Value::Seq(vec![
            self.f0.as_ref().map(|x| x.to_value()),
            self.f1.as_ref().map(|x| x.to_value()),
            self.f2.as_ref().map(|x| x.to_value()),
            self.f3.as_ref().map(|x| x.to_value()),
        ])
    }
}
impl FromValue for Tr4oomme3 {
    fn from_value(v: &Value) -> Self {
        let s = match v { Value::Seq(s) => s, other => panic!("Tr4oomme3: expected Seq, got {other:?}") };
        assert_eq!(s.len(), 4, "Tr4oomme3: component count");
        let _ = s;
        Tr4oomme3 {
            f0: s[0].as_ref().map(FromValue::from_value),
            f1: s[1].as_ref().map(FromValue::from_value),
            f2: FromValue::from_value(s[2].as_ref().expect("component f2 of Tr4oomme3 must be present")),
            f3: s[3].as_ref().map(FromValue::from_value),
        }
    }
}
impl ToValue for Tr4oomme3 {
    fn to_value(&self) -> Value {
        Value::Seq(vec![
            self.f0.as_ref().map(|x| x.to_value()),
            self.f1.as_ref().map(|x| x.to_value()),
            Some(self.f2.to_value()),
            self.f3.as_ref().map(|x| x.to_value()),
        ])
    }
}
impl FromValue for Tr4oomme4 {
    fn from_value(v: &Value) -> Self {
        let s = match v { Value::Seq(s) => s, other => panic!("Tr4oomme4: expected Seq, got {other:?}") };
        assert_eq!(s.len(), 4, "Tr4oomme4: component count");
        let _ = s;
        Tr4oomme4 {
            f0: s[0].as_ref().map(FromValue::from_value),
            f1: s[1].as_ref().map(FromValue::from_value),
            f2: FromValue::from_value(s[2].as_ref().expect("component f2 of Tr4oomme4 must be present")),
            f3: FromValue::from_value(s[3].as_ref().expect("component f3 of Tr4oomme4 must be present")),
        }
    }
}
impl ToValue for Tr4oomme4 {
    fn to_value(&self) -> Value {
        Value::Seq(vec![
            self.f0.as_ref().map(|x| x.to_value()),
            self.f1.as_ref().map(|x| x.to_value()),
            Some(self.f2.to_value()),
            Some(self.f3.to_value()),
        ])
    }
}
impl FromValue for Tr4mmomn {
    fn from_value(v: &Value) -> Self {
        let s = match v { Value::Seq(s) => s, other => panic!("Tr4mmomn: expected Seq, got {other:?}") };
        assert_eq!(s.len(), 4, "Tr4mmomn: component count");
        let _ = s;
        Tr4mmomn {
            f0: FromValue::from_value(s[0].as_ref().expect("component f0 of Tr4mmomn must be present")),
            f1: FromValue::from_value(s[1].as_ref().expect("component f1 of Tr4mmomn must be present")),
            f2: s[2].as_ref().map(FromValue::from_value),
            f3: FromValue::from_value(s[3].as_ref().expect("component f3 of Tr4mmomn must be present")),
        }
    }
}
impl ToValue for Tr4mmomn {
    fn to_value(&self) -> Value {
        Value::Seq(vec![
            Some(self.f0.to_value()),
            Some(self.f1.to_value()),
            self.f2.as_ref().map(|x| x.to_value()),
            Some(self.f3.to_value()),
        ])
    }
}
impl FromValue for Tr4mmome0 {
    fn from_value(v: &Value) -> Self {
        let s = match v { Value::Seq(s) => s, other => panic!("Tr4mmome0: expected Seq, got {other:?}") };
        assert_eq!(s.len(), 4, "Tr4mmome0: component count");
        let _ = s;
        Tr4mmome0 {
            f0: FromValue::from_value(s[0].as_ref().expect("component f0 of Tr4mmome0 must be present")),
            f1: s[1].as_ref().map(FromValue::from_value),
            f2: s[2].as_ref().map(FromValue::from_value),
            f3: s[3].as_ref().map(FromValue::from_value),
        }
    }
}
impl ToValue for Tr4mmome0 {
    fn to_value(&self) -> Value {
        Value::Seq(vec![
            Some(self.f0.to_value()),
            self.f1.as_ref().map(|x| x.to_value()),
            self.f2.as_ref().map(|x| x.to_value()),
            self.f3.as_ref().map(|x| x.to_value()),
        ])
    }
}
impl FromValue for Tr4mmome1 {
    fn from_value(v: &Value) -> Self {
        let s = match v { Value::Seq(s) => s, other => panic!("Tr4mmome1: expected Seq, got {other:?}") };
        assert_eq!(s.len(), 4, "Tr4mmome1: component count");
        let _ = s;
        Tr4mmome1 {
            f0: FromValue::from_value(s[0].as_ref().expect("component f0 of Tr4mmome1 must be present")),
            f1: s[1].as_ref().map(FromValue::from_value),
            f2: s[2].as_ref().map(FromValue::from_value),
            f3: s[3].as_ref().map(FromValue::from_value),
        }
    }
}
impl ToValue for Tr4mmome1 {
    fn to_value(&self) -> Value {
        Value::Seq(vec![
            Some(self.f0.to_value()),
            self.f1.as_ref().map(|x| x.to_value()),
            self.f2.as_ref().map(|x| x.to_value()),
            self.f3.as_ref().map(|x| x.to_value()),
        ])
    }
}
impl FromValue for Tr4mmome2 {
    fn from_value(v: &Value) -> Self {
        let s = match v { Value::Seq(s) => s, other => panic!("Tr4mmome2: expected Seq, got {other:?}") };
        assert_eq!(s.len(), 4, "Tr4mmome2: component count");
        let _ = s;
        Tr4mmome2 {
            f0: FromValue::from_value(s[0].as_ref().expect("component f0 of Tr4mmome2 must be present")),
            f1: FromValue::from_value(s[1].as_ref().expect("component f1 of Tr4mmome2 must be present")),
            f2: s[2].as_ref().map(FromValue::from_value),
            f3: s[3].as_ref().map(FromValue::from_value),
        }
    }
}
impl ToValue for Tr4mmome2 {
    fn to_value(&self) -> Value {
        Value::Seq(vec![
            Some(self.f0.to_value()),
            Some(self.f1.to_value()),
            self.f2.as_ref().map(|x| x.to_value()),
            self.f3.as_ref().map(|x| x.to_value()),
        ])
    }
}
impl FromValue for Tr4mmome3 {
    fn from_value(v: &Value) -> Self {
        let s = match v { Value::Seq(s) => s, other => panic!("Tr4mmome3: expected Seq, got {other:?}") };
        assert_eq!(s.len(), 4, "Tr4mmome3: component count");
        let _ = s;
        Tr4mmome3 {
            f0: FromValue::from_value(s[0].as_ref().expect("component f0 of Tr4mmome3 must be present")),
            f1: FromValue::from_value(s[1].as_ref().expect("component f1 of Tr4mmome3 must be present")),
            f2: s[2].as_ref().map(FromValue::from_value),
            f3: s[3].as_ref().map(FromValue::from_value),
        }
    }
}
impl ToValue for Tr4mmome3 {
    fn to_value(&self) -> Value {
        Value::Seq(vec![
            Some(self.f0.to_value()),
            Some(self.f1.to_value()),
            self.f2.as_ref().map(|x| x.to_value()),
            self.f3.as_ref().map(|x| x.to_value()),
        ])
    }
}
impl FromValue for Tr4mmome4 {
    fn from_value(v: &Value) -> Self {
        let s = match v { Value::Seq(s) => s, other => panic!("Tr4mmome4: expected Seq, got {other:?}") };
        assert_eq!(s.len(), 4, "Tr4mmome4: component count");
        let _ = s;
        Tr4mmome4 {
            f0: FromValue::from_value(s[0].as_ref().expect("component f0 of Tr4mmome4 must be present")),
            f1: FromValue::from_value(s[1].as_ref().expect("component f1 of Tr4mmome4 must be present")),
            f2: s[2].as_ref().map(FromValue::from_value),
            f3: FromValue::from_value(s[3].as_ref().expect("component f3 of Tr4mmome4 must be present")),
        }
    }
}
impl ToValue for Tr4mmome4 {
    fn to_value(&self) -> Value {
        Value::Seq(vec![
            Some(self.f0.to_value()),
            Some(self.f1.to_value()),
            self.f2.as_ref().map(|x| x.to_value()),
            Some(self.f3.to_value()),
        ])
    }
}
impl FromValue for Tr4omomn {
    fn from_value(v: &Value) -> Self {
        let s = match v { Value::Seq(s) => s, other => panic!("Tr4omomn: expected Seq, got {other:?}") };
        assert_eq!(s.len(), 4, "Tr4omomn: component count");
        let _ = s;
        Tr4omomn {
            f0: s[0].as_ref().map(FromValue::from_value),
            f1: FromValue::from_value(s[1].as_ref().expect("component f1 of Tr4omomn must be present")),
            f2: s[2].as_ref().map(FromValue::from_value),
            f3: FromValue::from_value(s[3].as_ref().expect("component f3 of Tr4omomn must be present")),
        }
    }
}
impl ToValue for Tr4omomn {
    fn to_value(&self) -> Value {
        Value::Seq(vec![
            self.f0.as_ref().map(|x| x.to_value()),
            Some(self.f1.to_value()),
            self.f2.as_ref().map(|x| x.to_value()),
            Some(self.f3.to_value()),
        ])
    }
}
impl FromValue for Tr4omome0 {
    fn from_value(v: &Value) -> Self {
        let s = match v { Value::Seq(s) => s, other => panic!("Tr4omome0: expected Seq, got {other:?}") };
        assert_eq!(s.len(), 4, "Tr4omome0: component count");
        let _ = s;
        Tr4omome0 {
            f0: s[0].as_ref().map(FromValue::from_value),
            f1: s[1].as_ref().map(FromValue::from_value),
            f2: s[2].as_ref().map(FromValue::from_value),
            f3: s[3].as_ref().map(FromValue::from_value),
        }
    }
}
impl ToValue for Tr4omome0 {
    fn to_value(&self) -> Value {
        Value::Seq(vec![
            self.f0.as_ref().map(|x| x.to_value()),
            self.f1.as_ref().map(|x| x.to_value()),
            self.f2.as_ref().map(|x| x.to_value()),
            self.f3.as_ref().map(|x| x.to_value()),
        ])
    }
}
impl FromValue for Tr4omome1 {
    fn from_value(v: &Value) -> Self {
        let s = match v { Value::Seq(s) => s, other => panic!("Tr4omome1: expected Seq, got {other:?}") };
        assert_eq!(s.len(), 4, "Tr4omome1: component count");
        let _ = s;
        Tr4omome1 {
            f0: s[0].as_ref().map(FromValue::from_value),
            f1: s[1].as_ref().map(FromValue::from_value),
            f2: s[2].as_ref().map(FromValue::from_value),
            f3: s[3].as_ref().map(FromValue::from_value),
        }
    }
}
impl ToValue for Tr4omome1 {
    fn to_value(&self) -> Value {
        Value::Seq(vec![
            self.f0.as_ref().map(|x| x.to_value()),
            self.f1.as_ref().map(|x| x.to_value()),
            self.f2.as_ref().map(|x| x.to_value()),
            self.f3.as_ref().map(|x| x.to_value()),
        ])
    }
}
impl FromValue for Tr4omome2 {
    fn from_value(v: &Value) -> Self {
        let s = match v { Value::Seq(s) => s, other => panic!("Tr4omome2: expected Seq, got {other:?}") };
        assert_eq!(s.len(), 4, "Tr4omome2: component count");
        let _ = s;
        Tr4omome2 {
            f0: s[0].as_ref().map(FromValue::from_value),
            f1: FromValue::from_value(s[1].as_ref().expect("component f1 of Tr4omome2 must be present")),
            f2: s[2].as_ref().map(FromValue::from_value),
            f3: s[3].as_ref().map(FromValue::from_value),
        }
    }
}
impl ToValue for Tr4omome2 {
    fn to_value(&self) -> Value {
        Value::Seq(vec![
            self.f0.as_ref().map(|x| x.to_value()),
            Some(self.f1.to_value()),
            self.f2.as_ref().map(|x| x.to_value()),
            self.f3.as_ref().map(|x| x.to_value()),
        ])
    }
}
impl FromValue for Tr4omome3 {
    fn from_value(v: &Value) -> Self {
        let s = match v { Value::Seq(s) => s, other => panic!("Tr4omome3: expected Seq, got {other:?}") };
        assert_eq!(s.len(), 4, "Tr4omome3: component count");
        let _ = s;
        Tr4omome3 {
            f0: s[0].as_ref().map(FromValue::from_value),
            f1: FromValue::from_value(s[1].as_ref().expect("component f1 of Tr4omome3 must be present")),
            f2: s[2].as_ref().map(FromValue::from_value),
            f3: s[3].as_ref().map(FromValue::from_value),
        }
    }
}
impl ToValue for Tr4omome3 {
    fn to_value(&self) -> Value {
        Value::Seq(vec![
            self.f0.as_ref().map(|x| x.to_value()),
            Some(self.f1.to_value()),
            self.f2.as_ref().map(|x| x.to_value()),
            self.f3.as_ref().map(|x| x.to_value()),
        ])
    }
}
impl FromValue for Tr4omome4 {
    fn from_value(v: &Value) -> Self {
        let s = match v { Value::Seq(s) => s, other => panic!("Tr4omome4: expected Seq, got {other:?}") };
        assert_eq!(s.len(), 4, "Tr4omome4: component count");
        let _ = s;
        Tr4omome4 {
            f0: s[0].as_ref().map(FromValue::from_value),
            f1: FromValue::from_value(s[1].as_ref().expect("component f1 of Tr4omome4 must be present")),
            f2: s[2].as_ref().map(FromValue::from_value),
            f3: FromValue::from_value(s[3].as_ref().expect("component f3 of Tr4omome4 must be present")),
        }
    }
}
impl ToValue for Tr4omome4 {
    fn to_value(&self) -> Value {
        Value::Seq(vec![
            self.f0.as_ref().map(|x| x.to_value()),
            Some(self.f1.to_value()),
            self.f2.as_ref().map(|x| x.to_value()),
            Some(self.f3.to_value()),
        ])
    }
}
impl FromValue for Tr4moomn {
    fn from_value(v: &Value) -> Self {
        let s = match v { Value::Seq(s) => s, other => panic!("Tr4moomn: expected Seq, got {other:?}") };
        assert_eq!(s.len(), 4, "Tr4moomn: component count");
        let _ = s;
        Tr4moomn {
            f0: FromValue::from_value(s[0].as_ref().expect("component f0 of Tr4moomn must be present")),
            f1: s[1].as_ref().map(FromValue::from_value),
            f2: s[2].as_ref().map(FromValue::from_value),
            f3: FromValue::from_value(s[3].as_ref().expect("component f3 of Tr4moomn must be present")),
        }
    }
}
impl ToValue for Tr4moomn {
    fn to_value(&self) -> Value {
        Value::Seq(vec![
            Some(self.f0.to_value()),
            self.f1.as_ref().map(|x| x.to_value()),
            self.f2.as_ref().map(|x| x.to_value()),
            Some(self.f3.to_value()),
        ])
    }
}
impl FromValue for Tr4moome0 {
    fn from_value(v: &Value) -> Self {
        let s = match v { Value::Seq(s) => s, other => panic!("Tr4moome0: expected Seq, got {other:?}") };
        assert_eq!(s.len(), 4, "Tr4moome0: component count");
        let _ = s;
        Tr4moome0 {
            f0: FromValue::from_value(s[0].as_ref().expect("component f0 of Tr4moome0 must be present")),
            f1: s[1].as_ref().map(FromValue::from_value),
            f2: s[2].as_ref().map(FromValue::from_value),
            f3: s[3].as_ref().map(FromValue::from_value),
        }
    }
}
impl ToValue for Tr4moome0 {
    fn to_value(&self) -> Value {
        Value::Seq(vec![
            Some(self.f0.to_value()),
            self.f1.as_ref().map(|x| x.to_value()),
            self.f2.as_ref().map(|x| x.to_value()),
            self.f3.as_ref().map(|x| x.to_value()),
        ])
    }
}
impl FromValue for Tr4moome1 {
    fn from_value(v: &Value) -> Self {
        let s = match v { Value::Seq(s) => s, other => panic!("Tr4moome1: expected Seq, got {other:?}") };
        assert_eq!(s.len(), 4, "Tr4moome1: component count");
        let _ = s;
        Tr4moome1 {
            f0: FromValue::from_value(s[0].as_ref().expect("component f0 of Tr4moome1 must be present")),
            f1: s[1].as_ref().map(FromValue::from_value),
            f2: s[2].as_ref().map(FromValue::from_value),
            f3: s[3].as_ref().map(FromValue::from_value),
        }
    }
}
impl ToValue for Tr4moome1 {
    fn to_value(&self) -> Value {
        Value::Seq(vec![
            Some(self.f0.to_value()),
            self.f1.as_ref().map(|x| x.to_value()),
            self.f2.as_ref().map(|x| x.to_value()),
            self.f3.as_ref().map(|x| x.to_value()),
        ])
    }
}
impl FromValue for Tr4moome2 {
    fn from_value(v: &Value) -> Self {
        let s = match v { Value::Seq(s) => s, other => panic!("Tr4moome2: expected Seq, got {other:?}") };
        assert_eq!(s.len(), 4, "Tr4moome2: component count");
        let _ = s;
        Tr4moome2 {
            f0: FromValue::from_value(s[0].as_ref().expect("component f0 of Tr4moome2 must be present")),
            f1: s[1].as_ref().map(FromValue::from_value),
            f2: s[2].as_ref().map(FromValue::from_value),
            f3: s[3].as_ref().map(FromValue::from_value),
        }
    }
}
impl ToValue for Tr4moome2 {
    fn to_value(&self) -> Value {
        Value::Seq(vec![
            Some(self.f0.to_value()),
            self.f1.as_ref().map(|x| x.to_value()),
            self.f2.as_ref().map(|x| x.to_value()),
            self.f3.as_ref().map(|x| x.to_value()),
        ])
    }
}
impl FromValue for Tr4moome3 {
    fn from_value(v: &Value) -> Self {
        let s = match v { Value::Seq(s) => s, other => panic!("Tr4moome3: expected Seq, got {other:?}") };
        assert_eq!(s.len(), 4, "Tr4moome3: component count");
        let _ = s;
        Tr4moome3 {
            f0: FromValue::from_value(s[0].as_ref().expect("component f0 of Tr4moome3 must be present")),
            f1: s[1].as_ref().map(FromValue::from_value),
            f2: s[2].as_ref().map(FromValue::from_value),
            f3: s[3].as_ref().map(FromValue::from_value),
        }
    }
}
impl ToValue for Tr4moome3 {
    fn to_value(&self) -> Value {
        Value::Seq(vec![
            Some(self.f0.to_value()),
            self.f1.as_ref().map(|x| x.to_value()),
            self.f2.as_ref().map(|x| x.to_value()),
            self.f3.as_ref().map(|x| x.to_value()),
        ])
    }
}
impl FromValue for Tr4moome4 {
    fn from_value(v: &Value) -> Self {
        let s = match v { Value::Seq(s) => s, other => panic!("Tr4moome4: expected Seq, got {other:?}") };
        assert_eq!(s.len(), 4, "Tr4moome4: component count");
        let _ = s;
        Tr4moome4 {
            f0: FromValue::from_value(s[0].as_ref().expect("component f0 of Tr4moome4 must be present")),
            f1: s[1].as_ref().map(FromValue::from_value),
            f2: s[2].as_ref().map(FromValue::from_value),
            f3: FromValue::from_value(s[3].as_ref().expect("component f3 of Tr4moome4 must be present")),
        }
    }
}
impl ToValue for Tr4moome4 {
    fn to_value(&self) -> Value {
        Value::Seq(vec![
            Some(self.f0.to_value()),
            self.f1.as_ref().map(|x| x.to_value()),
            self.f2.as_ref().map(|x| x.to_value()),
            Some(self.f3.to_value()),
        ])
    }
}
impl FromValue for Tr4ooomn {
    fn from_value(v: &Value) -> Self {
        let s = match v { Value::Seq(s) => s, other => panic!("Tr4ooomn: expected Seq, got {other:?}") };
        assert_eq!(s.len(), 4, "Tr4ooomn: component count");
        let _ = s;
        Tr4ooomn {
            f0: s[0].as_ref().map(FromValue::from_value),
            f1: s[1].as_ref().map(FromValue::from_value),
            f2: s[2].as_ref().map(FromValue::from_value),
            f3: FromValue::from_value(s[3].as_ref().expect("component f3 of Tr4ooomn must be present")),
        }
    }
}
impl ToValue for Tr4ooomn {
    fn to_value(&self) -> Value {
        Value::Seq(vec![
            self.f0.as_ref().map(|x| x.to_value()),
            self.f1.as_ref().map(|x| x.to_value()),
            self.f2.as_ref().map(|x| x.to_value()),
            Some(self.f3.to_value()),
        ])
    }
}
impl FromValue for Tr4ooome0 {
    fn from_value(v: &Value) -> Self {
        let s = match v { Value::Seq(s) => s, other => panic!("Tr4ooome0: expected Seq, got {other:?}") };
        assert_eq!(s.len(), 4, "Tr4ooome0: component count");
        let _ = s;
        Tr4ooome0 {
            f0: s[0].as_ref().map(FromValue::from_value),
            f1: s[1].as_ref().map(FromValue::from_value),
            f2: s[2].as_ref().map(FromValue::from_value),
            f3: s[3].as_ref().map(FromValue::from_value),
        }
    }
}
impl ToValue for Tr4ooome0 {
    fn to_value(&self) -> Value {
        Value::Seq(vec![
            self.f0.as_ref().map(|x| x.to_value()),
            self.f1.as_ref().map(|x| x.to_value()),
            self.f2.as_ref().map(|x| x.to_value()),
            self.f3.as_ref().map(|x| x.to_value()),
        ])
    }
}
impl FromValue for Tr4ooome1 {
    fn from_value(v: &Value) -> Self {
        let s = match v { Value::Seq(s) => s, other => panic!("Tr4ooome1: expected Seq, got {other:?}") };
        assert_eq!(s.len(), 4, "Tr4ooome1: component count");
        let _ = s;
        Tr4ooome1 {
            f0: s[0].as_ref().map(FromValue::from_value),
            f1: s[1].as_ref().map(FromValue::from_value),
            f2: s[2].as_ref().map(FromValue::from_value),
            f3: s[3].as_ref().map(FromValue::from_value),
        }
    }
}
impl ToValue for Tr4ooome1 {
    fn to_value(&self) -> Value {
        Value::Seq(vec![
            self.f0.as_ref().map(|x| x.to_value()),
            self.f1.as_ref().map(|x| x.to_value()),
            self.f2.as_ref().map(|x| x.to_value()),
            self.f3.as_ref().map(|x| x.to_value()),
        ])
    }
}
impl FromValue for Tr4ooome2 {
    fn from_value(v: &Value) -> Self {
        let s = match v { Value::Seq(s) => s, other => panic!("Tr4ooome2: expected Seq, got {other:?}") };
        assert_eq!(s.len(), 4, "Tr4ooome2: component count");
        let _ = s;
        Tr4ooome2 {
            f0: s[0].as_ref().map(FromValue::from_value),
            f1: s[1].as_ref().map(FromValue::from_value),
            f2: s[2].as_ref().map(FromValue::from_value),
            f3: s[3].as_ref().map(FromValue::from_value),
        }
    }
}
impl ToValue for Tr4ooome2 {
    fn to_value(&self) -> Value {
        Value::Seq(vec![
            self.f0.as_ref().map(|x| x.to_value()),
            self.f1.as_ref().map(|x| x.to_value()),
            self.f2.as_ref().map(|x| x.to_value()),
            self.f3.as_ref().map(|x| x.to_value()),
        ])
    }
}
impl FromValue for Tr4ooome3 {
    fn from_value(v: &Value) -> Self {
        let s = match v { Value::Seq(s) => s, other => panic!("Tr4ooome3: expected Seq, got {other:?}") };
        assert_eq!(s.len(), 4, "Tr4ooome3: component count");
        let _ = s;
        Tr4ooome3 {
            f0: s[0].as_ref().map(FromValue::from_value),
            f1: s[1].as_ref().map(FromValue::from_value),
            f2: s[2].as_ref().map(FromValue::from_value),
            f3: s[3].as_ref().map(FromValue::from_value),
        }
    }
}
impl ToValue for Tr4ooome3 {
    fn to_value(&self) -> Value {
        Value::Seq(vec![
            self.f0.as_ref().map(|x| x.to_value()),
            self.f1.as_ref().map(|x| x.to_value()),
            self.f2.as_ref().map(|x| x.to_value()),
            self.f3.as_ref().map(|x| x.to_value()),
        ])
    }
}
impl FromValue for Tr4ooome4 {
    fn from_value(v: &Value) -> Self {
        let s = match v { Value::Seq(s) => s, other => panic!("Tr4ooome4: expected Seq, got {other:?}") };
        assert_eq!(s.len(), 4, "Tr4ooome4: component count");
        let _ = s;
        Tr4ooome4 {
            f0: s[0].as_ref().map(FromValue::from_value),
            f1: s[1].as_ref().map(FromValue::from_value),
            f2: s[2].as_ref().map(FromValue::from_value),
            f3: FromValue::from_value(s[3].as_ref().expect("component f3 of Tr4ooome4 must be present")),
        }
    }
}
impl ToValue for Tr4ooome4 {
    fn to_value(&self) -> Value {
        Value::Seq(vec![
            self.f0.as_ref().map(|x| x.to_value()),
            self.f1.as_ref().map(|x| x.to_value()),
            self.f2.as_ref().map(|x| x.to_value()),
            Some(self.f3.to_value()),
        ])
    }
}
impl FromValue for Tr4mmmon {
    fn from_value(v: &Value) -> Self {
        let s = match v { Value::Seq(s) => s, other => panic!("Tr4mmmon: expected Seq, got {other:?}") };
        assert_eq!(s.len(), 4, "Tr4mmmon: component count");
        let _ = s;
        Tr4mmmon {
            f0: FromValue::from_value(s[0].as_ref().expect("component f0 of Tr4mmmon must be present")),
            f1: FromValue::from_value(s[1].as_ref().expect("component f1 of Tr4mmmon must be present")),
            f2: FromValue::from_value(s[2].as_ref().expect("component f2 of Tr4mmmon must be present")),
            f3: s[3].as_ref().map(FromValue::from_value),
        }
    }
}
impl ToValue for Tr4mmmon {
    fn to_value(&self) -> Value {
        Value::Seq(vec![
            Some(self.f0.to_value()),
            Some(self.f1.to_value()),
            Some(self.f2.to_value()),
            self.f3.as_ref().map(|x| x.to_value()),
        ])
    }
}
impl FromValue for Tr4mmmoe0 {
    fn from_value(v: &Value) -> Self {
        let s = match v { Value::Seq(s) => s, other => panic!("Tr4mmmoe0: expected Seq, got {other:?}") };
        assert_eq!(s.len(), 4, "Tr4mmmoe0: component count");
        let _ = s;
        Tr4mmmoe0 {
            f0: FromValue::from_value(s[0].as_ref().expect("component f0 of Tr4mmmoe0 must be present")),
            f1: s[1].as_ref().map(FromValue::from_value),
            f2: s[2].as_ref().map(FromValue::from_value),
            f3: s[3].as_ref().map(FromValue::from_value),
        }
    }
}
impl ToValue for Tr4mmmoe0 {
    fn to_value(&self) -> Value {
        Value::Seq(vec![
            Some(self.f0.to_value()),
            self.f1.as_ref().map(|x| x.to_value()),
            self.f2.as_ref().map(|x| x.to_value()),
            self.f3.as_ref().map(|x| x.to_value()),
        ])
    }
}
impl FromValue for Tr4mmmoe1 {
    fn from_value(v: &Value) -> Self {
        let s = match v { Value::Seq(s) => s, other => panic!("Tr4mmmoe1: expected Seq, got {other:?}") };
        assert_eq!(s.len(), 4, "Tr4mmmoe1: component count");
        let _ = s;
        Tr4mmmoe1 {
            f0: FromValue::from_value(s[0].as_ref().expect("component f0 of Tr4mmmoe1 must be present")),
            f1: s[1].as_ref().map(FromValue::from_value),
            f2: s[2].as_ref().map(FromValue::from_value),
            f3: s[3].as_ref().map(FromValue::from_value),
        }
    }
}
impl ToValue for Tr4mmmoe1 {
    fn to_value(&self) -> Value {
        Value::Seq(vec![
            Some(self.f0.to_value()),
            self.f1.as_ref().map(|x| x.to_value()),
            self.f2.as_ref().map(|x| x.to_value()),
            self.f3.as_ref().map(|x| x.to_value()),
        ])
    }
}
impl FromValue for Tr4mmmoe2 {
    fn from_value(v: &Value) -> Self {
        let s = match v { Value::Seq(s) => s, other => panic!("Tr4mmmoe2: expected Seq, got {other:?}") };
        assert_eq!(s.len(), 4, "Tr4mmmoe2: component count");
        let _ = s;
        Tr4mmmoe2 {
            f0: FromValue::from_value(s[0].as_ref().expect("component f0 of Tr4mmmoe2 must be present")),
            f1: FromValue::from_value(s[1].as_ref().expect("component f1 of Tr4mmmoe2 must be present")),
            f2: s[2].as_ref().map(FromValue::from_value),
            f3: s[3].as_ref().map(FromValue::from_value),
        }
    }
}
impl ToValue for Tr4mmmoe2 {
    fn to_value(&self) -> Value {
        Value::Seq(vec![
            Some(self.f0.to_value()),
            Some(self.f1.to_value()),
            self.f2.as_ref().map(|x| x.to_value()),
            self.f3.as_ref().map(|x| x.to_value()),
        ])
    }
}
impl FromValue for Tr4mmmoe3 {
    fn from_value(v: &Value) -> Self {
        let s = match v { Value::Seq(s) => s, other => panic!("Tr4mmmoe3: expected Seq, got {other:?}") };
        assert_eq!(s.len(), 4, "Tr4mmmoe3: component count");
        let _ = s;
        Tr4mmmoe3 {
            f0: FromValue::from_value(s[0].as_ref().expect("component f0 of Tr4mmmoe3 must be present")),
            f1: FromValue::from_value(s[1].as_ref().expect("component f1 of Tr4mmmoe3 must be present")),
            f2: FromValue::from_value(s[2].as_ref().expect("component f2 of Tr4mmmoe3 must be present")),
            f3: s[3].as_ref().map(FromValue::from_value),
        }
    }
}
impl ToValue for Tr4mmmoe3 {
    fn to_value(&self) -> Value {
        Value::Seq(vec![
            Some(self.f0.to_value()),
            Some(self.f1.to_value()),
            Some(self.f2.to_value()),
            self.f3.as_ref().map(|x| x.to_value()),
        ])
    }
}
impl FromValue for Tr4mmmoe4 {
    fn from_value(v: &Value) -> Self {
        let s = match v { Value::Seq(s) => s, other => panic!("Tr4mmmoe4: expected Seq, got {other:?}") };
        assert_eq!(s.len(), 4, "Tr4mmmoe4: component count");
        let _ = s;
        Tr4mmmoe4 {
            f0: FromValue::from_value(s[0].as_ref().expect("component f0 of Tr4mmmoe4 must be present")),
            f1: FromValue::from_value(s[1].as_ref().expect("component f1 of Tr4mmmoe4 must be present")),
            f2: FromValue::from_value(s[2].as_ref().expect("component f2 of Tr4mmmoe4 must be present")),
            f3: s[3].as_ref().map(FromValue::from_value),
        }
    }
}
impl ToValue for Tr4mmmoe4 {
    fn to_value(&self) -> Value {
        Value::Seq(vec![
            Some(self.f0.to_value()),
            Some(self.f1.to_value()),
            Some(self.f2.to_value()),
            self.f3.as_ref().map(|x| x.to_value()),
        ])
    }
}
impl FromValue for Tr4ommon {
    fn from_value(v: &Value) -> Self {
        let s = match v { Value::Seq(s) => s, other => panic!("Tr4ommon: expected Seq, got {other:?}") };
        assert_eq!(s.len(), 4, "Tr4ommon: component count");
        let _ = s;
        Tr4ommon {
            f0: s[0].as_ref().map(FromValue::from_value),
            f1: FromValue::from_value(s[1].as_ref().expect("component f1 of Tr4ommon must be present")),
            f2: FromValue::from_value(s[2].as_ref().expect("component f2 of Tr4ommon must be present")),
            f3: s[3].as_ref().map(FromValue::from_value),
        }
    }
}
impl ToValue for Tr4ommon {
    fn to_value(&self) -> Value {
        Value::Seq(vec![
            self.f0.as_ref().map(|x| x.to_value()),
            Some(self.f1.to_value()),
            Some(self.f2.to_value()),
            self.f3.as_ref().map(|x| x.to_value()),
        ])
    }
}
impl FromValue for Tr4ommoe0 {
    fn from_value(v: &Value) -> Self {
        let s = match v { Value::Seq(s) => s, other => panic!("Tr4ommoe0: expected Seq, got {other:?}") };
        assert_eq!(s.len(), 4, "Tr4ommoe0: component count");
        let _ = s;
        Tr4ommoe0 {
            f0: s[0].as_ref().map(FromValue::from_value),
            f1: s[1].as_ref().map(FromValue::from_value),
            f2: s[2].as_ref().map(FromValue::from_value),
            f3: s[3].as_ref().map(FromValue::from_value),
        }
    }
}
impl ToValue for Tr4ommoe0 {
    fn to_value(&self) -> Value {
        Value::Seq(vec![
            self.f0.as_ref().map(|x| x.to_value()),
            self.f1.as_ref().map(|x| x.to_value()),
            self.f2.as_ref().map(|x| x.to_value()),
            self.f3.as_ref().map(|x| x.to_value()),
        ])
    }
}
impl FromValue for Tr4ommoe1 {
    fn from_value(v: &Value) -> Self {
        let s = match v { Value::Seq(s) => s, other => panic!("Tr4ommoe1: expected Seq, got {other:?}") };
        assert_eq!(s.len(), 4, "Tr4ommoe1: component count");
        let _ = s;
        Tr4ommoe1 {
            f0: s[0].as_ref().map(FromValue::from_value),
            f1: s[1].as_ref().map(FromValue::from_value),
            f2: s[2].as_ref().map(FromValue::from_value),
            f3: s[3].as_ref().map(FromValue::from_value),
        }
    }
}
impl ToValue for Tr4ommoe1 {
    fn to_value(&self) -> Value {
        Value::Seq(vec![
            self.f0.as_ref().map(|x| x.to_value()),
            self.f1.as_ref().map(|x| x.to_value()),
            self.f2.as_ref().map(|x| x.to_value()),
            self.f3.as_ref().map(|x| x.to_value()),
        ])
    }
}
impl FromValue for Tr4ommoe2 {
    fn from_value(v: &Value) -> Self {
        let s = match v { Value::Seq(s) => s, other => panic!("Tr4ommoe2: expected Seq, got {other:?}") };
        assert_eq!(s.len(), 4, "Tr4ommoe2: component count");
        let _ = s;
        Tr4ommoe2 {
            f0: s[0].as_ref().map(FromValue::from_value),
            f1: FromValue::from_value(s[1].as_ref().expect("component f1 of Tr4ommoe2 must be present")),
            f2: s[2].as_ref().map(FromValue::from_value),
            f3: s[3].as_ref().map(FromValue::from_value),
        }
    }
}
impl ToValue for Tr4ommoe2 {
    fn to_value(&self) -> Value {
        Value::Seq(vec![
            self.f0.as_ref().map(|x| x.to_value()),
            Some(self.f1.to_value()),
            self.f2.as_ref().map(|x| x.to_value()),
            self.f3.as_ref().map(|x| x.to_value()),
        ])
    }
}
impl FromValue for Tr4ommoe3 {
    fn from_value(v: &Value) -> Self {
        let s = match v { Value::Seq(s) => s, other => panic!("Tr4ommoe3: expected Seq, got {other:?}") };
        assert_eq!(s.len(), 4, "Tr4ommoe3: component count");
        let _ = s;
        Tr4ommoe3 {
            f0: s[0].as_ref().map(FromValue::from_value),
            f1: FromValue::from_value(s[1].as_ref().expect("component f1 of Tr4ommoe3 must be present")),
            f2: FromValue::from_value(s[2].as_ref().expect("component f2 of Tr4ommoe3 must be present")),
            f3: s[3].as_ref().map(FromValue::from_value),
        }
    }
}
impl ToValue for Tr4ommoe3 {
    fn to_value(&self) -> Value {
        Value::Seq(vec![
            self.f0.as_ref().map(|x| x.to_value()),
            Some(self.f1.to_value()),
            Some(self.f2.to_value()),
            self.f3.as_ref().map(|x| x.to_value()),
        ])
    }
}
impl FromValue for Tr4ommoe4 {
    fn from_value(v: &Value) -> Self {
        let s = match v { Value::Seq(s) => s, other => panic!("Tr4ommoe4: expected Seq, got {other:?}") };
        assert_eq!(s.len(), 4, "Tr4ommoe4: component count");
        let _ = s;
        Tr4ommoe4 {
            f0: s[0].as_ref().map(FromValue::from_value),
            f1: FromValue::from_value(s[1].as_ref().expect("component f1 of Tr4ommoe4 must be present")),
            f2: FromValue::from_value(s[2].as_ref().expect("component f2 of Tr4ommoe4 must be present")),
            f3: s[3].as_ref().map(FromValue::from_value),
        }
    }
}
impl ToValue for Tr4ommoe4 {
    fn to_value(&self) -> Value {
        Value::Seq(vec![
            self.f0.as_ref().map(|x| x.to_value()),
            Some(self.f1.to_value()),
            Some(self.f2.to_value()),
            self.f3.as_ref().map(|x| x.to_value()),
        ])
    }
}
impl FromValue for Tr4momon {
    fn from_value(v: &Value) -> Self {
        let s = match v { Value::Seq(s) => s, other => panic!("Tr4momon: expected Seq, got {other:?}") };
        assert_eq!(s.len(), 4, "Tr4momon: component count");
        let _ = s;
        Tr4momon {
            f0: FromValue::from_value(s[0].as_ref().expect("component f0 of Tr4momon must be present")),
            f1: s[1].as_ref().map(FromValue::from_value),
            f2: FromValue::from_value(s[2].as_ref().expect("component f2 of Tr4momon must be present")),
            f3: s[3].as_ref().map(FromValue::from_value),
        }
    }
}
impl ToValue for Tr4momon {
    fn to_value(&self) -> Value {
        Value::Seq(vec![
            Some(self.f0.to_value()),
            self.f1.as_ref().map(|x| x.to_value()),
            Some(self.f2.to_value()),
            self.f3.as_ref().map(|x| x.to_value()),
        ])
    }
}
impl FromValue for Tr4momoe0 {
    fn from_value(v: &Value) -> Self {
        let s = match v { Value::Seq(s) => s, other => panic!("Tr4momoe0: expected Seq, got {other:?}") };
        assert_eq!(s.len(), 4, "Tr4momoe0: component count");
        let _ = s;
        Tr4momoe0 {
            f0: FromValue::from_value(s[0].as_ref().expect("component f0 of Tr4momoe0 must be present")),
            f1: s[1].as_ref().map(FromValue::from_value),
            f2: s[2].as_ref().map(FromValue::from_value),
            f3: s[3].as_ref().map(FromValue::from_value),
        }
    }
}
impl ToValue for Tr4momoe0 {
    fn to_value(&self) -> Value {
        Value::Seq(vec![
            Some(self.f0.to_value()),
            self.f1.as_ref().map(|x| x.to_value()),
            self.f2.as_ref().map(|x| x.to_value()),
            self.f3.as_ref().map(|x| x.to_value()),
        ])
    }
}
impl FromValue for Tr4momoe1 {
    fn from_value(v: &Value) -> Self {
        let s = match v { Value::Seq(s) => s, other => panic!("Tr4momoe1: expected Seq, got {other:?}") };
        assert_eq!(s.len(), 4, "Tr4momoe1: component count");
        let _ = s;
        Tr4momoe1 {
            f0: FromValue::from_value(s[0].as_ref().expect("component f0 of Tr4momoe1 must be present")),
            f1: s[1].as_ref().map(FromValue::from_value),
            f2: s[2].as_ref().map(FromValue::from_value),
            f3: s[3].as_ref().map(FromValue::from_value),
        }
    }
}
impl ToValue for Tr4momoe1 {
    fn to_value(&self) -> Value {
        Value::Seq(vec![
            Some(self.f0.to_value()),
            self.f1.as_ref().map(|x| x.to_value()),
            self.f2.as_ref().map(|x| x.to_value()),
            self.f3.as_ref().map(|x| x.to_value()),
        ])
    }
}
impl FromValue for Tr4momoe2 {
    fn from_value(v: &Value) -> Self {
        let s = match v { Value::Seq(s) => s, other => panic!("Tr4momoe2: expected Seq, got {other:?}") };
        assert_eq!(s.len(), 4, "Tr4momoe2: component count");
        let _ = s;
        Tr4momoe2 {
            f0: FromValue::from_value(s[0].as_ref().expect("component f0 of Tr4momoe2 must be present")),
            f1: s[1].as_ref().map(FromValue::from_value),
            f2: s[2].as_ref().map(FromValue::from_value),
            f3: s[3].as_ref().map(FromValue::from_value),
        }
    }
}
impl ToValue for Tr4momoe2 {
    fn to_value(&self) -> Value {
        Value::Seq(vec![
            Some(self.f0.to_value()),
            self.f1.as_ref().map(|x| x.to_value()),
            self.f2.as_ref().map(|x| x.to_value()),
            self.f3.as_ref().map(|x| x.to_value()),
        ])
    }
}
impl FromValue for Tr4momoe3 {
    fn from_value(v: &Value) -> Self {
        let s = match v { Value::Seq(s) => s, other => panic!("Tr4momoe3: expected Seq, got {other:?}") };
        assert_eq!(s.len(), 4, "Tr4momoe3: component count");
        let _ = s;
        Tr4momoe3 {
            f0: FromValue::from_value(s[0].as_ref().expect("component f0 of Tr4momoe3 must be present")),
            f1: s[1].as_ref().map(FromValue::from_value),
            f2: FromValue::from_value(s[2].as_ref().expect("component f2 of Tr4momoe3 must be present")),
            f3: s[3].as_ref().map(FromValue::from_value),
        }
    }
}
impl ToValue for Tr4momoe3 {
    fn to_value(&self) -> Value {
        Value::Seq(vec![
            Some(self.f0.to_value()),
            self.f1.as_ref().map(|x| x.to_value()),
            Some(self.f2.to_value()),
            self.f3.as_ref().map(|x| x.to_value()),
        ])
    }
}
impl FromValue for Tr4momoe4 {
    fn from_value(v: &Value) -> Self {
        let s = match v { Value::Seq(s) => s, other => panic!("Tr4momoe4: expected Seq, got {other:?}") };
        assert_eq!(s.len(), 4, "Tr4momoe4: component count");
        let _ = s;
        Tr4momoe4 {
            f0: FromValue::from_value(s[0].as_ref().expect("component f0 of Tr4momoe4 must be present")),
            f1: s[1].as_ref().map(FromValue::from_value),
            f2: FromValue::from_value(s[2].as_ref().expect("component f2 of Tr4momoe4 must be present")),
            f3: s[3].as_ref().map(FromValue::from_value),
        }
    }
}
impl ToValue for Tr4momoe4 {
    fn to_value(&self) -> Value {
        Value::Seq(vec![
            Some(self.f0.to_value()),
            self.f1.as_ref().map(|x| x.to_value()),
            Some(self.f2.to_value()),
            self.f3.as_ref().map(|x| x.to_value()),
        ])
    }
}
impl FromValue for Tr4oomon {
    fn from_value(v: &Value) -> Self {
        let s = match v { Value::Seq(s) => s, other => panic!("Tr4oomon: expected Seq, got {other:?}") };
        assert_eq!(s.len(), 4, "Tr4oomon: component count");
        let _ = s;
        Tr4oomon {
            f0: s[0].as_ref().map(FromValue::from_value),
            f1: s[1].as_ref().map(FromValue::from_value),
            f2: FromValue::from_value(s[2].as_ref().expect("component f2 of Tr4oomon must be present")),
            f3: s[3].as_ref().map(FromValue::from_value),
        }
    }
}
impl ToValue for Tr4oomon {
    fn to_value(&self) -> Value {
        Value::Seq(vec![
            self.f0.as_ref().map(|x| x.to_value()),
            self.f1.as_ref().map(|x| x.to_value()),
            Some(self.f2.to_value()),
            self.f3.as_ref().map(|x| x.to_value()),
        ])
    }
}
impl FromValue for Tr4oomoe0 {
    fn from_value(v: &Value) -> Self {
        let s = match v { Value::Seq(s) => s, other => panic!("Tr4oomoe0: expected Seq, got {other:?}") };
        assert_eq!(s.len(), 4, "Tr4oomoe0: component count");
        let _ = s;
        Tr4oomoe0 {
            f0: s[0].as_ref().map(FromValue::from_value),
            f1: s[1].as_ref().map(FromValue::from_value),
            f2: s[2].as_ref().map(FromValue::from_value),
            f3: s[3].as_ref().map(FromValue::from_value),
        }
    }
}
impl ToValue for Tr4oomoe0 {
    fn to_value(&self) -> Value {
        Value::Seq(vec![
            self.f0.as_ref().map(|x| x.to_value()),
            self.f1.as_ref().map(|x| x.to_value()),
            self.f2.as_ref().map(|x| x.to_value()),
            self.f3.as_ref().map(|x| x.to_value()),
        ])
    }
}
impl FromValue for Tr4oomoe1 {
    fn from_value(v: &Value) -> Self {
        let s = match v { Value::Seq(s) => s, other => panic!("Tr4oomoe1: expected Seq, got {other:?}") };
        assert_eq!(s.len(), 4, "Tr4oomoe1: component count");
        let _ = s;
        Tr4oomoe1 {
            f0: s[0].as_ref().map(FromValue::from_value),
            f1: s[1].as_ref().map(FromValue::from_value),
            f2: s[2].as_ref().map(FromValue::from_value),
            f3: s[3].as_ref().map(FromValue::from_value),
        }
    }
}
impl ToValue for Tr4oomoe1 {
    fn to_value(&self) -> Value {
        Value::Seq(vec![
            self.f0.as_ref().map(|x| x.to_value()),
            self.f1.as_ref().map(|x| x.to_value()),
            self.f2.as_ref().map(|x| x.to_value()),
            self.f3.as_ref().map(|x| x.to_value()),
        ])
    }
}
impl FromValue for Tr4oomoe2 {
    fn from_value(v: &Value) -> Self {
        let s = match v { Value::Seq(s) => s, other => panic!("Tr4oomoe2: expected Seq, got {other:?}") };
        assert_eq!(s.len(), 4, "Tr4oomoe2: component count");
        let _ = s;
        Tr4oomoe2 {
            f0: s[0].as_ref().map(FromValue::from_value),
            f1: s[1].as_ref().map(FromValue::from_value),
            f2: s[2].as_ref().map(FromValue::from_value),
            f3: s[3].as_ref().map(FromValue::from_value),
        }
    }
}
impl ToValue for Tr4oomoe2 {
    fn to_value(&self) -> Value {
        Value::Seq(vec![
            self.f0.as_ref().map(|x| x.to_value()),
            self.f1.as_ref().map(|x| x.to_value()),
            self.f2.as_ref().map(|x| x.to_value()),
            self.f3.as_ref().map(|x| x.to_value()),
        ])
    }
}
impl FromValue for Tr4oomoe3 {
    fn from_value(v: &Value) -> Self {
        let s = match v { Value::Seq(s) => s, other => panic!("Tr4oomoe3: expected Seq, got {other:?}") };
        assert_eq!(s.len(), 4, "Tr4oomoe3: component count");
        let _ = s;
        Tr4oomoe3 {
            f0: s[0].as_ref().map(FromValue::from_value),
            f1: s[1].as_ref().map(FromValue::from_value),
            f2: FromValue::from_value(s[2].as_ref().expect("component f2 of Tr4oomoe3 must be present")),
            f3: s[3].as_ref().map(FromValue::from_value),
        }
    }
}
impl ToValue for Tr4oomoe3 {
    fn to_value(&self) -> Value {
        Value::Seq(vec![
            self.f0.as_ref().map(|x| x.to_value()),
            self.f1.as_ref().map(|x| x.to_value()),
            Some(self.f2.to_value()),
            self.f3.as_ref().map(|x| x.to_value()),
        ])
    }
}
impl FromValue for Tr4oomoe4 {
    fn from_value(v: &Value) -> Self {
        let s = match v { Value::Seq(s) => s, other => panic!("Tr4oomoe4: expected Seq, got {other:?}") };
        assert_eq!(s.len(), 4, "Tr4oomoe4: component count");
        let _ = s;
        Tr4oomoe4 {
            f0: s[0].as_ref().map(FromValue::from_value),
            f1: s[1].as_ref().map(FromValue::from_value),
            f2: FromValue::from_value(s[2].as_ref().expect("component f2 of Tr4oomoe4 must be present")),
            f3: s[3].as_ref().map(FromValue::from_value),
        }
    }
}
impl ToValue for Tr4oomoe4 {
    fn to_value(&self) -> Value {
        Value::Seq(vec![
            self.f0.as_ref().map(|x| x.to_value()),
            self.f1.as_ref().map(|x| x.to_value()),
            Some(self.f2.to_value()),
            self.f3.as_ref().map(|x| x.to_value()),
        ])
    }
}
impl FromValue for Tr4mmoon {
    fn from_value(v: &Value) -> Self {
        let s = match v { Value::Seq(s) => s, other => panic!("Tr4mmoon: expected Seq, got {other:?}") };
        assert_eq!(s.len(), 4, "Tr4mmoon: component count");
        let _ = s;
        Tr4mmoon {
            f0: FromValue::from_value(s[0].as_ref().expect("component f0 of Tr4mmoon must be present")),
            f1: FromValue::from_value(s[1].as_ref().expect("component f1 of Tr4mmoon must be present")),
            f2: s[2].as_ref().map(FromValue::from_value),
            f3: s[3].as_ref().map(FromValue::from_value),
        }
    }
}
impl ToValue for Tr4mmoon {
    fn to_value(&self) -> Value {
        Value::Seq(vec![
            Some(self.f0.to_value()),
            Some(self.f1.to_value()),
            self.f2.as_ref().map(|x| x.to_value()),
            self.f3.as_ref().map(|x| x.to_value()),
        ])
    }
}
impl FromValue for Tr4mmooe0 {
    fn from_value(v: &Value) -> Self {
        let s = match v { Value::Seq(s) => s, other => panic!("Tr4mmooe0: expected Seq, got {other:?}") };
        assert_eq!(s.len(), 4, "Tr4mmooe0: component count");
        let _ = s;
        Tr4mmooe0 {
            f0: FromValue::from_value(s[0].as_ref().expect("component f0 of Tr4mmooe0 must be present")),
            f1: s[1].as_ref().map(FromValue::from_value),
            f2: s[2].as_ref().map(FromValue::from_value),
            f3: s[3].as_ref().map(FromValue::from_value),
        }
    }
}
impl ToValue for Tr4mmooe0 {
    fn to_value(&self) -> Value {
        Value::Seq(vec![
            Some(self.f0.to_value()),
            self.f1.as_ref().map(|x| x.to_value()),
            self.f2.as_ref().map(|x| x.to_value()),
            self.f3.as_ref().map(|x| x.to_value()),
        ])
    }
}
impl FromValue for Tr4mmooe1 {
    fn from_value(v: &Value) -> Self {
        let s = match v { Value::Seq(s) => s, other => panic!("Tr4mmooe1: expected Seq, got {other:?}") };
        assert_eq!(s.len(), 4, "Tr4mmooe1: component count");
        let _ = s;
        Tr4mmooe1 {
            f0: FromValue::from_value(s[0].as_ref().expect("component f0 of Tr4mmooe1 must be present")),
            f1: s[1].as_ref().map(FromValue::from_value),
            f2: s[2].as_ref().map(FromValue::from_value),
            f3: s[3].as_ref().map(FromValue::from_value),
        }
    }
}
impl ToValue for Tr4mmooe1 {
    fn to_value(&self) -> Value {
        Value::Seq(vec![
            Some(self.f0.to_value()),
            self.f1.as_ref().map(|x| x.to_value()),
            self.f2.as_ref().map(|x| x.to_value()),
            self.f3.as_ref().map(|x| x.to_value()),
        ])
    }
}
impl FromValue for Tr4mmooe2 {
    fn from_value(v: &Value) -> Self {
        let s = match v { Value::Seq(s) => s, other => panic!("Tr4mmooe2: expected Seq, got {other:?}") };
        assert_eq!(s.len(), 4, "Tr4mmooe2: component count");
        let _ = s;
        Tr4mmooe2 {
            f0: FromValue::from_value(s[0].as_ref().expect("component f0 of Tr4mmooe2 must be present")),
            f1: FromValue::from_value(s[1].as_ref().expect("component f1 of Tr4mmooe2 must be present")),
            f2: s[2].as_ref().map(FromValue::from_value),
            f3: s[3].as_ref().map(FromValue::from_value),
        }
    }
}
impl ToValue for Tr4mmooe2 {
    fn to_value(&self) -> Value {
        Value::Seq(vec![
            Some(self.f0.to_value()),
            Some(self.f1.to_value()),
            self.f2.as_ref().map(|x| x.to_value()),
            self.f3.as_ref().map(|x| x.to_value()),
        ])
    }
}
impl FromValue for Tr4mmooe3 {
    fn from_value(v: &Value) -> Self {
        let s = match v { Value::Seq(s) => s, other => panic!("Tr4mmooe3: expected Seq, got {other:?}") };
        assert_eq!(s.len(), 4, "Tr4mmooe3: component count");
        let _ = s;
        Tr4mmooe3 {
            f0: FromValue::from_value(s[0].as_ref().expect("component f0 of Tr4mmooe3 must be present")),
            f1: FromValue::from_value(s[1].as_ref().expect("component f1 of Tr4mmooe3 must be present")),
            f2: s[2].as_ref().map(FromValue::from_value),
            f3: s[3].as_ref().map(FromValue::from_value),
        }
    }
}
impl ToValue for Tr4mmooe3 {
    fn to_value(&self) -> Value {
        Value::Seq(vec![
            Some(self.f0.to_value()),
            Some(self.f1.to_value()),
            self.f2.as_ref().map(|x| x.to_value()),
            self.f3.as_ref().map(|x| x.to_value()),
        ])
    }
}
impl FromValue for Tr4mmooe4 {
    fn from_value(v: &Value) -> Self {
        let s = match v { Value::Seq(s) => s, other => panic!("Tr4mmooe4: expected Seq, got {other:?}") };
        assert_eq!(s.len(), 4, "Tr4mmooe4: component count");
        let _ = s;
        Tr4mmooe4 {
            f0: FromValue::from_value(s[0].as_ref().expect("component f0 of Tr4mmooe4 must be present")),
            f1: FromValue::from_value(s[1].as_ref().expect("component f1 of Tr4mmooe4 must be present")),
            f2: s[2].as_ref().map(FromValue::from_value),
            f3: s[3].as_ref().map(FromValue::from_value),
        }
    }
}
impl ToValue for Tr4mmooe4 {
    fn to_value(&self) -> Value {
        Value::Seq(vec![
            Some(self.f0.to_value()),
            Some(self.f1.to_value()),
            self.f2.as_ref().map(|x| x.to_value()),
            self.f3.as_ref().map(|x| x.to_value()),
        ])
    }
}
impl FromValue for Tr4omoon {
    fn from_value(v: &Value) -> Self {
        let s = match v { Value::Seq(s) => s, other => panic!("Tr4omoon: expected Seq, got {other:?}") };
        assert_eq!(s.len(), 4, "Tr4omoon: component count");
        let _ = s;
        Tr4omoon {
            f0: s[0].as_ref().map(FromValue::from_value),
            f1: FromValue::from_value(s[1].as_ref().expect("component f1 of Tr4omoon must be present")),
            f2: s[2].as_ref().map(FromValue::from_value),
            f3: s[3].as_ref().map(FromValue::from_value),
        }
    }
}
impl ToValue for Tr4omoon {
    fn to_value(&self) -> Value {
        Value::Seq(vec![
            self.f0.as_ref().map(|x| x.to_value()),
            Some(self.f1.to_value()),
            self.f2.as_ref().map(|x| x.to_value()),
            self.f3.as_ref().map(|x| x.to_value()),
        ])
    }
}
impl FromValue for Tr4omooe0 {
    fn from_value(v: &Value) -> Self {
        let s = match v { Value::Seq(s) => s, other => panic!("Tr4omooe0: expected Seq, got {other:?}") };
        assert_eq!(s.len(), 4, "Tr4omooe0: component count");
        let _ = s;
        Tr4omooe0 {
            f0: s[0].as_ref().map(FromValue::from_value),
            f1: s[1].as_ref().map(FromValue::from_value),
            f2: s[2].as_ref().map(FromValue::from_value),
            f3: s[3].as_ref().map(FromValue::from_value),
        }
    }
}
impl ToValue for Tr4omooe0 {
    fn to_value(&self) -> Value {
        Value::Seq(vec![
            self.f0.as_ref().map(|x| x.to_value()),
            self.f1.as_ref().map(|x| x.to_value()),
            self.f2.as_ref().map(|x| x.to_value()),
            self.f3.as_ref().map(|x| x.to_value()),
        ])
    }
}
impl FromValue for Tr4omooe1 {
    fn from_value(v: &Value) -> Self {
        let s = match v { Value::Seq(s) => s, other => panic!("Tr4omooe1: expected Seq, got {other:?}") };
        assert_eq!(s.len(), 4, "Tr4omooe1: component count");
        let _ = s;
        Tr4omooe1 {
            f0: s[0].as_ref().map(FromValue::from_value),
            f1: s[1].as_ref().map(FromValue::from_value),
            f2: s[2].as_ref().map(FromValue::from_value),
            f3: s[3].as_ref().map(FromValue::from_value),
        }
    }
}
impl ToValue for Tr4omooe1 {
    fn to_value(&self) -> Value {
        Value::Seq(vec![
            self.f0.as_ref().map(|x| x.to_value()),
            self.f1.as_ref().map(|x| x.to_value()),
            self.f2.as_ref().map(|x| x.to_value()),
            self.f3.as_ref().map(|x| x.to_value()),
        ])
    }
}
impl FromValue for Tr4omooe2 {
    fn from_value(v: &Value) -> Self {
        let s = match v { Value::Seq(s) => s, other => panic!("Tr4omooe2: expected Seq, got {other:?}") };
        assert_eq!(s.len(), 4, "Tr4omooe2: component count");
        let _ = s;
        Tr4omooe2 {
            f0: s[0].as_ref().map(FromValue::from_value),
            f1: FromValue::from_value(s[1].as_ref().expect("component f1 of Tr4omooe2 must be present")),
            f2: s[2].as_ref().map(FromValue::from_value),
            f3: s[3].as_ref().map(FromValue::from_value),
        }
    }
}
impl ToValue for Tr4omooe2 {
    fn to_value(&self) -> Value {
        Value::Seq(vec![
            self.f0.as_ref().map(|x| x.to_value()),
            Some(self.f1.to_value()),
            self.f2.as_ref().map(|x| x.to_value()),
            self.f3.as_ref().map(|x| x.to_value()),
        ])
    }
}
impl FromValue for Tr4omooe3 {
    fn from_value(v: &Value) -> Self {
        let s = match v { Value::Seq(s) => s, other => panic!("Tr4omooe3: expected Seq, got {other:?}") };
        assert_eq!(s.len(), 4, "Tr4omooe3: component count");
        let _ = s;
        Tr4omooe3 {
            f0: s[0].as_ref().map(FromValue::from_value),
            f1: FromValue::from_value(s[1].as_ref().expect("component f1 of Tr4omooe3 must be present")),
            f2: s[2].as_ref().map(FromValue::from_value),
            f3: s[3].as_ref().map(FromValue::from_value),
        }
    }
}
impl ToValue for Tr4omooe3 {
    fn to_value(&self) -> Value {
        Value::Seq(vec![
            self.f0.as_ref().map(|x| x.to_value()),
            Some(self.f1.to_value()),
            self.f2.as_ref().map(|x| x.to_value()),
            self.f3.as_ref().map(|x| x.to_value()),
        ])
    }
}
impl FromValue for Tr4omooe4 {
    fn from_value(v: &Value) -> Self {
        let s = match v { Value::Seq(s) => s, other => panic!("Tr4omooe4: expected Seq, got {other:?}") };
        assert_eq!(s.len(), 4, "Tr4omooe4: component count");
        let _ = s;
        Tr4omooe4 {
            f0: s[0].as_ref().map(FromValue::from_value),
            f1: FromValue::from_value(s[1].as_ref().expect("component f1 of Tr4omooe4 must be present")),
            f2: s[2].as_ref().map(FromValue::from_value),
            f3: s[3].as_ref().map(FromValue::from_value),
        }
    }
}
impl ToValue for Tr4omooe4 {
    fn to_value(&self) -> Value {
        Value::Seq(vec![
            self.f0.as_ref().map(|x| x.to_value()),
            Some(self.f1.to_value()),
            self.f2.as_ref().map(|x| x.to_value()),
            self.f3.as_ref().map(|x| x.to_value()),
        ])
    }
}
impl FromValue for Tr4mooon {
    fn from_value(v: &Value) -> Self {
        let s = match v { Value::Seq(s) => s, other => panic!("Tr4mooon: expected Seq, got {other:?}") };
        assert_eq!(s.len(), 4, "Tr4mooon: component count");
        let _ = s;
        Tr4mooon {
            f0: FromValue::from_value(s[0].as_ref().expect("component f0 of Tr4mooon must be present")),
            f1: s[1].as_ref().map(FromValue::from_value),
            f2: s[2].as_ref().map(FromValue::from_value),
            f3: s[3].as_ref().map(FromValue::from_value),
        }
    }
}
impl ToValue for Tr4mooon {
    fn to_value(&self) -> Value {
        Value::Seq(vec![
            Some(self.f0.to_value()),
            self.f1.as_ref().map(|x| x.to_value()),
            self.f2.as_ref().map(|x| x.to_value()),
            self.f3.as_ref().map(|x| x.to_value()),
        ])
    }
}
impl FromValue for Tr4moooe0 {
    fn from_value(v: &Value) -> Self {
        let s = match v { Value::Seq(s) => s, other => panic!("Tr4moooe0: expected Seq, got {other:?}") };
        assert_eq!(s.len(), 4, "Tr4moooe0: component count");
        let _ = s;
        Tr4moooe0 {
            f0: FromValue::from_value(s[0].as_ref().expect("component f0 of Tr4moooe0 must be present")),
            f1: s[1].as_ref().map(FromValue::from_value),
            f2: s[2].as_ref().map(FromValue::from_value),
            f3: s[3].as_ref().map(FromValue::from_value),
        }
    }
}
impl ToValue for Tr4moooe0 {
    fn to_value(&self) -> Value {
        Value::Seq(vec![
            Some(self.f0.to_value()),
            self.f1.as_ref().map(|x| x.to_value()),
            self.f2.as_ref().map(|x| x.to_value()),
            self.f3.as_ref().map(|x| x.to_value()),
        ])
    }
}
impl FromValue for Tr4moooe1 {
    fn from_value(v: &Value) -> Self {
        let s = match v { Value::Seq(s) => s, other => panic!("Tr4moooe1: expected Seq, got {other:?}") };
        assert_eq!(s.len(), 4, "Tr4moooe1: component count");
        let _ = s;
        Tr4moooe1 {
            f0: FromValue::from_value(s[0].as_ref().expect("component f0 of Tr4moooe1 must be present")),
            f1: s[1].as_ref().map(FromValue::from_value),
            f2: s[2].as_ref().map(FromValue::from_value),
            f3: s[3].as_ref().map(FromValue::from_value),
        }
    }
}
impl ToValue for Tr4moooe1 {
    fn to_value(&self) -> Value {
        Value::Seq(vec![
            Some(self.f0.to_value()),
            self.f1.as_ref().map(|x| x.to_value()),
            self.f2.as_ref().map(|x| x.to_value()),
            self.f3.as_ref().map(|x| x.to_value()),
        ])
    }
}
impl FromValue for Tr4moooe2 {
    fn from_value(v: &Value) -> Self {
        let s = match v { Value::Seq(s) => s, other => panic!("Tr4moooe2: expected Seq, got {other:?}") };
        assert_eq!(s.len(), 4, "Tr4moooe2: component count");
        let _ = s;
        Tr4moooe2 {
            f0: FromValue::from_value(s[0].as_ref().expect("component f0 of Tr4moooe2 must be present")),
            f1: s[1].as_ref().map(FromValue::from_value),
            f2: s[2].as_ref().map(FromValue::from_value),
            f3: s[3].as_ref().map(FromValue::from_value),
        }
    }
}
impl ToValue for Tr4moooe2 {
    fn to_value(&self) -> Value {
        Value::Seq(vec![
            Some(self.f0.to_value()),
            self.f1.as_ref().map(|x| x.to_value()),
            self.f2.as_ref().map(|x| x.to_value()),
            self.f3.as_ref().map(|x| x.to_value()),
        ])
    }
}
impl FromValue for Tr4moooe3 {
    fn from_value(v: &Value) -> Self {
        let s = match v { Value::Seq(s) => s, other => panic!("Tr4moooe3: expected Seq, got {other:?}") };
        assert_eq!(s.len(), 4, "Tr4moooe3: component count");
        let _ = s;
        Tr4moooe3 {
            f0: FromValue::from_value(s[0].as_ref().expect("component f0 of Tr4moooe3 must be present")),
            f1: s[1].as_ref().map(FromValue::from_value),
            f2: s[2].as_ref().map(FromValue::from_value),
            f3: s[3].as_ref().map(FromValue::from_value),
        }
    }
}
impl ToValue for Tr4moooe3 {
    fn to_value(&self) -> Value {
        Value::Seq(vec![
            Some(self.f0.to_value()),
            self.f1.as_ref().map(|x| x.to_value()),
            self.f2.as_ref().map(|x| x.to_value()),
            self.f3.as_ref().map(|x| x.to_value()),
        ])
    }
}
impl FromValue for Tr4moooe4 {
    fn from_value(v: &Value) -> Self {
        let s = match v { Value::Seq(s) => s, other => panic!("Tr4moooe4: expected Seq, got {other:?}") };
        assert_eq!(s.len(), 4, "Tr4moooe4: component count");
        let _ = s;
        Tr4moooe4 {
            f0: FromValue::from_value(s[0].as_ref().expect("component f0 of Tr4moooe4 must be present")),
            f1: s[1].as_ref().map(FromValue::from_value),
            f2: s[2].as_ref().map(FromValue::from_value),
            f3: s[3].as_ref().map(FromValue::from_value),
        }
    }
}
impl ToValue for Tr4moooe4 {
    fn to_value(&self) -> Value {
        Value::Seq(vec![
            Some(self.f0.to_value()),
            self.f1.as_ref().map(|x| x.to_value()),
            self.f2.as_ref().map(|x| x.to_value()),
            self.f3.as_ref().map(|x| x.to_value()),
        ])
    }
}
impl FromValue for Tr4oooon {
    fn from_value(v: &Value) -> Self {
        let s = match v { Value::Seq(s) => s, other => panic!("Tr4oooon: expected Seq, got {other:?}") };
        assert_eq!(s.len(), 4, "Tr4oooon: component count");
        let _ = s;
        Tr4oooon {
            f0: s[0].as_ref().map(FromValue::from_value),
            f1: s[1].as_ref().map(FromValue::from_value),
            f2: s[2].as_ref().map(FromValue::from_value),
            f3: s[3].as_ref().map(FromValue::from_value),
        }
    }
}
impl ToValue for Tr4oooon {
    fn to_value(&self) -> Value {
        Value::Seq(vec![
            self.f0.as_ref().map(|x| x.to_value()),
            self.f1.as_ref().map(|x| x.to_value()),
            self.f2.as_ref().map(|x| x.to_value()),
            self.f3.as_ref().map(|x| x.to_value()),
        ])
    }
}
impl FromValue for Tr4ooooe0 {
    fn from_value(v: &Value) -> Self {
        let s = match v { Value::Seq(s) => s, other => panic!("Tr4ooooe0: expected Seq, got {other:?}") };
        assert_eq!(s.len(), 4, "Tr4ooooe0: component count");
        let _ = s;
        Tr4ooooe0 {
            f0: s[0].as_ref().map(FromValue::from_value),
            f1: s[1].as_ref().map(FromValue::from_value),
            f2: s[2].as_ref().map(FromValue::from_value),
            f3: s[3].as_ref().map(FromValue::from_value),
        }
    }
}
impl ToValue for Tr4ooooe0 {
    fn to_value(&self) -> Value {
        Value::Seq(vec![
            self.f0.as_ref().map(|x| x.to_value()),
            self.f1.as_ref().map(|x| x.to_value()),
            self.f2.as_ref().map(|x| x.to_value()),
            self.f3.as_ref().map(|x| x.to_value()),
        ])
    }
}
impl FromValue for Tr4ooooe1 {
    fn from_value(v: &Value) -> Self {
        let s = match v { Value::Seq(s) => s, other => panic!("Tr4ooooe1: expected Seq, got {other:?}") };
        assert_eq!(s.len(), 4, "Tr4ooooe1: component count");
        let _ = s;
        Tr4ooooe1 {
            f0: s[0].as_ref().map(FromValue::from_value),
            f1: s[1].as_ref().map(FromValue::from_value),
            f2: s[2].as_ref().map(FromValue::from_value),
            f3: s[3].as_ref().map(FromValue::from_value),
        }
    }
}
impl ToValue for Tr4ooooe1 {
    fn to_value(&self) -> Value {
        Value::Seq(vec![
            self.f0.as_ref().map(|x| x.to_value()),
            self.f1.as_ref().map(|x| x.to_value()),
            self.f2.as_ref().map(|x| x.to_value()),
            self.f3.as_ref().map(|x| x.to_value()),
        ])
    }
}
impl FromValue for Tr4ooooe2 {
    fn from_value(v: &Value) -> Self {
        let s = match v { Value::Seq(s) => s, other => panic!("Tr4ooooe2: expected Seq, got {other:?}") };
        assert_eq!(s.len(), 4, "Tr4ooooe2: component count");
        let _ = s;
        Tr4ooooe2 {
            f0: s[0].as_ref().map(FromValue::from_value),
            f1: s[1].as_ref().map(FromValue::from_value),
            f2: s[2].as_ref().map(FromValue::from_value),
            f3: s[3].as_ref().map(FromValue::from_value),
        }
    }
}
impl ToValue for Tr4ooooe2 {
    fn to_value(&self) -> Value {
        Value::Seq(vec![
            self.f0.as_ref().map(|x| x.to_value()),
            self.f1.as_ref().map(|x| x.to_value()),
            self.f2.as_ref().map(|x| x.to_value()),
            self.f3.as_ref().map(|x| x.to_value()),
        ])
    }
}
impl FromValue for Tr4ooooe3 {
    fn from_value(v: &Value) -> Self {
        let s = match v { Value::Seq(s) => s, other => panic!("Tr4ooooe3: expected Seq, got {other:?}") };
        assert_eq!(s.len(), 4, "Tr4ooooe3: component count");
        let _ = s;
        Tr4ooooe3 {
            f0: s[0].as_ref().map(FromValue::from_value),
            f1: s[1].as_ref().map(FromValue::from_value),
            f2: s[2].as_ref().map(FromValue::from_value),
            f3: s[3].as_ref().map(FromValue::from_value),
        }
    }
}
impl ToValue for Tr4ooooe3 {
    fn to_value(&self) -> Value {
        Value::Seq(vec![
            self.f0.as_ref().map(|x| x.to_value()),
            self.f1.as_ref().map(|x| x.to_value()),
            self.f2.as_ref().map(|x| x.to_value()),
            self.f3.as_ref().map(|x| x.to_value()),
        ])
    }
}
impl FromValue for Tr4ooooe4 {
    fn from_value(v: &Value) -> Self {
        let s = match v { Value::Seq(s) => s, other => panic!("Tr4ooooe4: expected Seq, got {other:?}") };
        assert_eq!(s.len(), 4, "Tr4ooooe4: component count");
        let _ = s;
        Tr4ooooe4 {
            f0: s[0].as_ref().map(FromValue::from_value),
            f1: s[1].as_ref().map(FromValue::from_value),
            f2: s[2].as_ref().map(FromValue::from_value),
            f3: s[3].as_ref().map(FromValue::from_value),
        }
    }
}
impl ToValue for Tr4ooooe4 {
    fn to_value(&self) -> Value {
        Value::Seq(vec![
            self.f0.as_ref().map(|x| x.to_value()),
            self.f1.as_ref().map(|x| x.to_value()),
            self.f2.as_ref().map(|x| x.to_value()),
            self.f3.as_ref().map(|x| x.to_value()),
        ])
    }
}

use asn1rs::prelude::*;

#[asn(sequence, extensible_after(f4))]

#[derive(Default, Debug, Clone, PartialEq, Hash)]
pub struct Ts5modmoe5 {
    #[asn(integer(0..7))] pub f0: u8,
    #[asn(optional(integer(0..7)))] pub f1: Option<u8>,
    #[asn(default(integer(0..7), 5))] pub f2: u8,
    #[asn(integer(0..7))] pub f3: u8,
    #[asn(optional(integer(0..7)))] pub f4: Option<u8>,
}

impl Ts5modmoe5 {
    pub const fn f0_min() -> u8 {
        0
    }

    pub const fn f0_max() -> u8 {
        7
    }

    pub const fn f1_min() -> u8 {
        0
    }

    pub const fn f1_max() -> u8 {
        7
    }

    pub const fn f2_min() -> u8 {
        0
    }

    pub const fn f2_max() -> u8 {
        7
    }

    pub const fn f3_min() -> u8 {
        0
    }

    pub const fn f3_max() -> u8 {
        7
    }

    pub const fn f4_min() -> u8 {
        0
    }

    pub const fn f4_max() -> u8 {
        7
    }
}

#[asn(sequence)]

#[derive(Default, Debug, Clone, PartialEq, Hash)]
pub struct Ts5oodmon {
    #[asn(optional(integer(0..7)))] pub f0: Option<u8>,
    #[asn(optional(integer(0..7)))] pub f1: Option<u8>,
    #[asn(default(integer(0..7), 5))] pub f2: u8,
    #[asn(integer(0..7))] pub f3: u8,
    #[asn(optional(integer(0..7)))] pub f4: Option<u8>,
}

impl Ts5oodmon {
    pub const fn f0_min() -> u8 {
        0
    }

    pub const fn f0_max() -> u8 {
        7
    }

    pub const fn f1_min() -> u8 {
        0
    }

    pub const fn f1_max() -> u8 {
        7
    }

    pub const fn f2_min() -> u8 {
        0
    }

    pub const fn f2_max() -> u8 {
        7
    }

    pub const fn f3_min() -> u8 {
        0
    }

    pub const fn f3_max() -> u8 {
        7
    }

    pub const fn f4_min() -> u8 {
        0
    }

    pub const fn f4_max() -> u8 {
        7
    }
}

#[asn(sequence, extensible_after(f0))]

#[derive(Default, Debug, Clone, PartialEq, Hash)]
pub struct Ts5oodmoe0 {
    #[asn(optional(integer(0..7)))] pub f0: Option<u8>,
    #[asn(optional(integer(0..7)))] pub f1: Option<u8>,
    #[asn(default(integer(0..7), 5))] pub f2: u8,
    #[asn(optional(integer(0..7)))] pub f3: Option<u8>,
    #[asn(optional(integer(0..7)))] pub f4: Option<u8>,
}

impl Ts5oodmoe0 {
    pub const fn f0_min() -> u8 {
        0
    }

    pub const fn f0_max() -> u8 {
        7
    }

    pub const fn f1_min() -> u8 {
        0
    }

    pub const fn f1_max() -> u8 {
        7
    }

    pub const fn f2_min() -> u8 {
        0
    }

    pub const fn f2_max() -> u8 {
        7
    }

    pub const fn f3_min() -> u8 {
        0
    }

    pub const fn f3_max() -> u8 {
        7
    }

    pub const fn f4_min() -> u8 {
        0
    }

    pub const fn f4_max() -> u8 {
        7
    }
}

#[asn(sequence, extensible_after(f0))]

#[derive(Default, Debug, Clone, PartialEq, Hash)]
pub struct Ts5oodmoe1 {
    #[asn(optional(integer(0..7)))] pub f0: Option<u8>,
    #[asn(optional(integer(0..7)))] pub f1: Option<u8>,
    #[asn(default(integer(0..7), 5))] pub f2: u8,
    #[asn(optional(integer(0..7)))] pub f3: Option<u8>,
    #[asn(optional(integer(0..7)))] pub f4: Option<u8>,
}

impl Ts5oodmoe1 {
    pub const fn f0_min() -> u8 {
        0
    }

    pub const fn f0_max() -> u8 {
        7
    }

    pub const fn f1_min() -> u8 {
        0
    }

    pub const fn f1_max() -> u8 {
        7
    }

    pub const fn f2_min() -> u8 {
        0
    }

    pub const fn f2_max() -> u8 {
        7
    }

    pub const fn f3_min() -> u8 {
        0
    }

    pub const fn f3_max() -> u8 {
        7
    }

    pub const fn f4_min() -> u8 {
        0
    }

    pub const fn f4_max() -> u8 {
        7
    }
}

#[asn(sequence, extensible_after(f1))]

#[derive(Default, Debug, Clone, PartialEq, Hash)]
pub struct Ts5oodmoe2 {
    #[asn(optional(integer(0..7)))] pub f0: Option<u8>,
    #[asn(optional(integer(0..7)))] pub f1: Option<u8>,
    #[asn(default(integer(0..7), 5))] pub f2: u8,
    #[asn(optional(integer(0..7)))] pub f3: Option<u8>,
    #[asn(optional(integer(0..7)))] pub f4: Option<u8>,
}

impl Ts5oodmoe2 {
    pub const fn f0_min() -> u8 {
        0
    }

    pub const fn f0_max() -> u8 {
        7
    }

    pub const fn f1_min() -> u8 {
        0
    }

    pub const fn f1_max() -> u8 {
        7
    }

    pub const fn f2_min() -> u8 {
        0
    }

    pub const fn f2_max() -> u8 {
        7
    }

    pub const fn f3_min() -> u8 {
        0
    }

    pub const fn f3_max() -> u8 {
        7
    }

    pub const fn f4_min() -> u8 {
        0
    }

    pub const fn f4_max() -> u8 {
        7
    }
}

#[asn(sequence, extensible_after(f2))]

#[derive(Default, Debug, Clone, PartialEq, Hash)]
pub struct Ts5oodmoe3 {
    #[asn(optional(integer(0..7)))] pub f0: Option<u8>,
    #[asn(optional(integer(0..7)))] pub f1: Option<u8>,
    #[asn(default(integer(0..7), 5))] pub f2: u8,
    #[asn(optional(integer(0..7)))] pub f3: Option<u8>,
    #[asn(optional(integer(0..7)))] pub f4: Option<u8>,
}

impl Ts5oodmoe3 {
    pub const fn f0_min() -> u8 {
        0
    }

    pub const fn f0_max() -> u8 {
        7
    }

    pub const fn f1_min() -> u8 {
        0
    }

    pub const fn f1_max() -> u8 {
        7
    }

    pub const fn f2_min() -> u8 {
        0
    }

    pub const fn f2_max() -> u8 {
        7
    }

    pub const fn f3_min() -> u8 {
        0
    }

    pub const fn f3_max() -> u8 {
        7
    }

    pub const fn f4_min() -> u8 {
        0
    }

    pub const fn f4_max() -> u8 {
        7
    }
}

#[asn(sequence, extensible_after(f3))]

#[derive(Default, Debug, Clone, PartialEq, Hash)]
pub struct Ts5oodmoe4 {
    #[asn(optional(integer(0..7)))] pub f0: Option<u8>,
    #[asn(optional(integer(0..7)))] pub f1: Option<u8>,
    #[asn(default(integer(0..7), 5))] pub f2: u8,
    #[asn(integer(0..7))] pub f3: u8,
    #[asn(optional(integer(0..7)))] pub f4: Option<u8>,
}

impl Ts5oodmoe4 {
    pub const fn f0_min() -> u8 {
        0
    }

    pub const fn f0_max() -> u8 {
        7
    }

    pub const fn f1_min() -> u8 {
        0
    }

    pub const fn f1_max() -> u8 {
        7
    }

    pub const fn f2_min() -> u8 {
        0
    }

    pub const fn f2_max() -> u8 {
        7
    }

    pub const fn f3_min() -> u8 {
        0
    }

    pub const fn f3_max() -> u8 {
        7
    }

    pub const fn f4_min() -> u8 {
        0
    }

    pub const fn f4_max() -> u8 {
        7
    }
}

#[asn(sequence, extensible_after(f4))]

#[derive(Default, Debug, Clone, PartialEq, Hash)]
pub struct Ts5oodmoe5 {
    #[asn(optional(integer(0..7)))] pub f0: Option<u8>,
    #[asn(optional(integer(0..7)))] pub f1: Option<u8>,
    #[asn(default(integer(0..7), 5))] pub f2: u8,
    #[asn(integer(0..7))] pub f3: u8,
    #[asn(optional(integer(0..7)))] pub f4: Option<u8>,
}

impl Ts5oodmoe5 {
    pub const fn f0_min() -> u8 {
        0
    }

    pub const fn f0_max() -> u8 {
        7
    }

    pub const fn f1_min() -> u8 {
        0
    }

    pub const fn f1_max() -> u8 {
        7
    }

    pub const fn f2_min() -> u8 {
        0
    }

    pub const fn f2_max() -> u8 {
        7
    }

    pub const fn f3_min() -> u8 {
        0
    }

    pub const fn f3_max() -> u8 {
        7
    }

    pub const fn f4_min() -> u8 {
        0
    }

    pub const fn f4_max() -> u8 {
        7
    }
}

#[asn(sequence)]

#[derive(Default, Debug, Clone, PartialEq, Hash)]
pub struct Ts5dodmon {
    #[asn(default(integer(0..7), 5))] pub f0: u8,
    #[asn(optional(integer(0..7)))] pub f1: Option<u8>,
    #[asn(default(integer(0..7), 5))] pub f2: u8,
    #[asn(integer(0..7))] pub f3: u8,
    #[asn(optional(integer(0..7)))] pub f4: Option<u8>,
}

impl Ts5dodmon {
    pub const fn f0_min() -> u8 {
        0
    }

    pub const fn f0_max() -> u8 {
        7
    }

    pub const fn f1_min() -> u8 {
        0
    }

    pub const fn f1_max() -> u8 {
        7
    }

    pub const fn f2_min() -> u8 {
        0
    }

    pub const fn f2_max() -> u8 {
        7
    }

    pub const fn f3_min() -> u8 {
        0
    }

    pub const fn f3_max() -> u8 {
        7
    }

    pub const fn f4_min() -> u8 {
        0
    }

    pub const fn f4_max() -> u8 {
        7
    }
}

#[asn(sequence, extensible_after(f0))]

#[derive(Default, Debug, Clone, PartialEq, Hash)]
pub struct Ts5dodmoe0 {
    #[asn(default(integer(0..7), 5))] pub f0: u8,
    #[asn(optional(integer(0..7)))] pub f1: Option<u8>,
    #[asn(default(integer(0..7), 5))] pub f2: u8,
    #[asn(optional(integer(0..7)))] pub f3: Option<u8>,
    #[asn(optional(integer(0..7)))] pub f4: Option<u8>,
}

impl Ts5dodmoe0 {
    pub const fn f0_min() -> u8 {
        0
    }

    pub const fn f0_max() -> u8 {
        7
    }

    pub const fn f1_min() -> u8 {
        0
    }

    pub const fn f1_max() -> u8 {
        7
    }

    pub const fn f2_min() -> u8 {
        0
    }

    pub const fn f2_max() -> u8 {
        7
    }

    pub const fn f3_min() -> u8 {
        0
    }

    pub const fn f3_max() -> u8 {
        7
    }

    pub const fn f4_min() -> u8 {
        0
    }

    pub const fn f4_max() -> u8 {
        7
    }
}

#[asn(sequence, extensible_after(f0))]

#[derive(Default, Debug, Clone, PartialEq, Hash)]
pub struct Ts5dodmoe1 {
    #[asn(default(integer(0..7), 5))] pub f0: u8,
    #[asn(optional(integer(0..7)))] pub f1: Option<u8>,
    #[asn(default(integer(0..7), 5))] pub f2: u8,
    #[asn(optional(integer(0..7)))] pub f3: Option<u8>,
    #[asn(optional(integer(0..7)))] pub f4: Option<u8>,
}

impl Ts5dodmoe1 {
    pub const fn f0_min() -> u8 {
        0
    }

    pub const fn f0_max() -> u8 {
        7
    }

    pub const fn f1_min() -> u8 {
        0
    }

    pub const fn f1_max() -> u8 {
        7
    }

    pub const fn f2_min() -> u8 {
        0
    }

    pub const fn f2_max() -> u8 {
        7
    }

    pub const fn f3_min() -> u8 {
        0
    }

    pub const fn f3_max() -> u8 {
        7
    }

    pub const fn f4_min() -> u8 {
        0
    }

    pub const fn f4_max() -> u8 {
        7
    }
}

#[asn(sequence, extensible_after(f1))]

#[derive(Default, Debug, Clone, PartialEq, Hash)]
pub struct Ts5dodmoe2 {
    #[asn(default(integer(0..7), 5))] pub f0: u8,
    #[asn(optional(integer(0..7)))] pub f1: Option<u8>,
    #[asn(default(integer(0..7), 5))] pub f2: u8,
    #[asn(optional(integer(0..7)))] pub f3: Option<u8>,
    #[asn(optional(integer(0..7)))] pub f4: Option<u8>,
}

impl Ts5dodmoe2 {
    pub const fn f0_min() -> u8 {
        0
    }

    pub const fn f0_max() -> u8 {
        7
    }

    pub const fn f1_min() -> u8 {
        0
    }

    pub const fn f1_max() -> u8 {
        7
    }

    pub const fn f2_min() -> u8 {
        0
    }

    pub const fn f2_max() -> u8 {
        7
    }

    pub const fn f3_min() -> u8 {
        0
    }

    pub const fn f3_max() -> u8 {
        7
    }

    pub const fn f4_min() -> u8 {
        0
    }

    pub const fn f4_max() -> u8 {
        7
    }
}

#[asn(sequence, extensible_after(f2))]

#[derive(Default, Debug, Clone, PartialEq, Hash)]
pub struct Ts5dodmoe3 {
    #[asn(default(integer(0..7), 5))] pub f0: u8,
    #[asn(optional(integer(0..7)))] pub f1: Option<u8>,
    #[asn(default(integer(0..7), 5))] pub f2: u8,
    #[asn(optional(integer(0..7)))] pub f3: Option<u8>,
    #[asn(optional(integer(0..7)))] pub f4: Option<u8>,
}

impl Ts5dodmoe3 {
    pub const fn f0_min() -> u8 {
        0
    }

    pub const fn f0_max() -> u8 {
        7
    }

    pub const fn f1_min() -> u8 {
        0
    }

    pub const fn f1_max() -> u8 {
        7
    }

    pub const fn f2_min() -> u8 {
        0
    }

    pub const fn f2_max() -> u8 {
        7
    }

    pub const fn f3_min() -> u8 {
        0
    }

    pub const fn f3_max() -> u8 {
        7
    }

    pub const fn f4_min() -> u8 {
        0
    }

    pub const fn f4_max() -> u8 {
        7
    }
}

#[asn(sequence, extensible_after(f3))]

#[derive(Default, Debug, Clone, PartialEq, Hash)]
pub struct Ts5dodmoe4 {
    #[asn(default(integer(0..7), 5))] pub f0: u8,
    #[asn(optional(integer(0..7)))] pub f1: Option<u8>,
    #[asn(default(integer(0..7), 5))] pub f2: u8,
    #[asn(integer(0..7))] pub f3: u8,
    #[asn(optional(integer(0..7)))] pub f4: Option<u8>,
}

impl Ts5dodmoe4 {
    pub const fn f0_min() -> u8 {
        0
    }

    pub const fn f0_max() -> u8 {
        7
    }

    pub const fn f1_min() -> u8 {
        0
    }

    pub const fn f1_max() -> u8 {
        7
    }

    pub const fn f2_min() -> u8 {
        0
    }

    pub const fn f2_max() -> u8 {
        7
    }

    pub const fn f3_min() -> u8 {
        0
    }

    pub const fn f3_max() -> u8 {
        7
    }

    pub const fn f4_min() -> u8 {
        0
    }

    pub const fn f4_max() -> u8 {
        7
    }
}

#[asn(sequence, extensible_after(f4))]

#[derive(Default, Debug, Clone, PartialEq, Hash)]
pub struct Ts5dodmoe5 {
    #[asn(default(integer(0..7), 5))] pub f0: u8,
    #[asn(optional(integer(0..7)))] pub f1: Option<u8>,
    #[asn(default(integer(0..7), 5))] pub f2: u8,
    #[asn(integer(0..7))] pub f3: u8,
    #[asn(optional(integer(0..7)))] pub f4: Option<u8>,
}

impl Ts5dodmoe5 {
    pub const fn f0_min() -> u8 {
        0
    }

    pub const fn f0_max() -> u8 {
        7
    }

    pub const fn f1_min() -> u8 {
        0
    }

    pub const fn f1_max() -> u8 {
        7
    }

    pub const fn f2_min() -> u8 {
        0
    }

    pub const fn f2_max() -> u8 {
        7
    }

    pub const fn f3_min() -> u8 {
        0
    }

    pub const fn f3_max() -> u8 {
        7
    }

    pub const fn f4_min() -> u8 {
        0
    }

    pub const fn f4_max() -> u8 {
        7
    }
}

#[asn(sequence)]

#[derive(Default, Debug, Clone, PartialEq, Hash)]
pub struct Ts5mddmon {
    #[asn(integer(0..7))] pub f0: u8,
    #[asn(default(integer(0..7), 5))] pub f1: u8,
    #[asn(default(integer(0..7), 5))] pub f2: u8,
    #[asn(integer(0..7))] pub f3: u8,
    #[asn(optional(integer(0..7)))] pub f4: Option<u8>,
}

impl Ts5mddmon {
    pub const fn f0_min() -> u8 {
        0
    }

    pub const fn f0_max() -> u8 {
        7
    }

    pub const fn f1_min() -> u8 {
        0
    }

    pub const fn f1_max() -> u8 {
        7
    }

    pub const fn f2_min() -> u8 {
        0
    }

    pub const fn f2_max() -> u8 {
        7
    }

    pub const fn f3_min() -> u8 {
        0
    }

    pub const fn f3_max() -> u8 {
        7
    }

    pub const fn f4_min() -> u8 {
        0
    }

    pub const fn f4_max() -> u8 {
        7
    }
}

#[asn(sequence, extensible_after(f0))]

#[derive(Default, Debug, Clone, PartialEq, Hash)]
pub struct Ts5mddmoe0 {
    #[asn(integer(0..7))] pub f0: u8,
    #[asn(default(integer(0..7), 5))] pub f1: u8,
    #[asn(default(integer(0..7), 5))] pub f2: u8,
    #[asn(optional(integer(0..7)))] pub f3: Option<u8>,
    #[asn(optional(integer(0..7)))] pub f4: Option<u8>,
}

impl Ts5mddmoe0 {
    pub const fn f0_min() -> u8 {
        0
    }

    pub const fn f0_max() -> u8 {
        7
    }

    pub const fn f1_min() -> u8 {
        0
    }

    pub const fn f1_max() -> u8 {
        7
    }

    pub const fn f2_min() -> u8 {
        0
    }

    pub const fn f2_max() -> u8 {
        7
    }

    pub const fn f3_min() -> u8 {
        0
    }

    pub const fn f3_max() -> u8 {
        7
    }

    pub const fn f4_min() -> u8 {
        0
    }

    pub const fn f4_max() -> u8 {
        7
    }
}

#[asn(sequence, extensible_after(f0))]

#[derive(Default, Debug, Clone, PartialEq, Hash)]
pub struct Ts5mddmoe1 {
    #[asn(integer(0..7))] pub f0: u8,
    #[asn(default(integer(0..7), 5))] pub f1: u8,
    #[asn(default(integer(0..7), 5))] pub f2: u8,
    #[asn(optional(integer(0..7)))] pub f3: Option<u8>,
    #[asn(optional(integer(0..7)))] pub f4: Option<u8>,
}

impl Ts5mddmoe1 {
    pub const fn f0_min() -> u8 {
        0
    }

    pub const fn f0_max() -> u8 {
        7
    }

    pub const fn f1_min() -> u8 {
        0
    }

    pub const fn f1_max() -> u8 {
        7
    }

    pub const fn f2_min() -> u8 {
        0
    }

    pub const fn f2_max() -> u8 {
        7
    }

    pub const fn f3_min() -> u8 {
        0
    }

    pub const fn f3_max() -> u8 {
        7
    }

    pub const fn f4_min() -> u8 {
        0
    }

    pub const fn f4_max() -> u8 {
        7
    }
}

#[asn(sequence, extensible_after(f1))]

#[derive(Default, Debug, Clone, PartialEq, Hash)]
pub struct Ts5mddmoe2 {
    #[asn(integer(0..7))] pub f0: u8,
    #[asn(default(integer(0..7), 5))] pub f1: u8,
    #[asn(default(integer(0..7), 5))] pub f2: u8,
    #[asn(optional(integer(0..7)))] pub f3: Option<u8>,
    #[asn(optional(integer(0..7)))] pub f4: Option<u8>,
}

impl Ts5mddmoe2 {
    pub const fn f0_min() -> u8 {
        0
    }

    pub const fn f0_max() -> u8 {
        7
    }

    pub const fn f1_min() -> u8 {
        0
    }

    pub const fn f1_max() -> u8 {
        7
    }

    pub const fn f2_min() -> u8 {
        0
    }

    pub const fn f2_max() -> u8 {
        7
    }

    pub const fn f3_min() -> u8 {
        0
    }

    pub const fn f3_max() -> u8 {
        7
    }

    pub const fn f4_min() -> u8 {
        0
    }

    pub const fn f4_max() -> u8 {
        7
    }
}

#[asn(sequence, extensible_after(f2))]

#[derive(Default, Debug, Clone, PartialEq, Hash)]
pub struct Ts5mddmoe3 {
    #[asn(integer(0..7))] pub f0: u8,
    #[asn(default(integer(0..7), 5))] pub f1: u8,
    #[asn(default(integer(0..7), 5))] pub f2: u8,
    #[asn(optional(integer(0..7)))] pub f3: Option<u8>,
    #[asn(optional(integer(0..7)))] pub f4: Option<u8>,
}

impl Ts5mddmoe3 {
    pub const fn f0_min() -> u8 {
        0
    }

    pub const fn f0_max() -> u8 {
        7
    }

    pub const fn f1_min() -> u8 {
        0
    }

    pub const fn f1_max() -> u8 {
        7
    }

    pub const fn f2_min() -> u8 {
        0
    }

    pub const fn f2_max() -> u8 {
        7
    }

    pub const fn f3_min() -> u8 {
        0
    }

    pub const fn f3_max() -> u8 {
        7
    }

    pub const fn f4_min() -> u8 {
        0
    }

    pub const fn f4_max() -> u8 {
        7
    }
}

#[asn(sequence, extensible_after(f3))]

#[derive(Default, Debug, Clone, PartialEq, Hash)]
pub struct Ts5mddmoe4 {
    #[asn(integer(0..7))] pub f0: u8,
    #[asn(default(integer(0..7), 5))] pub f1: u8,
    #[asn(default(integer(0..7), 5))] pub f2: u8,
    #[asn(integer(0..7))] pub f3: u8,
    #[asn(optional(integer(0..7)))] pub f4: Option<u8>,
}

impl Ts5mddmoe4 {
    pub const fn f0_min() -> u8 {
        0
    }

    pub const fn f0_max() -> u8 {
        7
    }

    pub const fn f1_min() -> u8 {
        0
    }

    pub const fn f1_max() -> u8 {
        7
    }

    pub const fn f2_min() -> u8 {
        0
    }

    pub const fn f2_max() -> u8 {
        7
    }

    pub const fn f3_min() -> u8 {
        0
    }

    pub const fn f3_max() -> u8 {
        7
    }

    pub const fn f4_min() -> u8 {
        0
    }

    pub const fn f4_max() -> u8 {
        7
    }
}

#[asn(sequence, extensible_after(f4))]

#[derive(Default, Debug, Clone, PartialEq, Hash)]
pub struct Ts5mddmoe5 {
    #[asn(integer(0..7))] pub f0: u8,
    #[asn(default(integer(0..7), 5))] pub f1: u8,
    #[asn(default(integer(0..7), 5))] pub f2: u8,
    #[asn(integer(0..7))] pub f3: u8,
    #[asn(optional(integer(0..7)))] pub f4: Option<u8>,
}

impl Ts5mddmoe5 {
    pub const fn f0_min() -> u8 {
        0
    }

    pub const fn f0_max() -> u8 {
        7
    }

    pub const fn f1_min() -> u8 {
        0
    }

    pub const fn f1_max() -> u8 {
        7
    }

    pub const fn f2_min() -> u8 {
        0
    }

    pub const fn f2_max() -> u8 {
        7
    }

    pub const fn f3_min() -> u8 {
        0
    }

    pub const fn f3_max() -> u8 {
        7
    }

    pub const fn f4_min() -> u8 {
        0
    }

    pub const fn f4_max() -> u8 {
        7
    }
}

#[asn(sequence)]

#[derive(Default, Debug, Clone, PartialEq, Hash)]
pub struct Ts5oddmon {
    #[asn(optional(integer(0..7)))] pub f0: Option<u8>,
    #[asn(default(integer(0..7), 5))] pub f1: u8,
    #[asn(default(integer(0..7), 5))] pub f2: u8,
    #[asn(integer(0..7))] pub f3: u8,
    #[asn(optional(integer(0..7)))] pub f4: Option<u8>,
}

impl Ts5oddmon {
    pub const fn f0_min() -> u8 {
        0
    }

    pub const fn f0_max() -> u8 {
        7
    }

    pub const fn f1_min() -> u8 {
        0
    }

    pub const fn f1_max() -> u8 {
        7
    }

    pub const fn f2_min() -> u8 {
        0
    }

    pub const fn f2_max() -> u8 {
        7
    }

    pub const fn f3_min() -> u8 {
        0
    }

    pub const fn f3_max() -> u8 {
        7
    }

    pub const fn f4_min() -> u8 {
        0
    }

    pub const fn f4_max() -> u8 {
        7
    }
}

#[asn(sequence, extensible_after(f0))]

#[derive(Default, Debug, Clone, PartialEq, Hash)]
pub struct Ts5oddmoe0 {
    #[asn(optional(integer(0..7)))] pub f0: Option<u8>,
    #[asn(default(integer(0..7), 5))] pub f1: u8,
    #[asn(default(integer(0..7), 5))] pub f2: u8,
    #[asn(optional(integer(0..7)))] pub f3: Option<u8>,
    #[asn(optional(integer(0..7)))] pub f4: Option<u8>,
}

impl Ts5oddmoe0 {
    pub const fn f0_min() -> u8 {
        0
    }

    pub const fn f0_max() -> u8 {
        7
    }

    pub const fn f1_min() -> u8 {
        0
    }

    pub const fn f1_max() -> u8 {
        7
    }

    pub const fn f2_min() -> u8 {
        0
    }

    pub const fn f2_max() -> u8 {
        7
    }

    pub const fn f3_min() -> u8 {
        0
    }

    pub const fn f3_max() -> u8 {
        7
    }

    pub const fn f4_min() -> u8 {
        0
    }

    pub const fn f4_max() -> u8 {
        7
    }
}

#[asn(sequence, extensible_after(f0))]

#[derive(Default, Debug, Clone, PartialEq, Hash)]
pub struct Ts5oddmoe1 {
    #[asn(optional(integer(0..7)))] pub f0: Option<u8>,
    #[asn(default(integer(0..7), 5))] pub f1: u8,
    #[asn(default(integer(0..7), 5))] pub f2: u8,
    #[asn(optional(integer(0..7)))] pub f3: Option<u8>,
    #[asn(optional(integer(0..7)))] pub f4: Option<u8>,
}

impl Ts5oddmoe1 {
    pub const fn f0_min() -> u8 {
        0
    }

    pub const fn f0_max() -> u8 {
        7
    }

    pub const fn f1_min() -> u8 {
        0
    }

    pub const fn f1_max() -> u8 {
        7
    }

    pub const fn f2_min() -> u8 {
        0
    }

    pub const fn f2_max() -> u8 {
        7
    }

    pub const fn f3_min() -> u8 {
        0
    }

    pub const fn f3_max() -> u8 {
        7
    }

    pub const fn f4_min() -> u8 {
        0
    }

    pub const fn f4_max() -> u8 {
        7
    }
}

#[asn(sequence, extensible_after(f1))]

#[derive(Default, Debug, Clone, PartialEq, Hash)]
pub struct Ts5oddmoe2 {
    #[asn(optional(integer(0..7)))] pub f0: Option<u8>,
    #[asn(default(integer(0..7), 5))] pub f1: u8,
    #[asn(default(integer(0..7), 5))] pub f2: u8,
    #[asn(optional(integer(0..7)))] pub f3: Option<u8>,
    #[asn(optional(integer(0..7)))] pub f4: Option<u8>,
}

impl Ts5oddmoe2 {
    pub const fn f0_min() -> u8 {
        0
    }

    pub const fn f0_max() -> u8 {
        7
    }

    pub const fn f1_min() -> u8 {
        0
    }

    pub const fn f1_max() -> u8 {
        7
    }

    pub const fn f2_min() -> u8 {
        0
    }

    pub const fn f2_max() -> u8 {
        7
    }

    pub const fn f3_min() -> u8 {
        0
    }

    pub const fn f3_max() -> u8 {
        7
    }

    pub const fn f4_min() -> u8 {
        0
    }

    pub const fn f4_max() -> u8 {
        7
    }
}

#[asn(sequence, extensible_after(f2))]

#[derive(Default, Debug, Clone, PartialEq, Hash)]
pub struct Ts5oddmoe3 {
    #[asn(optional(integer(0..7)))] pub f0: Option<u8>,
    #[asn(default(integer(0..7), 5))] pub f1: u8,
    #[asn(default(integer(0..7), 5))] pub f2: u8,
    #[asn(optional(integer(0..7)))] pub f3: Option<u8>,
    #[asn(optional(integer(0..7)))] pub f4: Option<u8>,
}

impl Ts5oddmoe3 {
    pub const fn f0_min() -> u8 {
        0
    }

    pub const fn f0_max() -> u8 {
        7
    }

    pub const fn f1_min() -> u8 {
        0
    }

    pub const fn f1_max() -> u8 {
        7
    }

    pub const fn f2_min() -> u8 {
        0
    }

    pub const fn f2_max() -> u8 {
        7
    }

    pub const fn f3_min() -> u8 {
        0
    }

    pub const fn f3_max() -> u8 {
        7
    }

    pub const fn f4_min() -> u8 {
        0
    }

    pub const fn f4_max() -> u8 {
        7
    }
}

#[asn(sequence, extensible_after(f3))]

#[derive(Default, Debug, Clone, PartialEq, Hash)]
pub struct Ts5oddmoe4 {
    #[asn(optional(integer(0..7)))] pub f0: Option<u8>,
    #[asn(default(integer(0..7), 5))] pub f1: u8,
    #[asn(default(integer(0..7), 5))] pub f2: u8,
    #[asn(integer(0..7))] pub f3: u8,
    #[asn(optional(integer(0..7)))] pub f4: Option<u8>,
}

impl Ts5oddmoe4 {
    pub const fn f0_min() -> u8 {
        0
    }

    pub const fn f0_max() -> u8 {
        7
    }

    pub const fn f1_min() -> u8 {
        0
    }

    pub const fn f1_max() -> u8 {
        7
    }

    pub const fn f2_min() -> u8 {
        0
    }

    pub const fn f2_max() -> u8 {
        7
    }

    pub const fn f3_min() -> u8 {
        0
    }

    pub const fn f3_max() -> u8 {
        7
    }

    pub const fn f4_min() -> u8 {
        0
    }

    pub const fn f4_max() -> u8 {
        7
    }
}

#[asn(sequence, extensible_after(f4))]

#[derive(Default, Debug, Clone, PartialEq, Hash)]
pub struct Ts5oddmoe5 {
    #[asn(optional(integer(0..7)))] pub f0: Option<u8>,
    #[asn(default(integer(0..7), 5))] pub f1: u8,
    #[asn(default(integer(0..7), 5))] pub f2: u8,
    #[asn(integer(0..7))] pub f3: u8,
    #[asn(optional(integer(0..7)))] pub f4: Option<u8>,
}

impl Ts5oddmoe5 {
    pub const fn f0_min() -> u8 {
        0
    }

    pub const fn f0_max() -> u8 {
        7
    }

    pub const fn f1_min() -> u8 {
        0
    }

    pub const fn f1_max() -> u8 {
        7
    }

    pub const fn f2_min() -> u8 {
        0
    }

    pub const fn f2_max() -> u8 {
        7
    }

    pub const fn f3_min() -> u8 {
        0
    }

    pub const fn f3_max() -> u8 {
        7
    }

    pub const fn f4_min() -> u8 {
        0
    }

    pub const fn f4_max() -> u8 {
        7
    }
}

#[asn(sequence)]

#[derive(Default, Debug, Clone, PartialEq, Hash)]
pub struct Ts5dddmon {
    #[asn(default(integer(0..7), 5))] pub f0: u8,
    #[asn(default(integer(0..7), 5))] pub f1: u8,
    #[asn(default(integer(0..7), 5))] pub f2: u8,
    #[asn(integer(0..7))] pub f3: u8,
    #[asn(optional(integer(0..7)))] pub f4: Option<u8>,
}

impl Ts5dddmon {
    pub const fn f0_min() -> u8 {
        0
    }

    pub const fn f0_max() -> u8 {
        7
    }

    pub const fn f1_min() -> u8 {
        0
    }

    pub const fn f1_max() -> u8 {
        7
    }

    pub const fn f2_min() -> u8 {
        0
    }

    pub const fn f2_max() -> u8 {
        7
    }

    pub const fn f3_min() -> u8 {
        0
    }

    pub const fn f3_max() -> u8 {
        7
    }

    pub const fn f4_min() -> u8 {
        0
    }

    pub const fn f4_max() -> u8 {
        7
    }
}

#[asn(sequence, extensible_after(f0))]

#[derive(Default, Debug, Clone, PartialEq, Hash)]
pub struct Ts5dddmoe0 {
    #[asn(default(integer(0..7), 5))] pub f0: u8,
    #[asn(default(integer(0..7), 5))] pub f1: u8,
    #[asn(default(integer(0..7), 5))] pub f2: u8,
    #[asn(optional(integer(0..7)))] pub f3: Option<u8>,
    #[asn(optional(integer(0..7)))] pub f4: Option<u8>,
}

impl Ts5dddmoe0 {
    pub const fn f0_min() -> u8 {
        0
    }

    pub const fn f0_max() -> u8 {
        7
    }

    pub const fn f1_min() -> u8 {
        0
    }

    pub const fn f1_max() -> u8 {
        7
    }

    pub const fn f2_min() -> u8 {
        0
    }

    pub const fn f2_max() -> u8 {
        7
    }

    pub const fn f3_min() -> u8 {
        0
    }

    pub const fn f3_max() -> u8 {
        7
    }

    pub const fn f4_min() -> u8 {
        0
    }

    pub const fn f4_max() -> u8 {
        7
    }
}

#[asn(sequence, extensible_after(f0))]

#[derive(Default, Debug, Clone, PartialEq, Hash)]
pub struct Ts5dddmoe1 {
    #[asn(default(integer(0..7), 5))] pub f0: u8,
    #[asn(default(integer(0..7), 5))] pub f1: u8,
    #[asn(default(integer(0..7), 5))] pub f2: u8,
    #[asn(optional(integer(0..7)))] pub f3: Option<u8>,
    #[asn(optional(integer(0..7)))] pub f4: Option<u8>,
}

impl Ts5dddmoe1 {
    pub const fn f0_min() -> u8 {
        0
    }

    pub const fn f0_max() -> u8 {
        7
    }

    pub const fn f1_min() -> u8 {
        0
    }

    pub const fn f1_max() -> u8 {
        7
    }

    pub const fn f2_min() -> u8 {
        0
    }

    pub const fn f2_max() -> u8 {
        7
    }

    pub const fn f3_min() -> u8 {
        0
    }

    pub const fn f3_max() -> u8 {
        7
    }

    pub const fn f4_min() -> u8 {
        0
    }

    pub const fn f4_max() -> u8 {
        7
    }
}

#[asn(sequence, extensible_after(f1))]

#[derive(Default, Debug, Clone, PartialEq, Hash)]
pub struct Ts5dddmoe2 {
    #[asn(default(integer(0..7), 5))] pub f0: u8,
    #[asn(default(integer(0..7), 5))] pub f1: u8,
    #[asn(default(integer(0..7), 5))] pub f2: u8,
    #[asn(optional(integer(0..7)))] pub f3: Option<u8>,
    #[asn(optional(integer(0..7)))] pub f4: Option<u8>,
}

impl Ts5dddmoe2 {
    pub const fn f0_min() -> u8 {
        0
    }

    pub const fn f0_max() -> u8 {
        7
    }

    pub const fn f1_min() -> u8 {
        0
    }

    pub const fn f1_max() -> u8 {
        7
    }

    pub const fn f2_min() -> u8 {
        0
    }

    pub const fn f2_max() -> u8 {
        7
    }

    pub const fn f3_min() -> u8 {
        0
    }

    pub const fn f3_max() -> u8 {
        7
    }

    pub const fn f4_min() -> u8 {
        0
    }

    pub const fn f4_max() -> u8 {
        7
    }
}

#[asn(sequence, extensible_after(f2))]

#[derive(Default, Debug, Clone, PartialEq, Hash)]
pub struct Ts5dddmoe3 {
    #[asn(default(integer(0..7), 5))] pub f0: u8,
    #[asn(default(integer(0..7), 5))] pub f1: u8,
    #[asn(default(integer(0..7), 5))] pub f2: u8,
    #[asn(optional(integer(0..7)))] pub f3: Option<u8>,
    #[asn(optional(integer(0..7)))] pub f4: Option<u8>,
}

impl Ts5dddmoe3 {
    pub const fn f0_min() -> u8 {
        0
    }

    pub const fn f0_max() -> u8 {
        7
    }

    pub const fn f1_min() -> u8 {
        0
    }

    pub const fn f1_max() -> u8 {
        7
    }

    pub const fn f2_min() -> u8 {
        0
    }

    pub const fn f2_max() -> u8 {
        7
    }

    pub const fn f3_min() -> u8 {
        0
    }

    pub const fn f3_max() -> u8 {
        7
    }

    pub const fn f4_min() -> u8 {
        0
    }

    pub const fn f4_max() -> u8 {
        7
    }
}

#[asn(sequence, extensible_after(f3))]

#[derive(Default, Debug, Clone, PartialEq, Hash)]
pub struct Ts5dddmoe4 {
    #[asn(default(integer(0..7), 5))] pub f0: u8,
    #[asn(default(integer(0..7), 5))] pub f1: u8,
    #[asn(default(integer(0..7), 5))] pub f2: u8,
    #[asn(integer(0..7))] pub f3: u8,
    #[asn(optional(integer(0..7)))] pub f4: Option<u8>,
}

impl Ts5dddmoe4 {
    pub const fn f0_min() -> u8 {
        0
    }

    pub const fn f0_max() -> u8 {
        7
    }

    pub const fn f1_min() -> u8 {
        0
    }

    pub const fn f1_max() -> u8 {
        7
    }

    pub const fn f2_min() -> u8 {
        0
    }

    pub const fn f2_max() -> u8 {
        7
    }

    pub const fn f3_min() -> u8 {
        0
    }

    pub const fn f3_max() -> u8 {
        7
    }

    pub const fn f4_min() -> u8 {
        0
    }

    pub const fn f4_max() -> u8 {
        7
    }
}

#[asn(sequence, extensible_after(f4))]

#[derive(Default, Debug, Clone, PartialEq, Hash)]
pub struct Ts5dddmoe5 {
    #[asn(default(integer(0..7), 5))] pub f0: u8,
    #[asn(default(integer(0..7), 5))] pub f1: u8,
    #[asn(default(integer(0..7), 5))] pub f2: u8,
    #[asn(integer(0..7))] pub f3: u8,
    #[asn(optional(integer(0..7)))] pub f4: Option<u8>,
}

impl Ts5dddmoe5 {
    pub const fn f0_min() -> u8 {
        0
    }

    pub const fn f0_max() -> u8 {
        7
    }

    pub const fn f1_min() -> u8 {
        0
    }

    pub const fn f1_max() -> u8 {
        7
    }

    pub const fn f2_min() -> u8 {
        0
    }

    pub const fn f2_max() -> u8 {
        7
    }

    pub const fn f3_min() -> u8 {
        0
    }

    pub const fn f3_max() -> u8 {
        7
    }

    pub const fn f4_min() -> u8 {
        0
    }

    pub const fn f4_max() -> u8 {
        7
    }
}

#[asn(sequence)]

#[derive(Default, Debug, Clone, PartialEq, Hash)]
pub struct Ts5mmmoon {
    #[asn(integer(0..7))] pub f0: u8,
    #[asn(integer(0..7))] pub f1: u8,
    #[asn(integer(0..7))] pub f2: u8,
    #[asn(optional(integer(0..7)))] pub f3: Option<u8>,
    #[asn(optional(integer(0..7)))] pub f4: Option<u8>,
}

impl Ts5mmmoon {
    pub const fn f0_min() -> u8 {
        0
    }

    pub const fn f0_max() -> u8 {
        7
    }

    pub const fn f1_min() -> u8 {
        0
    }

    pub const fn f1_max() -> u8 {
        7
    }

    pub const fn f2_min() -> u8 {
        0
    }

    pub const fn f2_max() -> u8 {
        7
    }

    pub const fn f3_min() -> u8 {
        0
    }

    pub const fn f3_max() -> u8 {
        7
    }

    pub const fn f4_min() -> u8 {
        0
    }

    pub const fn f4_max() -> u8 {
        7
    }
}

#[asn(sequence, extensible_after(f0))]

#[derive(Default, Debug, Clone, PartialEq, Hash)]
pub struct Ts5mmmooe0 {
    #[asn(integer(0..7))] pub f0: u8,
    #[asn(optional(integer(0..7)))] pub f1: Option<u8>,
    #[asn(optional(integer(0..7)))] pub f2: Option<u8>,
    #[asn(optional(integer(0..7)))] pub f3: Option<u8>,
    #[asn(optional(integer(0..7)))] pub f4: Option<u8>,
}

impl Ts5mmmooe0 {
    pub const fn f0_min() -> u8 {
        0
    }

    pub const fn f0_max() -> u8 {
        7
    }

    pub const fn f1_min() -> u8 {
        0
    }

    pub const fn f1_max() -> u8 {
        7
    }

    pub const fn f2_min() -> u8 {
        0
    }

    pub const fn f2_max() -> u8 {
        7
    }

    pub const fn f3_min() -> u8 {
        0
    }

    pub const fn f3_max() -> u8 {
        7
    }

    pub const fn f4_min() -> u8 {
        0
    }

    pub const fn f4_max() -> u8 {
        7
    }
}

#[asn(sequence, extensible_after(f0))]

#[derive(Default, Debug, Clone, PartialEq, Hash)]
pub struct Ts5mmmooe1 {
    #[asn(integer(0..7))] pub f0: u8,
    #[asn(optional(integer(0..7)))] pub f1: Option<u8>,
    #[asn(optional(integer(0..7)))] pub f2: Option<u8>,
    #[asn(optional(integer(0..7)))] pub f3: Option<u8>,
    #[asn(optional(integer(0..7)))] pub f4: Option<u8>,
}

impl Ts5mmmooe1 {
    pub const fn f0_min() -> u8 {
        0
    }

    pub const fn f0_max() -> u8 {
        7
    }

    pub const fn f1_min() -> u8 {
        0
    }

    pub const fn f1_max() -> u8 {
        7
    }

    pub const fn f2_min() -> u8 {
        0
    }

    pub const fn f2_max() -> u8 {
        7
    }

    pub const fn f3_min() -> u8 {
        0
    }

    pub const fn f3_max() -> u8 {
        7
    }

    pub const fn f4_min() -> u8 {
        0
    }

    pub const fn f4_max() -> u8 {
        7
    }
}

#[asn(sequence, extensible_after(f1))]

#[derive(Default, Debug, Clone, PartialEq, Hash)]
pub struct Ts5mmmooe2 {
    #[asn(integer(0..7))] pub f0: u8,
    #[asn(integer(0..7))] pub f1: u8,
    #[asn(optional(integer(0..7)))] pub f2: Option<u8>,
    #[asn(optional(integer(0..7)))] pub f3: Option<u8>,
    #[asn(optional(integer(0..7)))] pub f4: Option<u8>,
}

impl Ts5mmmooe2 {
    pub const fn f0_min() -> u8 {
        0
    }

    pub const fn f0_max() -> u8 {
        7
    }

    pub const fn f1_min() -> u8 {
        0
    }

    pub const fn f1_max() -> u8 {
        7
    }

    pub const fn f2_min() -> u8 {
        0
    }

    pub const fn f2_max() -> u8 {
        7
    }

    pub const fn f3_min() -> u8 {
        0
    }

    pub const fn f3_max() -> u8 {
        7
    }

    pub const fn f4_min() -> u8 {
        0
    }

    pub const fn f4_max() -> u8 {
        7
    }
}

#[asn(sequence, extensible_after(f2))]

#[derive(Default, Debug, Clone, PartialEq, Hash)]
pub struct Ts5mmmooe3 {
    #[asn(integer(0..7))] pub f0: u8,
    #[asn(integer(0..7))] pub f1: u8,
    #[asn(integer(0..7))] pub f2: u8,
    #[asn(optional(integer(0..7)))] pub f3: Option<u8>,
    #[asn(optional(integer(0..7)))] pub f4: Option<u8>,
}

impl Ts5mmmooe3 {
    pub const fn f0_min() -> u8 {
        0
    }

    pub const fn f0_max() -> u8 {
        7
    }

    pub const fn f1_min() -> u8 {
        0
    }

    pub const fn f1_max() -> u8 {
        7
    }

    pub const fn f2_min() -> u8 {
        0
    }

    pub const fn f2_max() -> u8 {
        7
    }

    pub const fn f3_min() -> u8 {
        0
    }

    pub const fn f3_max() -> u8 {
        7
    }

    pub const fn f4_min() -> u8 {
        0
    }

    pub const fn f4_max() -> u8 {
        7
    }
}

#[asn(sequence, extensible_after(f3))]

#[derive(Default, Debug, Clone, PartialEq, Hash)]
pub struct Ts5mmmooe4 {
    #[asn(integer(0..7))] pub f0: u8,
    #[asn(integer(0..7))] pub f1: u8,
    #[asn(integer(0..7))] pub f2: u8,
    #[asn(optional(integer(0..7)))] pub f3: Option<u8>,
    #[asn(optional(integer(0..7)))] pub f4: Option<u8>,
}

impl Ts5mmmooe4 {
    pub const fn f0_min() -> u8 {
        0
    }

    pub const fn f0_max() -> u8 {
        7
    }

    pub const fn f1_min() -> u8 {
        0
    }

    pub const fn f1_max() -> u8 {
        7
    }

    pub const fn f2_min() -> u8 {
        0
    }

    pub const fn f2_max() -> u8 {
        7
    }

    pub const fn f3_min() -> u8 {
        0
    }

    pub const fn f3_max() -> u8 {
        7
    }

    pub const fn f4_min() -> u8 {
        0
    }

    pub const fn f4_max() -> u8 {
        7
    }
}

#[asn(sequence, extensible_after(f4))]

#[derive(Default, Debug, Clone, PartialEq, Hash)]
pub struct Ts5mmmooe5 {
    #[asn(integer(0..7))] pub f0: u8,
    #[asn(integer(0..7))] pub f1: u8,
    #[asn(integer(0..7))] pub f2: u8,
    #[asn(optional(integer(0..7)))] pub f3: Option<u8>,
    #[asn(optional(integer(0..7)))] pub f4: Option<u8>,
}

impl Ts5mmmooe5 {
    pub const fn f0_min() -> u8 {
        0
    }

    pub const fn f0_max() -> u8 {
        7
    }

    pub const fn f1_min() -> u8 {
        0
    }

    pub const fn f1_max() -> u8 {
        7
    }

    pub const fn f2_min() -> u8 {
        0
    }

    pub const fn f2_max() -> u8 {
        7
    }

    pub const fn f3_min() -> u8 {
        0
    }

    pub const fn f3_max() -> u8 {
        7
    }

    pub const fn f4_min() -> u8 {
        0
    }

    pub const fn f4_max() -> u8 {
        7
    }
}

#[asn(sequence)]

#[derive(Default, Debug, Clone, PartialEq, Hash)]
pub struct Ts5ommoon {
    #[asn(optional(integer(0..7)))] pub f0: Option<u8>,
    #[asn(integer(0..7))] pub f1: u8,
    #[asn(integer(0..7))] pub f2: u8,
    #[asn(optional(integer(0..7)))] pub f3: Option<u8>,
    #[asn(optional(integer(0..7)))] pub f4: Option<u8>,
}

impl Ts5ommoon {
    pub const fn f0_min() -> u8 {
        0
    }

    pub const fn f0_max() -> u8 {
        7
    }

    pub const fn f1_min() -> u8 {
        0
    }

    pub const fn f1_max() -> u8 {
        7
    }

    pub const fn f2_min() -> u8 {
        0
    }

    pub const fn f2_max() -> u8 {
        7
    }

    pub const fn f3_min() -> u8 {
        0
    }

    pub const fn f3_max() -> u8 {
        7
    }

    pub const fn f4_min() -> u8 {
        0
    }

    pub const fn f4_max() -> u8 {
        7
    }
}

#[asn(sequence, extensible_after(f0))]

#[derive(Default, Debug, Clone, PartialEq, Hash)]
pub struct Ts5ommooe0 {
    #[asn(optional(integer(0..7)))] pub f0: Option<u8>,
    #[asn(optional(integer(0..7)))] pub f1: Option<u8>,
    #[asn(optional(integer(0..7)))] pub f2: Option<u8>,
    #[asn(optional(integer(0..7)))] pub f3: Option<u8>,
    #[asn(optional(integer(0..7)))] pub f4: Option<u8>,
}

impl Ts5ommooe0 {
    pub const fn f0_min() -> u8 {
        0
    }

    pub const fn f0_max() -> u8 {
        7
    }

    pub const fn f1_min() -> u8 {
        0
    }

    pub const fn f1_max() -> u8 {
        7
    }

    pub const fn f2_min() -> u8 {
        0
    }

    pub const fn f2_max() -> u8 {
        7
    }

    pub const fn f3_min() -> u8 {
        0
    }

    pub const fn f3_max() -> u8 {
        7
    }

    pub const fn f4_min() -> u8 {
        0
    }

    pub const fn f4_max() -> u8 {
        7
    }
}

#[asn(sequence, extensible_after(f0))]

#[derive(Default, Debug, Clone, PartialEq, Hash)]
pub struct Ts5ommooe1 {
    #[asn(optional(integer(0..7)))] pub f0: Option<u8>,
    #[asn(optional(integer(0..7)))] pub f1: Option<u8>,
    #[asn(optional(integer(0..7)))] pub f2: Option<u8>,
    #[asn(optional(integer(0..7)))] pub f3: Option<u8>,
    #[asn(optional(integer(0..7)))] pub f4: Option<u8>,
}

impl Ts5ommooe1 {
    pub const fn f0_min() -> u8 {
        0
    }

    pub const fn f0_max() -> u8 {
        7
    }

    pub const fn f1_min() -> u8 {
        0
    }

    pub const fn f1_max() -> u8 {
        7
    }

    pub const fn f2_min() -> u8 {
        0
    }

    pub const fn f2_max() -> u8 {
        7
    }

    pub const fn f3_min() -> u8 {
        0
    }

    pub const fn f3_max() -> u8 {
        7
    }

    pub const fn f4_min() -> u8 {
        0
    }

    pub const fn f4_max() -> u8 {
        7
    }
}

#[asn(sequence, extensible_after(f1))]

#[derive(Default, Debug, Clone, PartialEq, Hash)]
pub struct Ts5ommooe2 {
    #[asn(optional(integer(0..7)))] pub f0: Option<u8>,
    #[asn(integer(0..7))] pub f1: u8,
    #[asn(optional(integer(0..7)))] pub f2: Option<u8>,
    #[asn(optional(integer(0..7)))] pub f3: Option<u8>,
    #[asn(optional(integer(0..7)))] pub f4: Option<u8>,
}

impl Ts5ommooe2 {
    pub const fn f0_min() -> u8 {
        0
    }

    pub const fn f0_max() -> u8 {
        7
    }

    pub const fn f1_min() -> u8 {
        0
    }

    pub const fn f1_max() -> u8 {
        7
    }

    pub const fn f2_min() -> u8 {
        0
    }

    pub const fn f2_max() -> u8 {
        7
    }

    pub const fn f3_min() -> u8 {
        0
    }

    pub const fn f3_max() -> u8 {
        7
    }

    pub const fn f4_min() -> u8 {
        0
    }

    pub const fn f4_max() -> u8 {
        7
    }
}

#[asn(sequence, extensible_after(f2))]

#[derive(Default, Debug, Clone, PartialEq, Hash)]
pub struct Ts5ommooe3 {
    #[asn(optional(integer(0..7)))] pub f0: Option<u8>,
    #[asn(integer(0..7))] pub f1: u8,
    #[asn(integer(0..7))] pub f2: u8,
    #[asn(optional(integer(0..7)))] pub f3: Option<u8>,
    #[asn(optional(integer(0..7)))] pub f4: Option<u8>,
}

impl Ts5ommooe3 {
    pub const fn f0_min() -> u8 {
        0
    }

    pub const fn f0_max() -> u8 {
        7
    }

    pub const fn f1_min() -> u8 {
        0
    }

    pub const fn f1_max() -> u8 {
        7
    }

    pub const fn f2_min() -> u8 {
        0
    }

    pub const fn f2_max() -> u8 {
        7
    }

    pub const fn f3_min() -> u8 {
        0
    }

    pub const fn f3_max() -> u8 {
        7
    }

    pub const fn f4_min() -> u8 {
        0
    }

    pub const fn f4_max() -> u8 {
        7
    }
}

#[asn(sequence, extensible_after(f3))]

#[derive(Default, Debug, Clone, PartialEq, Hash)]
pub struct Ts5ommooe4 {
    #[asn(optional(integer(0..7)))] pub f0: Option<u8>,
    #[asn(integer(0..7))] pub f1: u8,
    #[asn(integer(0..7))] pub f2: u8,
    #[asn(optional(integer(0..7)))] pub f3: Option<u8>,
    #[asn(optional(integer(0..7)))] pub f4: Option<u8>,
}

impl Ts5ommooe4 {
    pub const fn f0_min() -> u8 {
        0
    }

    pub const fn f0_max() -> u8 {
        7
    }

    pub const fn f1_min() -> u8 {
        0
    }

    pub const fn f1_max() -> u8 {
        7
    }

    pub const fn f2_min() -> u8 {
        0
    }

    pub const fn f2_max() -> u8 {
        7
    }

    pub const fn f3_min() -> u8 {
        0
    }

    pub const fn f3_max() -> u8 {
        7
    }

    pub const fn f4_min() -> u8 {
        0
    }

    pub const fn f4_max() -> u8 {
        7
    }
}

#[asn(sequence, extensible_after(f4))]

#[derive(Default, Debug, Clone, PartialEq, Hash)]
pub struct Ts5ommooe5 {
    #[asn(optional(integer(0..7)))] pub f0: Option<u8>,
    #[asn(integer(0..7))] pub f1: u8,
    #[asn(integer(0..7))] pub f2: u8,
    #[asn(optional(integer(0..7)))] pub f3: Option<u8>,
    #[asn(optional(integer(0..7)))] pub f4: Option<u8>,
}

impl Ts5ommooe5 {
    pub const fn f0_min() -> u8 {
        0
    }

    pub const fn f0_max() -> u8 {
        7
    }

    pub const fn f1_min() -> u8 {
        0
    }

    pub const fn f1_max() -> u8 {
        7
    }

    pub const fn f2_min() -> u8 {
        0
    }

    pub const fn f2_max() -> u8 {
        7
    }

    pub const fn f3_min() -> u8 {
        0
    }

    pub const fn f3_max() -> u8 {
        7
    }

    pub const fn f4_min() -> u8 {
        0
    }

    pub const fn f4_max() -> u8 {
        7
    }
}

#[asn(sequence)]

#[derive(Default, Debug, Clone, PartialEq, Hash)]
pub struct Ts5dmmoon {
    #[asn(default(integer(0..7), 5))] pub f0: u8,
    #[asn(integer(0..7))] pub f1: u8,
    #[asn(integer(0..7))] pub f2: u8,
    #[asn(optional(integer(0..7)))] pub f3: Option<u8>,
    #[asn(optional(integer(0..7)))] pub f4: Option<u8>,
}

impl Ts5dmmoon {
    pub const fn f0_min() -> u8 {
        0
    }

    pub const fn f0_max() -> u8 {
        7
    }

    pub const fn f1_min() -> u8 {
        0
    }

    pub const fn f1_max() -> u8 {
        7
    }

    pub const fn f2_min() -> u8 {
        0
    }

    pub const fn f2_max() -> u8 {
        7
    }

    pub const fn f3_min() -> u8 {
        0
    }

    pub const fn f3_max() -> u8 {
        7
    }

    pub const fn f4_min() -> u8 {
        0
    }

    pub const fn f4_max() -> u8 {
        7
    }
}

#[asn(sequence, extensible_after(f0))]

#[derive(Default, Debug, Clone, PartialEq, Hash)]
pub struct Ts5dmmooe0 {
    #[asn(default(integer(0..7), 5))] pub f0: u8,
    #[asn(optional(integer(0..7)))] pub f1: Option<u8>,
    #[asn(optional(integer(0..7)))] pub f2: Option<u8>,
    #[asn(optional(integer(0..7)))] pub f3: Option<u8>,
    #[asn(optional(integer(0..7)))] pub f4: Option<u8>,
}

impl Ts5dmmooe0 {
    pub const fn f0_min() -> u8 {
        0
    }

    pub const fn f0_max() -> u8 {
        7
    }

    pub const fn f1_min() -> u8 {
        0
    }

    pub const fn f1_max() -> u8 {
        7
    }

    pub const fn f2_min() -> u8 {
        0
    }

    pub const fn f2_max() -> u8 {
        7
    }

    pub const fn f3_min() -> u8 {
        0
    }

    pub const fn f3_max() -> u8 {
        7
    }

    pub const fn f4_min() -> u8 {
        0
    }

    pub const fn f4_max() -> u8 {
        7
    }
}

#[asn(sequence, extensible_after(f0))]

#[derive(Default, Debug, Clone, PartialEq, Hash)]
pub struct Ts5dmmooe1 {
    #[asn(default(integer(0..7), 5))] pub f0: u8,
    #[asn(optional(integer(0..7)))] pub f1: Option<u8>,
    #[asn(optional(integer(0..7)))] pub f2: Option<u8>,
    #[asn(optional(integer(0..7)))] pub f3: Option<u8>,
    #[asn(optional(integer(0..7)))] pub f4: Option<u8>,
}

impl Ts5dmmooe1 {
    pub const fn f0_min() -> u8 {
        0
    }

    pub const fn f0_max() -> u8 {
        7
    }

    pub const fn f1_min() -> u8 {
        0
    }

    pub const fn f1_max() -> u8 {
        7
    }

    pub const fn f2_min() -> u8 {
        0
    }

    pub const fn f2_max() -> u8 {
        7
    }

    pub const fn f3_min() -> u8 {
        0
    }

    pub const fn f3_max() -> u8 {
        7
    }

    pub const fn f4_min() -> u8 {
        0
    }

    pub const fn f4_max() -> u8 {
        7
    }
}

#[asn(sequence, extensible_after(f1))]

#[derive(Default, Debug, Clone, PartialEq, Hash)]
pub struct Ts5dmmooe2 {
    #[asn(default(integer(0..7), 5))] pub f0: u8,
    #[asn(integer(0..7))] pub f1: u8,
    #[asn(optional(integer(0..7)))] pub f2: Option<u8>,
    #[asn(optional(integer(0..7)))] pub f3: Option<u8>,
    #[asn(optional(integer(0..7)))] pub f4: Option<u8>,
}

impl Ts5dmmooe2 {
    pub const fn f0_min() -> u8 {
        0
    }

    pub const fn f0_max() -> u8 {
        7
    }

    pub const fn f1_min() -> u8 {
        0
    }

    pub const fn f1_max() -> u8 {
        7
    }

    pub const fn f2_min() -> u8 {
        0
    }

    pub const fn f2_max() -> u8 {
        7
    }

    pub const fn f3_min() -> u8 {
        0
    }

    pub const fn f3_max() -> u8 {
        7
    }

    pub const fn f4_min() -> u8 {
        0
    }

    pub const fn f4_max() -> u8 {
        7
    }
}

#[asn(sequence, extensible_after(f2))]

#[derive(Default, Debug, Clone, PartialEq, Hash)]
pub struct Ts5dmmooe3 {
    #[asn(default(integer(0..7), 5))] pub f0: u8,
    #[asn(integer(0..7))] pub f1: u8,
    #[asn(integer(0..7))] pub f2: u8,
    #[asn(optional(integer(0..7)))] pub f3: Option<u8>,
    #[asn(optional(integer(0..7)))] pub f4: Option<u8>,
}

impl Ts5dmmooe3 {
    pub const fn f0_min() -> u8 {
        0
    }

    pub const fn f0_max() -> u8 {
        7
    }

    pub const fn f1_min() -> u8 {
        0
    }

    pub const fn f1_max() -> u8 {
        7
    }

    pub const fn f2_min() -> u8 {
        0
    }

    pub const fn f2_max() -> u8 {
        7
    }

    pub const fn f3_min() -> u8 {
        0
    }

    pub const fn f3_max() -> u8 {
        7
    }

    pub const fn f4_min() -> u8 {
        0
    }

    pub const fn f4_max() -> u8 {
        7
    }
}

#[asn(sequence, extensible_after(f3))]

#[derive(Default, Debug, Clone, PartialEq, Hash)]
pub struct Ts5dmmooe4 {
    #[asn(default(integer(0..7), 5))] pub f0: u8,
    #[asn(integer(0..7))] pub f1: u8,
    #[asn(integer(0..7))] pub f2: u8,
    #[asn(optional(integer(0..7)))] pub f3: Option<u8>,
    #[asn(optional(integer(0..7)))] pub f4: Option<u8>,
}

impl Ts5dmmooe4 {
    pub const fn f0_min() -> u8 {
        0
    }

    pub const fn f0_max() -> u8 {
        7
    }

    pub const fn f1_min() -> u8 {
        0
    }

    pub const fn f1_max() -> u8 {
        7
    }

    pub const fn f2_min() -> u8 {
        0
    }

    pub const fn f2_max() -> u8 {
        7
    }

    pub const fn f3_min() -> u8 {
        0
    }

    pub const fn f3_max() -> u8 {
        7
    }

    pub const fn f4_min() -> u8 {
        0
    }

    pub const fn f4_max() -> u8 {
        7
    }
}

#[asn(sequence, extensible_after(f4))]

#[derive(Default, Debug, Clone, PartialEq, Hash)]
pub struct Ts5dmmooe5 {
    #[asn(default(integer(0..7), 5))] pub f0: u8,
    #[asn(integer(0..7))] pub f1: u8,
    #[asn(integer(0..7))] pub f2: u8,
    #[asn(optional(integer(0..7)))] pub f3: Option<u8>,
    #[asn(optional(integer(0..7)))] pub f4: Option<u8>,
}

impl Ts5dmmooe5 {
    pub const fn f0_min() -> u8 {
        0
    }

    pub const fn f0_max() -> u8 {
        7
    }

    pub const fn f1_min() -> u8 {
        0
    }

    pub const fn f1_max() -> u8 {
        7
    }

    pub const fn f2_min() -> u8 {
        0
    }

    pub const fn f2_max() -> u8 {
        7
    }

    pub const fn f3_min() -> u8 {
        0
    }

    pub const fn f3_max() -> u8 {
        7
    }

    pub const fn f4_min() -> u8 {
        0
    }

    pub const fn f4_max() -> u8 {
        7
    }
}

#[asn(sequence)]

#[derive(Default, Debug, Clone, PartialEq, Hash)]
pub struct Ts5momoon {
    #[asn(integer(0..7))] pub f0: u8,
    #[asn(optional(integer(0..7)))] pub f1: Option<u8>,
    #[asn(integer(0..7))] pub f2: u8,
    #[asn(optional(integer(0..7)))] pub f3: Option<u8>,
    #[asn(optional(integer(0..7)))] pub f4: Option<u8>,
}

impl Ts5momoon {
    pub const fn f0_min() -> u8 {
        0
    }

    pub const fn f0_max() -> u8 {
        7
    }

    pub const fn f1_min() -> u8 {
        0
    }

    pub const fn f1_max() -> u8 {
        7
    }

    pub const fn f2_min() -> u8 {
        0
    }

    pub const fn f2_max() -> u8 {
        7
    }

    pub const fn f3_min() -> u8 {
        0
    }

    pub const fn f3_max() -> u8 {
        7
    }

    pub const fn f4_min() -> u8 {
        0
    }

    pub const fn f4_max() -> u8 {
        7
    }
}

#[asn(sequence, extensible_after(f0))]

#[derive(Default, Debug, Clone, PartialEq, Hash)]
pub struct Ts5momooe0 {
    #[asn(integer(0..7))] pub f0: u8,
    #[asn(optional(integer(0..7)))] pub f1: Option<u8>,
    #[asn(optional(integer(0..7)))] pub f2: Option<u8>,
    #[asn(optional(integer(0..7)))] pub f3: Option<u8>,
    #[asn(optional(integer(0..7)))] pub f4: Option<u8>,
}

impl Ts5momooe0 {
    pub const fn f0_min() -> u8 {
        0
    }

    pub const fn f0_max() -> u8 {
        7
    }

    pub const fn f1_min() -> u8 {
        0
    }

    pub const fn f1_max() -> u8 {
        7
    }

    pub const fn f2_min() -> u8 {
        0
    }

    pub const fn f2_max() -> u8 {
        7
    }

    pub const fn f3_min() -> u8 {
        0
    }

    pub const fn f3_max() -> u8 {
        7
    }

    pub const fn f4_min() -> u8 {
        0
    }

    pub const fn f4_max() -> u8 {
        7
    }
}

#[asn(sequence, extensible_after(f0))]

#[derive(Default, Debug, Clone, PartialEq, Hash)]
pub struct Ts5momooe1 {
    #[asn(integer(0..7))] pub f0: u8,
    #[asn(optional(integer(0..7)))] pub f1: Option<u8>,
    #[asn(optional(integer(0..7)))] pub f2: Option<u8>,
    #[asn(optional(integer(0..7)))] pub f3: Option<u8>,
    #[asn(optional(integer(0..7)))] pub f4: Option<u8>,
}

impl Ts5momooe1 {
    pub const fn f0_min() -> u8 {
        0
    }

    pub const fn f0_max() -> u8 {
        7
    }

    pub const fn f1_min() -> u8 {
        0
    }

    pub const fn f1_max() -> u8 {
        7
    }

    pub const fn f2_min() -> u8 {
        0
    }

    pub const fn f2_max() -> u8 {
        7
    }

    pub const fn f3_min() -> u8 {
        0
    }

    pub const fn f3_max() -> u8 {
        7
    }

    pub const fn f4_min() -> u8 {
        0
    }

    pub const fn f4_max() -> u8 {
        7
    }
}

#[asn(sequence, extensible_after(f1))]

#[derive(Default, Debug, Clone, PartialEq, Hash)]
pub struct Ts5momooe2 {
    #[asn(integer(0..7))] pub f0: u8,
    #[asn(optional(integer(0..7)))] pub f1: Option<u8>,
    #[asn(optional(integer(0..7)))] pub f2: Option<u8>,
    #[asn(optional(integer(0..7)))] pub f3: Option<u8>,
    #[asn(optional(integer(0..7)))] pub f4: Option<u8>,
}

impl Ts5momooe2 {
    pub const fn f0_min() -> u8 {
        0
    }

    pub const fn f0_max() -> u8 {
        7
    }

    pub const fn f1_min() -> u8 {
        0
    }

    pub const fn f1_max() -> u8 {
        7
    }

    pub const fn f2_min() -> u8 {
        0
    }

    pub const fn f2_max() -> u8 {
        7
    }

    pub const fn f3_min() -> u8 {
        0
    }

    pub const fn f3_max() -> u8 {
        7
    }

    pub const fn f4_min() -> u8 {
        0
    }

    pub const fn f4_max() -> u8 {
        7
    }
}

#[asn(sequence, extensible_after(f2))]

#[derive(Default, Debug, Clone, PartialEq, Hash)]
pub struct Ts5momooe3 {
    #[asn(integer(0..7))] pub f0: u8,
    #[asn(optional(integer(0..7)))] pub f1: Option<u8>,
    #[asn(integer(0..7))] pub f2: u8,
    #[asn(optional(integer(0..7)))] pub f3: Option<u8>,
    #[asn(optional(integer(0..7)))] pub f4: Option<u8>,
}

impl Ts5momooe3 {
    pub const fn f0_min() -> u8 {
        0
    }

    pub const fn f0_max() -> u8 {
        7
    }

    pub const fn f1_min() -> u8 {
        0
    }

    pub const fn f1_max() -> u8 {
        7
    }

    pub const fn f2_min() -> u8 {
        0
    }

    pub const fn f2_max() -> u8 {
        7
    }

    pub const fn f3_min() -> u8 {
        0
    }

    pub const fn f3_max() -> u8 {
        7
    }

    pub const fn f4_min() -> u8 {
        0
    }

    pub const fn f4_max() -> u8 {
        7
    }
}

#[asn(sequence, extensible_after(f3))]

#[derive(Default, Debug, Clone, PartialEq, Hash)]
pub struct Ts5momooe4 {
    #[asn(integer(0..7))] pub f0: u8,
    #[asn(optional(integer(0..7)))] pub f1: Option<u8>,
    #[asn(integer(0..7))] pub f2: u8,
    #[asn(optional(integer(0..7)))] pub f3: Option<u8>,
    #[asn(optional(integer(0..7)))] pub f4: Option<u8>,
}

impl Ts5momooe4 {
    pub const fn f0_min() -> u8 {
        0
    }

    pub const fn f0_max() -> u8 {
        7
    }

    pub const fn f1_min() -> u8 {
        0
    }

    pub const fn f1_max() -> u8 {
        7
    }

    pub const fn f2_min() -> u8 {
        0
    }

    pub const fn f2_max() -> u8 {
        7
    }

    pub const fn f3_min() -> u8 {
        0
    }

    pub const fn f3_max() -> u8 {
        7
    }

    pub const fn f4_min() -> u8 {
        0
    }

    pub const fn f4_max() -> u8 {
        7
    }
}

#[asn(sequence, extensible_after(f4))]

#[derive(Default, Debug, Clone, PartialEq, Hash)]
pub struct Ts5momooe5 {
    #[asn(integer(0..7))] pub f0: u8,
    #[asn(optional(integer(0..7)))] pub f1: Option<u8>,
    #[asn(integer(0..7))] pub f2: u8,
    #[asn(optional(integer(0..7)))] pub f3: Option<u8>,
    #[asn(optional(integer(0..7)))] pub f4: Option<u8>,
}

impl Ts5momooe5 {
    pub const fn f0_min() -> u8 {
        0
    }

    pub const fn f0_max() -> u8 {
        7
    }

    pub const fn f1_min() -> u8 {
        0
    }

    pub const fn f1_max() -> u8 {
        7
    }

    pub const fn f2_min() -> u8 {
        0
    }

    pub const fn f2_max() -> u8 {
        7
    }

    pub const fn f3_min() -> u8 {
        0
    }

    pub const fn f3_max() -> u8 {
        7
    }

    pub const fn f4_min() -> u8 {
        0
    }

    pub const fn f4_max() -> u8 {
        7
    }
}

#[asn(sequence)]

#[derive(Default, Debug, Clone, PartialEq, Hash)]
pub struct Ts5oomoon {
    #[asn(optional(integer(0..7)))] pub f0: Option<u8>,
    #[asn(optional(integer(0..7)))] pub f1: Option<u8>,
    #[asn(integer(0..7))] pub f2: u8,
    #[asn(optional(integer(0..7)))] pub f3: Option<u8>,
    #[asn(optional(integer(0..7)))] pub f4: Option<u8>,
}

impl Ts5oomoon {
    pub const fn f0_min() -> u8 {
        0
    }

    pub const fn f0_max() -> u8 {
        7
    }

    pub const fn f1_min() -> u8 {
        0
    }

    pub const fn f1_max() -> u8 {
        7
    }

    pub const fn f2_min() -> u8 {
        0
    }

    pub const fn f2_max() -> u8 {
        7
    }

    pub const fn f3_min() -> u8 {
        0
    }

    pub const fn f3_max() -> u8 {
        7
    }

    pub const fn f4_min() -> u8 {
        0
    }

    pub const fn f4_max() -> u8 {
        7
    }
}

#[asn(sequence, extensible_after(f0))]

#[derive(Default, Debug, Clone, PartialEq, Hash)]
pub struct Ts5oomooe0 {
    #[asn(optional(integer(0..7)))] pub f0: Option<u8>,
    #[asn(optional(integer(0..7)))] pub f1: Option<u8>,
    #[asn(optional(integer(0..7)))] pub f2: Option<u8>,
    #[asn(optional(integer(0..7)))] pub f3: Option<u8>,
    #[asn(optional(integer(0..7)))] pub f4: Option<u8>,
}

impl Ts5oomooe0 {
    pub const fn f0_min() -> u8 {
        0
    }

    pub const fn f0_max() -> u8 {
        7
    }

    pub const fn f1_min() -> u8 {
        0
    }

    pub const fn f1_max() -> u8 {
        7
    }

    pub const fn f2_min() -> u8 {
        0
    }

    pub const fn f2_max() -> u8 {
        7
    }

    pub const fn f3_min() -> u8 {
        0
    }

    pub const fn f3_max() -> u8 {
        7
    }

    pub const fn f4_min() -> u8 {
        0
    }

    pub const fn f4_max() -> u8 {
        7
    }
}

#[asn(sequence, extensible_after(f0))]

#[derive(Default, Debug, Clone, PartialEq, Hash)]
pub struct Ts5oomooe1 {
    #[asn(optional(integer(0..7)))] pub f0: Option<u8>,
    #[asn(optional(integer(0..7)))] pub f1: Option<u8>,
    #[asn(optional(integer(0..7)))] pub f2: Option<u8>,
    #[asn(optional(integer(0..7)))] pub f3: Option<u8>,
    #[asn(optional(integer(0..7)))] pub f4: Option<u8>,
}

impl Ts5oomooe1 {
    pub const fn f0_min() -> u8 {
        0
    }

    pub const fn f0_max() -> u8 {
        7
    }

    pub const fn f1_min() -> u8 {
        0
    }

    pub const fn f1_max() -> u8 {
        7
    }

    pub const fn f2_min() -> u8 {
        0
    }

    pub const fn f2_max() -> u8 {
        7
    }

    pub const fn f3_min() -> u8 {
        0
    }

    pub const fn f3_max() -> u8 {
        7
    }

    pub const fn f4_min() -> u8 {
        0
    }

    pub const fn f4_max() -> u8 {
        7
    }
}

#[asn(sequence, extensible_after(f1))]

#[derive(Default, Debug, Clone, PartialEq, Hash)]
pub struct Ts5oomooe2 {
    #[asn(optional(integer(0..7)))] pub f0: Option<u8>,
    #[asn(optional(integer(0..7)))] pub f1: Option<u8>,
    #[asn(optional(integer(0..7)))] pub f2: Option<u8>,
    #[asn(optional(integer(0..7)))] pub f3: Option<u8>,
    #[asn(optional(integer(0..7)))] pub f4: Option<u8>,
}

impl Ts5oomooe2 {
    pub const fn f0_min() -> u8 {
        0
    }

    pub const fn f0_max() -> u8 {
        7
    }

    pub const fn f1_min() -> u8 {
        0
    }

    pub const fn f1_max() -> u8 {
        7
    }

    pub const fn f2_min() -> u8 {
        0
    }

    pub const fn f2_max() -> u8 {
        7
    }

    pub const fn f3_min() -> u8 {
        0
    }

    pub const fn f3_max() -> u8 {
        7
    }

    pub const fn f4_min() -> u8 {
        0
    }

    pub const fn f4_max() -> u8 {
        7
    }
}

#[asn(sequence, extensible_after(f2))]

#[derive(Default, Debug, Clone, PartialEq, Hash)]
pub struct Ts5oomooe3 {
    #[asn(optional(integer(0..7)))] pub f0: Option<u8>,
    #[asn(optional(integer(0..7)))] pub f1: Option<u8>,
    #[asn(integer(0..7))] pub f2: u8,
    #[asn(optional(integer(0..7)))] pub f3: Option<u8>,
    #[asn(optional(integer(0..7)))] pub f4: Option<u8>,
}

impl Ts5oomooe3 {
    pub const fn f0_min() -> u8 {
        0
    }

    pub const fn f0_max() -> u8 {
        7
    }

    pub const fn f1_min() -> u8 {
        0
    }

    pub const fn f1_max() -> u8 {
        7
    }

    pub const fn f2_min() -> u8 {
        0
    }

    pub const fn f2_max() -> u8 {
        7
    }

    pub const fn f3_min() -> u8 {
        0
    }

    pub const fn f3_max() -> u8 {
        7
    }

    pub const fn f4_min() -> u8 {
        0
    }

    pub const fn f4_max() -> u8 {
        7
    }
}

#[asn(sequence, extensible_after(f3))]

#[derive(Default, Debug, Clone, PartialEq, Hash)]
pub struct Ts5oomooe4 {
    #[asn(optional(integer(0..7)))] pub f0: Option<u8>,
    #[asn(optional(integer(0..7)))] pub f1: Option<u8>,
    #[asn(integer(0..7))] pub f2: u8,
    #[asn(optional(integer(0..7)))] pub f3: Option<u8>,
    #[asn(optional(integer(0..7)))] pub f4: Option<u8>,
}

impl Ts5oomooe4 {
    pub const fn f0_min() -> u8 {
        0
    }

    pub const fn f0_max() -> u8 {
        7
    }

    pub const fn f1_min() -> u8 {
        0
    }

    pub const fn f1_max() -> u8 {
        7
    }

    pub const fn f2_min() -> u8 {
        0
    }

    pub const fn f2_max() -> u8 {
        7
    }

    pub const fn f3_min() -> u8 {
        0
    }

    pub const fn f3_max() -> u8 {
        7
    }

    pub const fn f4_min() -> u8 {
        0
    }

    pub const fn f4_max() -> u8 {
        7
    }
}

#[asn(sequence, extensible_after(f4))]

#[derive(Default, Debug, Clone, PartialEq, Hash)]
pub struct Ts5oomooe5 {
    #[asn(optional(integer(0..7)))] pub f0: Option<u8>,
    #[asn(optional(integer(0..7)))] pub f1: Option<u8>,
    #[asn(integer(0..7))] pub f2: u8,
    #[asn(optional(integer(0..7)))] pub f3: Option<u8>,
    #[asn(optional(integer(0..7)))] pub f4: Option<u8>,
}

impl Ts5oomooe5 {
    pub const fn f0_min() -> u8 {
        0
    }

    pub const fn f0_max() -> u8 {
        7
    }

    pub const fn f1_min() -> u8 {
        0
    }

    pub const fn f1_max() -> u8 {
        7
    }

    pub const fn f2_min() -> u8 {
        0
    }

    pub const fn f2_max() -> u8 {
        7
    }

    pub const fn f3_min() -> u8 {
        0
    }

    pub const fn f3_max() -> u8 {
        7
    }

    pub const fn f4_min() -> u8 {
        0
    }

    pub const fn f4_max() -> u8 {
        7
    }
}

#[asn(sequence)]

#[derive(Default, Debug, Clone, PartialEq, Hash)]
pub struct Ts5domoon {
    #[asn(default(integer(0..7), 5))] pub f0: u8,
    #[asn(optional(integer(0..7)))] pub f1: Option<u8>,
    #[asn(integer(0..7))] pub f2: u8,
    #[asn(optional(integer(0..7)))] pub f3: Option<u8>,
    #[asn(optional(integer(0..7)))] pub f4: Option<u8>,
}

impl Ts5domoon {
    pub const fn f0_min() -> u8 {
        0
    }

    pub const fn f0_max() -> u8 {
        7
    }

    pub const fn f1_min() -> u8 {
        0
    }

    pub const fn f1_max() -> u8 {
        7
    }

    pub const fn f2_min() -> u8 {
        0
    }

    pub const fn f2_max() -> u8 {
        7
    }

    pub const fn f3_min() -> u8 {
        0
    }

    pub const fn f3_max() -> u8 {
        7
    }

    pub const fn f4_min() -> u8 {
        0
    }

    pub const fn f4_max() -> u8 {
        7
    }
}

#[asn(sequence, extensible_after(f0))]

#[derive(Default, Debug, Clone, PartialEq, Hash)]
pub struct Ts5domooe0 {
    #[asn(default(integer(0..7), 5))] pub f0: u8,
    #[asn(optional(integer(0..7)))] pub f1: Option<u8>,
    #[asn(optional(integer(0..7)))] pub f2: Option<u8>,
    #[asn(optional(integer(0..7)))] pub f3: Option<u8>,
    #[asn(optional(integer(0..7)))] pub f4: Option<u8>,
}

impl Ts5domooe0 {
    pub const fn f0_min() -> u8 {
        0
    }

    pub const fn f0_max() -> u8 {
        7
    }

    pub const fn f1_min() -> u8 {
        0
    }

    pub const fn f1_max() -> u8 {
        7
    }

    pub const fn f2_min() -> u8 {
        0
    }

    pub const fn f2_max() -> u8 {
        7
    }

    pub const fn f3_min() -> u8 {
        0
    }

    pub const fn f3_max() -> u8 {
        7
    }

    pub const fn f4_min() -> u8 {
        0
    }

    pub const fn f4_max() -> u8 {
        7
    }
}

#[asn(sequence, extensible_after(f0))]

#[derive(Default, Debug, Clone, PartialEq, Hash)]
pub struct Ts5domooe1 {
    #[asn(default(integer(0..7), 5))] pub f0: u8,
    #[asn(optional(integer(0..7)))] pub f1: Option<u8>,
    #[asn(optional(integer(0..7)))] pub f2: Option<u8>,
    #[asn(optional(integer(0..7)))] pub f3: Option<u8>,
    #[asn(optional(integer(0..7)))] pub f4: Option<u8>,
}

impl Ts5domooe1 {
    pub const fn f0_min() -> u8 {
        0
    }

    pub const fn f0_max() -> u8 {
        7
    }

    pub const fn f1_min() -> u8 {
        0
    }

    pub const fn f1_max() -> u8 {
        7
    }

    pub const fn f2_min() -> u8 {
        0
    }

    pub const fn f2_max() -> u8 {
        7
    }

    pub const fn f3_min() -> u8 {
        0
    }

    pub const fn f3_max() -> u8 {
        7
    }

    pub const fn f4_min() -> u8 {
        0
    }

    pub const fn f4_max() -> u8 {
        7
    }
}

#[asn(sequence, extensible_after(f1))]

#[derive(Default, Debug, Clone, PartialEq, Hash)]
pub struct Ts5domooe2 {
    #[asn(default(integer(0..7), 5))] pub f0: u8,
    #[asn(optional(integer(0..7)))] pub f1: Option<u8>,
    #[asn(optional(integer(0..7)))] pub f2: Option<u8>,
    #[asn(optional(integer(0..7)))] pub f3: Option<u8>,
    #[asn(optional(integer(0..7)))] pub f4: Option<u8>,
}

impl Ts5domooe2 {
    pub const fn f0_min() -> u8 {
        0
    }

    pub const fn f0_max() -> u8 {
        7
    }

    pub const fn f1_min() -> u8 {
        0
    }

    pub const fn f1_max() -> u8 {
        7
    }

    pub const fn f2_min() -> u8 {
        0
    }

    pub const fn f2_max() -> u8 {
        7
    }

    pub const fn f3_min() -> u8 {
        0
    }

    pub const fn f3_max() -> u8 {
        7
    }

    pub const fn f4_min() -> u8 {
        0
    }

    pub const fn f4_max() -> u8 {
        7
    }
}

#[asn(sequence, extensible_after(f2))]

#[derive(Default, Debug, Clone, PartialEq, Hash)]
pub struct Ts5domooe3 {
    #[asn(default(integer(0..7), 5))] pub f0: u8,
    #[asn(optional(integer(0..7)))] pub f1: Option<u8>,
    #[asn(integer(0..7))] pub f2: u8,
    #[asn(optional(integer(0..7)))] pub f3: Option<u8>,
    #[asn(optional(integer(0..7)))] pub f4: Option<u8>,
}

impl Ts5domooe3 {
    pub const fn f0_min() -> u8 {
        0
    }

    pub const fn f0_max() -> u8 {
        7
    }

    pub const fn f1_min() -> u8 {
        0
    }

    pub const fn f1_max() -> u8 {
        7
    }

    pub const fn f2_min() -> u8 {
        0
    }

    pub const fn f2_max() -> u8 {
        7
    }

    pub const fn f3_min() -> u8 {
        0
    }

    pub const fn f3_max() -> u8 {
        7
    }

    pub const fn f4_min() -> u8 {
        0
    }

    pub const fn f4_max() -> u8 {
        7
    }
}

#[asn(sequence, extensible_after(f3))]

#[derive(Default, Debug, Clone, PartialEq, Hash)]
pub struct Ts5domooe4 {
    #[asn(default(integer(0..7), 5))] pub f0: u8,
    #[asn(optional(integer(0..7)))] pub f1: Option<u8>,
    #[asn(integer(0..7))] pub f2: u8,
    #[asn(optional(integer(0..7)))] pub f3: Option<u8>,
    #[asn(optional(integer(0..7)))] pub f4: Option<u8>,
}

impl Ts5domooe4 {
    pub const fn f0_min() -> u8 {
        0
    }

    pub const fn f0_max() -> u8 {
        7
    }

    pub const fn f1_min() -> u8 {
        0
    }

    pub const fn f1_max() -> u8 {
        7
    }

    pub const fn f2_min() -> u8 {
        0
    }

    pub const fn f2_max() -> u8 {
        7
    }

    pub const fn f3_min() -> u8 {
        0
    }

    pub const fn f3_max() -> u8 {
        7
    }

    pub const fn f4_min() -> u8 {
        0
    }

    pub const fn f4_max() -> u8 {
        7
    }
}

#[asn(sequence, extensible_after(f4))]

#[derive(Default, Debug, Clone, PartialEq, Hash)]
pub struct Ts5domooe5 {
    #[asn(default(integer(0..7), 5))] pub f0: u8,
    #[asn(optional(integer(0..7)))] pub f1: Option<u8>,
    #[asn(integer(0..7))] pub f2: u8,
    #[asn(optional(integer(0..7)))] pub f3: Option<u8>,
    #[asn(optional(integer(0..7)))] pub f4: Option<u8>,
}

impl Ts5domooe5 {
    pub const fn f0_min() -> u8 {
        0
    }

    pub const fn f0_max() -> u8 {
        7
    }

    pub const fn f1_min() -> u8 {
        0
    }

    pub const fn f1_max() -> u8 {
        7
    }

    pub const fn f2_min() -> u8 {
        0
    }

    pub const fn f2_max() -> u8 {
        7
    }

    pub const fn f3_min() -> u8 {
        0
    }

    pub const fn f3_max() -> u8 {
        7
    }

    pub const fn f4_min() -> u8 {
        0
    }

    pub const fn f4_max() -> u8 {
        7
    }
}

#[asn(sequence)]

#[derive(Default, Debug, Clone, PartialEq, Hash)]
pub struct Ts5mdmoon {
    #[asn(integer(0..7))] pub f0: u8,
    #[asn(default(integer(0..7), 5))] pub f1: u8,
    #[asn(integer(0..7))] pub f2: u8,
    #[asn(optional(integer(0..7)))] pub f3: Option<u8>,
    #[asn(optional(integer(0..7)))] pub f4: Option<u8>,
}

impl Ts5mdmoon {
    pub const fn f0_min() -> u8 {
        0
    }

    pub const fn f0_max() -> u8 {
        7
    }

    pub const fn f1_min() -> u8 {
        0
    }

    pub const fn f1_max() -> u8 {
        7
    }

    pub const fn f2_min() -> u8 {
        0
    }

    pub const fn f2_max() -> u8 {
        7
    }

    pub const fn f3_min() -> u8 {
        0
    }

    pub const fn f3_max() -> u8 {
        7
    }

    pub const fn f4_min() -> u8 {
        0
    }

    pub const fn f4_max() -> u8 {
        7
    }
}

#[asn(sequence, extensible_after(f0))]

#[derive(Default, Debug, Clone, PartialEq, Hash)]
pub struct Ts5mdmooe0 {
    #[asn(integer(0..7))] pub f0: u8,
    #[asn(default(integer(0..7), 5))] pub f1: u8,
    #[asn(optional(integer(0..7)))] pub f2: Option<u8>,
    #[asn(optional(integer(0..7)))] pub f3: Option<u8>,
    #[asn(optional(integer(0..7)))] pub f4: Option<u8>,
}

impl Ts5mdmooe0 {
    pub const fn f0_min() -> u8 {
        0
    }

    pub const fn f0_max() -> u8 {
        7
    }

    pub const fn f1_min() -> u8 {
        0
    }

    pub const fn f1_max() -> u8 {
        7
    }

    pub const fn f2_min() -> u8 {
        0
    }

    pub const fn f2_max() -> u8 {
        7
    }

    pub const fn f3_min() -> u8 {
        0
    }

    pub const fn f3_max() -> u8 {
        7
    }

    pub const fn f4_min() -> u8 {
        0
    }

    pub const fn f4_max() -> u8 {
        7
    }
}

#[asn(sequence, extensible_after(f0))]

#[derive(Default, Debug, Clone, PartialEq, Hash)]
pub struct Ts5mdmooe1 {
    #[asn(integer(0..7))] pub f0: u8,
    #[asn(default(integer(0..7), 5))] pub f1: u8,
    #[asn(optional(integer(0..7)))] pub f2: Option<u8>,
    #[asn(optional(integer(0..7)))] pub f3: Option<u8>,
    #[asn(optional(integer(0..7)))] pub f4: Option<u8>,
}

impl Ts5mdmooe1 {
    pub const fn f0_min() -> u8 {
        0
    }

    pub const fn f0_max() -> u8 {
        7
    }

    pub const fn f1_min() -> u8 {
        0
    }

    pub const fn f1_max() -> u8 {
        7
    }

    pub const fn f2_min() -> u8 {
        0
    }

    pub const fn f2_max() -> u8 {
        7
    }

    pub const fn f3_min() -> u8 {
        0
    }

    pub const fn f3_max() -> u8 {
        7
    }

    pub const fn f4_min() -> u8 {
        0
    }

    pub const fn f4_max() -> u8 {
        7
    }
}

#[asn(sequence, extensible_after(f1))]

#[derive(Default, Debug, Clone, PartialEq, Hash)]
pub struct Ts5mdmooe2 {
    #[asn(integer(0..7))] pub f0: u8,
    #[asn(default(integer(0..7), 5))] pub f1: u8,
    #[asn(optional(integer(0..7)))] pub f2: Option<u8>,
    #[asn(optional(integer(0..7)))] pub f3: Option<u8>,
    #[asn(optional(integer(0..7)))] pub f4: Option<u8>,
}

impl Ts5mdmooe2 {
    pub const fn f0_min() -> u8 {
        0
    }

    pub const fn f0_max() -> u8 {
        7
    }

    pub const fn f1_min() -> u8 {
        0
    }

    pub const fn f1_max() -> u8 {
        7
    }

    pub const fn f2_min() -> u8 {
        0
    }

    pub const fn f2_max() -> u8 {
        7
    }

    pub const fn f3_min() -> u8 {
        0
    }

    pub const fn f3_max() -> u8 {
        7
    }

    pub const fn f4_min() -> u8 {
        0
    }

    pub const fn f4_max() -> u8 {
        7
    }
}

#[asn(sequence, extensible_after(f2))]

#[derive(Default, Debug, Clone, PartialEq, Hash)]
pub struct Ts5mdmooe3 {
    #[asn(integer(0..7))] pub f0: u8,
    #[asn(default(integer(0..7), 5))] pub f1: u8,
    #[asn(integer(0..7))] pub f2: u8,
    #[asn(optional(integer(0..7)))] pub f3: Option<u8>,
    #[asn(optional(integer(0..7)))] pub f4: Option<u8>,
}

impl Ts5mdmooe3 {
    pub const fn f0_min() -> u8 {
        0
    }

    pub const fn f0_max() -> u8 {
        7
    }

    pub const fn f1_min() -> u8 {
        0
    }

    pub const fn f1_max() -> u8 {
        7
    }

    pub const fn f2_min() -> u8 {
        0
    }

    pub const fn f2_max() -> u8 {
        7
    }

    pub const fn f3_min() -> u8 {
        0
    }

    pub const fn f3_max() -> u8 {
        7
    }

    pub const fn f4_min() -> u8 {
        0
    }

    pub const fn f4_max() -> u8 {
        7
    }
}

#[asn(sequence, extensible_after(f3))]

#[derive(Default, Debug, Clone, PartialEq, Hash)]
pub struct Ts5mdmooe4 {
    #[asn(integer(0..7))] pub f0: u8,
    #[asn(default(integer(0..7), 5))] pub f1: u8,
    #[asn(integer(0..7))] pub f2: u8,
    #[asn(optional(integer(0..7)))] pub f3: Option<u8>,
    #[asn(optional(integer(0..7)))] pub f4: Option<u8>,
}

impl Ts5mdmooe4 {
    pub const fn f0_min() -> u8 {
        0
    }

    pub const fn f0_max() -> u8 {
        7
    }

    pub const fn f1_min() -> u8 {
        0
    }

    pub const fn f1_max() -> u8 {
        7
    }

    pub const fn f2_min() -> u8 {
        0
    }

    pub const fn f2_max() -> u8 {
        7
    }

    pub const fn f3_min() -> u8 {
        0
    }

    pub const fn f3_max() -> u8 {
        7
    }

    pub const fn f4_min() -> u8 {
        0
    }

    pub const fn f4_max() -> u8 {
        7
    }
}

#[asn(sequence, extensible_after(f4))]

#[derive(Default, Debug, Clone, PartialEq, Hash)]
pub struct Ts5mdmooe5 {
    #[asn(integer(0..7))] pub f0: u8,
    #[asn(default(integer(0..7), 5))] pub f1: u8,
    #[asn(integer(0..7))] pub f2: u8,
    #[asn(optional(integer(0..7)))] pub f3: Option<u8>,
    #[asn(optional(integer(0..7)))] pub f4: Option<u8>,
}

impl Ts5mdmooe5 {
    pub const fn f0_min() -> u8 {
        0
    }

    pub const fn f0_max() -> u8 {
        7
    }

    pub const fn f1_min() -> u8 {
        0
    }

    pub const fn f1_max() -> u8 {
        7
    }

    pub const fn f2_min() -> u8 {
        0
    }

    pub const fn f2_max() -> u8 {
        7
    }

    pub const fn f3_min() -> u8 {
        0
    }

    pub const fn f3_max() -> u8 {
        7
    }

    pub const fn f4_min() -> u8 {
        0
    }

    pub const fn f4_max() -> u8 {
        7
    }
}

#[asn(sequence)]

#[derive(Default, Debug, Clone, PartialEq, Hash)]
pub struct Ts5odmoon {
    #[asn(optional(integer(0..7)))] pub f0: Option<u8>,
    #[asn(default(integer(0..7), 5))] pub f1: u8,
    #[asn(integer(0..7))] pub f2: u8,
    #[asn(optional(integer(0..7)))] pub f3: Option<u8>,
    #[asn(optional(integer(0..7)))] pub f4: Option<u8>,
}

impl Ts5odmoon {
    pub const fn f0_min() -> u8 {
        0
    }

    pub const fn f0_max() -> u8 {
        7
    }

    pub const fn f1_min() -> u8 {
        0
    }

    pub const fn f1_max() -> u8 {
        7
    }

    pub const fn f2_min() -> u8 {
        0
    }

    pub const fn f2_max() -> u8 {
        7
    }

    pub const fn f3_min() -> u8 {
        0
    }

    pub const fn f3_max() -> u8 {
        7
    }

    pub const fn f4_min() -> u8 {
        0
    }

    pub const fn f4_max() -> u8 {
        7
    }
}

#[asn(sequence, extensible_after(f0))]

#[derive(Default, Debug, Clone, PartialEq, Hash)]
pub struct Ts5odmooe0 {
    #[asn(optional(integer(0..7)))] pub f0: Option<u8>,
    #[asn(default(integer(0..7), 5))] pub f1: u8,
    #[asn(optional(integer(0..7)))] pub f2: Option<u8>,
    #[asn(optional(integer(0..7)))] pub f3: Option<u8>,
    #[asn(optional(integer(0..7)))] pub f4: Option<u8>,
}

impl Ts5odmooe0 {
    pub const fn f0_min() -> u8 {
        0
    }

    pub const fn f0_max() -> u8 {
        7
    }

    pub const fn f1_min() -> u8 {
        0
    }

    pub const fn f1_max() -> u8 {
        7
    }

    pub const fn f2_min() -> u8 {
        0
    }

    pub const fn f2_max() -> u8 {
        7
    }

    pub const fn f3_min() -> u8 {
        0
    }

    pub const fn f3_max() -> u8 {
        7
    }

    pub const fn f4_min() -> u8 {
        0
    }

    pub const fn f4_max() -> u8 {
        7
    }
}

#[asn(sequence, extensible_after(f0))]

#[derive(Default, Debug, Clone, PartialEq, Hash)]
pub struct Ts5odmooe1 {
    #[asn(optional(integer(0..7)))] pub f0: Option<u8>,
    #[asn(default(integer(0..7), 5))] pub f1: u8,
    #[asn(optional(integer(0..7)))] pub f2: Option<u8>,
    #[asn(optional(integer(0..7)))] pub f3: Option<u8>,
    #[asn(optional(integer(0..7)))] pub f4: Option<u8>,
}

impl Ts5odmooe1 {
    pub const fn f0_min() -> u8 {
        0
    }

    pub const fn f0_max() -> u8 {
        7
    }

    pub const fn f1_min() -> u8 {
        0
    }

    pub const fn f1_max() -> u8 {
        7
    }

    pub const fn f2_min() -> u8 {
        0
    }

    pub const fn f2_max() -> u8 {
        7
    }

    pub const fn f3_min() -> u8 {
        0
    }

    pub const fn f3_max() -> u8 {
        7
    }

    pub const fn f4_min() -> u8 {
        0
    }

    pub const fn f4_max() -> u8 {
        7
    }
}

#[asn(sequence, extensible_after(f1))]

#[derive(Default, Debug, Clone, PartialEq, Hash)]
pub struct Ts5odmooe2 {
    #[asn(optional(integer(0..7)))] pub f0: Option<u8>,
    #[asn(default(integer(0..7), 5))] pub f1: u8,
    #[asn(optional(integer(0..7)))] pub f2: Option<u8>,
    #[asn(optional(integer(0..7)))] pub f3: Option<u8>,
    #[asn(optional(integer(0..7)))] pub f4: Option<u8>,
}

impl Ts5odmooe2 {
    pub const fn f0_min() -> u8 {
        0
    }

    pub const fn f0_max() -> u8 {
        7
    }

    pub const fn f1_min() -> u8 {
        0
    }

    pub const fn f1_max() -> u8 {
        7
    }

    pub const fn f2_min() -> u8 {
        0
    }

    pub const fn f2_max() -> u8 {
        7
    }

    pub const fn f3_min() -> u8 {
        0
    }

    pub const fn f3_max() -> u8 {
        7
    }

    pub const fn f4_min() -> u8 {
        0
    }

    pub const fn f4_max() -> u8 {
        7
    }
}

#[asn(sequence, extensible_after(f2))]

#[derive(Default, Debug, Clone, PartialEq, Hash)]
pub struct Ts5odmooe3 {
    #[asn(optional(integer(0..7)))] pub f0: Option<u8>,
    #[asn(default(integer(0..7), 5))] pub f1: u8,
    #[asn(integer(0..7))] pub f2: u8,
    #[asn(optional(integer(0..7)))] pub f3: Option<u8>,
    #[asn(optional(integer(0..7)))] pub f4: Option<u8>,
}

impl Ts5odmooe3 {
    pub const fn f0_min() -> u8 {
        0
    }

    pub const fn f0_max() -> u8 {
        7
    }

    pub const fn f1_min() -> u8 {
        0
    }

    pub const fn f1_max() -> u8 {
        7
    }

    pub const fn f2_min() -> u8 {
        0
    }

    pub const fn f2_max() -> u8 {
        7
    }

    pub const fn f3_min() -> u8 {
        0
    }

    pub const fn f3_max() -> u8 {
        7
    }

    pub const fn f4_min() -> u8 {
        0
    }

    pub const fn f4_max() -> u8 {
        7
    }
}

#[asn(sequence, extensible_after(f3))]

#[derive(Default, Debug, Clone, PartialEq, Hash)]
pub struct Ts5odmooe4 {
    #[asn(optional(integer(0..7)))] pub f0: Option<u8>,
    #[asn(default(integer(0..7), 5))] pub f1: u8,
    #[asn(integer(0..7))] pub f2: u8,
    #[asn(optional(integer(0..7)))] pub f3: Option<u8>,
    #[asn(optional(integer(0..7)))] pub f4: Option<u8>,
}

impl Ts5odmooe4 {
    pub const fn f0_min() -> u8 {
        0
    }

    pub const fn f0_max() -> u8 {
        7
    }

    pub const fn f1_min() -> u8 {
        0
    }

    pub const fn f1_max() -> u8 {
        7
    }

    pub const fn f2_min() -> u8 {
        0
    }

    pub const fn f2_max() -> u8 {
        7
    }

    pub const fn f3_min() -> u8 {
        0
    }

    pub const fn f3_max() -> u8 {
        7
    }

    pub const fn f4_min() -> u8 {
        0
    }

    pub const fn f4_max() -> u8 {
        7
    }
}

#[asn(sequence, extensible_after(f4))]

#[derive(Default, Debug, Clone, PartialEq, Hash)]
pub struct Ts5odmooe5 {
    #[asn(optional(integer(0..7)))] pub f0: Option<u8>,
    #[asn(default(integer(0..7), 5))] pub f1: u8,
    #[asn(integer(0..7))] pub f2: u8,
    #[asn(optional(integer(0..7)))] pub f3: Option<u8>,
    #[asn(optional(integer(0..7)))] pub f4: Option<u8>,
}

impl Ts5odmooe5 {
    pub const fn f0_min() -> u8 {
        0
    }

    pub const fn f0_max() -> u8 {
        7
    }

    pub const fn f1_min() -> u8 {
        0
    }

    pub const fn f1_max() -> u8 {
        7
    }

    pub const fn f2_min() -> u8 {
        0
    }

    pub const fn f2_max() -> u8 {
        7
    }

    pub const fn f3_min() -> u8 {
        0
    }

    pub const fn f3_max() -> u8 {
        7
    }

    pub const fn f4_min() -> u8 {
        0
    }

    pub const fn f4_max() -> u8 {
        7
    }
}

#[asn(sequence)]

#[derive(Default, Debug, Clone, PartialEq, Hash)]
pub struct Ts5ddmoon {
    #[asn(default(integer(0..7), 5))] pub f0: u8,
    #[asn(default(integer(0..7), 5))] pub f1: u8,
    #[asn(integer(0..7))] pub f2: u8,
    #[asn(optional(integer(0..7)))] pub f3: Option<u8>,
    #[asn(optional(integer(0..7)))] pub f4: Option<u8>,
}

impl Ts5ddmoon {
    pub const fn f0_min() -> u8 {
        0
    }

    pub const fn f0_max() -> u8 {
        7
    }

    pub const fn f1_min() -> u8 {
        0
    }

    pub const fn f1_max() -> u8 {
        7
    }

    pub const fn f2_min() -> u8 {
        0
    }

    pub const fn f2_max() -> u8 {
        7
    }

    pub const fn f3_min() -> u8 {
        0
    }

    pub const fn f3_max() -> u8 {
        7
    }

    pub const fn f4_min() -> u8 {
        0
    }

    pub const fn f4_max() -> u8 {
        7
    }
}

#[asn(sequence, extensible_after(f0))]

#[derive(Default, Debug, Clone, PartialEq, Hash)]
pub struct Ts5ddmooe0 {
    #[asn(default(integer(0..7), 5))] pub f0: u8,
    #[asn(default(integer(0..7), 5))] pub f1: u8,
    #[asn(optional(integer(0..7)))] pub f2: Option<u8>,
    #[asn(optional(integer(0..7)))] pub f3: Option<u8>,
    #[asn(optional(integer(0..7)))] pub f4: Option<u8>,
}

impl Ts5ddmooe0 {
    pub const fn f0_min() -> u8 {
        0
    }

    pub const fn f0_max() -> u8 {
        7
    }

    pub const fn f1_min() -> u8 {
        0
    }

    pub const fn f1_max() -> u8 {
        7
    }

    pub const fn f2_min() -> u8 {
        0
    }

    pub const fn f2_max() -> u8 {
        7
    }

    pub const fn f3_min() -> u8 {
        0
    }

    pub const fn f3_max() -> u8 {
        7
    }

    pub const fn f4_min() -> u8 {
        0
    }

    pub const fn f4_max() -> u8 {
        7
    }
}

#[asn(sequence, extensible_after(f0))]

#[derive(Default, Debug, Clone, PartialEq, Hash)]
pub struct Ts5ddmooe1 {
    #[asn(default(integer(0..7), 5))] pub f0: u8,
    #[asn(default(integer(0..7), 5))] pub f1: u8,
    #[asn(optional(integer(0..7)))] pub f2: Option<u8>,
    #[asn(optional(integer(0..7)))] pub f3: Option<u8>,
    #[asn(optional(integer(0..7)))] pub f4: Option<u8>,
}

impl Ts5ddmooe1 {
    pub const fn f0_min() -> u8 {
        0
    }

    pub const fn f0_max() -> u8 {
        7
    }

    pub const fn f1_min() -> u8 {
        0
    }

    pub const fn f1_max() -> u8 {
        7
    }

    pub const fn f2_min() -> u8 {
        0
    }

    pub const fn f2_max() -> u8 {
        7
    }

    pub const fn f3_min() -> u8 {
        0
    }

    pub const fn f3_max() -> u8 {
        7
    }

    pub const fn f4_min() -> u8 {
        0
    }

    pub const fn f4_max() -> u8 {
        7
    }
}

#[asn(sequence, extensible_after(f1))]

#[derive(Default, Debug, Clone, PartialEq, Hash)]
pub struct Ts5ddmooe2 {
    #[asn(default(integer(0..7), 5))] pub f0: u8,
    #[asn(default(integer(0..7), 5))] pub f1: u8,
    #[asn(optional(integer(0..7)))] pub f2: Option<u8>,
    #[asn(optional(integer(0..7)))] pub f3: Option<u8>,
    #[asn(optional(integer(0..7)))] pub f4: Option<u8>,
}

impl Ts5ddmooe2 {
    pub const fn f0_min() -> u8 {
        0
    }

    pub const fn f0_max() -> u8 {
        7
    }

    pub const fn f1_min() -> u8 {
        0
    }

    pub const fn f1_max() -> u8 {
        7
    }

    pub const fn f2_min() -> u8 {
        0
    }

    pub const fn f2_max() -> u8 {
        7
    }

    pub const fn f3_min() -> u8 {
        0
    }

    pub const fn f3_max() -> u8 {
        7
    }

    pub const fn f4_min() -> u8 {
        0
    }

    pub const fn f4_max() -> u8 {
        7
    }
}

#[asn(sequence, extensible_after(f2))]

#[derive(Default, Debug, Clone, PartialEq, Hash)]
pub struct Ts5ddmooe3 {
    #[asn(default(integer(0..7), 5))] pub f0: u8,
    #[asn(default(integer(0..7), 5))] pub f1: u8,
    #[asn(integer(0..7))] pub f2: u8,
    #[asn(optional(integer(0..7)))] pub f3: Option<u8>,
    #[asn(optional(integer(0..7)))] pub f4: Option<u8>,
}

impl Ts5ddmooe3 {
    pub const fn f0_min() -> u8 {
        0
    }

    pub const fn f0_max() -> u8 {
        7
    }

    pub const fn f1_min() -> u8 {
        0
    }

    pub const fn f1_max() -> u8 {
        7
    }

    pub const fn f2_min() -> u8 {
        0
    }

    pub const fn f2_max() -> u8 {
        7
    }

    pub const fn f3_min() -> u8 {
        0
    }

    pub const fn f3_max() -> u8 {
        7
    }

    pub const fn f4_min() -> u8 {
        0
    }

    pub const fn f4_max() -> u8 {
        7
    }
}

#[asn(sequence, extensible_after(f3))]

#[derive(Default, Debug, Clone, PartialEq, Hash)]
pub struct Ts5ddmooe4 {
    #[asn(default(integer(0..7), 5))] pub f0: u8,
    #[asn(default(integer(0..7), 5))] pub f1: u8,
    #[asn(integer(0..7))] pub f2: u8,
    #[asn(optional(integer(0..7)))] pub f3: Option<u8>,
    #[asn(optional(integer(0..7)))] pub f4: Option<u8>,
}

impl Ts5ddmooe4 {
    pub const fn f0_min() -> u8 {
        0
    }

    pub const fn f0_max() -> u8 {
        7
    }

    pub const fn f1_min() -> u8 {
        0
    }

    pub const fn f1_max() -> u8 {
        7
    }

    pub const fn f2_min() -> u8 {
        0
    }

    pub const fn f2_max() -> u8 {
        7
    }

    pub const fn f3_min() -> u8 {
        0
    }

    pub const fn f3_max() -> u8 {
        7
    }

    pub const fn f4_min() -> u8 {
        0
    }

    pub const fn f4_max() -> u8 {
        7
    }
}

#[asn(sequence, extensible_after(f4))]

#[derive(Default, Debug, Clone, PartialEq, Hash)]
pub struct Ts5ddmooe5 {
    #[asn(default(integer(0..7), 5))] pub f0: u8,
    #[asn(default(integer(0..7), 5))] pub f1: u8,
    #[asn(integer(0..7))] pub f2: u8,
    #[asn(optional(integer(0..7)))] pub f3: Option<u8>,
    #[asn(optional(integer(0..7)))] pub f4: Option<u8>,
}

impl Ts5ddmooe5 {
    pub const fn f0_min() -> u8 {
        0
    }

    pub const fn f0_max() -> u8 {
        7
    }

    pub const fn f1_min() -> u8 {
        0
    }

    pub const fn f1_max() -> u8 {
        7
    }

    pub const fn f2_min() -> u8 {
        0
    }

    pub const fn f2_max() -> u8 {
        7
    }

    pub const fn f3_min() -> u8 {
        0
    }

    pub const fn f3_max() -> u8 {
        7
    }

    pub const fn f4_min() -> u8 {
        0
    }

    pub const fn f4_max() -> u8 {
        7
    }
}

#[asn(sequence)]

#[derive(Default, Debug, Clone, PartialEq, Hash)]
pub struct Ts5mmooon {
    #[asn(integer(0..7))] pub f0: u8,
    #[asn(integer(0..7))] pub f1: u8,
    #[asn(optional(integer(0..7)))] pub f2: Option<u8>,
    #[asn(optional(integer(0..7)))] pub f3: Option<u8>,
    #[asn(optional(integer(0..7)))] pub f4: Option<u8>,
}

impl Ts5mmooon {
    pub const fn f0_min() -> u8 {
        0
    }

    pub const fn f0_max() -> u8 {
        7
    }

    pub const fn f1_min() -> u8 {
        0
    }

    pub const fn f1_max() -> u8 {
        7
    }

    pub const fn f2_min() -> u8 {
        0
    }

    pub const fn f2_max() -> u8 {
        7
    }

    pub const fn f3_min() -> u8 {
        0
    }

    pub const fn f3_max() -> u8 {
        7
    }

    pub const fn f4_min() -> u8 {
        0
    }

    pub const fn f4_max() -> u8 {
        7
    }
}

#[asn(sequence, extensible_after(f0))]

#[derive(Default, Debug, Clone, PartialEq, Hash)]
pub struct Ts5mmoooe0 {
    #[asn(integer(0..7))] pub f0: u8,
    #[asn(optional(integer(0..7)))] pub f1: Option<u8>,
    #[asn(optional(integer(0..7)))] pub f2: Option<u8>,
    #[asn(optional(integer(0..7)))] pub f3: Option<u8>,
    #[asn(optional(integer(0..7)))] pub f4: Option<u8>,
}

impl Ts5mmoooe0 {
    pub const fn f0_min() -> u8 {
        0
    }

    pub const fn f0_max() -> u8 {
        7
    }

    pub const fn f1_min() -> u8 {
        0
    }

    pub const fn f1_max() -> u8 {
        7
    }

    pub const fn f2_min() -> u8 {
        0
    }

    pub const fn f2_max() -> u8 {
        7
    }

    pub const fn f3_min() -> u8 {
        0
    }

    pub const fn f3_max() -> u8 {
        7
    }

    pub const fn f4_min() -> u8 {
        0
    }

    pub const fn f4_max() -> u8 {
        7
    }
}

#[asn(sequence, extensible_after(f0))]

#[derive(Default, Debug, Clone, PartialEq, Hash)]
pub struct Ts5mmoooe1 {
    #[asn(integer(0..7))] pub f0: u8,
    #[asn(optional(integer(0..7)))] pub f1: Option<u8>,
    #[asn(optional(integer(0..7)))] pub f2: Option<u8>,
    #[asn(optional(integer(0..7)))] pub f3: Option<u8>,
    #[asn(optional(integer(0..7)))] pub f4: Option<u8>,
}

impl Ts5mmoooe1 {
    pub const fn f0_min() -> u8 {
        0
    }

    pub const fn f0_max() -> u8 {
        7
    }

    pub const fn f1_min() -> u8 {
        0
    }

    pub const fn f1_max() -> u8 {
        7
    }

    pub const fn f2_min() -> u8 {
        0
    }

    pub const fn f2_max() -> u8 {
        7
    }

    pub const fn f3_min() -> u8 {
        0
    }

    pub const fn f3_max() -> u8 {
        7
    }

    pub const fn f4_min() -> u8 {
        0
    }

    pub const fn f4_max() -> u8 {
        7
    }
}

#[asn(sequence, extensible_after(f1))]

#[derive(Default, Debug, Clone, PartialEq, Hash)]
pub struct Ts5mmoooe2 {
    #[asn(integer(0..7))] pub f0: u8,
    #[asn(integer(0..7))] pub f1: u8,
    #[asn(optional(integer(0..7)))] pub f2: Option<u8>,
    #[asn(optional(integer(0..7)))] pub f3: Option<u8>,
    #[asn(optional(integer(0..7)))] pub f4: Option<u8>,
}

impl Ts5mmoooe2 {
    pub const fn f0_min() -> u8 {
        0
    }

    pub const fn f0_max() -> u8 {
        7
    }

    pub const fn f1_min() -> u8 {
        0
    }

    pub const fn f1_max() -> u8 {
        7
    }

    pub const fn f2_min() -> u8 {
        0
    }

    pub const fn f2_max() -> u8 {
        7
    }

    pub const fn f3_min() -> u8 {
        0
    }

    pub const fn f3_max() -> u8 {
        7
    }

    pub const fn f4_min() -> u8 {
        0
    }

    pub const fn f4_max() -> u8 {
        7
    }
}

#[asn(sequence, extensible_after(f2))]

#[derive(Default, Debug, Clone, PartialEq, Hash)]
pub struct Ts5mmoooe3 {
    #[asn(integer(0..7))] pub f0: u8,
    #[asn(integer(0..7))] pub f1: u8,
    #[asn(optional(integer(0..7)))] pub f2: Option<u8>,
    #[asn(optional(integer(0..7)))] pub f3: Option<u8>,
    #[asn(optional(integer(0..7)))] pub f4: Option<u8>,
}

impl Ts5mmoooe3 {
    pub const fn f0_min() -> u8 {
        0
    }

    pub const fn f0_max() -> u8 {
        7
    }

    pub const fn f1_min() -> u8 {
        0
    }

    pub const fn f1_max() -> u8 {
        7
    }

    pub const fn f2_min() -> u8 {
        0
    }

    pub const fn f2_max() -> u8 {
        7
    }

    pub const fn f3_min() -> u8 {
        0
    }

    pub const fn f3_max() -> u8 {
        7
    }

    pub const fn f4_min() -> u8 {
        0
    }

    pub const fn f4_max() -> u8 {
        7
    }
}

#[asn(sequence, extensible_after(f3))]

#[derive(Default, Debug, Clone, PartialEq, Hash)]
pub struct Ts5mmoooe4 {
    #[asn(integer(0..7))] pub f0: u8,
    #[asn(integer(0..7))] pub f1: u8,
    #[asn(optional(integer(0..7)))] pub f2: Option<u8>,
    #[asn(optional(integer(0..7)))] pub f3: Option<u8>,
    #[asn(optional(integer(0..7)))] pub f4: Option<u8>,
}

impl Ts5mmoooe4 {
    pub const fn f0_min() -> u8 {
        0
    }

    pub const fn f0_max() -> u8 {
        7
    }

    pub const fn f1_min() -> u8 {
        0
    }

    pub const fn f1_max() -> u8 {
        7
    }

    pub const fn f2_min() -> u8 {
        0
    }

    pub const fn f2_max() -> u8 {
        7
    }

    pub const fn f3_min() -> u8 {
        0
    }

    pub const fn f3_max() -> u8 {
        7
    }

    pub const fn f4_min() -> u8 {
        0
    }

    pub const fn f4_max() -> u8 {
        7
    }
}

#[asn(sequence, extensible_after(f4))]

#[derive(Default, Debug, Clone, PartialEq, Hash)]
pub struct Ts5mmoooe5 {
    #[asn(integer(0..7))] pub f0: u8,
    #[asn(integer(0..7))] pub f1: u8,
    #[asn(optional(integer(0..7)))] pub f2: Option<u8>,
    #[asn(optional(integer(0..7)))] pub f3: Option<u8>,
    #[asn(optional(integer(0..7)))] pub f4: Option<u8>,
}

impl Ts5mmoooe5 {
    pub const fn f0_min() -> u8 {
        0
    }

    pub const fn f0_max() -> u8 {
        7
    }

    pub const fn f1_min() -> u8 {
        0
    }

    pub const fn f1_max() -> u8 {
        7
    }

    pub const fn f2_min() -> u8 {
        0
    }

    pub const fn f2_max() -> u8 {
        7
    }

    pub const fn f3_min() -> u8 {
        0
    }

    pub const fn f3_max() -> u8 {
        7
    }

    pub const fn f4_min() -> u8 {
        0
    }

    pub const fn f4_max() -> u8 {
        7
    }
}

#[asn(sequence)]

#[derive(Default, Debug, Clone, PartialEq, Hash)]
pub struct Ts5omooon {
    #[asn(optional(integer(0..7)))] pub f0: Option<u8>,
    #[asn(integer(0..7))] pub f1: u8,
    #[asn(optional(integer(0..7)))] pub f2: Option<u8>,
    #[asn(optional(integer(0..7)))] pub f3: Option<u8>,
    #[asn(optional(integer(0..7)))] pub f4: Option<u8>,
}

impl Ts5omooon {
    pub const fn f0_min() -> u8 {
        0
    }

    pub const fn f0_max() -> u8 {
        7
    }

    pub const fn f1_min() -> u8 {
        0
    }

    pub const fn f1_max() -> u8 {
        7
    }

    pub const fn f2_min() -> u8 {
        0
    }

    pub const fn f2_max() -> u8 {
        7
    }

    pub const fn f3_min() -> u8 {
        0
    }

    pub const fn f3_max() -> u8 {
        7
    }

    pub const fn f4_min() -> u8 {
        0
    }

    pub const fn f4_max() -> u8 {
        7
    }
}

#[asn(sequence, extensible_after(f0))]

#[derive(Default, Debug, Clone, PartialEq, Hash)]
pub struct Ts5omoooe0 {
    #[asn(optional(integer(0..7)))] pub f0: Option<u8>,
    #[asn(optional(integer(0..7)))] pub f1: Option<u8>,
    #[asn(optional(integer(0..7)))] pub f2: Option<u8>,
    #[asn(optional(integer(0..7)))] pub f3: Option<u8>,
    #[asn(optional(integer(0..7)))] pub f4: Option<u8>,
}

impl Ts5omoooe0 {
    pub const fn f0_min() -> u8 {
        0
    }

    pub const fn f0_max() -> u8 {
        7
    }

    pub const fn f1_min() -> u8 {
        0
    }

    pub const fn f1_max() -> u8 {
        7
    }

    pub const fn f2_min() -> u8 {
        0
    }

    pub const fn f2_max() -> u8 {
        7
    }

    pub const fn f3_min() -> u8 {
        0
    }

    pub const fn f3_max() -> u8 {
        7
    }

    pub const fn f4_min() -> u8 {
        0
    }

    pub const fn f4_max() -> u8 {
        7
    }
}

#[asn(sequence, extensible_after(f0))]

#[derive(Default, Debug, Clone, PartialEq, Hash)]
pub struct Ts5omoooe1 {
    #[asn(optional(integer(0..7)))] pub f0: Option<u8>,
    #[asn(optional(integer(0..7)))] pub f1: Option<u8>,
    #[asn(optional(integer(0..7)))] pub f2: Option<u8>,
    #[asn(optional(integer(0..7)))] pub f3: Option<u8>,
    #[asn(optional(integer(0..7)))] pub f4: Option<u8>,
}

impl Ts5omoooe1 {
    pub const fn f0_min() -> u8 {
        0
    }

    pub const fn f0_max() -> u8 {
        7
    }

    pub const fn f1_min() -> u8 {
        0
    }

    pub const fn f1_max() -> u8 {
        7
    }

    pub const fn f2_min() -> u8 {
        0
    }

    pub const fn f2_max() -> u8 {
        7
    }

    pub const fn f3_min() -> u8 {
        0
    }

    pub const fn f3_max() -> u8 {
        7
    }

    pub const fn f4_min() -> u8 {
        0
    }

    pub const fn f4_max() -> u8 {
        7
    }
}

#[asn(sequence, extensible_after(f1))]

#[derive(Default, Debug, Clone, PartialEq, Hash)]
pub struct Ts5omoooe2 {
    #[asn(optional(integer(0..7)))] pub f0: Option<u8>,
    #[asn(integer(0..7))] pub f1: u8,
    #[asn(optional(integer(0..7)))] pub f2: Option<u8>,
    #[asn(optional(integer(0..7)))] pub f3: Option<u8>,
    #[asn(optional(integer(0..7)))] pub f4: Option<u8>,
}

impl Ts5omoooe2 {
    pub const fn f0_min() -> u8 {
        0
    }

    pub const fn f0_max() -> u8 {
        7
    }

    pub const fn f1_min() -> u8 {
        0
    }

    pub const fn f1_max() -> u8 {
        7
    }

    pub const fn f2_min() -> u8 {
        0
    }

    pub const fn f2_max() -> u8 {
        7
    }

    pub const fn f3_min() -> u8 {
        0
    }

    pub const fn f3_max() -> u8 {
        7
    }

    pub const fn f4_min() -> u8 {
        0
    }

    pub const fn f4_max() -> u8 {
        7
    }
}

#[asn(sequence, extensible_after(f2))]

#[derive(Default, Debug, Clone, PartialEq, Hash)]
pub struct Ts5omoooe3 {
    #[asn(optional(integer(0..7)))] pub f0: Option<u8>,
    #[asn(integer(0..7))] pub f1: u8,
    #[asn(optional(integer(0..7)))] pub f2: Option<u8>,
    #[asn(optional(integer(0..7)))] pub f3: Option<u8>,
    #[asn(optional(integer(0..7)))] pub f4: Option<u8>,
}

impl Ts5omoooe3 {
    pub const fn f0_min() -> u8 {
        0
    }

    pub const fn f0_max() -> u8 {
        7
    }

    pub const fn f1_min() -> u8 {
        0
    }

    pub const fn f1_max() -> u8 {
        7
    }

    pub const fn f2_min() -> u8 {
        0
    }

    pub const fn f2_max() -> u8 {
        7
    }

    pub const fn f3_min() -> u8 {
        0
    }

    pub const fn f3_max() -> u8 {
        7
    }

    pub const fn f4_min() -> u8 {
        0
    }

    pub const fn f4_max() -> u8 {
        7
    }
}

#[asn(sequence, extensible_after(f3))]

#[derive(Default, Debug, Clone, PartialEq, Hash)]
pub struct Ts5omoooe4 {
    #[asn(optional(integer(0..7)))] pub f0: Option<u8>,
    #[asn(integer(0..7))] pub f1: u8,
    #[asn(optional(integer(0..7)))] pub f2: Option<u8>,
    #[asn(optional(integer(0..7)))] pub f3: Option<u8>,
    #[asn(optional(integer(0..7)))] pub f4: Option<u8>,
}

impl Ts5omoooe4 {
    pub const fn f0_min() -> u8 {
        0
    }

    pub const fn f0_max() -> u8 {
        7
    }

    pub const fn f1_min() -> u8 {
        0
    }

    pub const fn f1_max() -> u8 {
        7
    }

    pub const fn f2_min() -> u8 {
        0
    }

    pub const fn f2_max() -> u8 {
        7
    }

    pub const fn f3_min() -> u8 {
        0
    }

    pub const fn f3_max() -> u8 {
        7
    }

    pub const fn f4_min() -> u8 {
        0
    }

    pub const fn f4_max() -> u8 {
        7
    }
}

#[asn(sequence, extensible_after(f4))]

#[derive(Default, Debug, Clone, PartialEq, Hash)]
pub struct Ts5omoooe5 {
    #[asn(optional(integer(0..7)))] pub f0: Option<u8>,
    #[asn(integer(0..7))] pub f1: u8,
    #[asn(optional(integer(0..7)))] pub f2: Option<u8>,
    #[asn(optional(integer(0..7)))] pub f3: Option<u8>,
    #[asn(optional(integer(0..7)))] pub f4: Option<u8>,
}

impl Ts5omoooe5 {
    pub const fn f0_min() -> u8 {
        0
    }

    pub const fn f0_max() -> u8 {
        7
    }

    pub const fn f1_min() -> u8 {
        0
    }

    pub const fn f1_max() -> u8 {
        7
    }

    pub const fn f2_min() -> u8 {
        0
    }

    pub const fn f2_max() -> u8 {
        7
    }

    pub const fn f3_min() -> u8 {
        0
    }

    pub const fn f3_max() -> u8 {
        7
    }

    pub const fn f4_min() -> u8 {
        0
    }

    pub const fn f4_max() -> u8 {
        7
    }
}

#[asn(sequence)]

#[derive(Default, Debug, Clone, PartialEq, Hash)]
pub struct Ts5dmooon {
    #[asn(default(integer(0..7), 5))] pub f0: u8,
    #[asn(integer(0..7))] pub f1: u8,
    #[asn(optional(integer(0..7)))] pub f2: Option<u8>,
    #[asn(optional(integer(0..7)))] pub f3: Option<u8>,
    #[asn(optional(integer(0..7)))] pub f4: Option<u8>,
}

impl Ts5dmooon {
    pub const fn f0_min() -> u8 {
        0
    }

    pub const fn f0_max() -> u8 {
        7
    }

    pub const fn f1_min() -> u8 {
        0
    }

    pub const fn f1_max() -> u8 {
        7
    }

    pub const fn f2_min() -> u8 {
        0
    }

    pub const fn f2_max() -> u8 {
        7
    }

    pub const fn f3_min() -> u8 {
        0
    }

    pub const fn f3_max() -> u8 {
        7
    }

    pub const fn f4_min() -> u8 {
        0
    }

    pub const fn f4_max() -> u8 {
        7
    }
}

#[asn(sequence, extensible_after(f0))]

#[derive(Default, Debug, Clone, PartialEq, Hash)]
pub struct Ts5dmoooe0 {
    #[asn(default(integer(0..7), 5))] pub f0: u8,
    #[asn(optional(integer(0..7)))] pub f1: Option<u8>,
    #[asn(optional(integer(0..7)))] pub f2: Option<u8>,
    #[asn(optional(integer(0..7)))] pub f3: Option<u8>,
    #[asn(optional(integer(0..7)))] pub f4: Option<u8>,
}

impl Ts5dmoooe0 {
    pub const fn f0_min() -> u8 {
        0
    }

    pub const fn f0_max() -> u8 {
        7
    }

    pub const fn f1_min() -> u8 {
        0
    }

    pub const fn f1_max() -> u8 {
        7
    }

    pub const fn f2_min() -> u8 {
        0
    }

    pub const fn f2_max() -> u8 {
        7
    }

    pub const fn f3_min() -> u8 {
        0
    }

    pub const fn f3_max() -> u8 {
        7
    }

    pub const fn f4_min() -> u8 {
        0
    }

    pub const fn f4_max() -> u8 {
        7
    }
}

#[asn(sequence, extensible_after(f0))]

#[derive(Default, Debug, Clone, PartialEq, Hash)]
pub struct Ts5dmoooe1 {
    #[asn(default(integer(0..7), 5))] pub f0: u8,
    #[asn(optional(integer(0..7)))] pub f1: Option<u8>,
    #[asn(optional(integer(0..7)))] pub f2: Option<u8>,
    #[asn(optional(integer(0..7)))] pub f3: Option<u8>,
    #[asn(optional(integer(0..7)))] pub f4: Option<u8>,
}

impl Ts5dmoooe1 {
    pub const fn f0_min() -> u8 {
        0
    }

    pub const fn f0_max() -> u8 {
        7
    }

    pub const fn f1_min() -> u8 {
        0
    }

    pub const fn f1_max() -> u8 {
        7
    }

    pub const fn f2_min() -> u8 {
        0
    }

    pub const fn f2_max() -> u8 {
        7
    }

    pub const fn f3_min() -> u8 {
        0
    }

    pub const fn f3_max() -> u8 {
        7
    }

    pub const fn f4_min() -> u8 {
        0
    }

    pub const fn f4_max() -> u8 {
        7
    }
}

#[asn(sequence, extensible_after(f1))]

#[derive(Default, Debug, Clone, PartialEq, Hash)]
pub struct Ts5dmoooe2 {
    #[asn(default(integer(0..7), 5))] pub f0: u8,
    #[asn(integer(0..7))] pub f1: u8,
    #[asn(optional(integer(0..7)))] pub f2: Option<u8>,
    #[asn(optional(integer(0..7)))] pub f3: Option<u8>,
    #[asn(optional(integer(0..7)))] pub f4: Option<u8>,
}

impl Ts5dmoooe2 {
    pub const fn f0_min() -> u8 {
        0
    }

    pub const fn f0_max() -> u8 {
        7
    }

    pub const fn f1_min() -> u8 {
        0
    }

    pub const fn f1_max() -> u8 {
        7
    }

    pub const fn f2_min() -> u8 {
        0
    }

    pub const fn f2_max() -> u8 {
        7
    }

    pub const fn f3_min() -> u8 {
        0
    }

    pub const fn f3_max() -> u8 {
        7
    }

    pub const fn f4_min() -> u8 {
        0
    }

    pub const fn f4_max() -> u8 {
        7
    }
}

#[asn(sequence, extensible_after(f2))]

#[derive(Default, Debug, Clone, PartialEq, Hash)]
pub struct Ts5dmoooe3 {
    #[asn(default(integer(0..7), 5))] pub f0: u8,
    #[asn(integer(0..7))] pub f1: u8,
    #[asn(optional(integer(0..7)))] pub f2: Option<u8>,
    #[asn(optional(integer(0..7)))] pub f3: Option<u8>,
    #[asn(optional(integer(0..7)))] pub f4: Option<u8>,
}

impl Ts5dmoooe3 {
    pub const fn f0_min() -> u8 {
        0
    }

    pub const fn f0_max() -> u8 {
        7
    }

    pub const fn f1_min() -> u8 {
        0
    }

    pub const fn f1_max() -> u8 {
        7
    }

    pub const fn f2_min() -> u8 {
        0
    }

    pub const fn f2_max() -> u8 {
        7
    }

    pub const fn f3_min() -> u8 {
        0
    }

    pub const fn f3_max() -> u8 {
        7
    }

    pub const fn f4_min() -> u8 {
        0
    }

    pub const fn f4_max() -> u8 {
        7
    }
}

#[asn(sequence, extensible_after(f3))]

#[derive(Default, Debug, Clone, PartialEq, Hash)]
pub struct Ts5dmoooe4 {
    #[asn(default(integer(0..7), 5))] pub f0: u8,
    #[asn(integer(0..7))] pub f1: u8,
    #[asn(optional(integer(0..7)))] pub f2: Option<u8>,
    #[asn(optional(integer(0..7)))] pub f3: Option<u8>,
    #[asn(optional(integer(0..7)))] pub f4: Option<u8>,
}

impl Ts5dmoooe4 {
    pub const fn f0_min() -> u8 {
        0
    }

    pub const fn f0_max() -> u8 {
        7
    }

    pub const fn f1_min() -> u8 {
        0
    }

    pub const fn f1_max() -> u8 {
        7
    }

    pub const fn f2_min() -> u8 {
        0
    }

    pub const fn f2_max() -> u8 {
        7
    }

    pub const fn f3_min() -> u8 {
        0
    }

    pub const fn f3_max() -> u8 {
        7
    }

    pub const fn f4_min() -> u8 {
        0
    }

    pub const fn f4_max() -> u8 {
        7
    }
}

#[asn(sequence, extensible_after(f4))]

#[derive(Default, Debug, Clone, PartialEq, Hash)]
pub struct Ts5dmoooe5 {
    #[asn(default(integer(0..7), 5))] pub f0: u8,
    #[asn(integer(0..7))] pub f1: u8,
    #[asn(optional(integer(0..7)))] pub f2: Option<u8>,
    #[asn(optional(integer(0..7)))] pub f3: Option<u8>,
    #[asn(optional(integer(0..7)))] pub f4: Option<u8>,
}

impl Ts5dmoooe5 {
    pub const fn f0_min() -> u8 {
        0
    }

    pub const fn f0_max() -> u8 {
        7
    }

    pub const fn f1_min() -> u8 {
        0
    }

    pub const fn f1_max() -> u8 {
        7
    }

    pub const fn f2_min() -> u8 {
        0
    }

    pub const fn f2_max() -> u8 {
        7
    }

    pub const fn f3_min() -> u8 {
        0
    }

    pub const fn f3_max() -> u8 {
        7
    }

    pub const fn f4_min() -> u8 {
        0
    }

    pub const fn f4_max() -> u8 {
        7
    }
}
// ---- harness conversions (generated by the zoo build script from the items above) ----
impl FromValue for Ts5modmoe5 {
    fn from_value(v: &Value) -> Self {
        let s = match v { Value::Seq(s) => s, other => panic!("Ts5modmoe5: expected Seq, got {other:?}") };
        assert_eq!(s.len(), 5, "Ts5modmoe5: component count");
        let _ = s;
        Ts5modmoe5 {
            f0: FromValue::from_value(s[0].as_ref().expect("component f0 of Ts5modmoe5 must be present")),
            f1: s[1].as_ref().map(FromValue::from_value),
            f2: FromValue::from_value(s[2].as_ref().expect("component f2 of Ts5modmoe5 must be present")),
            f3: FromValue::from_value(s[3].as_ref().expect("component f3 of Ts5modmoe5 must be present")),
            f4: s[4].as_ref().map(FromValue::from_value),
        }
    }
}
impl ToValue for Ts5modmoe5 {
    fn to_value(&self) -> Value {
        Value::Seq(vec![
            Some(self.f0.to_value()),
            self.f1.as_ref().map(|x| x.to_value()),
            Some(self.f2.to_value()),
            Some(self.f3.to_value()),
            self.f4.as_ref().map(|x| x.to_value()),
        ])
    }
}
impl FromValue for Ts5oodmon {
    fn from_value(v: &Value) -> Self {
        let s = match v { Value::Seq(s) => s, other => panic!("Ts5oodmon: expected Seq, got {other:?}") };
        assert_eq!(s.len(), 5, "Ts5oodmon: component count");
        let _ = s;
        Ts5oodmon {
            f0: s[0].as_ref().map(FromValue::from_value),
            f1: s[1].as_ref().map(FromValue::from_value),
            f2: FromValue::from_value(s[2].as_ref().expect("component f2 of Ts5oodmon must be present")),
            f3: FromValue::from_value(s[3].as_ref().expect("component f3 of Ts5oodmon must be present")),
            f4: s[4].as_ref().map(FromValue::from_value),
        }
    }
}
impl ToValue for Ts5oodmon {
    fn to_value(&self) -> Value {
        Value::Seq(vec![
            self.f0.as_ref().map(|x| x.to_value()),
            self.f1.as_ref().map(|x| x.to_value()),
            Some(self.f2.to_value()),
            Some(self.f3.to_value()),
            self.f4.as_ref().map(|x| x.to_value()),
        ])
    }
}
impl FromValue for Ts5oodmoe0 {
    fn from_value(v: &Value) -> Self {
        let s = match v { Value::Seq(s) => s, other => panic!("Ts5oodmoe0: expected Seq, got {other:?}") };
        assert_eq!(s.len(), 5, "Ts5oodmoe0: component count");
        let _ = s;
        Ts5oodmoe0 {
            f0: s[0].as_ref().map(FromValue::from_value),
            f1: s[1].as_ref().map(FromValue::from_value),
            f2: FromValue::from_value(s[2].as_ref().expect("component f2 of Ts5oodmoe0 must be present")),
            f3: s[3].as_ref().map(FromValue::from_value),
            f4: s[4].as_ref().map(FromValue::from_value),
        }
    }
}
impl ToValue for Ts5oodmoe0 {
    fn to_value(&self) -> Value {
        Value::Seq(vec![
            self.f0.as_ref().map(|x| x.to_value()),
            self.f1.as_ref().map(|x| x.to_value()),
            Some(self.f2.to_value()),
            self.f3.as_ref().map(|x| x.to_value()),
            self.f4.as_ref().map(|x| x.to_value()),
        ])
    }
}
impl FromValue for Ts5oodmoe1 {
    fn from_value(v: &Value) -> Self {
        let s = match v { Value::Seq(s) => s, other => panic!("Ts5oodmoe1: expected Seq, got {other:?}") };
        assert_eq!(s.len(), 5, "Ts5oodmoe1: component count");
        let _ = s;
        Ts5oodmoe1 {
            f0: s[0].as_ref().map(FromValue::from_value),
            f1: s[1].as_ref().map(FromValue::from_value),
            f2: FromValue::from_value(s[2].as_ref().expect("component f2 of Ts5oodmoe1 must be present")),
            f3: s[3].as_ref().map(FromValue::from_value),
            f4: s[4].as_ref().map(FromValue::from_value),
        }
    }
}
impl ToValue for Ts5oodmoe1 {
    fn to_value(&self) -> Value {
        Value::Seq(vec![
            self.f0.as_ref().map(|x| x.to_value()),
            self.f1.as_ref().map(|x| x.to_value()),
            Some(self.f2.to_value()),
            self.f3.as_ref().map(|x| x.to_value()),
            self.f4.as_ref().map(|x| x.to_value()),
        ])
    }
}
impl FromValue for Ts5oodmoe2 {
    fn from_value(v: &Value) -> Self {
        let s = match v { Value::Seq(s) => s, other => panic!("Ts5oodmoe2: expected Seq, got {other:?}") };
        assert_eq!(s.len(), 5, "Ts5oodmoe2: component count");
        let _ = s;
        Ts5oodmoe2 {
            f0: s[0].as_ref().map(FromValue::from_value),
            f1: s[1].as_ref().map(FromValue::from_value),
            f2: FromValue::from_value(s[2].as_ref().expect("component f2 of Ts5oodmoe2 must be present")),
            f3: s[3].as_ref().map(FromValue::from_value),
            f4: s[4].as_ref().map(FromValue::from_value),
        }
    }
}
impl ToValue for Ts5oodmoe2 {
    fn to_value(&self) -> Value {
        Value::Seq(vec![
            self.f0.as_ref().map(|x| x.to_value()),
            self.f1.as_ref().map(|x| x.to_value()),
            Some(self.f2.to_value()),
            self.f3.as_ref().map(|x| x.to_value()),
            self.f4.as_ref().map(|x| x.to_value()),
        ])
    }
}
impl FromValue for Ts5oodmoe3 {
    fn from_value(v: &Value) -> Self {
        let s = match v { Value::Seq(s) => s, other => panic!("Ts5oodmoe3: expected Seq, got {other:?}") };
        assert_eq!(s.len(), 5, "Ts5oodmoe3: component count");
        let _ = s;
        Ts5oodmoe3 {
            f0: s[0].as_ref().map(FromValue::from_value),
            f1: s[1].as_ref().map(FromValue::from_value),
            f2: FromValue::from_value(s[2].as_ref().expect("component f2 of Ts5oodmoe3 must be present")),
            f3: s[3].as_ref().map(FromValue::from_value),
            f4: s[4].as_ref().map(FromValue::from_value),
        }
    }
}
impl ToValue for Ts5oodmoe3 {
    fn to_value(&self) -> Value {
        Value::Seq(vec![
            self.f0.as_ref().map(|x| x.to_value()),
            self.f1.as_ref().map(|x| x.to_value()),
            Some(self.f2.to_value()),
            self.f3.as_ref().map(|x| x.to_value()),
            self.f4.as_ref().map(|x| x.to_value()),
        ])
    }
}
impl FromValue for Ts5oodmoe4 {
    fn from_value(v: &Value) -> Self {
        let s = match v { Value::Seq(s) => s, other => panic!("Ts5oodmoe4: expected Seq, got {other:?}") };
        assert_eq!(s.len(), 5, "Ts5oodmoe4: component count");
        let _ = s;
        Ts5oodmoe4 {
            f0: s[0].as_ref().map(FromValue::from_value),
            f1: s[1].as_ref().map(FromValue::from_value),
            f2: FromValue::from_value(s[2].as_ref().expect("component f2 of Ts5oodmoe4 must be present")),
            f3: FromValue::from_value(s[3].as_ref().expect("component f3 of Ts5oodmoe4 must be present")),
            f4: s[4].as_ref().map(FromValue::from_value),
        }
    }
}
impl ToValue for Ts5oodmoe4 {
    fn to_value(&self) -> Value {
        Value::Seq(vec![
            self.f0.as_ref().map(|x| x.to_value()),
            self.f1.as_ref().map(|x| x.to_value()),
            Some(self.f2.to_value()),
            Some(self.f3.to_value()),
            self.f4.as_ref().map(|x| x.to_value()),
        ])
    }
}
impl FromValue for Ts5oodmoe5 {
    fn from_value(v: &Value) -> Self {
        let s = match v { Value::Seq(s) => s, other => panic!("Ts5oodmoe5: expected Seq, got {other:?}") };
        assert_eq!(s.len(), 5, "Ts5oodmoe5: component count");
        let _ = s;
        Ts5oodmoe5 {
            f0: s[0].as_ref().map(FromValue::from_value),
            f1: s[1].as_ref().map(FromValue::from_value),
            f2: FromValue::from_value(s[2].as_ref().expect("component f2 of Ts5oodmoe5 must be present")),
            f3: FromValue::from_value(s[3].as_ref().expect("component f3 of Ts5oodmoe5 must be present")),
            f4: s[4].as_ref().map(FromValue::from_value),
        }
    }
}
impl ToValue for Ts5oodmoe5 {
    fn to_value(&self) -> Value {
        Value::Seq(vec![
            self.f0.as_ref().map(|x| x.to_value()),
            self.f1.as_ref().map(|x| x.to_value()),
            Some(self.f2.to_value()),
            Some(self.f3.to_value()),
            self.f4.as_ref().map(|x| x.to_value()),
        ])
    }
}
impl FromValue for Ts5dodmon {
    fn from_value(v: &Value) -> Self {
        let s = match v { Value::Seq(s) => s, other => panic!("Ts5dodmon: expected Seq, got {other:?}") };
        assert_eq!(s.len(), 5, "Ts5dodmon: component count");
        let _ = s;
        Ts5dodmon {
            f0: FromValue::from_value(s[0].as_ref().expect("component f0 of Ts5dodmon must be present")),
            f1: s[1].as_ref().map(FromValue::from_value),
            f2: FromValue::from_value(s[2].as_ref().expect("component f2 of Ts5dodmon must be present")),
            f3: FromValue::from_value(s[3].as_ref().expect("component f3 of Ts5dodmon must be present")),
            f4: s[4].as_ref().map(FromValue::from_value),
        }
    }
}
impl ToValue for Ts5dodmon {
    fn to_value(&self) -> Value {
        Value::Seq(vec![
            Some(self.f0.to_value()),
            self.f1.as_ref().map(|x| x.to_value()),
            Some(self.f2.to_value()),
            Some(self.f3.to_value()),
            self.f4.as_ref().map(|x| x.to_value()),
        ])
    }
}
impl FromValue for Ts5dodmoe0 {
    fn from_value(v: &Value) -> Self {
        let s = match v { Value::Seq(s) => s, other => panic!("Ts5dodmoe0: expected Seq, got {other:?}") };
        assert_eq!(s.len(), 5, "Ts5dodmoe0: component count");
        let _ = s;
        Ts5dodmoe0 {
            f0: FromValue::from_value(s[0].as_ref().expect("component f0 of Ts5dodmoe0 must be present")),
            f1: s[1].as_ref().map(FromValue::from_value),
            f2: FromValue::from_value(s[2].as_ref().expect("component f2 of Ts5dodmoe0 must be present")),
            f3: s[3].as_ref().map(FromValue::from_value),
            f4: s[4].as_ref().map(FromValue::from_value),
        }
    }
}
impl ToValue for Ts5dodmoe0 {
    fn to_value(&self) -> Value {
        Value::Seq(vec![
            Some(self.f0.to_value()),
            self.f1.as_ref().map(|x| x.to_value()),
            Some(self.f2.to_value()),
            self.f3.as_ref().map(|x| x.to_value()),
            self.f4.as_ref().map(|x| x.to_value()),
        ])
    }
}
impl FromValue for Ts5dodmoe1 {
    fn from_value(v: &Value) -> Self {
        let s = match v { Value::Seq(s) => s, other => panic!("Ts5dodmoe1: expected Seq, got {other:?}") };
        assert_eq!(s.len(), 5, "Ts5dodmoe1: component count");
        let _ = s;
        Ts5dodmoe1 {
            f0: FromValue::from_value(s[0].as_ref().expect("component f0 of Ts5dodmoe1 must be present")),
            f1: s[1].as_ref().map(FromValue::from_value),
            f2: FromValue::from_value(s[2].as_ref().expect("component f2 of Ts5dodmoe1 must be present")),
            f3: s[3].as_ref().map(FromValue::from_value),
            f4: s[4].as_ref().map(FromValue::from_value),
        }
    }
}
impl ToValue for Ts5dodmoe1 {
    fn to_value(&self) -> Value {
        Value::Seq(vec![
            Some(self.f0.to_value()),
            self.f1.as_ref().map(|x| x.to_value()),
            Some(self.f2.to_value()),
            self.f3.as_ref().map(|x| x.to_value()),
            self.f4.as_ref().map(|x| x.to_value()),
        ])
    }
}
impl FromValue for Ts5dodmoe2 {
    fn from_value(v: &Value) -> Self {
        let s = match v { Value::Seq(s) => s, other => panic!("Ts5dodmoe2: expected Seq, got {other:?}") };
        assert_eq!(s.len(), 5, "Ts5dodmoe2: component count");
        let _ = s;
        Ts5dodmoe2 {
            f0: FromValue::from_value(s[0].as_ref().expect("component f0 of Ts5dodmoe2 must be present")),
            f1: s[1].as_ref().map(FromValue::from_value),
            f2: FromValue::from_value(s[2].as_ref().expect("component f2 of Ts5dodmoe2 must be present")),
            f3: s[3].as_ref().map(FromValue::from_value),
            f4: s[4].as_ref().map(FromValue::from_value),
        }
    }
}
impl ToValue for Ts5dodmoe2 {
    fn to_value(&self) -> Value {
        Value::Seq(vec![
            Some(self.f0.to_value()),
            self.f1.as_ref().map(|x| x.to_value()),
            Some(self.f2.to_value()),
            self.f3.as_ref().map(|x| x.to_value()),
            self.f4.as_ref().map(|x| x.to_value()),
        ])
    }
}
impl FromValue for Ts5dodmoe3 {
    fn from_value(v: &Value) -> Self {
        let s = match v { Value::Seq(s) => s, other => panic!("Ts5dodmoe3: expected Seq, got {other:?}") };
        assert_eq!(s.len(), 5, "Ts5dodmoe3: component count");
        let _ = s;
        Ts5dodmoe3 {
            f0: FromValue::from_value(s[0].as_ref().expect("component f0 of Ts5dodmoe3 must be present")),
            f1: s[1].as_ref().map(FromValue::from_value),
            f2: FromValue::from_value(s[2].as_ref().expect("component f2 of Ts5dodmoe3 must be present")),
            f3: s[3].as_ref().map(FromValue::from_value),
            f4: s[4].as_ref().map(FromValue::from_value),
        }
    }
}
impl ToValue for Ts5dodmoe3 {
    fn to_value(&self) -> Value {
        Value::Seq(vec![
            Some(self.f0.to_value()),
            self.f1.as_ref().map(|x| x.to_value()),
            Some(self.f2.to_value()),
            self.f3.as_ref().map(|x| x.to_value()),
            self.f4.as_ref().map(|x| x.to_value()),
        ])
    }
}
impl FromValue for Ts5dodmoe4 {
    fn from_value(v: &Value) -> Self {
        let s = match v { Value::Seq(s) => s, other => panic!("Ts5dodmoe4: expected Seq, got {other:?}") };
        assert_eq!(s.len(), 5, "Ts5dodmoe4: component count");
        let _ = s;
        Ts5dodmoe4 {
            f0: FromValue::from_value(s[0].as_ref().expect("component f0 of Ts5dodmoe4 must be present")),
            f1: s[1].as_ref().map(FromValue::from_value),
            f2: FromValue::from_value(s[2].as_ref().expect("component f2 of Ts5dodmoe4 must be present")),
            f3: FromValue::from_value(s[3].as_ref().expect("component f3 of Ts5dodmoe4 must be present")),
            f4: s[4].as_ref().map(FromValue::from_value),
        }
    }
}
impl ToValue for Ts5dodmoe4 {
    fn to_value(&self) -> Value {
        Value::Seq(vec![
            Some(self.f0.to_value()),
            self.f1.as_ref().map(|x| x.to_value()),
            Some(self.f2.to_value()),
            Some(self.f3.to_value()),
            self.f4.as_ref().map(|x| x.to_value()),
        ])
    }
}
impl FromValue for Ts5dodmoe5 {
    fn from_value(v: &Value) -> Self {
        let s = match v { Value::Seq(s) => s, other => panic!("Ts5dodmoe5: expected Seq, got {other:?}") };
        assert_eq!(s.len(), 5, "Ts5dodmoe5: component count");
        let _ = s;
        Ts5dodmoe5 {
            f0: FromValue::from_value(s[0].as_ref().expect("component f0 of Ts5dodmoe5 must be present")),
            f1: s[1].as_ref().map(FromValue::from_value),
            f2: FromValue::from_value(s[2].as_ref().expect("component f2 of Ts5dodmoe5 must be present")),
            f3: FromValue::from_value(s[3].as_ref().expect("component f3 of Ts5dodmoe5 must be present")),
            f4: s[4].as_ref().map(FromValue::from_value),
        }
    }
}
impl ToValue for Ts5dodmoe5 {
    fn to_value(&self) -> Value {
        Value::Seq(vec![
            Some(self.f0.to_value()),
            self.f1.as_ref().map(|x| x.to_value()),
            Some(self.f2.to_value()),
            Some(self.f3.to_value()),
            self.f4.as_ref().map(|x| x.to_value()),
        ])
    }
}
impl FromValue for Ts5mddmon {
    fn from_value(v: &Value) -> Self {
        let s = match v { Value::Seq(s) => s, other => panic!("Ts5mddmon: expected Seq, got {other:?}") };
        assert_eq!(s.len(), 5, "Ts5mddmon: component count");
        let _ = s;
        Ts5mddmon {
            f0: FromValue::from_value(s[0].as_ref().expect("component f0 of Ts5mddmon must be present")),
            f1: FromValue::from_value(s[1].as_ref().expect("component f1 of Ts5mddmon must be present")),
            f2: FromValue::from_value(s[2].as_ref().expect("component f2 of Ts5mddmon must be present")),
            f3: FromValue::from_value(s[3].as_ref().expect("component f3 of Ts5mddmon must be present")),
            f4: s[4].as_ref().map(FromValue::from_value),
        }
    }
}
impl ToValue for Ts5mddmon {
    fn to_value(&self) -> Value {
        Value::Seq(vec![
            Some(self.f0.to_value()),
            Some(self.f1.to_value()),
            Some(self.f2.to_value()),
            Some(self.f3.to_value()),
            self.f4.as_ref().map(|x| x.to_value()),
        ])
    }
}
impl FromValue for Ts5mddmoe0 {
    fn from_value(v: &Value) -> Self {
        let s = match v { Value::Seq(s) => s, other => panic!("Ts5mddmoe0: expected Seq, got {other:?}") };
        assert_eq!(s.len(), 5, "Ts5mddmoe0: component count");
        let _ = s;
        Ts5mddmoe0 {
            f0: FromValue::from_value(s[0].as_ref().expect("component f0 of Ts5mddmoe0 must be present")),
            f1: FromValue::from_value(s[1].as_ref().expect("component f1 of Ts5mddmoe0 must be present")),
            f2: FromValue::from_value(s[2].as_ref().expect("component f2 of Ts5mddmoe0 must be present")),
            f3: s[3].as_ref().map(FromValue::from_value),
            f4: s[4].as_ref().map(FromValue::from_value),
        }
    }
}
impl ToValue for Ts5mddmoe0 {
    fn to_value(&self) -> Value {
        Value::Seq(vec![
            Some(self.f0.to_value()),
            Some(self.f1.to_value()),
            Some(self.f2.to_value()),
            self.f3.as_ref().map(|x| x.to_value()),
            self.f4.as_ref().map(|x| x.to_value()),
        ])
    }
}
impl FromValue for Ts5mddmoe1 {
    fn from_value(v: &Value) -> Self {
        let s = match v { Value::Seq(s) => s, other => panic!("Ts5mddmoe1: expected Seq, got {other:?}") };
        assert_eq!(s.len(), 5, "Ts5mddmoe1: component count");
        let _ = s;
        Ts5mddmoe1 {
            f0: FromValue::from_value(s[0].as_ref().expect("component f0 of Ts5mddmoe1 must be present")),
            f1: FromValue::from_value(s[1].as_ref().expect("component f1 of Ts5mddmoe1 must be present")),
            f2: FromValue::from_value(s[2].as_ref().expect("component f2 of Ts5mddmoe1 must be present")),
            f3: s[3].as_ref().map(FromValue::from_value),
            f4: s[4].as_ref().map(FromValue::from_value),
        }
    }
}
impl ToValue for Ts5mddmoe1 {
    fn to_value(&self) -> Value {
        Value::Seq(vec![
            Some(self.f0.to_value()),
            Some(self.f1.to_value()),
            Some(self.f2.to_value()),
            self.f3.as_ref().map(|x| x.to_value()),
            self.f4.as_ref().map(|x| x.to_value()),
        ])
    }
}
impl FromValue for Ts5mddmoe2 {
    fn from_value(v: &Value) -> Self {
        let s = match v { Value::Seq(s) => s, other => panic!("Ts5mddmoe2: expected Seq, got {other:?}") };
        assert_eq!(s.len(), 5, "Ts5mddmoe2: component count");
        let _ = s;
        Ts5mddmoe2 {
            f0: FromValue::from_value(s[0].as_ref().expect("component f0 of Ts5mddmoe2 must be present")),
            f1: FromValue::from_value(s[1].as_ref().expect("component f1 of Ts5mddmoe2 must be present")),
            f2: FromValue::from_value(s[2].as_ref().expect("component f2 of Ts5mddmoe2 must be present")),
            f3: s[3].as_ref().map(FromValue::from_value),
            f4: s[4].as_ref().map(FromValue::from_value),
        }
    }
}
impl ToValue for Ts5mddmoe2 {
    fn to_value(&self) -> Value {
        Value::Seq(vec![
            Some(self.f0.to_value()),
            Some(self.f1.to_value()),
            Some(self.f2.to_value()),
            self.f3.as_ref().map(|x| x.to_value()),
            self.f4.as_ref().map(|x| x.to_value()),
        ])
    }
}
impl FromValue for Ts5mddmoe3 {
    fn from_value(v: &Value) -> Self {
        let s = match v { Value::Seq(s) => s, other => panic!("Ts5mddmoe3: expected Seq, got {other:?}") };
        assert_eq!(s.len(), 5, "Ts5mddmoe3: component count");
        let _ = s;
        Ts5mddmoe3 {
            f0: FromValue::from_value(s[0].as_ref().expect("component f0 of Ts5mddmoe3 must be present")),
            f1: FromValue::from_value(s[1].as_ref().expect("component f1 of Ts5mddmoe3 must be present")),
            f2: FromValue::from_value(s[2].as_ref().expect("component f2 of Ts5mddmoe3 must be present")),
            f3: s[3].as_ref().map(FromValue::from_value),
            f4: s[4].as_ref().map(FromValue::from_value),
        }
    }
}
impl ToValue for Ts5mddmoe3 {
    fn to_value(&self) -> Value {
        Value::Seq(vec![
            Some(self.f0.to_value()),
            Some(self.f1.to_value()),
            Some(self.f2.to_value()),
            self.f3.as_ref().map(|x| x.to_value()),
            self.f4.as_ref().map(|x| x.to_value()),
        ])
    }
}
impl FromValue for Ts5mddmoe4 {
    fn from_value(v: &Value) -> Self {
        let s = match v { Value::Seq(s) => s, other => panic!("Ts5mddmoe4: expected Seq, got {other:?}") };
        assert_eq!(s.len(), 5, "Ts5mddmoe4: component count");
        let _ = s;
        Ts5mddmoe4 {
            f0: FromValue::from_value(s[0].as_ref().expect("component f0 of Ts5mddmoe4 must be present")),
            f1: FromValue::from_value(s[1].as_ref().expect("component f1 of Ts5mddmoe4 must be present")),
            f2: FromValue::from_value(s[2].as_ref().expect("component f2 of Ts5mddmoe4 must be present")),
            f3: FromValue::from_value(s[3].as_ref().expect("component f3 of Ts5mddmoe4 must be present")),
            f4: s[4].as_ref().map(FromValue::from_value),
        }
    }
}
impl ToValue for Ts5mddmoe4 {
    fn to_value(&self) -> Value {
        Value::Seq(vec![
            Some(self.f0.to_value()),
            Some(self.f1.to_value()),
            Some(self.f2.to_value()),
            Some(self.f3.to_value()),
            self.f4.as_ref().map(|x| x.to_value()),
        ])
    }
}
impl FromValue for Ts5mddmoe5 {
    fn from_value(v: &Value) -> Self {
        let s = match v { Value::Seq(s) => s, other => panic!("Ts5mddmoe5: expected Seq, got {other:?}") };
        assert_eq!(s.len(), 5, "Ts5mddmoe5: component count");
        let _ = s;
        Ts5mddmoe5 {
            f0: FromValue::from_value(s[0].as_ref().expect("component f0 of Ts5mddmoe5 must be present")),
            f1: FromValue::from_value(s[1].as_ref().expect("component f1 of Ts5mddmoe5 must be present")),
            f2: FromValue::from_value(s[2].as_ref().expect("component f2 of Ts5mddmoe5 must be present")),
            f3: FromValue::from_value(s[3].as_ref().expect("component f3 of Ts5mddmoe5 must be present")),
            f4: s[4].as_ref().map(FromValue::from_value),
        }
    }
}
impl ToValue for Ts5mddmoe5 {
    fn to_value(&self) -> Value {
        Value::Seq(vec![
            Some(self.f0.to_value()),
            Some(self.f1.to_value()),
            Some(self.f2.to_value()),
            Some(self.f3.to_value()),
            self.f4.as_ref().map(|x| x.to_value()),
        ])
    }
}
impl FromValue for Ts5oddmon {
    fn from_value(v: &Value) -> Self {
        let s = match v { Value::Seq(s) => s, other => panic!("Ts5oddmon: expected Seq, got {other:?}") };
        assert_eq!(s.len(), 5, "Ts5oddmon: component count");
        let _ = s;
        Ts5oddmon {
            f0: s[0].as_ref().map(FromValue::from_value),
            f1: FromValue::from_value(s[1].as_ref().expect("component f1 of Ts5oddmon must be present")),
            f2: FromValue::from_value(s[2].as_ref().expect("component f2 of Ts5oddmon must be present")),
            f3: FromValue::from_value(s[3].as_ref().expect("component f3 of Ts5oddmon must be present")),
            f4: s[4].as_ref().map(FromValue::from_value),
        }
    }
}
impl ToValue for Ts5oddmon {
    fn to_value(&self) -> Value {
        Value::Seq(vec![
            self.f0.as_ref().map(|x| x.to_value()),
            Some(self.f1.to_value()),
            Some(self.f2.to_value()),
            Some(self.f3.to_value()),
            self.f4.as_ref().map(|x| x.to_value()),
        ])
    }
}
impl FromValue for Ts5oddmoe0 {
    fn from_value(v: &Value) -> Self {
        let s = match v { Value::Seq(s) => s, other => panic!("Ts5oddmoe0: expected Seq, got {other:?}") };
        assert_eq!(s.len(), 5, "Ts5oddmoe0: component count");
        let _ = s;
        Ts5oddmoe0 {
            f0: s[0].as_ref().map(FromValue::from_value),
            f1: FromValue::from_value(s[1].as_ref().expect("component f1 of Ts5oddmoe0 must be present")),
            f2: FromValue::from_value(s[2].as_ref().expect("component f2 of Ts5oddmoe0 must be present")),
            f3: s[3].as_ref().map(FromValue::from_value),
            f4: s[4].as_ref().map(FromValue::from_value),
        }
    }
}
impl ToValue for Ts5oddmoe0 {
    fn to_value(&self) -> Value {
        Value::Seq(vec![
            self.f0.as_ref().map(|x| x.to_value()),
            Some(self.f1.to_value()),
            Some(self.f2.to_value()),
            self.f3.as_ref().map(|x| x.to_value()),
            self.f4.as_ref().map(|x| x.to_value()),
        ])
    }
}
impl FromValue for Ts5oddmoe1 {
    fn from_value(v: &Value) -> Self {
        let s = match v { Value::Seq(s) => s, other => panic!("Ts5oddmoe1: expected Seq, got {other:?}") };
        assert_eq!(s.len(), 5, "Ts5oddmoe1: component count");
        let _ = s;
        Ts5oddmoe1 {
            f0: s[0].as_ref().map(FromValue::from_value),
            f1: FromValue::from_value(s[1].as_ref().expect("component f1 of Ts5oddmoe1 must be present")),
            f2: FromValue::from_value(s[2].as_ref().expect("component f2 of Ts5oddmoe1 must be present")),
            f3: s[3].as_ref().map(FromValue::from_value),
            f4: s[4].as_ref().map(FromValue::from_value),
        }
    }
}
impl ToValue for Ts5oddmoe1 {
    fn to_value(&self) -> Value {
        Value::Seq(vec![
            self.f0.as_ref().map(|x| x.to_value()),
            Some(self.f1.to_value()),
            Some(self.f2.to_value()),
            self.f3.as_ref().map(|x| x.to_value()),
            self.f4.as_ref().map(|x| x.to_value()),
        ])
    }
}
impl FromValue for Ts5oddmoe2 {
    fn from_value(v: &Value) -> Self {
        let s = match v { Value::Seq(s) => s, other => panic!("Ts5oddmoe2: expected Seq, got {other:?}") };
        assert_eq!(s.len(), 5, "Ts5oddmoe2: component count");
        let _ = s;
        Ts5oddmoe2 {
            f0: s[0].as_ref().map(FromValue::from_value),
            f1: FromValue::from_value(s[1].as_ref().expect("component f1 of Ts5oddmoe2 must be present")),
            f2: FromValue::from_value(s[2].as_ref().expect("component f2 of Ts5oddmoe2 must be present")),
            f3: s[3].as_ref().map(FromValue::from_value),
            f4: s[4].as_ref().map(FromValue::from_value),
        }
    }
}
impl ToValue for Ts5oddmoe2 {
    fn to_value(&self) -> Value {
        Value::Seq(vec![
            self.f0.as_ref().map(|x| x.to_value()),
            Some(self.f1.to_value()),
            Some(self.f2.to_value()),
            self.f3.as_ref().map(|x| x.to_value()),
            self.f4.as_ref().map(|x| x.to_value()),
        ])
    }
}
impl FromValue for Ts5oddmoe3 {
    fn from_value(v: &Value) -> Self {
        let s = match v { Value::Seq(s) => s, other => panic!("Ts5oddmoe3: expected Seq, got {other:?}") };
        assert_eq!(s.len(), 5, "Ts5oddmoe3: component count");
        let _ = s;
        Ts5oddmoe3 {
            f0: s[0].as_ref().map(FromValue::from_value),
            f1: FromValue::from_value(s[1].as_ref().expect("component f1 of Ts5oddmoe3 must be present")),
            f2: FromValue::from_value(s[2].as_ref().expect("component f2 of Ts5oddmoe3 must be present")),
            f3: s[3].as_ref().map(FromValue::from_value),
            f4: s[4].as_ref().map(FromValue::from_value),
        }
    }
}
impl ToValue for Ts5oddmoe3 {
    fn to_value(&self) -> Value {
        Value::Seq(vec![
            self.f0.as_ref().map(|x| x.to_value()),
            Some(self.f1.to_value()),
            Some(self.f2.to_value()),
            self.f3.as_ref().map(|x| x.to_value()),
            self.f4.as_ref().map(|x| x.to_value()),
        ])
    }
}
impl FromValue for Ts5oddmoe4 {
    fn from_value(v: &Value) -> Self {
        let s = match v { Value::Seq(s) => s, other => panic!("Ts5oddmoe4: expected Seq, got {other:?}") };
        assert_eq!(s.len(), 5, "Ts5oddmoe4: component count");
        let _ = s;
        Ts5oddmoe4 {
            f0: s[0].as_ref().map(FromValue::from_value),
            f1: FromValue::from_value(s[1].as_ref().expect("component f1 of Ts5oddmoe4 must be present")),
            f2: FromValue::from_value(s[2].as_ref().expect("component f2 of Ts5oddmoe4 must be present")),
            f3: FromValue::from_value(s[3].as_ref().expect("component f3 of Ts5oddmoe4 must be present")),
            f4: s[4].as_ref().map(FromValue::from_value),
        }
    }
}
impl ToValue for Ts5oddmoe4 {
    fn to_value(&self) -> Value {
        Value::Seq(vec![
            self.f0.as_ref().map(|x| x.to_value()),
            Some(self.f1.to_value()),
            Some(self.f2.to_value()),
            Some(self.f3.to_value()),
            self.f4.as_ref().map(|x| x.to_value()),
        ])
    }
}
impl FromValue for Ts5oddmoe5 {
    fn from_value(v: &Value) -> Self {
        let s = match v { Value::Seq(s) => s, other => panic!("Ts5oddmoe5: expected Seq, got {other:?}") };
        assert_eq!(s.len(), 5, "Ts5oddmoe5: component count");
        let _ = s;
        Ts5oddmoe5 {
            f0: s[0].as_ref().map(FromValue::from_value),
            f1: FromValue::from_value(s[1].as_ref().expect("component f1 of Ts5oddmoe5 must be present")),
            f2: FromValue::from_value(s[2].as_ref().expect("component f2 of Ts5oddmoe5 must be present")),
            f3: FromValue::from_value(s[3].as_ref().expect("component f3 of Ts5oddmoe5 must be present")),
            f4: s[4].as_ref().map(FromValue::from_value),
        }
    }
}
impl ToValue for Ts5oddmoe5 {
    fn to_value(&self) -> Value {
        Value::Seq(vec![
            self.f0.as_ref().map(|x| x.to_value()),
            Some(self.f1.to_value()),
            Some(self.f2.to_value()),
            Some(self.f3.to_value()),
            self.f4.as_ref().map(|x| x.to_value()),
        ])
    }
}
impl FromValue for Ts5dddmon {
    fn from_value(v: &Value) -> Self {
        let s = match v { Value::Seq(s) => s, other => panic!("Ts5dddmon: expected Seq, got {other:?}") };
        assert_eq!(s.len(), 5, "Ts5dddmon: component count");
        let _ = s;
        Ts5dddmon {
            f0: FromValue::from_value(s[0].as_ref().expect("component f0 of Ts5dddmon must be present")),
            f1: FromValue::from_value(s[1].as_ref().expect("component f1 of Ts5dddmon must be present")),
            f2: FromValue::from_value(s[2].as_ref().expect("component f2 of Ts5dddmon must be present")),
            f3: FromValue::from_value(s[3].as_ref().expect("component f3 of Ts5dddmon must be present")),
            f4: s[4].as_ref().map(FromValue::from_value),
        }
    }
}
impl ToValue for Ts5dddmon {
    fn to_value(&self) -> Value {
        Value::Seq(vec![
            Some(self.f0.to_value()),
            Some(self.f1.to_value()),
            Some(self.f2.to_value()),
            Some(self.f3.to_value()),
            self.f4.as_ref().map(|x| x.to_value()),
        ])
    }
}
impl FromValue for Ts5dddmoe0 {
    fn from_value(v: &Value) -> Self {
        let s = match v { Value::Seq(s) => s, other => panic!("Ts5dddmoe0: expected Seq, got {other:?}") };
        assert_eq!(s.len(), 5, "Ts5dddmoe0: component count");
        let _ = s;
        Ts5dddmoe0 {
            f0: FromValue::from_value(s[0].as_ref().expect("component f0 of Ts5dddmoe0 must be present")),
            f1: FromValue::from_value(s[1].as_ref().expect("component f1 of Ts5dddmoe0 must be present")),
            f2: FromValue::from_value(s[2].as_ref().expect("component f2 of Ts5dddmoe0 must be present")),
            f3: s[3].as_ref().map(FromValue::from_value),
            f4: s[4].as_ref().map(FromValue::from_value),
        }
    }
}
impl ToValue for Ts5dddmoe0 {
    fn to_value(&self) -> Value {
        Value::Seq(vec![
            Some(self.f0.to_value()),
            Some(self.f1.to_value()),
            Some(self.f2.to_value()),
            self.f3.as_ref().map(|x| x.to_value()),
            self.f4.as_ref().map(|x| x.to_value()),
        ])
    }
}
impl FromValue for Ts5dddmoe1 {
    fn from_value(v: &Value) -> Self {
        let s = match v { Value::Seq(s) => s, other => panic!("Ts5dddmoe1: expected Seq, got {other:?}") };
        assert_eq!(s.len(), 5, "Ts5dddmoe1: component count");
        let _ = s;
        Ts5dddmoe1 {
            f0: FromValue::from_value(s[0].as_ref().expect("component f0 of Ts5dddmoe1 must be present")),
            f1: FromValue::from_value(s[1].as_ref().expect("component f1 of Ts5dddmoe1 must be present")),
            f2: FromValue::from_value(s[2].as_ref().expect("component f2 of Ts5dddmoe1 must be present")),
            f3: s[3].as_ref().map(FromValue::from_value),
            f4: s[4].as_ref().map(FromValue::from_value),
        }
    }
}
impl ToValue for Ts5dddmoe1 {
    fn to_value(&self) -> Value {
        Value::Seq(vec![
            Some(self.f0.to_value()),
            Some(self.f1.to_value()),
            Some(self.f2.to_value()),
            self.f3.as_ref().map(|x| x.to_value()),
            self.f4.as_ref().map(|x| x.to_value()),
        ])
    }
}
impl FromValue for Ts5dddmoe2 {
    fn from_value(v: &Value) -> Self {
        let s = match v { Value::Seq(s) => s, other => panic!("Ts5dddmoe2: expected Seq, got {other:?}") };
        assert_eq!(s.len(), 5, "Ts5dddmoe2: component count");
        let _ = s;
        Ts5dddmoe2 {
            f0: FromValue::from_value(s[0].as_ref().expect("component f0 of Ts5dddmoe2 must be present")),
            f1: FromValue::from_value(s[1].as_ref().expect("component f1 of Ts5dddmoe2 must be present")),
            f2: FromValue::from_value(s[2].as_ref().expect("component f2 of Ts5dddmoe2 must be present")),
            f3: s[3].as_ref().map(FromValue::from_value),
            f4: s[4].as_ref().map(FromValue::from_value),
        }
    }
}
impl ToValue for Ts5dddmoe2 {
    fn to_value(&self) -> Value {
        Value::Seq(vec![
            Some(self.f0.to_value()),
            Some(self.f1.to_value()),
            Some(self.f2.to_value()),
            self.f3.as_ref().map(|x| x.to_value()),
            self.f4.as_ref().map(|x| x.to_value()),
        ])
    }
}
impl FromValue for Ts5dddmoe3 {
    fn from_value(v: &Value) -> Self {
        let s = match v { Value::Seq(s) => s, other => panic!("Ts5dddmoe3: expected Seq, got {other:?}") };
        assert_eq!(s.len(), 5, "Ts5dddmoe3: component count");
        let _ = s;
        Ts5dddmoe3 {
            f0: FromValue::from_value(s[0].as_ref().expect("component f0 of Ts5dddmoe3 must be present")),
            f1: FromValue::from_value(s[1].as_ref().expect("component f1 of Ts5dddmoe3 must be present")),
            f2: FromValue::from_value(s[2].as_ref().expect("component f2 of Ts5dddmoe3 must be present")),
            f3: s[3].as_ref().map(FromValue::from_value),
            f4: s[4].as_ref().map(FromValue::from_value),
        }
    }
}
impl ToValue for Ts5dddmoe3 {
    fn to_value(&self) -> Value {
        Value::Seq(vec![
            Some(self.f0.to_value()),
            Some(self.f1.to_value()),
            Some(self.f2.to_value()),
            self.f3.as_ref().map(|x| x.to_value()),
            self.f4.as_ref().map(|x| x.to_value()),
        ])
    }
}
impl FromValue for Ts5dddmoe4 {
    fn from_value(v: &Value) -> Self {
        let s = match v { Value::Seq(s) => s, other => panic!("Ts5dddmoe4: expected Seq, got {other:?}") };
        assert_eq!(s.len(), 5, "Ts5dddmoe4: component count");
        let _ = s;
        Ts5dddmoe4 {
            f0: FromValue::from_value(s[0].as_ref().expect("component f0 of Ts5dddmoe4 must be present")),
            f1: FromValue::from_value(s[1].as_ref().expect("component f1 of Ts5dddmoe4 must be present")),
            f2: FromValue::from_value(s[2].as_ref().expect("component f2 of Ts5dddmoe4 must be present")),
            f3: FromValue::from_value(s[3].as_ref().expect("component f3 of Ts5dddmoe4 must be present")),
            f4: s[4].as_ref().map(FromValue::from_value),
        }
    }
}
impl ToValue for Ts5dddmoe4 {
    fn to_value(&self) -> Value {
        Value::Seq(vec![
            Some(self.f0.to_value()),
            Some(self.f1.to_value()),
            Some(self.f2.to_value()),
            Some(self.f3.to_value()),
            self.f4.as_ref().map(|x| x.to_value()),
        ])
    }
}
impl FromValue for Ts5dddmoe5 {
    fn from_value(v: &Value) -> Self {
        let s = match v { Value::Seq(s) => s, other => panic!("Ts5dddmoe5: expected Seq, got {other:?}") };
        assert_eq!(s.len(), 5, "Ts5dddmoe5: component count");
        let _ = s;
        Ts5dddmoe5 {
            f0: FromValue::from_value(s[0].as_ref().expect("component f0 of Ts5dddmoe5 must be present")),
            f1: FromValue::from_value(s[1].as_ref().expect("component f1 of Ts5dddmoe5 must be present")),
            f2: FromValue::from_value(s[2].as_ref().expect("component f2 of Ts5dddmoe5 must be present")),
            f3: FromValue::from_value(s[3].as_ref().expect("component f3 of Ts5dddmoe5 must be present")),
            f4: s[4].as_ref().map(FromValue::from_value),
        }
    }
}
impl ToValue for Ts5dddmoe5 {
    fn to_value(&self) -> Value {
        Value::Seq(vec![
            Some(self.f0.to_value()),
            Some(self.f1.to_value()),
            Some(self.f2.to_value()),
            Some(self.f3.to_value()),
            self.f4.as_ref().map(|x| x.to_value()),
        ])
    }
}
impl FromValue for Ts5mmmoon {
    fn from_value(v: &Value) -> Self {
        let s = match v { Value::Seq(s) => s, other => panic!("Ts5mmmoon: expected Seq, got {other:?}") };
        assert_eq!(s.len(), 5, "Ts5mmmoon: component count");
        let _ = s;
        Ts5mmmoon {
            f0: FromValue::from_value(s[0].as_ref().expect("component f0 of Ts5mmmoon must be present")),
            f1: FromValue::from_value(s[1].as_ref().expect("component f1 of Ts5mmmoon must be present")),
            f2: FromValue::from_value(s[2].as_ref().expect("component f2 of Ts5mmmoon must be present")),
            f3: s[3].as_ref().map(FromValue::from_value),
            f4: s[4].as_ref().map(FromValue::from_value),
        }
    }
}
impl ToValue for Ts5mmmoon {
    fn to_value(&self) -> Value {
        Value::Seq(vec![
            Some(self.f0.to_value()),
            Some(self.f1.to_value()),
            Some(self.f2.to_value()),
            self.f3.as_ref().map(|x| x.to_value()),
            self.f4.as_ref().map(|x| x.to_value()),
        ])
    }
}
impl FromValue for Ts5mmmooe0 {
    fn from_value(v: &Value) -> Self {
        let s = match v { Value::Seq(s) => s, other => panic!("Ts5mmmooe0: expected Seq, got {other:?}") };
        assert_eq!(s.len(), 5, "Ts5mmmooe0: component count");
        let _ = s;
        Ts5mmmooe0 {
            f0: FromValue::from_value(s[0].as_ref().expect("component f0 of Ts5mmmooe0 must be present")),
            f1: s[1].as_ref().map(FromValue::from_value),
            f2: s[2].as_ref().map(FromValue::from_value),
            f3: s[3].as_ref().map(FromValue::from_value),
            f4: s[4].as_ref().map(FromValue::from_value),
        }
    }
}
impl ToValue for Ts5mmmooe0 {
    fn to_value(&self) -> Value {
        Value::Seq(vec![
            Some(self.f0.to_value()),
            self.f1.as_ref().map(|x| x.to_value()),
            self.f2.as_ref().map(|x| x.to_value()),
            self.f3.as_ref().map(|x| x.to_value()),
            self.f4.as_ref().map(|x| x.to_value()),
        ])
    }
}
impl FromValue for Ts5mmmooe1 {
    fn from_value(v: &Value) -> Self {
        let s = match v { Value::Seq(s) => s, other => panic!("Ts5mmmooe1: expected Seq, got {other:?}") };
        assert_eq!(s.len(), 5, "Ts5mmmooe1: component count");
        let _ = s;
        Ts5mmmooe1 {
            f0: FromValue::from_value(s[0].as_ref().expect("component f0 of Ts5mmmooe1 must be present")),
            f1: s[1].as_ref().map(FromValue::from_value),
            f2: s[2].as_ref().map(FromValue::from_value),
            f3: s[3].as_ref().map(FromValue::from_value),
            f4: s[4].as_ref().map(FromValue::from_value),
        }
    }
}
impl ToValue for Ts5mmmooe1 {
    fn to_value(&self) -> Value {
        Value::Seq(vec![
            Some(self.f0.to_value()),
            self.f1.as_ref().map(|x| x.to_value()),
            self.f2.as_ref().map(|x| x.to_value()),
            self.f3.as_ref().map(|x| x.to_value()),
            self.f4.as_ref().map(|x| x.to_value()),
        ])
    }
}
impl FromValue for Ts5mmmooe2 {
    fn from_value(v: &Value) -> Self {
        let s = match v { Value::Seq(s) => s, other => panic!("Ts5mmmooe2: expected Seq, got {other:?}") };
        assert_eq!(s.len(), 5, "Ts5mmmooe2: component count");
        let _ = s;
        Ts5mmmooe2 {
            f0: FromValue::from_value(s[0].as_ref().expect("component f0 of Ts5mmmooe2 must be present")),
            f1: FromValue::from_value(s[1].as_ref().expect("component f1 of Ts5mmmooe2 must be present")),
            f2: s[2].as_ref().map(FromValue::from_value),
            f3: s[3].as_ref().map(FromValue::from_value),
            f4: s[4].as_ref().map(FromValue::from_value),
        }
    }
}
impl ToValue for Ts5mmmooe2 {
    fn to_value(&self) -> Value {
        Value::Seq(vec![
            Some(self.f0.to_value()),
            Some(self.f1.to_value()),
            self.f2.as_ref().map(|x| x.to_value()),
            self.f3.as_ref().map(|x| x.to_value()),
            self.f4.as_ref().map(|x| x.to_value()),
        ])
    }
}
impl FromValue for Ts5mmmooe3 {
    fn from_value(v: &Value) -> Self {
        let s = match v { Value::Seq(s) => s, other => panic!("Ts5mmmooe3: expected Seq, got {other:?}") };
        assert_eq!(s.len(), 5, "Ts5mmmooe3: component count");
        let _ = s;
        Ts5mmmooe3 {
            f0: FromValue::from_value(s[0].as_ref().expect("component f0 of Ts5mmmooe3 must be present")),
            f1: FromValue::from_value(s[1].as_ref().expect("component f1 of Ts5mmmooe3 must be present")),
            f2: FromValue::from_value(s[2].as_ref().expect("component f2 of Ts5mmmooe3 must be present")),
            f3: s[3].as_ref().map(FromValue::from_value),
            f4: s[4].as_ref().map(FromValue::from_value),
        }
    }
}
impl ToValue for Ts5mmmooe3 {
    fn to_value(&self) -> Value {
        Value::Seq(vec![
            Some(self.f0.to_value()),
            Some(self.f1.to_value()),
            Some(self.f2.to_value()),
            self.f3.as_ref().map(|x| x.to_value()),
            self.f4.as_ref().map(|x| x.to_value()),
        ])
    }
}
impl FromValue for Ts5mmmooe4 {
    fn from_value(v: &Value) -> Self {
        let s = match v { Value::Seq(s) => s, other => panic!("Ts5mmmooe4: expected Seq, got {other:?}") };
        assert_eq!(s.len(), 5, "Ts5mmmooe4: component count");
        let _ = s;
        Ts5mmmooe4 {
            f0: FromValue::from_value(s[0].as_ref().expect("component f0 of Ts5mmmooe4 must be present")),
            f1: FromValue::from_value(s[1].as_ref().expect("component f1 of Ts5mmmooe4 must be present")),
            f2: FromValue::from_value(s[2].as_ref().expect("component f2 of Ts5mmmooe4 must be present")),
            f3: s[3].as_ref().map(FromValue::from_value),
            f4: s[4].as_ref().map(FromValue::from_value),
        }
    }
}
impl ToValue for Ts5mmmooe4 {
    fn to_value(&self) -> Value {
        Value::Seq(vec![
            Some(self.f0.to_value()),
            Some(self.f1.to_value()),
            Some(self.f2.to_value()),
            self.f3.as_ref().map(|x| x.to_value()),
            self.f4.as_ref().map(|x| x.to_value()),
        ])
    }
}
impl FromValue for Ts5mmmooe5 {
    fn from_value(v: &Value) -> Self {
        let s = match v { Value::Seq(s) => s, other => panic!("Ts5mmmooe5: expected Seq, got {other:?}") };
        assert_eq!(s.len(), 5, "Ts5mmmooe5: component count");
        let _ = s;
        Ts5mmmooe5 {
            f0: FromValue::from_value(s[0].as_ref().expect("component f0 of Ts5mmmooe5 must be present")),
            f1: FromValue::from_value(s[1].as_ref().expect("component f1 of Ts5mmmooe5 must be present")),
            f2: FromValue::from_value(s[2].as_ref().expect("component f2 of Ts5mmmooe5 must be present")),
            f3: s[3].as_ref().map(FromValue::from_value),
            f4: s[4].as_ref().map(FromValue::from_value),
        }
    }
}
impl ToValue for Ts5mmmooe5 {
    fn to_value(&self) -> Value {
        Value::Seq(vec![
            Some(self.f0.to_value()),
            Some(self.f1.to_value()),
            Some(self.f2.to_value()),
            self.f3.as_ref().map(|x| x.to_value()),
            self.f4.as_ref().map(|x| x.to_value()),
        ])
    }
}
impl FromValue for Ts5ommoon {
    fn from_value(v: &Value) -> Self {
        let s = match v { Value::Seq(s) => s, other => panic!("Ts5ommoon: expected Seq, got {other:?}") };
        assert_eq!(s.len(), 5, "Ts5ommoon: component count");
        let _ = s;
        Ts5ommoon {
            f0: s[0].as_ref().map(FromValue::from_value),
            f1: FromValue::from_value(s[1].as_ref().expect("component f1 of Ts5ommoon must be present")),
            f2: FromValue::from_value(s[2].as_ref().expect("component f2 of Ts5ommoon must be present")),
            f3: s[3].as_ref().map(FromValue::from_value),
            f4: s[4].as_ref().map(FromValue::from_value),
        }
    }
}
impl ToValue for Ts5ommoon {
    fn to_value(&self) -> Value {
        Value::Seq(vec![
            self.f0.as_ref().map(|x| x.to_value()),
            Some(self.f1.to_value()),
            Some(self.f2.to_value()),
            self.f3.as_ref().map(|x| x.to_value()),
            self.f4.as_ref().map(|x| x.to_value()),
        ])
    }
}
impl FromValue for Ts5ommooe0 {
    fn from_value(v: &Value) -> Self {
        let s = match v { Value::Seq(s) => s, other => panic!("Ts5ommooe0: expected Seq, got {other:?}") };
        assert_eq!(s.len(), 5, "Ts5ommooe0: component count");
        let _ = s;
        Ts5ommooe0 {
            f0: s[0].as_ref().map(FromValue::from_value),
            f1: s[1].as_ref().map(FromValue::from_value),
            f2: s[2].as_ref().map(FromValue::from_value),
            f3: s[3].as_ref().map(FromValue::from_value),
            f4: s[4].as_ref().map(FromValue::from_value),
        }
    }
}
impl ToValue for Ts5ommooe0 {
    fn to_value(&self) -> Value {
        Value::Seq(vec![
            self.f0.as_ref().map(|x| x.to_value()),
            self.f1.as_ref().map(|x| x.to_value()),
            self.f2.as_ref().map(|x| x.to_value()),
            self.f3.as_ref().map(|x| x.to_value()),
            self.f4.as_ref().map(|x| x.to_value()),
        ])
    }
}
impl FromValue for Ts5ommooe1 {
    fn from_value(v: &Value) -> Self {
        let s = match v { Value::Seq(s) => s, other => panic!("Ts5ommooe1: expected Seq, got {other:?}") };
        assert_eq!(s.len(), 5, "Ts5ommooe1: component count");
        let _ = s;
        Ts5ommooe1 {
            f0: s[0].as_ref().map(FromValue::from_value),
            f1: s[1].as_ref().map(FromValue::from_value),
            f2: s[2].as_ref().map(FromValue::from_value),
            f3: s[3].as_ref().map(FromValue::from_value),
            f4: s[4].as_ref().map(FromValue::from_value),
        }
    }
}
impl ToValue for Ts5ommooe1 {
    fn to_value(&self) -> Value {
        Value::Seq(vec![
            self.f0.as_ref().map(|x| x.to_value()),
            self.f1.as_ref().map(|x| x.to_value()),
            self.f2.as_ref().map(|x| x.to_value()),
            self.f3.as_ref().map(|x| x.to_value()),
            self.f4.as_ref().map(|x| x.to_value()),
        ])
    }
}
impl FromValue for Ts5ommooe2 {
    fn from_value(v: &Value) -> Self {
        let s = match v { Value::Seq(s) => s, other => panic!("Ts5ommooe2: expected Seq, got {other:?}") };
        assert_eq!(s.len(), 5, "Ts5ommooe2: component count");
        let _ = s;
        Ts5ommooe2 {
            f0: s[0].as_ref().map(FromValue::from_value),
            f1: FromValue::from_value(s[1].as_ref().expect("component f1 of Ts5ommooe2 must be present")),
            f2: s[2].as_ref().map(FromValue::from_value),
            f3: s[3].as_ref().map(FromValue::from_value),
            f4: s[4].as_ref().map(FromValue::from_value),
        }
    }
}
impl ToValue for Ts5ommooe2 {
    fn to_value(&self) -> Value {
        Value::Seq(vec![
            self.f0.as_ref().map(|x| x.to_value()),
            Some(self.f1.to_value()),
            self.f2.as_ref().map(|x| x.to_value()),
            self.f3.as_ref().map(|x| x.to_value()),
            self.f4.as_ref().map(|x| x.to_value()),
        ])
    }
}
impl FromValue for Ts5ommooe3 {
    fn from_value(v: &Value) -> Self {
        let s = match v { Value::Seq(s) => s, other => panic!("Ts5ommooe3: expected Seq, got {other:?}") };
        assert_eq!(s.len(), 5, "Ts5ommooe3: component count");
        let _ = s;
        Ts5ommooe3 {
            f0: s[0].as_ref().map(FromValue::from_value),
            f1: FromValue::from_value(s[1].as_ref().expect("component f1 of Ts5ommooe3 must be present")),
            f2: FromValue::from_value(s[2].as_ref().expect("component f2 of Ts5ommooe3 must be present")),
            f3: s[3].as_ref().map(FromValue::from_value),
            f4: s[4].as_ref().map(FromValue::from_value),
        }
    }
}
impl ToValue for Ts5ommooe3 {
    fn to_value(&self) -> Value {
        Value::Seq(vec![
            self.f0.as_ref().map(|x| x.to_value()),
            Some(self.f1.to_value()),
            Some(self.f2.to_value()),
            self.f3.as_ref().map(|x| x.to_value()),
            self.f4.as_ref().map(|x| x.to_value()),
        ])
    }
}
impl FromValue for Ts5ommooe4 {
    fn from_value(v: &Value) -> Self {
        let s = match v { Value::Seq(s) => s, other => panic!("Ts5ommooe4: expected Seq, got {other:?}") };
        assert_eq!(s.len(), 5, "Ts5ommooe4: component count");
        let _ = s;
        Ts5ommooe4 {
            f0: s[0].as_ref().map(FromValue::from_value),
            f1: FromValue::from_value(s[1].as_ref().expect("component f1 of Ts5ommooe4 must be present")),
            f2: FromValue::from_value(s[2].as_ref().expect("component f2 of Ts5ommooe4 must be present")),
            f3: s[3].as_ref().map(FromValue::from_value),
            f4: s[4].as_ref().map(FromValue::from_value),
        }
    }
}
impl ToValue for Ts5ommooe4 {
    fn to_value(&self) -> Value {
        Value::Seq(vec![
            self.f0.as_ref().map(|x| x.to_value()),
            Some(self.f1.to_value()),
            Some(self.f2.to_value()),
            self.f3.as_ref().map(|x| x.to_value()),
            self.f4.as_ref().map(|x| x.to_value()),
        ])
    }
}
impl FromValue for Ts5ommooe5 {
    fn from_value(v: &Value) -> Self {
        let s = match v { Value::Seq(s) => s, other => panic!("Ts5ommooe5: expected Seq, got {other:?}") };
        assert_eq!(s.len(), 5, "Ts5ommooe5: component count");
        let _ = s;
        Ts5ommooe5 {
            f0: s[0].as_ref().map(FromValue::from_value),
            f1: FromValue::from_value(s[1].as_ref().expect("component f1 of Ts5ommooe5 must be present")),
            f2: FromValue::from_value(s[2].as_ref().expect("component f2 of Ts5ommooe5 must be present")),
            f3: s[3].as_ref().map(FromValue::from_value),
            f4: s[4].as_ref().map(FromValue::from_value),
        }
    }
}
impl ToValue for Ts5ommooe5 {
    fn to_value(&self) -> Value {
        Value::Seq(vec![
            self.f0.as_ref().map(|x| x.to_value()),
            Some(self.f1.to_value()),
            Some(self.f2.to_value()),
            self.f3.as_ref().map(|x| x.to_value()),
            self.f4.as_ref().map(|x| x.to_value()),
        ])
    }
}
impl FromValue for Ts5dmmoon {
    fn from_value(v: &Value) -> Self {
        let s = match v { Value::Seq(s) => s, other => panic!("Ts5dmmoon: expected Seq, got {other:?}") };
        assert_eq!(s.len(), 5, "Ts5dmmoon: component count");
        let _ = s;
        Ts5dmmoon {
            f0: FromValue::from_value(s[0].as_ref().expect("component f0 of Ts5dmmoon must be present")),
            f1: FromValue::from_value(s[1].as_ref().expect("component f1 of Ts5dmmoon must be present")),
            f2: FromValue::from_value(s[2].as_ref().expect("component f2 of Ts5dmmoon must be present")),
            f3: s[3].as_ref().map(FromValue::from_value),
            f4: s[4].as_ref().map(FromValue::from_value),
        }
    }
}
impl ToValue for Ts5dmmoon {
    fn to_value(&self) -> Value {
        Value::Seq(vec![
            Some(self.f0.to_value()),
            Some(self.f1.to_value()),
            Some(self.f2.to_value()),
            self.f3.as_ref().map(|x| x.to_value()),
            self.f4.as_ref().map(|x| x.to_value()),
        ])
    }
}
impl FromValue for Ts5dmmooe0 {
    fn from_value(v: &Value) -> Self {
        let s = match v { Value::Seq(s) => s, other => panic!("Ts5dmmooe0: expected Seq, got {other:?}") };
        assert_eq!(s.len(), 5, "Ts5dmmooe0: component count");
        let _ = s;
        Ts5dmmooe0 {
            f0: FromValue::from_value(s[0].as_ref().expect("component f0 of Ts5dmmooe0 must be present")),
            f1: s[1].as_ref().map(FromValue::from_value),
            f2: s[2].as_ref().map(FromValue::from_value),
            f3: s[3].as_ref().map(FromValue::from_value),
            f4: s[4].as_ref().map(FromValue::from_value),
        }
    }
}
impl ToValue for Ts5dmmooe0 {
    fn to_value(&self) -> Value {
        Value::Seq(vec![
            Some(self.f0.to_value()),
            self.f1.as_ref().map(|x| x.to_value()),
            self.f2.as_ref().map(|x| x.to_value()),
            self.f3.as_ref().map(|x| x.to_value()),
            self.f4.as_ref().map(|x| x.to_value()),
        ])
    }
}
impl FromValue for Ts5dmmooe1 {
    fn from_value(v: &Value) -> Self {
        let s = match v { Value::Seq(s) => s, other => panic!("Ts5dmmooe1: expected Seq, got {other:?}") };
        assert_eq!(s.len(), 5, "Ts5dmmooe1: component count");
        let _ = s;
        Ts5dmmooe1 {
            f0: FromValue::from_value(s[0].as_ref().expect("component f0 of Ts5dmmooe1 must be present")),
            f1: s[1].as_ref().map(FromValue::from_value),
            f2: s[2].as_ref().map(FromValue::from_value),
            f3: s[3].as_ref().map(FromValue::from_value),
            f4: s[4].as_ref().map(FromValue::from_value),
        }
    }
}
impl ToValue for Ts5dmmooe1 {
    fn to_value(&self) -> Value {
        Value::Seq(vec![
            Some(self.f0.to_value()),
            self.f1.as_ref().map(|x| x.to_value()),
            self.f2.as_ref().map(|x| x.to_value()),
            self.f3.as_ref().map(|x| x.to_value()),
            self.f4.as_ref().map(|x| x.to_value()),
        ])
    }
}
impl FromValue for Ts5dmmooe2 {
    fn from_value(v: &Value) -> Self {
        let s = match v { Value::Seq(s) => s, other => panic!("Ts5dmmooe2: expected Seq, got {other:?}") };
        assert_eq!(s.len(), 5, "Ts5dmmooe2: component count");
        let _ = s;
        Ts5dmmooe2 {
            f0: FromValue::from_value(s[0].as_ref().expect("component f0 of Ts5dmmooe2 must be present")),
            f1: FromValue::from_value(s[1].as_ref().expect("component f1 of Ts5dmmooe2 must be present")),
            f2: s[2].as_ref().map(FromValue::from_value),
            f3: s[3].as_ref().map(FromValue::from_value),
            f4: s[4].as_ref().map(FromValue::from_value),
        }
    }
}
impl ToValue for Ts5dmmooe2 {
    fn to_value(&self) -> Value {
        Value::Seq(vec![
            Some(self.f0.to_value()),
            Some(self.f1.to_value()),
            self.f2.as_ref().map(|x| x.to_value()),
            self.f3.as_ref().map(|x| x.to_value()),
            self.f4.as_ref().map(|x| x.to_value()),
        ])
    }
}
impl FromValue for Ts5dmmooe3 {
    fn from_value(v: &Value) -> Self {
        let s = match v { Value::Seq(s) => s, other => panic!("Ts5dmmooe3: expected Seq, got {other:?}") };
        assert_eq!(s.len(), 5, "Ts5dmmooe3: component count");
        let _ = s;
        Ts5dmmooe3 {
            f0: FromValue::from_value(s[0].as_ref().expect("component f0 of Ts5dmmooe3 must be present")),
            f1: FromValue::from_value(s[1].as_ref().expect("component f1 of Ts5dmmooe3 must be present")),
            f2: FromValue::from_value(s[2].as_ref().expect("component f2 of Ts5dmmooe3 must be present")),
            f3: s[3].as_ref().map(FromValue::from_value),
            f4: s[4].as_ref().map(FromValue::from_value),
        }
    }
}
impl ToValue for Ts5dmmooe3 {
    fn to_value(&self) -> Value {
        Value::Seq(vec![
            Some(self.f0.to_value()),
            Some(self.f1.to_value()),
            Some(self.f2.to_value()),
            self.f3.as_ref().map(|x| x.to_value()),
            self.f4.as_ref().map(|x| x.to_value()),
        ])
    }
}
impl FromValue for Ts5dmmooe4 {
    fn from_value(v: &Value) -> Self {
        let s = match v { Value::Seq(s) => s, other => panic!("Ts5dmmooe4: expected Seq, got {other:?}") };
        assert_eq!(s.len(), 5, "Ts5dmmooe4: component count");
        let _ = s;
        Ts5dmmooe4 {
            f0: FromValue::from_value(s[0].as_ref().expect("component f0 of Ts5dmmooe4 must be present")),
            f1: FromValue::from_value(s[1].as_ref().expect("component f1 of Ts5dmmooe4 must be present")),
            f2: FromValue::from_value(s[2].as_ref().expect("component f2 of Ts5dmmooe4 must be present")),
            f3: s[3].as_ref().map(FromValue::from_value),
            f4: s[4].as_ref().map(FromValue::from_value),
        }
    }
}
impl ToValue for Ts5dmmooe4 {
    fn to_value(&self) -> Value {
        Value::Seq(vec![
            Some(self.f0.to_value()),
            Some(self.f1.to_value()),
            Some(self.f2.to_value()),
            self.f3.as_ref().map(|x| x.to_value()),
            self.f4.as_ref().map(|x| x.to_value()),
        ])
    }
}
impl FromValue for Ts5dmmooe5 {
    fn from_value(v: &Value) -> Self {
        let s = match v { Value::Seq(s) => s, other => panic!("Ts5dmmooe5: expected Seq, got {other:?}") };
        assert_eq!(s.len(), 5, "Ts5dmmooe5: component count");
        let _ = s;
        Ts5dmmooe5 {
            f0: FromValue::from_value(s[0].as_ref().expect("component f0 of Ts5dmmooe5 must be present")),
            f1: FromValue::from_value(s[1].as_ref().expect("component f1 of Ts5dmmooe5 must be present")),
            f2: FromValue::from_value(s[2].as_ref().expect("component f2 of Ts5dmmooe5 must be present")),
            f3: s[3].as_ref().map(FromValue::from_value),
            f4: s[4].as_ref().map(FromValue::from_value),
        }
    }
}
impl ToValue for Ts5dmmooe5 {
    fn to_value(&self) -> Value {
        Value::Seq(vec![
            Some(self.f0.to_value()),
            Some(self.f1.to_value()),
            Some(self.f2.to_value()),
            self.f3.as_ref().map(|x| x.to_value()),
            self.f4.as_ref().map(|x| x.to_value()),
        ])
    }
}
impl FromValue for Ts5momoon {
    fn from_value(v: &Value) -> Self {
        let s = match v { Value::Seq(s) => s, other => panic!("Ts5momoon: expected Seq, got {other:?}") };
        assert_eq!(s.len(), 5, "Ts5momoon: component count");
        let _ = s;
        Ts5momoon {
            f0: FromValue::from_value(s[0].as_ref().expect("component f0 of Ts5momoon must be present")),
            f1: s[1].as_ref().map(FromValue::from_value),
            f2: FromValue::from_value(s[2].as_ref().expect("component f2 of Ts5momoon must be present")),
            f3: s[3].as_ref().map(FromValue::from_value),
            f4: s[4].as_ref().map(FromValue::from_value),
        }
    }
}
impl ToValue for Ts5momoon {
    fn to_value(&self) -> Value {
        Value::Seq(vec![
            Some(self.f0.to_value()),
            self.f1.as_ref().map(|x| x.to_value()),
            Some(self.f2.to_value()),
            self.f3.as_ref().map(|x| x.to_value()),
            self.f4.as_ref().map(|x| x.to_value()),
        ])
    }
}
impl FromValue for Ts5momooe0 {
    fn from_value(v: &Value) -> Self {
        let s = match v { Value::Seq(s) => s, other => panic!("Ts5momooe0: expected Seq, got {other:?}") };
        assert_eq!(s.len(), 5, "Ts5momooe0: component count");
        let _ = s;
        Ts5momooe0 {
            f0: FromValue::from_value(s[0].as_ref().expect("component f0 of Ts5momooe0 must be present")),
            f1: s[1].as_ref().map(FromValue::from_value),
            f2: s[2].as_ref().map(FromValue::from_value),
            f3: s[3].as_ref().map(FromValue::from_value),
            f4: s[4].as_ref().map(FromValue::from_value),
        }
    }
}
impl ToValue for Ts5momooe0 {
    fn to_value(&self) -> Value {
        Value::Seq(vec![
            Some(self.f0.to_value()),
            self.f1.as_ref().map(|x| x.to_value()),
            self.f2.as_ref().map(|x| x.to_value()),
            self.f3.as_ref().map(|x| x.to_value()),
            self.f4.as_ref().map(|x| x.to_value()),
        ])
    }
}
impl FromValue for Ts5momooe1 {
    fn from_value(v: &Value) -> Self {
        let s = match v { Value::Seq(s) => s, other => panic!("Ts5momooe1: expected Seq, got {other:?}") };
        assert_eq!(s.len(), 5, "Ts5momooe1: component count");
        let _ = s;
        Ts5momooe1 {
            f0: FromValue::from_value(s[0].as_ref().expect("component f0 of Ts5momooe1 must be present")),
            f1: s[1].as_ref().map(FromValue::from_value),
            f2: s[2].as_ref().map(FromValue::from_value),
            f3: s[3].as_ref().map(FromValue::from_value),
            f4: s[4].as_ref().map(FromValue::from_value),
        }
    }
}
impl ToValue for Ts5momooe1 {
    fn to_value(&self) -> Value {
        Value::Seq(vec![
            Some(self.f0.to_value()),
            self.f1.as_ref().map(|x| x.to_value()),
            self.f2.as_ref().map(|x| x.to_value()),
            self.f3.as_ref().map(|x| x.to_value()),
            self.f4.as_ref().map(|x| x.to_value()),
        ])
    }
}
impl FromValue for Ts5momooe2 {
    fn from_value(v: &Value) -> Self {
        let s = match v { Value::Seq(s) => s, other => panic!("Ts5momooe2: expected Seq, got {other:?}") };
        assert_eq!(s.len(), 5, "Ts5momooe2: component count");
        let _ = s;
        Ts5momooe2 {
            f0: FromValue::from_value(s[0].as_ref().expect("component f0 of Ts5momooe2 must be present")),
            f1: s[1].as_ref().map(FromValue::from_value),
            f2: s[2].as_ref().map(FromValue::from_value),
            f3: s[3].as_ref().map(FromValue::from_value),
            f4: s[4].as_ref().map(FromValue::from_value),
        }
    }
}
impl ToValue for Ts5momooe2 {
    fn to_value(&self) -> Value {
        Value::Seq(vec![
            Some(self.f0.to_value()),
            self.f1.as_ref().map(|x| x.to_value()),
            self.f2.as_ref().map(|x| x.to_value()),
            self.f3.as_ref().map(|x| x.to_value()),
            self.f4.as_ref().map(|x| x.to_value()),
        ])
    }
}
impl FromValue for Ts5momooe3 {
    fn from_value(v: &Value) -> Self {
        let s = match v { Value::Seq(s) => s, other => panic!("Ts5momooe3: expected Seq, got {other:?}") };
        assert_eq!(s.len(), 5, "Ts5momooe3: component count");
        let _ = s;
        Ts5momooe3 {
            f0: FromValue::from_value(s[0].as_ref().expect("component f0 of Ts5momooe3 must be present")),
            f1: s[1].as_ref().map(FromValue::from_value),
            f2: FromValue::from_value(s[2].as_ref().expect("component f2 of Ts5momooe3 must be present")),
            f3: s[3].as_ref().map(FromValue::from_value),
            f4: s[4].as_ref().map(FromValue::from_value),
        }
    }
}
impl ToValue for Ts5momooe3 {
    fn to_value(&self) -> Value {
        Value::Seq(vec![
            Some(self.f0.to_value()),
            self.f1.as_ref().map(|x| x.to_value()),
            Some(self.f2.to_value()),
            self.f3.as_ref().map(|x| x.to_value()),
            self.f4.as_ref().map(|x| x.to_value()),
        ])
    }
}
impl FromValue for Ts5momooe4 {
    fn from_value(v: &Value) -> Self {
        let s = match v { Value::Seq(s) => s, other => panic!("Ts5momooe4: expected Seq, got {other:?}") };
        assert_eq!(s.len(), 5, "Ts5momooe4: component count");
        let _ = s;
        Ts5momooe4 {
            f0: FromValue::from_value(s[0].as_ref().expect("component f0 of Ts5momooe4 must be present")),
            f1: s[1].as_ref().map(FromValue::from_value),
            f2: FromValue::from_value(s[2].as_ref().expect("component f2 of Ts5momooe4 must be present")),
            f3: s[3].as_ref().map(FromValue::from_value),
            f4: s[4].as_ref().map(FromValue::from_value),
        }
    }
}
impl ToValue for Ts5momooe4 {
    fn to_value(&self) -> Value {
        Value::Seq(vec![
            Some(self.f0.to_value()),
            self.f1.as_ref().map(|x| x.to_value()),
            Some(self.f2.to_value()),
            self.f3.as_ref().map(|x| x.to_value()),
            self.f4.as_ref().map(|x| x.to_value()),
        ])
    }
}
impl FromValue for Ts5momooe5 {
    fn from_value(v: &Value) -> Self {
        let s = match v { Value::Seq(s) => s, other => panic!("Ts5momooe5: expected Seq, got {other:?}") };
        assert_eq!(s.len(), 5, "Ts5momooe5: component count");
        let _ = s;
        Ts5momooe5 {
            f0: FromValue::from_value(s[0].as_ref().expect("component f0 of Ts5momooe5 must be present")),
            f1: s[1].as_ref().map(FromValue::from_value),
            f2: FromValue::from_value(s[2].as_ref().expect("component f2 of Ts5momooe5 must be present")),
            f3: s[3].as_ref().map(FromValue::from_value),
            f4: s[4].as_ref().map(FromValue::from_value),
        }
    }
}
impl ToValue for Ts5momooe5 {
    fn to_value(&self) -> Value {
        Value::Seq(vec![
            Some(self.f0.to_value()),
            self.f1.as_ref().map(|x| x.to_value()),
            Some(self.f2.to_value()),
            self.f3.as_ref().map(|x| x.to_value()),
            self.f4.as_ref().map(|x| x.to_value()),
        ])
    }
}
impl FromValue for Ts5oomoon {
    fn from_value(v: &Value) -> Self {
        let s = match v { Value::Seq(s) => s, other => panic!("Ts5oomoon: expected Seq, got {other:?}") };
        assert_eq!(s.len(), 5, "Ts5oomoon: component count");
        let _ = s;
        Ts5oomoon {
            f0: s[0].as_ref().map(FromValue::from_value),
            f1: s[1].as_ref().map(FromValue::from_value),
            f2: FromValue::from_value(s[2].as_ref().expect("component f2 of Ts5oomoon must be present")),
            f3: s[3].as_ref().map(FromValue::from_value),
            f4: s[4].as_ref().map(FromValue::from_value),
        }
    }
}
impl ToValue for Ts5oomoon {
    fn to_value(&self) -> Value {
        Value::Seq(vec![
            self.f0.as_ref().map(|x| x.to_value()),
            self.f1.as_ref().map(|x| x.to_value()),
            Some(self.f2.to_value()),
            self.f3.as_ref().map(|x| x.to_value()),
            self.f4.as_ref().map(|x| x.to_value()),
        ])
    }
}
impl FromValue for Ts5oomooe0 {
    fn from_value(v: &Value) -> Self {
        let s = match v { Value::Seq(s) => s, other => panic!("Ts5oomooe0: expected Seq, got {other:?}") };
        assert_eq!(s.len(), 5, "Ts5oomooe0: component count");
        let _ = s;
        Ts5oomooe0 {
            f0: s[0].as_ref().map(FromValue::from_value),
            f1: s[1].as_ref().map(FromValue::from_value),
            f2: s[2].as_ref().map(FromValue::from_value),
            f3: s[3].as_ref().map(FromValue::from_value),
            f4: s[4].as_ref().map(FromValue::from_value),
        }
    }
}
impl ToValue for Ts5oomooe0 {
    fn to_value(&self) -> Value {
        Value::Seq(vec![
            self.f0.as_ref().map(|x| x.to_value()),
            self.f1.as_ref().map(|x| x.to_value()),
            self.f2.as_ref().map(|x| x.to_value()),
            self.f3.as_ref().map(|x| x.to_value()),
            self.f4.as_ref().map(|x| x.to_value()),
        ])
    }
}
impl FromValue for Ts5oomooe1 {
    fn from_value(v: &Value) -> Self {
        let s = match v { Value::Seq(s) => s, other => panic!("Ts5oomooe1: expected Seq, got {other:?}") };
        assert_eq!(s.len(), 5, "Ts5oomooe1: component count");
        let _ = s;
        Ts5oomooe1 {
            f0: s[0].as_ref().map(FromValue::from_value),
            f1: s[1].as_ref().map(FromValue::from_value),
            f2: s[2].as_ref().map(FromValue::from_value),
            f3: s[3].as_ref().map(FromValue::from_value),
            f4: s[4].as_ref().map(FromValue::from_value),
        }
    }
}
impl ToValue for Ts5oomooe1 {
    fn to_value(&self) -> Value {
        Value::Seq(vec![
            self.f0.as_ref().map(|x| x.to_value()),
            self.f1.as_ref().map(|x| x.to_value()),
            self.f2.as_ref().map(|x| x.to_value()),
            self.f3.as_ref().map(|x| x.to_value()),
            self.f4.as_ref().map(|x| x.to_value()),
        ])
    }
}
impl FromValue for Ts5oomooe2 {
    fn from_value(v: &Value) -> Self {
        let s = match v { Value::Seq(s) => s, other => panic!("Ts5oomooe2: expected Seq, got {other:?}") };
        assert_eq!(s.len(), 5, "Ts5oomooe2: component count");
        let _ = s;
        Ts5oomooe2 {
            f0: s[0].as_ref().map(FromValue::from_value),
            f1: s[1].as_ref().map(FromValue::from_value),
            f2: s[2].as_ref().map(FromValue::from_value),
            f3: s[3].as_ref().map(FromValue::from_value),
            f4: s[4].as_ref().map(FromValue::from_value),
        }
    }
}
impl ToValue for Ts5oomooe2 {
    fn to_value(&self) -> Value {
        Value::Seq(vec![
            self.f0.as_ref().map(|x| x.to_value()),
            self.f1.as_ref().map(|x| x.to_value()),
            self.f2.as_ref().map(|x| x.to_value()),
            self.f3.as_ref().map(|x| x.to_value()),
            self.f4.as_ref().map(|x| x.to_value()),
        ])
    }
}
impl FromValue for Ts5oomooe3 {
    fn from_value(v: &Value) -> Self {
        let s = match v { Value::Seq(s) => s, other => panic!("Ts5oomooe3: expected Seq, got {other:?}") };
        assert_eq!(s.len(), 5, "Ts5oomooe3: component count");
        let _ = s;
        Ts5oomooe3 {
            f0: s[0].as_ref().map(FromValue::from_value),
            f1: s[1].as_ref().map(FromValue::from_value),
            f2: FromValue::from_value(s[2].as_ref().expect("component f2 of Ts5oomooe3 must be present")),
            f3: s[3].as_ref().map(FromValue::from_value),
            f4: s[4].as_ref().map(FromValue::from_value),
        }
    }
}
impl ToValue for Ts5oomooe3 {
    fn to_value(&self) -> Value {
        Value::Seq(vec![
            self.f0.as_ref().map(|x| x.to_value()),
            self.f1.as_ref().map(|x| x.to_value()),
            Some(self.f2.to_value()),
            self.f3.as_ref().map(|x| x.to_value()),
            self.f4.as_ref().map(|x| x.to_value()),
        ])
    }
}
impl FromValue for Ts5oomooe4 {
    fn from_value(v: &Value) -> Self {
        let s = match v { Value::Seq(s) => s, other => panic!("Ts5oomooe4: expected Seq, got {other:?}") };
        assert_eq!(s.len(), 5, "Ts5oomooe4: component count");
        let _ = s;
        Ts5oomooe4 {
            f0: s[0].as_ref().map(FromValue::from_value),
            f1: s[1].as_ref().map(FromValue::from_value),
            f2: FromValue::from_value(s[2].as_ref().expect("component f2 of Ts5oomooe4 must be present")),
            f3: s[3].as_ref().map(FromValue::from_value),
            f4: s[4].as_ref().map(FromValue::from_value),
        }
    }
}
impl ToValue for Ts5oomooe4 {
    fn to_value(&self) -> Value {
        Value::Seq(vec![
            self.f0.as_ref().map(|x| x.to_value()),
            self.f1.as_ref().map(|x| x.to_value()),
            Some(self.f2.to_value()),
            self.f3.as_ref().map(|x| x.to_value()),
            self.f4.as_ref().map(|x| x.to_value()),
        ])
    }
}
impl FromValue for Ts5oomooe5 {
    fn from_value(v: &Value) -> Self {
        let s = match v { Value::Seq(s) => s, other => panic!("Ts5oomooe5: expected Seq, got {other:?}") };
        assert_eq!(s.len(), 5, "Ts5oomooe5: component count");
        let _ = s;
        Ts5oomooe5 {
            f0: s[0].as_ref().map(FromValue::from_value),
            f1: s[1].as_ref().map(FromValue::from_value),
            f2: FromValue::from_value(s[2].as_ref().expect("component f2 of Ts5oomooe5 must be present")),
            f3: s[3].as_ref().map(FromValue::from_value),
            f4: s[4].as_ref().map(FromValue::from_value),
        }
    }
}
impl ToValue for Ts5oomooe5 {
    fn to_value(&self) -> Value {
        Value::Seq(vec![
            self.f0.as_ref().map(|x| x.to_value()),
            self.f1.as_ref().map(|x| x.to_value()),
            Some(self.f2.to_value()),
            self.f3.as_ref().map(|x| x.to_value()),
            self.f4.as_ref().map(|x| x.to_value()),
        ])
    }
}
impl FromValue for Ts5domoon {
    fn from_value(v: &Value) -> Self {
        let s = match v { Value::Seq(s) => s, other => panic!("Ts5domoon: expected Seq, got {other:?}") };
        assert_eq!(s.len(), 5, "Ts5domoon: component count");
        let _ = s;
        Ts5domoon {
            f0: FromValue::from_value(s[0].as_ref().expect("component f0 of Ts5domoon must be present")),
            f1: s[1].as_ref().map(FromValue::from_value),
            f2: FromValue::from_value(s[2].as_ref().expect("component f2 of Ts5domoon must be present")),
            f3: s[3].as_ref().map(FromValue::from_value),
            f4: s[4].as_ref().map(FromValue::from_value),
        }
    }
}
impl ToValue for Ts5domoon {
    fn to_value(&self) -> Value {
        Value::Seq(vec![
            Some(self.f0.to_value()),
            self.f1.as_ref().map(|x| x.to_value()),
            Some(self.f2.to_value()),
            self.f3.as_ref().map(|x| x.to_value()),
            self.f4.as_ref().map(|x| x.to_value()),
        ])
    }
}
impl FromValue for Ts5domooe0 {
    fn from_value(v: &Value) -> Self {
        let s = match v { Value::Seq(s) => s, other => panic!("Ts5domooe0: expected Seq, got {other:?}") };
        assert_eq!(s.len(), 5, "Ts5domooe0: component count");
        let _ = s;
        Ts5domooe0 {
            f0: FromValue::from_value(s[0].as_ref().expect("component f0 of Ts5domooe0 must be present")),
            f1: s[1].as_ref().map(FromValue::from_value),
            f2: s[2].as_ref().map(FromValue::from_value),
            f3: s[3].as_ref().map(FromValue::from_value),
            f4: s[4].as_ref().map(FromValue::from_value),
        }
    }
}
impl ToValue for Ts5domooe0 {
    fn to_value(&self) -> Value {
        Value::Seq(vec![
            Some(self.f0.to_value()),
            self.f1.as_ref().map(|x| x.to_value()),
            self.f2.as_ref().map(|x| x.to_value()),
            self.f3.as_ref().map(|x| x.to_value()),
            self.f4.as_ref().map(|x| x.to_value()),
        ])
    }
}
impl FromValue for Ts5domooe1 {
    fn from_value(v: &Value) -> Self {
        let s = match v { Value::Seq(s) => s, other => panic!("Ts5domooe1: expected Seq, got {other:?}") };
        assert_eq!(s.len(), 5, "Ts5domooe1: component count");
        let _ = s;
        Ts5domooe1 {
            f0: FromValue::from_value(s[0].as_ref().expect("component f0 of Ts5domooe1 must be present")),
            f1: s[1].as_ref().map(FromValue::from_value),
            f2: s[2].as_ref().map(FromValue::from_value),
            f3: s[3].as_ref().map(FromValue::from_value),
            f4: s[4].as_ref().map(FromValue::from_value),
        }
    }
}
impl ToValue for Ts5domooe1 {
    fn to_value(&self) -> Value {
        Value::Seq(vec![
            Some(self.f0.to_value()),
            self.f1.as_ref().map(|x| x.to_value()),
            self.f2.as_ref().map(|x| x.to_value()),
            self.f3.as_ref().map(|x| x.to_value()),
            self.f4.as_ref().map(|x| x.to_value()),
        ])
    }
}
impl FromValue for Ts5domooe2 {
    fn from_value(v: &Value) -> Self {
        let s = match v { Value::Seq(s) => s, other => panic!("Ts5domooe2: expected Seq, got {other:?}") };
        assert_eq!(s.len(), 5, "Ts5domooe2: component count");
        let _ = s;
        Ts5domooe2 {
            f0: FromValue::from_value(s[0].as_ref().expect("component f0 of Ts5domooe2 must be present")),
            f1: s[1].as_ref().map(FromValue::from_value),
            f2: s[2].as_ref().map(FromValue::from_value),
            f3: s[3].as_ref().map(FromValue::from_value),
            f4: s[4].as_ref().map(FromValue::from_value),
        }
    }
}
impl ToValue for Ts5domooe2 {
    fn to_value(&self) -> Value {
        Value::Seq(vec![
            Some(self.f0.to_value()),
            self.f1.as_ref().map(|x| x.to_value()),
            self.f2.as_ref().map(|x| x.to_value()),
            self.f3.as_ref().map(|x| x.to_value()),
            self.f4.as_ref().map(|x| x.to_value()),
        ])
    }
}
impl FromValue for Ts5domooe3 {
    fn from_value(v: &Value) -> Self {
        let s = match v { Value::Seq(s) => s, other => panic!("Ts5domooe3: expected Seq, got {other:?}") };
        assert_eq!(s.len(), 5, "Ts5domooe3: component count");
        let _ = s;
        Ts5domooe3 {
            f0: FromValue::from_value(s[0].as_ref().expect("component f0 of Ts5domooe3 must be present")),
            f1: s[1].as_ref().map(FromValue::from_value),
            f2: FromValue::from_value(s[2].as_ref().expect("component f2 of Ts5domooe3 must be present")),
            f3: s[3].as_ref().map(FromValue::from_value),
            f4: s[4].as_ref().map(FromValue::from_value),
        }
    }
}
impl ToValue for Ts5domooe3 {
    fn to_value(&self) -> Value {
        Value::Seq(vec![
            Some(self.f0.to_value()),
            self.f1.as_ref().map(|x| x.to_value()),
            Some(self.f2.to_value()),
            self.f3.as_ref().map(|x| x.to_value()),
            self.f4.as_ref().map(|x| x.to_value()),
        ])
    }
}
impl FromValue for Ts5domooe4 {
    fn from_value(v: &Value) -> Self {
        let s = match v { Value::Seq(s) => s, other => panic!("Ts5domooe4: expected Seq, got {other:?}") };
        assert_eq!(s.len(), 5, "Ts5domooe4: component count");
        let _ = s;
        Ts5domooe4 {
            f0: FromValue::from_value(s[0].as_ref().expect("component f0 of Ts5domooe4 must be present")),
            f1: s[1].as_ref().map(FromValue::from_value),
            f2: FromValue::from_value(s[2].as_ref().expect("component f2 of Ts5domooe4 must be present")),
            f3: s[3].as_ref().map(FromValue::from_value),
            f4: s[4].as_ref().map(FromValue::from_value),
        }
    }
}
impl ToValue for Ts5domooe4 {
    fn to_value(&self) -> Value {
        Value::Seq(vec![
            Some(self.f0.to_value()),
            self.f1.as_ref().map(|x| x.to_value()),
            Some(self.f2.to_value()),
            self.f3.as_ref().map(|x| x.to_value()),
            self.f4.as_ref().map(|x| x.to_value()),
        ])
    }
}
impl FromValue for Ts5domooe5 {
    fn from_value(v: &Value) -> Self {
        let s = match v { Value::Seq(s) => s, other => panic!("Ts5domooe5: expected Seq, got {other:?}") };
        assert_eq!(s.len(), 5, "Ts5domooe5: component count");
        let _ = s;
        Ts5domooe5 {
            f0: FromValue::from_value(s[0].as_ref().expect("component f0 of Ts5domooe5 must be present")),
            f1: s[1].as_ref().map(FromValue::from_value),
            f2: FromValue::from_value(s[2].as_ref().expect("component f2 of Ts5domooe5 must be present")),
            f3: s[3].as_ref().map(FromValue::from_value),
            f4: s[4].as_ref().map(FromValue::from_value),
        }
    }
}
impl ToValue for Ts5domooe5 {
    fn to_value(&self) -> Value {
        Value::Seq(vec![
            Some(self.f0.to_value()),
            self.f1.as_ref().map(|x| x.to_value()),
            Some(self.f2.to_value()),
            self.f3.as_ref().map(|x| x.to_value()),
            self.f4.as_ref().map(|x| x.to_value()),
        ])
    }
}
impl FromValue for Ts5mdmoon {
    fn from_value(v: &Value) -> Self {
        let s = match v { Value::Seq(s) => s, other => panic!("Ts5mdmoon: expected Seq, got {other:?}") };
        assert_eq!(s.len(), 5, "Ts5mdmoon: component count");
        let _ = s;
        Ts5mdmoon {
            f0: FromValue::from_value(s[0].as_ref().expect("component f0 of Ts5mdmoon must be present")),
            f1: FromValue::from_value(s[1].as_ref().expect("component f1 of Ts5mdmoon must be present")),
            f2: FromValue::from_value(s[2].as_ref().expect("component f2 of Ts5mdmoon must be present")),
            f3: s[3].as_ref().map(FromValue::from_value),
            f4: s[4].as_ref().map(FromValue::from_value),
        }
    }
}
impl ToValue for Ts5mdmoon {
    fn to_value(&self) -> Value {
        Value::Seq(vec![
            Some(self.f0.to_value()),
            Some(self.f1.to_value()),
            Some(self.f2.to_value()),
            self.f3.as_ref().map(|x| x.to_value()),
            self.f4.as_ref().map(|x| x.to_value()),
        ])
    }
}
impl FromValue for Ts5mdmooe0 {
    fn from_value(v: &Value) -> Self {
        let s = match v { Value::Seq(s) => s, other => panic!("Ts5mdmooe0: expected Seq, got {other:?}") };
        assert_eq!(s.len(), 5, "Ts5mdmooe0: component count");
        let _ = s;
        Ts5mdmooe0 {
            f0: FromValue::from_value(s[0].as_ref().expect("component f0 of Ts5mdmooe0 must be present")),
            f1: FromValue::from_value(s[1].as_ref().expect("component f1 of Ts5mdmooe0 must be present")),
            f2: s[2].as_ref().map(FromValue::from_value),
            f3: s[3].as_ref().map(FromValue::from_value),
            f4: s[4].as_ref().map(FromValue::from_value),
        }
    }
}
impl ToValue for Ts5mdmooe0 {
    fn to_value(&self) -> Value {
        Value::Seq(vec![
            Some(self.f0.to_value()),
            Some(self.f1.to_value()),
            self.f2.as_ref().map(|x| x.to_value()),
            self.f3.as_ref().map(|x| x.to_value()),
            self.f4.as_ref().map(|x| x.to_value()),
        ])
    }
}
impl FromValue for Ts5mdmooe1 {
    fn from_value(v: &Value) -> Self {
        let s = match v { Value::Seq(s) => s, other => panic!("Ts5mdmooe1: expected Seq, got {other:?}") };
        assert_eq!(s.len(), 5, "Ts5mdmooe1: component count");
        let _ = s;
        Ts5mdmooe1 {
            f0: FromValue::from_value(s[0].as_ref().expect("component f0 of Ts5mdmooe1 must be present")),
            f1: FromValue::from_value(s[1].as_ref().expect("component f1 of Ts5mdmooe1 must be present")),
            f2: s[2].as_ref().map(FromValue::from_value),
            f3: s[3].as_ref().map(FromValue::from_value),
            f4: s[4].as_ref().map(FromValue::from_value),
        }
    }
}
impl ToValue for Ts5mdmooe1 {
    fn to_value(&self) -> Value {
        Value::Seq(vec![
            Some(self.f0.to_value()),
            Some(self.f1.to_value()),
            self.f2.as_ref().map(|x| x.to_value()),
            self.f3.as_ref().map(|x| x.to_value()),
            self.f4.as_ref().map(|x| x.to_value()),
        ])
    }
}
impl FromValue for Ts5mdmooe2 {
    fn from_value(v: &Value) -> Self {
        let s = match v { Value::Seq(s) => s, other => panic!("Ts5mdmooe2: expected Seq, got {other:?}") };
        assert_eq!(s.len(), 5, "Ts5mdmooe2: component count");
        let _ = s;
        Ts5mdmooe2 {
            f0: FromValue::from_value(s[0].as_ref().expect("component f0 of Ts5mdmooe2 must be present")),
            f1: FromValue::from_value(s[1].as_ref().expect("component f1 of Ts5mdmooe2 must be present")),
            f2: s[2].as_ref().map(FromValue::from_value),
            f3: s[3].as_ref().map(FromValue::from_value),
            f4: s[4].as_ref().map(FromValue::from_value),
        }
    }
}
impl ToValue for Ts5mdmooe2 {
    fn to_value(&self) -> Value {
        Value::Seq(vec![
            Some(self.f0.to_value()),
            Some(self.f1.to_value()),
            self.f2.as_ref().map(|x| x.to_value()),
            self.f3.as_ref().map(|x| x.to_value()),
            self.f4.as_ref().map(|x| x.to_value()),
        ])
    }
}
impl FromValue for Ts5mdmooe3 {
    fn from_value(v: &Value) -> Self {
        let s = match v { Value::Seq(s) => s, other => panic!("Ts5mdmooe3: expected Seq, got {other:?}") };
        assert_eq!(s.len(), 5, "Ts5mdmooe3: component count");
        let _ = s;
        Ts5mdmooe3 {
            f0: FromValue::from_value(s[0].as_ref().expect("component f0 of Ts5mdmooe3 must be present")),
            f1: FromValue::from_value(s[1].as_ref().expect("component f1 of Ts5mdmooe3 must be present")),
            f2: FromValue::from_value(s[2].as_ref().expect("component f2 of Ts5mdmooe3 must be present")),
            f3: s[3].as_ref().map(FromValue::from_value),
            f4: s[4].as_ref().map(FromValue::from_value),
        }
    }
}
impl ToValue for Ts5mdmooe3 {
    fn to_value(&self) -> Value {
        Value::Seq(vec![
            Some(self.f0.to_value()),
            Some(self.f1.to_value()),
            Some(self.f2.to_value()),
            self.f3.as_ref().map(|x| x.to_value()),
            self.f4.as_ref().map(|x| x.to_value()),
        ])
    }
}
impl FromValue for Ts5mdmooe4 {
    fn from_value(v: &Value) -> Self {
        let s = match v { Value::Seq(s) => s, other => panic!("Ts5mdmooe4: expected Seq, got {other:?}") };
        assert_eq!(s.len(), 5, "Ts5mdmooe4: component count");
        let _ = s;
        Ts5mdmooe4 {
            f0: FromValue::from_value(s[0].as_ref().expect("component f0 of Ts5mdmooe4 must be present")),
            f1: FromValue::from_value(s[1].as_ref().expect("component f1 of Ts5mdmooe4 must be present")),
            f2: FromValue::from_value(s[2].as_ref().expect("component f2 of Ts5mdmooe4 must be present")),
            f3: s[3].as_ref().map(FromValue::from_value),
            f4: s[4].as_ref().map(FromValue::from_value),
        }
    }
}
impl ToValue for Ts5mdmooe4 {
    fn to_value(&self) -> Value {
        Value::Seq(vec![
            Some(self.f0.to_value()),
            Some(self.f1.to_value()),
            Some(self.f2.to_value()),
            self.f3.as_ref().map(|x| x.to_value()),
            self.f4.as_ref().map(|x| x.to_value()),
        ])
    }
}
impl FromValue for Ts5mdmooe5 {
    fn from_value(v: &Value) -> Self {
        let s = match v { Value::Seq(s) => s, other => panic!("Ts5mdmooe5: expected Seq, got {other:?}") };
        assert_eq!(s.len(), 5, "Ts5mdmooe5: component count");
        let _ = s;
        Ts5mdmooe5 {
            f0: FromValue::from_value(s[0].as_ref().expect("component f0 of Ts5mdmooe5 must be present")),
            f1: FromValue::from_value(s[1].as_ref().expect("component f1 of Ts5mdmooe5 must be present")),
            f2: FromValue::from_value(s[2].as_ref().expect("component f2 of Ts5mdmooe5 must be present")),
            f3: s[3].as_ref().map(FromValue::from_value),
            f4: s[4].as_ref().map(FromValue::from_value),
        }
    }
}
impl ToValue for Ts5mdmooe5 {
    fn to_value(&self) -> Value {
        Value::Seq(vec![
            Some(self.f0.to_value()),
            Some(self.f1.to_value()),
            Some(self.f2.to_value()),
            self.f3.as_ref().map(|x| x.to_value()),
            self.f4.as_ref().map(|x| x.to_value()),
        ])
    }
}
impl FromValue for Ts5odmoon {
    fn from_value(v: &Value) -> Self {
        let s = match v { Value::Seq(s) => s, other => panic!("Ts5odmoon: expected Seq, got {other:?}") };
        assert_eq!(s.len(), 5, "Ts5odmoon: component count");
        let _ = s;
        Ts5odmoon {
            f0: s[0].as_ref().map(FromValue::from_value),
            f1: FromValue::from_value(s[1].as_ref().expect("component f1 of Ts5odmoon must be present")),
            f2: FromValue::from_value(s[2].as_ref().expect("component f2 of Ts5odmoon must be present")),
            f3: s[3].as_ref().map(FromValue::from_value),
            f4: s[4].as_ref().map(FromValue::from_value),
        }
    }
}
impl ToValue for Ts5odmoon {
    fn to_value(&self) -> Value {
        Value::Seq(vec![
            self.f0.as_ref().map(|x| x.to_value()),
            Some(self.f1.to_value()),
            Some(self.f2.to_value()),
            self.f3.as_ref().map(|x| x.to_value()),
            self.f4.as_ref().map(|x| x.to_value()),
        ])
    }
}
impl FromValue for Ts5odmooe0 {
    fn from_value(v: &Value) -> Self {
        let s = match v { Value::Seq(s) => s, other => panic!("Ts5odmooe0: expected Seq, got {other:?}") };
        assert_eq!(s.len(), 5, "Ts5odmooe0: component count");
        let _ = s;
        Ts5odmooe0 {
            f0: s[0].as_ref().map(FromValue::from_value),
            f1: FromValue::from_value(s[1].as_ref().expect("component f1 of Ts5odmooe0 must be present")),
            f2: s[2].as_ref().map(FromValue::from_value),
            f3: s[3].as_ref().map(FromValue::from_value),
            f4: s[4].as_ref().map(FromValue::from_value),
        }
    }
}
impl ToValue for Ts5odmooe0 {
    fn to_value(&self) -> Value {
        Value::Seq(vec![
            self.f0.as_ref().map(|x| x.to_value()),
            Some(self.f1.to_value()),
            self.f2.as_ref().map(|x| x.to_value()),
            self.f3.as_ref().map(|x| x.to_value()),
            self.f4.as_ref().map(|x| x.to_value()),
        ])
    }
}
impl FromValue for Ts5odmooe1 {
    fn from_value(v: &Value) -> Self {
        let s = match v { Value::Seq(s) => s, other => panic!("Ts5odmooe1: expected Seq, got {other:?}") };
        assert_eq!(s.len(), 5, "Ts5odmooe1: component count");
        let _ = s;
        Ts5odmooe1 {
            f0: s[0].as_ref().map(FromValue::from_value),
            f1: FromValue::from_value(s[1].as_ref().expect("component f1 of Ts5odmooe1 must be present")),
            f2: s[2].as_ref().map(FromValue::from_value),
            f3: s[3].as_ref().map(FromValue::from_value),
            f4: s[4].as_ref().map(FromValue::from_value),
        }
    }
}
impl ToValue for Ts5odmooe1 {
    fn to_value(&self) -> Value {
        Value::Seq(vec![
            self.f0.as_ref().map(|x| x.to_value()),
            Some(self.f1.to_value()),
            self.f2.as_ref().map(|x| x.to_value()),
            self.f3.as_ref().map(|x| x.to_value()),
            self.f4.as_ref().map(|x| x.to_value()),
        ])
    }
}
impl FromValue for Ts5odmooe2 {
    fn from_value(v: &Value) -> Self {
        let s = match v { Value::Seq(s) => s, other => panic!("Ts5odmooe2: expected Seq, got {other:?}") };
        assert_eq!(s.len(), 5, "Ts5odmooe2: component count");
        let _ = s;
        Ts5odmooe2 {
            f0: s[0].as_ref().map(FromValue::from_value),
            f1: FromValue::from_value(s[1].as_ref().expect("component f1 of Ts5odmooe2 must be present")),
            f2: s[2].as_ref().map(FromValue::from_value),
            f3: s[3].as_ref().map(FromValue::from_value),
            f4: s[4].as_ref().map(FromValue::from_value),
        }
    }
}
impl ToValue for Ts5odmooe2 {
    fn to_value(&self) -> Value {
        Value::Seq(vec![
            self.f0.as_ref().map(|x| x.to_value()),
            Some(self.f1.to_value()),
            self.f2.as_ref().map(|x| x.to_value()),
            self.f3.as_ref().map(|x| x.to_value()),
            self.f4.as_ref().map(|x| x.to_value()),
        ])
    }
}
impl FromValue for Ts5odmooe3 {
    fn from_value(v: &Value) -> Self {
        let s = match v { Value::Seq(s) => s, other => panic!("Ts5odmooe3: expected Seq, got {other:?}") };
        assert_eq!(s.len(), 5, "Ts5odmooe3: component count");
        let _ = s;
        Ts5odmooe3 {
            f0: s[0].as_ref().map(FromValue::from_value),
            f1: FromValue::from_value(s[1].as_ref().expect("component f1 of Ts5odmooe3 must be present")),
            f2: FromValue::from_value(s[2].as_ref().expect("component f2 of Ts5odmooe3 must be present")),
            f3: s[3].as_ref().map(FromValue::from_value),
            f4: s[4].as_ref().map(FromValue::from_value),
        }
    }
}
impl ToValue for Ts5odmooe3 {
    fn to_value(&self) -> Value {
        Value::Seq(vec![
            self.f0.as_ref().map(|x| x.to_value()),
            Some(self.f1.to_value()),
            Some(self.f2.to_value()),
            self.f3.as_ref().map(|x| x.to_value()),
            self.f4.as_ref().map(|x| x.to_value()),
        ])
    }
}
impl FromValue for Ts5odmooe4 {
    fn from_value(v: &Value) -> Self {
        let s = match v { Value::Seq(s) => s, other => panic!("Ts5odmooe4: expected Seq, got {other:?}") };
        assert_eq!(s.len(), 5, "Ts5odmooe4: component count");
        let _ = s;
        Ts5odmooe4 {
            f0: s[0].as_ref().map(FromValue::from_value),
            f1: FromValue::from_value(s[1].as_ref().expect("component f1 of Ts5odmooe4 must be present")),
            f2: FromValue::from_value(s[2].as_ref().expect("component f2 of Ts5odmooe4 must be present")),
            f3: s[3].as_ref().map(FromValue::from_value),
            f4: s[4].as_ref().map(FromValue::from_value),
        }
    }
}
impl ToValue for Ts5odmooe4 {
    fn to_value(&self) -> Value {
        Value::Seq(vec![
            self.f0.as_ref().map(|x| x.to_value()),
            Some(self.f1.to_value()),
            Some(self.f2.to_value()),
            self.f3.as_ref().map(|x| x.to_value()),
            self.f4.as_ref().map(|x| x.to_value()),
        ])
    }
}
impl FromValue for Ts5odmooe5 {
    fn from_value(v: &Value) -> Self {
        let s = match v { Value::Seq(s) => s, other => panic!("Ts5odmooe5: expected Seq, got {other:?}") };
        assert_eq!(s.len(), 5, "Ts5odmooe5: component count");
        let _ = s;
        Ts5odmooe5 {
            f0: s[0].as_ref().map(FromValue::from_value),
            f1: FromValue::from_value(s[1].as_ref().expect("component f1 of Ts5odmooe5 must be present")),
            f2: FromValue::from_value(s[2].as_ref().expect("component f2 of Ts5odmooe5 must be present")),
            f3: s[3].as_ref().map(FromValue::from_value),
            f4: s[4].as_ref().map(FromValue::from_value),
        }
    }
}
impl ToValue for Ts5odmooe5 {
    fn to_value(&self) -> Value {
        Value::Seq(vec![
            self.f0.as_ref().map(|x| x.to_value()),
            Some(self.f1.to_value()),
            Some(self.f2.to_value()),
            self.f3.as_ref().map(|x| x.to_value()),
            self.f4.as_ref().map(|x| x.to_value()),
        ])
    }
}
impl FromValue for Ts5ddmoon {
    fn from_value(v: &Value) -> Self {
        let s = match v { Value::Seq(s) => s, other => panic!("Ts5ddmoon: expected Seq, got {other:?}") };
        assert_eq!(s.len(), 5, "Ts5ddmoon: component count");
        let _ = s;
        Ts5ddmoon {
            f0: FromValue::from_value(s[0].as_ref().expect("component f0 of Ts5ddmoon must be present")),
            f1: FromValue::from_value(s[1].as_ref().expect("component f1 of Ts5ddmoon must be present")),
            f2: FromValue::from_value(s[2].as_ref().expect("component f2 of Ts5ddmoon must be present")),
            f3: s[3].as_ref().map(FromValue::from_value),
            f4: s[4].as_ref().map(FromValue::from_value),
        }
    }
}
impl ToValue for Ts5ddmoon {
    fn to_value(&self) -> Value {
        Value::Seq(vec![
            Some(self.f0.to_value()),
            Some(self.f1.to_value()),
            Some(self.f2.to_value()),
            self.f3.as_ref().map(|x| x.to_value()),
            self.f4.as_ref().map(|x| x.to_value()),
        ])
    }
}
impl FromValue for Ts5ddmooe0 {
    fn from_value(v: &Value) -> Self {
        let s = match v { Value::Seq(s) => s, other => panic!("Ts5ddmooe0: expected Seq, got {other:?}") };
        assert_eq!(s.len(), 5, "Ts5ddmooe0: component count");
        let _ = s;
        Ts5ddmooe0 {
            f0: FromValue::from_value(s[0].as_ref().expect("component f0 of Ts5ddmooe0 must be present")),
            f1: FromValue::from_value(s[1].as_ref().expect("component f1 of Ts5ddmooe0 must be present")),
            f2: s[2].as_ref().map(FromValue::from_value),
            f3: s[3].as_ref().map(FromValue::from_value),
            f4: s[4].as_ref().map(FromValue::from_value),
        }
    }
}
impl ToValue for Ts5ddmooe0 {
    fn to_value(&self) -> Value {
        Value::Seq(vec![
            Some(self.f0.to_value()),
            Some(self.f1.to_value()),
            self.f2.as_ref().map(|x| x.to_value()),
            self.f3.as_ref().map(|x| x.to_value()),
            self.f4.as_ref().map(|x| x.to_value()),
        ])
    }
}
impl FromValue for Ts5ddmooe1 {
    fn from_value(v: &Value) -> Self {
        let s = match v { Value::Seq(s) => s, other => panic!("Ts5ddmooe1: expected Seq, got {other:?}") };
        assert_eq!(s.len(), 5, "Ts5ddmooe1: component count");
        let _ = s;
        Ts5ddmooe1 {
            f0: FromValue::from_value(s[0].as_ref().expect("component f0 of Ts5ddmooe1 must be present")),
            f1: FromValue::from_value(s[1].as_ref().expect("component f1 of Ts5ddmooe1 must be present")),
            f2: s[2].as_ref().map(FromValue::from_value),
            f3: s[3].as_ref().map(FromValue::from_value),
            f4: s[4].as_ref().map(FromValue::from_value),
        }
    }
}
impl ToValue for Ts5ddmooe1 {
    fn to_value(&self) -> Value {
        Value::Seq(vec![
            Some(self.f0.to_value()),
            Some(self.f1.to_value()),
            self.f2.as_ref().map(|x| x.to_value()),
            self.f3.as_ref().map(|x| x.to_value()),
            self.f4.as_ref().map(|x| x.to_value()),
        ])
    }
}
impl FromValue for Ts5ddmooe2 {
    fn from_value(v: &Value) -> Self {
        let s = match v { Value::Seq(s) => s, other => panic!("Ts5ddmooe2: expected Seq, got {other:?}") };
        assert_eq!(s.len(), 5, "Ts5ddmooe2: component count");
        let _ = s;
        Ts5ddmooe2 {
            f0: FromValue::from_value(s[0].as_ref().expect("component f0 of Ts5ddmooe2 must be present")),
            f1: FromValue::from_value(s[1].as_ref().expect("component f1 of Ts5ddmooe2 must be present")),
            f2: s[2].as_ref().map(FromValue::from_value),
            f3: s[3].as_ref().map(FromValue::from_value),
            f4: s[4].as_ref().map(FromValue::from_value),
        }
    }
}
impl ToValue for Ts5ddmooe2 {
    fn to_value(&self) -> Value {
        Value::Seq(vec![
            Some(self.f0.to_value()),
            Some(self.f1.to_value()),
            self.f2.as_ref().map(|x| x.to_value()),
            self.f3.as_ref().map(|x| x.to_value()),
            self.f4.as_ref().map(|x| x.to_value()),
        ])
    }
}
impl FromValue for Ts5ddmooe3 {
    fn from_value(v: &Value) -> Self {
        let s = match v { Value::Seq(s) => s, other => panic!("Ts5ddmooe3: expected Seq, got {other:?}") };
        assert_eq!(s.len(), 5, "Ts5ddmooe3: component count");
        let _ = s;
        Ts5ddmooe3 {
            f0: FromValue::from_value(s[0].as_ref().expect("component f0 of Ts5ddmooe3 must be present")),
            f1: FromValue::from_value(s[1].as_ref().expect("component f1 of Ts5ddmooe3 must be present")),
            f2: FromValue::from_value(s[2].as_ref().expect("component f2 of Ts5ddmooe3 must be present")),
            f3: s[3].as_ref().map(FromValue::from_value),
            f4: s[4].as_ref().map(FromValue::from_value),
        }
    }
}
impl ToValue for Ts5ddmooe3 {
    fn to_value(&self) -> Value {
        Value::Seq(vec![
            Some(self.f0.to_value()),
            Some(self.f1.to_value()),
            Some(self.f2.to_value()),
            self.f3.as_ref().map(|x| x.to_value()),
            self.f4.as_ref().map(|x| x.to_value()),
        ])
    }
}
impl FromValue for Ts5ddmooe4 {
    fn from_value(v: &Value) -> Self {
        let s = match v { Value::Seq(s) => s, other => panic!("Ts5ddmooe4: expected Seq, got {other:?}") };
        assert_eq!(s.len(), 5, "Ts5ddmooe4: component count");
        let _ = s;
        Ts5ddmooe4 {
            f0: FromValue::from_value(s[0].as_ref().expect("component f0 of Ts5ddmooe4 must be present")),
            f1: FromValue::from_value(s[1].as_ref().expect("component f1 of Ts5ddmooe4 must be present")),
            f2: FromValue::from_value(s[2].as_ref().expect("component f2 of Ts5ddmooe4 must be present")),
            f3: s[3].as_ref().map(FromValue::from_value),
            f4: s[4].as_ref().map(FromValue::from_value),
        }
    }
}
impl ToValue for Ts5ddmooe4 {
    fn to_value(&self) -> Value {
        Value::Seq(vec![
            Some(self.f0.to_value()),
            Some(self.f1.to_value()),
            Some(self.f2.to_value()),
            self.f3.as_ref().map(|x| x.to_value()),
            self.f4.as_ref().map(|x| x.to_value()),
        ])
    }
}
impl FromValue for Ts5ddmooe5 {
    fn from_value(v: &Value) -> Self {
        let s = match v { Value::Seq(s) => s, other => panic!("Ts5ddmooe5: expected Seq, got {other:?}") };
        assert_eq!(s.len(), 5, "Ts5ddmooe5: component count");
        let _ = s;
        Ts5ddmooe5 {
            f0: FromValue::from_value(s[0].as_ref().expect("component f0 of Ts5ddmooe5 must be present")),
            f1: FromValue::from_value(s[1].as_ref().expect("component f1 of Ts5ddmooe5 must be present")),
            f2: FromValue::from_value(s[2].as_ref().expect("component f2 of Ts5ddmooe5 must be present")),
            f3: s[3].as_ref().map(FromValue::from_value),
            f4: s[4].as_ref().map(FromValue::from_value),
        }
    }
}
impl ToValue for Ts5ddmooe5 {
    fn to_value(&self) -> Value {
        Value::Seq(vec![
            Some(self.f0.to_value()),
            Some(self.f1.to_value()),
            Some(self.f2.to_value()),
            self.f3.as_ref().map(|x| x.to_value()),
            self.f4.as_ref().map(|x| x.to_value()),
        ])
    }
}
impl FromValue for Ts5mmooon {
    fn from_value(v: &Value) -> Self {
        let s = match v { Value::Seq(s) => s, other => panic!("Ts5mmooon: expected Seq, got {other:?}") };
        assert_eq!(s.len(), 5, "Ts5mmooon: component count");
        let _ = s;
        Ts5mmooon {
            f0: FromValue::from_value(s[0].as_ref().expect("component f0 of Ts5mmooon must be present")),
            f1: FromValue::from_value(s[1].as_ref().expect("component f1 of Ts5mmooon must be present")),
            f2: s[2].as_ref().map(FromValue::from_value),
            f3: s[3].as_ref().map(FromValue::from_value),
            f4: s[4].as_ref().map(FromValue::from_value),
        }
    }
}
impl ToValue for Ts5mmooon {
    fn to_value(&self) -> Value {
        Value::Seq(vec![
            Some(self.f0.to_value()),
            Some(self.f1.to_value()),
            self.f2.as_ref().map(|x| x.to_value()),
            self.f3.as_ref().map(|x| x.to_value()),
            self.f4.as_ref().map(|x| x.to_value()),
        ])
    }
}
impl FromValue for Ts5mmoooe0 {
    fn from_value(v: &Value) -> Self {
        let s = match v { Value::Seq(s) => s, other => panic!("Ts5mmoooe0: expected Seq, got {other:?}") };
        assert_eq!(s.len(), 5, "Ts5mmoooe0: component count");
        let _ = s;
        Ts5mmoooe0 {
            f0: FromValue::from_value(s[0].as_ref().expect("component f0 of Ts5mmoooe0 must be present")),
            f1: s[1].as_ref().map(FromValue::from_value),
            f2: s[2].as_ref().map(FromValue::from_value),
            f3: s[3].as_ref().map(FromValue::from_value),
            f4: s[4].as_ref().map(FromValue::from_value),
        }
    }
}
impl ToValue for Ts5mmoooe0 {
    fn to_value(&self) -> Value {
        Value::Seq(vec![
            Some(self.f0.to_value()),
            self.f1.as_ref().map(|x| x.to_value()),
            self.f2.as_ref().map(|x| x.to_value()),
            self.f3.as_ref().map(|x| x.to_value()),
            self.f4.as_ref().map(|x| x.to_value()),
        ])
    }
}
impl FromValue for Ts5mmoooe1 {
    fn from_value(v: &Value) -> Self {
        let s = match v { Value::Seq(s) => s, other => panic!("Ts5mmoooe1: expected Seq, got {other:?}") };
        assert_eq!(s.len(), 5, "Ts5mmoooe1: component count");
        let _ = s;
        Ts5mmoooe1 {
            f0: FromValue::from_value(s[0].as_ref().expect("component f0 of Ts5mmoooe1 must be present")),
            f1: s[1].as_ref().map(FromValue::from_value),
            f2: s[2].as_ref().map(FromValue::from_value),
            f3: s[3].as_ref().map(FromValue::from_value),
            f4: s[4].as_ref().map(FromValue::from_value),
        }
    }
}
impl ToValue for Ts5mmoooe1 {
    fn to_value(&self) -> Value {
        Value::Seq(vec![
            Some(self.f0.to_value()),
            self.f1.as_ref().map(|x| x.to_value()),
            self.f2.as_ref().map(|x| x.to_value()),
            self.f3.as_ref().map(|x| x.to_value()),
            self.f4.as_ref().map(|x| x.to_value()),
        ])
    }
}
impl FromValue for Ts5mmoooe2 {
    fn from_value(v: &Value) -> Self {
        let s = match v { Value::Seq(s) => s, other => panic!("Ts5mmoooe2: expected Seq, got {other:?}") };
        assert_eq!(s.len(), 5, "Ts5mmoooe2: component count");
        let _ = s;
        Ts5mmoooe2 {
            f0: FromValue::from_value(s[0].as_ref().expect("component f0 of Ts5mmoooe2 must be present")),
            f1: FromValue::from_value(s[1].as_ref().expect("component f1 of Ts5mmoooe2 must be present")),
            f2: s[2].as_ref().map(FromValue::from_value),
            f3: s[3].as_ref().map(FromValue::from_value),
            f4: s[4].as_ref().map(FromValue::from_value),
        }
    }
}
impl ToValue for Ts5mmoooe2 {
    fn to_value(&self) -> Value {
        Value::Seq(vec![
            Some(self.f0.to_value()),
            Some(self.f1.to_value()),
            self.f2.as_ref().map(|x| x.to_value()),
            self.f3.as_ref().map(|x| x.to_value()),
            self.f4.as_ref().map(|x| x.to_value()),
        ])
    }
}
impl FromValue for Ts5mmoooe3 {
    fn from_value(v: &Value) -> Self {
        let s = match v { Value::Seq(s) => s, other => panic!("Ts5mmoooe3: expected Seq, got {other:?}") };
        assert_eq!(s.len(), 5, "Ts5mmoooe3: component count");
        let _ = s;
        Ts5mmoooe3 {
            f0: FromValue::from_value(s[0].as_ref().expect("component f0 of Ts5mmoooe3 must be present")),
            f1: FromValue::from_value(s[1].as_ref().expect("component f1 of Ts5mmoooe3 must be present")),
            f2: s[2].as_ref().map(FromValue::from_value),
            f3: s[3].as_ref().map(FromValue::from_value),
            f4: s[4].as_ref().map(FromValue::from_value),
        }
    }
}
impl ToValue for Ts5mmoooe3 {
    fn to_value(&self) -> Value {
        Value::Seq(vec![
            Some(self.f0.to_value()),
            Some(self.f1.to_value()),
            self.f2.as_ref().map(|x| x.to_value()),
            self.f3.as_ref().map(|x| x.to_value()),
            self.f4.as_ref().map(|x| x.to_value()),
        ])
    }
}
impl FromValue for Ts5mmoooe4 {
    fn from_value(v: &Value) -> Self {
        let s = match v { Value::Seq(s) => s, other => panic!("Ts5mmoooe4: expected Seq, got {other:?}") };
        assert_eq!(s.len(), 5, "Ts5mmoooe4: component count");
        let _ = s;
        Ts5mmoooe4 {
            f0: FromValue::from_value(s[0].as_ref().expect("component f0 of Ts5mmoooe4 must be present")),
            f1: FromValue::from_value(s[1].as_ref().expect("component f1 of Ts5mmoooe4 must be present")),
            f2: s[2].as_ref().map(FromValue::from_value),
            f3: s[3].as_ref().map(FromValue::from_value),
            f4: s[4].as_ref().map(FromValue::from_value),
        }
    }
}
impl ToValue for Ts5mmoooe4 {
    fn to_value(&self) -> Value {
        Value::Seq(vec![
            Some(self.f0.to_value()),
            Some(self.f1.to_value()),
            self.f2.as_ref().map(|x| x.to_value()),
            self.f3.as_ref().map(|x| x.to_value()),
            self.f4.as_ref().map(|x| x.to_value()),
        ])
    }
}
impl FromValue for Ts5mmoooe5 {
    fn from_value(v: &Value) -> Self {
        let s = match v { Value::Seq(s) => s, other => panic!("Ts5mmoooe5: expected Seq, got {other:?}") };
        assert_eq!(s.len(), 5, "Ts5mmoooe5: component count");
        let _ = s;
        Ts5mmoooe5 {
            f0: FromValue::from_value(s[0].as_ref().expect("component f0 of Ts5mmoooe5 must be present")),
            f1: FromValue::from_value(s[1].as_ref().expect("component f1 of Ts5mmoooe5 must be present")),
            f2: s[2].as_ref().map(FromValue::from_value),
            f3: s[3].as_ref().map(FromValue::from_value),
            f4: s[4].as_ref().map(FromValue::from_value),
        }
    }
}
impl ToValue for Ts5mmoooe5 {
    fn to_value(&self) -> Value {
        Value::Seq(vec![
            Some(self.f0.to_value()),
            Some(self.f1.to_value()),
            self.f2.as_ref().map(|x| x.to_value()),
            self.f3.as_ref().map(|x| x.to_value()),
            self.f4.as_ref().map(|x| x.to_value()),
        ])
    }
}
impl FromValue for Ts5omooon {
    fn from_value(v: &Value) -> Self {
        let s = match v { Value::Seq(s) => s, other => panic!("Ts5omooon: expected Seq, got {other:?}") };
        assert_eq!(s.len(), 5, "Ts5omooon: component count");
        let _ = s;
        Ts5omooon {
            f0: s[0].as_ref().map(FromValue::from_value),
            f1: FromValue::from_value(s[1].as_ref().expect("component f1 of Ts5omooon must be present")),
            f2: s[2].as_ref().map(FromValue::from_value),
            f3: s[3].as_ref().map(FromValue::from_value),
            f4: s[4].as_ref().map(FromValue::from_value),
        }
    }
}
impl ToValue for Ts5omooon {
    fn to_value(&self) -> Value {
        Value::Seq(vec![
            self.f0.as_ref().map(|x| x.to_value()),
            Some(self.f1.to_value()),
            self.f2.as_ref().map(|x| x.to_value()),
            self.f3.as_ref().map(|x| x.to_value()),
            self.f4.as_ref().map(|x| x.to_value()),
        ])
    }
}
impl FromValue for Ts5omoooe0 {
    fn from_value(v: &Value) -> Self {
        let s = match v { Value::Seq(s) => s, other => panic!("Ts5omoooe0: expected Seq, got {other:?}") };
        assert_eq!(s.len(), 5, "Ts5omoooe0: component count");
        let _ = s;
        Ts5omoooe0 {
            f0: s[0].as_ref().map(FromValue::from_value),
            f1: s[1].as_ref().map(FromValue::from_value),
            f2: s[2].as_ref().map(FromValue::from_value),
            f3: s[3].as_ref().map(FromValue::from_value),
            f4: s[4].as_ref().map(FromValue::from_value),
        }
    }
}
impl ToValue for Ts5omoooe0 {
    fn to_value(&self) -> Value {
        Value::Seq(vec![
            self.f0.as_ref().map(|x| x.to_value()),
            self.f1.as_ref().map(|x| x.to_value()),
            self.f2.as_ref().map(|x| x.to_value()),
            self.f3.as_ref().map(|x| x.to_value()),
            self.f4.as_ref().map(|x| x.to_value()),
        ])
    }
}
impl FromValue for Ts5omoooe1 {
    fn from_value(v: &Value) -> Self {
        let s = match v { Value::Seq(s) => s, other => panic!("Ts5omoooe1: expected Seq, got {other:?}") };
        assert_eq!(s.len(), 5, "Ts5omoooe1: component count");
        let _ = s;
        Ts5omoooe1 {
            f0: s[0].as_ref().map(FromValue::from_value),
            f1: s[1].as_ref().map(FromValue::from_value),
            f2: s[2].as_ref().map(FromValue::from_value),
            f3: s[3].as_ref().map(FromValue::from_value),
            f4: s[4].as_ref().map(FromValue::from_value),
        }
    }
}
impl ToValue for Ts5omoooe1 {
    fn to_value(&self) -> Value {
        Value::Seq(vec![
            self.f0.as_ref().map(|x| x.to_value()),
            self.f1.as_ref().map(|x| x.to_value()),
            self.f2.as_ref().map(|x| x.to_value()),
            self.f3.as_ref().map(|x| x.to_value()),
            self.f4.as_ref().map(|x| x.to_value()),
        ])
    }
}
impl FromValue for Ts5omoooe2 {
    fn from_value(v: &Value) -> Self {
        let s = match v { Value::Seq(s) => s, other => panic!("Ts5omoooe2: expected Seq, got {other:?}") };
        assert_eq!(s.len(), 5, "Ts5omoooe2: component count");
        let _ = s;
        Ts5omoooe2 {
            f0: s[0].as_ref().map(FromValue::from_value),
            f1: FromValue::from_value(s[1].as_ref().expect("component f1 of Ts5omoooe2 must be present")),
            f2: s[2].as_ref().map(FromValue::from_value),
            f3: s[3].as_ref().map(FromValue::from_value),
            f4: s[4].as_ref().map(FromValue::from_value),
        }
    }
}
impl ToValue for Ts5omoooe2 {
    fn to_value(&self) -> Value {
        Value::Seq(vec![
            self.f0.as_ref().map(|x| x.to_value()),
            Some(self.f1.to_value()),
            self.f2.as_ref().map(|x| x.to_value()),
            self.f3.as_ref().map(|x| x.to_value()),
            self.f4.as_ref().map(|x| x.to_value()),
        ])
    }
}
impl FromValue for Ts5omoooe3 {
    fn from_value(v: &Value) -> Self {
        let s = match v { Value::Seq(s) => s, other => panic!("Ts5omoooe3: expected Seq, got {other:?}") };
        assert_eq!(s.len(), 5, "Ts5omoooe3: component count");
        let _ = s;
        Ts5omoooe3 {
            f0: s[0].as_ref().map(FromValue::from_value),
            f1: FromValue::from_value(s[1].as_ref().expect("component f1 of Ts5omoooe3 must be present")),
            f2: s[2].as_ref().map(FromValue::from_value),
            f3: s[3].as_ref().map(FromValue::from_value),
            f4: s[4].as_ref().map(FromValue::from_value),
        }
    }
}
impl ToValue for Ts5omoooe3 {
    fn to_value(&self) -> Value {
        Value::Seq(vec![
            self.f0.as_ref().map(|x| x.to_value()),
            Some(self.f1.to_value()),
            self.f2.as_ref().map(|x| x.to_value()),
            self.f3.as_ref().map(|x| x.to_value()),
            self.f4.as_ref().map(|x| x.to_value()),
        ])
    }
}
impl FromValue for Ts5omoooe4 {
    fn from_value(v: &Value) -> Self {
        let s = match v { Value::Seq(s) => s, other => panic!("Ts5omoooe4: expected Seq, got {other:?}") };
        assert_eq!(s.len(), 5, "Ts5omoooe4: component count");
        let _ = s;
        Ts5omoooe4 {
            f0: s[0].as_ref().map(FromValue::from_value),
            f1: FromValue::from_value(s[1].as_ref().expect("component f1 of Ts5omoooe4 must be present")),
            f2: s[2].as_ref().map(FromValue::from_value),
            f3: s[3].as_ref().map(FromValue::from_value),
            f4: s[4].as_ref().map(FromValue::from_value),
        }
    }
}
impl ToValue for Ts5omoooe4 {
    fn to_value(&self) -> Value {
        Value::Seq(vec![
            self.f0.as_ref().map(|x| x.to_value()),
            Some(self.f1.to_value()),
            self.f2.as_ref().map(|x| x.to_value()),
            self.f3.as_ref().map(|x| x.to_value()),
            self.f4.as_ref().map(|x| x.to_value()),
        ])
    }
}
impl FromValue for Ts5omoooe5 {
    fn from_value(v: &Value) -> Self {
        let s = match v { Value::Seq(s) => s, other => panic!("Ts5omoooe5: expected Seq, got {other:?}") };
        assert_eq!(s.len(), 5, "Ts5omoooe5: component count");
        let _ = s;
        Ts5omoooe5 {
            f0: s[0].as_ref().map(FromValue::from_value),
            f1: FromValue::from_value(s[1].as_ref().expect("component f1 of Ts5omoooe5 must be present")),
            f2: s[2].as_ref().map(FromValue::from_value),
            f3: s[3].as_ref().map(FromValue::from_value),
            f4: s[4].as_ref().map(FromValue::from_value),
        }
    }
}
impl ToValue for Ts5omoooe5 {
    fn to_value(&self) -> Value {
        Value::Seq(vec![
            self.f0.as_ref().map(|x| x.to_value()),
            Some(self.f1.to_value()),
            self.f2.as_ref().map(|x| x.to_value()),
            self.f3.as_ref().map(|x| x.to_value()),
            self.f4.as_ref().map(|x| x.to_value()),
        ])
    }
}
impl FromValue for Ts5dmooon {
    fn from_value(v: &Value) -> Self {
        let s = match v { Value::Seq(s) => s, other => panic!("Ts5dmooon: expected Seq, got {other:?}") };
        assert_eq!(s.len(), 5, "Ts5dmooon: component count");
        let _ = s;
        Ts5dmooon {
            f0: FromValue::from_value(s[0].as_ref().expect("component f0 of Ts5dmooon must be present")),
            f1: FromValue::from_value(s[1].as_ref().expect("component f1 of Ts5dmooon must be present")),
            f2: s[2].as_ref().map(FromValue::from_value),
            f3: s[3].as_ref().map(FromValue::from_value),
            f4: s[4].as_ref().map(FromValue::from_value),
        }
    }
}
impl ToValue for Ts5dmooon {
    fn to_value(&self) -> Value {
        Value::Seq(vec![
            Some(self.f0.to_value()),
            Some(self.f1.to_value()),
            self.f2.as_ref().map(|x| x.to_value()),
            self.f3.as_ref().map(|x| x.to_value()),
            self.f4.as_ref().map(|x| x.to_value()),
        ])
    }
}
impl FromValue for Ts5dmoooe0 {
    fn from_value(v: &Value) -> Self {
        let s = match v { Value::Seq(s) => s, other => panic!("Ts5dmoooe0: expected Seq, got {other:?}") };
        assert_eq!(s.len(), 5, "Ts5dmoooe0: component count");
        let _ = s;
        Ts5dmoooe0 {
            f0: FromValue::from_value(s[0].as_ref().expect("component f0 of Ts5dmoooe0 must be present")),
            f1: s[1].as_ref().map(FromValue::from_value),
            f2: s[2].as_ref().map(FromValue::from_value),
            f3: s[3].as_ref().map(FromValue::from_value),
            f4: s[4].as_ref().map(FromValue::from_value),
        }
    }
}
impl ToValue for Ts5dmoooe0 {
    fn to_value(&self) -> Value {
        Value::Seq(vec![
            Some(self.f0.to_value()),
            self.f1.as_ref().map(|x| x.to_value()),
            self.f2.as_ref().map(|x| x.to_value()),
            self.f3.as_ref().map(|x| x.to_value()),
            self.f4.as_ref().map(|x| x.to_value()),
        ])
    }
}
impl FromValue for Ts5dmoooe1 {
    fn from_value(v: &Value) -> Self {
        let s = match v { Value::Seq(s) => s, other => panic!("Ts5dmoooe1: expected Seq, got {other:?}") };
        assert_eq!(s.len(), 5, "Ts5dmoooe1: component count");
        let _ = s;
        Ts5dmoooe1 {
            f0: FromValue::from_value(s[0].as_ref().expect("component f0 of Ts5dmoooe1 must be present")),
            f1: s[1].as_ref().map(FromValue::from_value),
            f2: s[2].as_ref().map(FromValue::from_value),
            f3: s[3].as_ref().map(FromValue::from_value),
            f4: s[4].as_ref().map(FromValue::from_value),
        }
    }
}
impl ToValue for Ts5dmoooe1 {
    fn to_value(&self) -> Value {
        Value::Seq(vec![
            Some(self.f0.to_value()),
            self.f1.as_ref().map(|x| x.to_value()),
            self.f2.as_ref().map(|x| x.to_value()),
            self.f3.as_ref().map(|x| x.to_value()),
            self.f4.as_ref().map(|x| x.to_value()),
        ])
    }
}
impl FromValue for Ts5dmoooe2 {
    fn from_value(v: &Value) -> Self {
        let s = match v { Value::Seq(s) => s, other => panic!("Ts5dmoooe2: expected Seq, got {other:?}") };
        assert_eq!(s.len(), 5, "Ts5dmoooe2: component count");
        let _ = s;
        Ts5dmoooe2 {
            f0: FromValue::from_value(s[0].as_ref().expect("component f0 of Ts5dmoooe2 must be present")),
            f1: FromValue::from_value(s[1].as_ref().expect("component f1 of Ts5dmoooe2 must be present")),
            f2: s[2].as_ref().map(FromValue::from_value),
            f3: s[3].as_ref().map(FromValue::from_value),
            f4: s[4].as_ref().map(FromValue::from_value),
        }
    }
}
impl ToValue for Ts5dmoooe2 {
    fn to_value(&self) -> Value {
        Value::Seq(vec![
            Some(self.f0.to_value()),
            Some(self.f1.to_value()),
            self.f2.as_ref().map(|x| x.to_value()),
            self.f3.as_ref().map(|x| x.to_value()),
            self.f4.as_ref().map(|x| x.to_value()),
        ])
    }
}
impl FromValue for Ts5dmoooe3 {
    fn from_value(v: &Value) -> Self {
        let s = match v { Value::Seq(s) => s, other => panic!("Ts5dmoooe3: expected Seq, got {other:?}") };
        assert_eq!(s.len(), 5, "Ts5dmoooe3: component count");
        let _ = s;
        Ts5dmoooe3 {
            f0: FromValue::from_value(s[0].as_ref().expect("component f0 of Ts5dmoooe3 must be present")),
            f1: FromValue::from_value(s[1].as_ref().expect("component f1 of Ts5dmoooe3 must be present")),
            f2: s[2].as_ref().map(FromValue::from_value),
            f3: s[3].as_ref().map(FromValue::from_value),
            f4: s[4].as_ref().map(FromValue::from_value),
        }
    }
}
impl ToValue for Ts5dmoooe3 {
    fn to_value(&self) -> Value {
        Value::Seq(vec![
            Some(self.f0.to_value()),
            Some(self.f1.to_value()),
            self.f2.as_ref().map(|x| x.to_value()),
            self.f3.as_ref().map(|x| x.to_value()),
            self.f4.as_ref().map(|x| x.to_value()),
        ])
    }
}
impl FromValue for Ts5dmoooe4 {
    fn from_value(v: &Value) -> Self {
        let s = match v { Value::Seq(s) => s, other => panic!("Ts5dmoooe4: expected Seq, got {other:?}") };
        assert_eq!(s.len(), 5, "Ts5dmoooe4: component count");
        let _ = s;
        Ts5dmoooe4 {
            f0: FromValue::from_value(s[0].as_ref().expect("component f0 of Ts5dmoooe4 must be present")),
            f1: FromValue::from_value(s[1].as_ref().expect("component f1 of Ts5dmoooe4 must be present")),
            f2: s[2].as_ref().map(FromValue::from_value),
            f3: s[3].as_ref().map(FromValue::from_value),
            f4: s[4].as_ref().map(FromValue::from_value),
        }
    }
}
impl ToValue for Ts5dmoooe4 {
    fn to_value(&self) -> Value {
        Value::Seq(vec![
            Some(self.f0.to_value()),
            Some(self.f1.to_value()),
            self.f2.as_ref().map(|x| x.to_value()),
            self.f3.as_ref().map(|x| x.to_value()),
            self.f4.as_ref().map(|x| x.to_value()),
        ])
    }
}
impl FromValue for Ts5dmoooe5 {
    fn from_value(v: &Value) -> Self {
        let s = match v { Value::Seq(s) => s, other => panic!("Ts5dmoooe5: expected Seq, got {other:?}") };
        assert_eq!(s.len(), 5, "Ts5dmoooe5: component count");
        let _ = s;
        Ts5dmoooe5 {
            f0: FromValue::from_value(s[0].as_ref().expect("component f0 of Ts5dmoooe5 must be present")),
            f1: FromValue::from_value(s[1].as_ref().expect("component f1 of Ts5dmoooe5 must be present")),
            f2: s[2].as_ref().map(FromValue::from_value),
            f3: s[3].as_ref().map(FromValue::from_value),
            f4: s[4].as_ref().map(FromValue::from_value),
        }
    }
}
impl ToValue for Ts5dmoooe5 {
    fn to_value(&self) -> Value {
        Value::Seq(vec![
            Some(self.f0.to_value()),
            Some(self.f1.to_value()),
            self.f2.as_ref().map(|x| x.to_value()),
            self.f3.as_ref().map(|x| x.to_value()),
            self.f4.as_ref().map(|x| x.to_value()),
        ])
    }
}

use asn1rs::prelude::*;

#[asn(sequence)]

#[derive(Default, Debug, Clone, PartialEq, Hash)]
pub struct Ts0n;

impl Ts0n {
}

#[asn(sequence)]

#[derive(Default, Debug, Clone, PartialEq, Hash)]
pub struct Ts1mn {
    #[asn(integer(0..7))] pub f0: u8,
}

impl Ts1mn {
    pub const fn f0_min() -> u8 {
        0
    }

    pub const fn f0_max() -> u8 {
        7
    }
}

#[asn(sequence, extensible_after(f0))]

#[derive(Default, Debug, Clone, PartialEq, Hash)]
pub struct Ts1me0 {
    #[asn(integer(0..7))] pub f0: u8,
}

impl Ts1me0 {
    pub const fn f0_min() -> u8 {
        0
    }

    pub const fn f0_max() -> u8 {
        7
    }
}

#[asn(sequence, extensible_after(f0))]

#[derive(Default, Debug, Clone, PartialEq, Hash)]
pub struct Ts1me1 {
    #[asn(integer(0..7))] pub f0: u8,
}

impl Ts1me1 {
    pub const fn f0_min() -> u8 {
        0
    }

    pub const fn f0_max() -> u8 {
        7
    }
}

#[asn(sequence)]

#[derive(Default, Debug, Clone, PartialEq, Hash)]
pub struct Ts1on {
    #[asn(optional(integer(0..7)))] pub f0: Option<u8>,
}

impl Ts1on {
    pub const fn f0_min() -> u8 {
        0
    }

    pub const fn f0_max() -> u8 {
        7
    }
}

#[asn(sequence, extensible_after(f0))]

#[derive(Default, Debug, Clone, PartialEq, Hash)]
pub struct Ts1oe0 {
    #[asn(optional(integer(0..7)))] pub f0: Option<u8>,
}

impl Ts1oe0 {
    pub const fn f0_min() -> u8 {
        0
    }

    pub const fn f0_max() -> u8 {
        7
    }
}

#[asn(sequence, extensible_after(f0))]

#[derive(Default, Debug, Clone, PartialEq, Hash)]
pub struct Ts1oe1 {
    #[asn(optional(integer(0..7)))] pub f0: Option<u8>,
}

impl Ts1oe1 {
    pub const fn f0_min() -> u8 {
        0
    }

    pub const fn f0_max() -> u8 {
        7
    }
}

#[asn(sequence)]

#[derive(Default, Debug, Clone, PartialEq, Hash)]
pub struct Ts1dn {
    #[asn(default(integer(0..7), 5))] pub f0: u8,
}

impl Ts1dn {
    pub const fn f0_min() -> u8 {
        0
    }

    pub const fn f0_max() -> u8 {
        7
    }
}

#[asn(sequence, extensible_after(f0))]

#[derive(Default, Debug, Clone, PartialEq, Hash)]
pub struct Ts1de0 {
    #[asn(default(integer(0..7), 5))] pub f0: u8,
}

impl Ts1de0 {
    pub const fn f0_min() -> u8 {
        0
    }

    pub const fn f0_max() -> u8 {
        7
    }
}

#[asn(sequence, extensible_after(f0))]

#[derive(Default, Debug, Clone, PartialEq, Hash)]
pub struct Ts1de1 {
    #[asn(default(integer(0..7), 5))] pub f0: u8,
}

impl Ts1de1 {
    pub const fn f0_min() -> u8 {
        0
    }

    pub const fn f0_max() -> u8 {
        7
    }
}

#[asn(sequence)]

#[derive(Default, Debug, Clone, PartialEq, Hash)]
pub struct Ts2mmn {
    #[asn(integer(0..7))] pub f0: u8,
    #[asn(integer(0..7))] pub f1: u8,
}

impl Ts2mmn {
    pub const fn f0_min() -> u8 {
        0
    }

    pub const fn f0_max() -> u8 {
        7
    }

    pub const fn f1_min() -> u8 {
        0
    }

    pub const fn f1_max() -> u8 {
        7
    }
}

#[asn(sequence, extensible_after(f0))]

#[derive(Default, Debug, Clone, PartialEq, Hash)]
pub struct Ts2mme0 {
    #[asn(integer(0..7))] pub f0: u8,
    #[asn(optional(integer(0..7)))] pub f1: Option<u8>,
}

impl Ts2mme0 {
    pub const fn f0_min() -> u8 {
        0
    }

    pub const fn f0_max() -> u8 {
        7
    }

    pub const fn f1_min() -> u8 {
        0
    }

    pub const fn f1_max() -> u8 {
        7
    }
}

#[asn(sequence, extensible_after(f0))]

#[derive(Default, Debug, Clone, PartialEq, Hash)]
pub struct Ts2mme1 {
    #[asn(integer(0..7))] pub f0: u8,
    #[asn(optional(integer(0..7)))] pub f1: Option<u8>,
}

impl Ts2mme1 {
    pub const fn f0_min() -> u8 {
        0
    }

    pub const fn f0_max() -> u8 {
        7
    }

    pub const fn f1_min() -> u8 {
        0
    }

    pub const fn f1_max() -> u8 {
        7
    }
}

#[asn(sequence, extensible_after(f1))]

#[derive(Default, Debug, Clone, PartialEq, Hash)]
pub struct Ts2mme2 {
    #[asn(integer(0..7))] pub f0: u8,
    #[asn(integer(0..7))] pub f1: u8,
}

impl Ts2mme2 {
    pub const fn f0_min() -> u8 {
        0
    }

    pub const fn f0_max() -> u8 {
        7
    }

    pub const fn f1_min() -> u8 {
        0
    }

    pub const fn f1_max() -> u8 {
        7
    }
}

#[asn(sequence)]

#[derive(Default, Debug, Clone, PartialEq, Hash)]
pub struct Ts2omn {
    #[asn(optional(integer(0..7)))] pub f0: Option<u8>,
    #[asn(integer(0..7))] pub f1: u8,
}

impl Ts2omn {
    pub const fn f0_min() -> u8 {
        0
    }

    pub const fn f0_max() -> u8 {
        7
    }

    pub const fn f1_min() -> u8 {
        0
    }

    pub const fn f1_max() -> u8 {
        7
    }
}

#[asn(sequence, extensible_after(f0))]

#[derive(Default, Debug, Clone, PartialEq, Hash)]
pub struct Ts2ome0 {
    #[asn(optional(integer(0..7)))] pub f0: Option<u8>,
    #[asn(optional(integer(0..7)))] pub f1: Option<u8>,
}

impl Ts2ome0 {
    pub const fn f0_min() -> u8 {
        0
    }

    pub const fn f0_max() -> u8 {
        7
    }

    pub const fn f1_min() -> u8 {
        0
    }

    pub const fn f1_max() -> u8 {
        7
    }
}

#[asn(sequence, extensible_after(f0))]

#[derive(Default, Debug, Clone, PartialEq, Hash)]
pub struct Ts2ome1 {
    #[asn(optional(integer(0..7)))] pub f0: Option<u8>,
    #[asn(optional(integer(0..7)))] pub f1: Option<u8>,
}

impl Ts2ome1 {
    pub const fn f0_min() -> u8 {
        0
    }

    pub const fn f0_max() -> u8 {
        7
    }

    pub const fn f1_min() -> u8 {
        0
    }

    pub const fn f1_max() -> u8 {
        7
    }
}

#[asn(sequence, extensible_after(f1))]

#[derive(Default, Debug, Clone, PartialEq, Hash)]
pub struct Ts2ome2 {
    #[asn(optional(integer(0..7)))] pub f0: Option<u8>,
    #[asn(integer(0..7))] pub f1: u8,
}

impl Ts2ome2 {
    pub const fn f0_min() -> u8 {
        0
    }

    pub const fn f0_max() -> u8 {
        7
    }

    pub const fn f1_min() -> u8 {
        0
    }

    pub const fn f1_max() -> u8 {
        7
    }
}

#[asn(sequence)]

#[derive(Default, Debug, Clone, PartialEq, Hash)]
pub struct Ts2dmn {
    #[asn(default(integer(0..7), 5))] pub f0: u8,
    #[asn(integer(0..7))] pub f1: u8,
}

impl Ts2dmn {
    pub const fn f0_min() -> u8 {
        0
    }

    pub const fn f0_max() -> u8 {
        7
    }

    pub const fn f1_min() -> u8 {
        0
    }

    pub const fn f1_max() -> u8 {
        7
    }
}

#[asn(sequence, extensible_after(f0))]

#[derive(Default, Debug, Clone, PartialEq, Hash)]
pub struct Ts2dme0 {
    #[asn(default(integer(0..7), 5))] pub f0: u8,
    #[asn(optional(integer(0..7)))] pub f1: Option<u8>,
}

impl Ts2dme0 {
    pub const fn f0_min() -> u8 {
        0
    }

    pub const fn f0_max() -> u8 {
        7
    }

    pub const fn f1_min() -> u8 {
        0
    }

    pub const fn f1_max() -> u8 {
        7
    }
}

#[asn(sequence, extensible_after(f0))]

#[derive(Default, Debug, Clone, PartialEq, Hash)]
pub struct Ts2dme1 {
    #[asn(default(integer(0..7), 5))] pub f0: u8,
    #[asn(optional(integer(0..7)))] pub f1: Option<u8>,
}

impl Ts2dme1 {
    pub const fn f0_min() -> u8 {
        0
    }

    pub const fn f0_max() -> u8 {
        7
    }

    pub const fn f1_min() -> u8 {
        0
    }

    pub const fn f1_max() -> u8 {
        7
    }
}

#[asn(sequence, extensible_after(f1))]

#[derive(Default, Debug, Clone, PartialEq, Hash)]
pub struct Ts2dme2 {
    #[asn(default(integer(0..7), 5))] pub f0: u8,
    #[asn(integer(0..7))] pub f1: u8,
}

impl Ts2dme2 {
    pub const fn f0_min() -> u8 {
        0
    }

    pub const fn f0_max() -> u8 {
        7
    }

    pub const fn f1_min() -> u8 {
        0
    }

    pub const fn f1_max() -> u8 {
        7
    }
}

#[asn(sequence)]

#[derive(Default, Debug, Clone, PartialEq, Hash)]
pub struct Ts2mon {
    #[asn(integer(0..7))] pub f0: u8,
    #[asn(optional(integer(0..7)))] pub f1: Option<u8>,
}

impl Ts2mon {
    pub const fn f0_min() -> u8 {
        0
    }

    pub const fn f0_max() -> u8 {
        7
    }

    pub const fn f1_min() -> u8 {
        0
    }

    pub const fn f1_max() -> u8 {
        7
    }
}

#[asn(sequence, extensible_after(f0))]

#[derive(Default, Debug, Clone, PartialEq, Hash)]
pub struct Ts2moe0 {
    #[asn(integer(0..7))] pub f0: u8,
    #[asn(optional(integer(0..7)))] pub f1: Option<u8>,
}

impl Ts2moe0 {
    pub const fn f0_min() -> u8 {
        0
    }

    pub const fn f0_max() -> u8 {
        7
    }

    pub const fn f1_min() -> u8 {
        0
    }

    pub const fn f1_max() -> u8 {
        7
    }
}

#[asn(sequence, extensible_after(f0))]

#[derive(Default, Debug, Clone, PartialEq, Hash)]
pub struct Ts2moe1 {
    #[asn(integer(0..7))] pub f0: u8,
    #[asn(optional(integer(0..7)))] pub f1: Option<u8>,
}

impl Ts2moe1 {
    pub const fn f0_min() -> u8 {
        0
    }

    pub const fn f0_max() -> u8 {
        7
    }

    pub const fn f1_min() -> u8 {
        0
    }

    pub const fn f1_max() -> u8 {
        7
    }
}

#[asn(sequence, extensible_after(f1))]

#[derive(Default, Debug, Clone, PartialEq, Hash)]
pub struct Ts2moe2 {
    #[asn(integer(0..7))] pub f0: u8,
    #[asn(optional(integer(0..7)))] pub f1: Option<u8>,
}

impl Ts2moe2 {
    pub const fn f0_min() -> u8 {
        0
    }

    pub const fn f0_max() -> u8 {
        7
    }

    pub const fn f1_min() -> u8 {
        0
    }

    pub const fn f1_max() -> u8 {
        7
    }
}

#[asn(sequence)]

#[derive(Default, Debug, Clone, PartialEq, Hash)]
pub struct Ts2oon {
    #[asn(optional(integer(0..7)))] pub f0: Option<u8>,
    #[asn(optional(integer(0..7)))] pub f1: Option<u8>,
}

impl Ts2oon {
    pub const fn f0_min() -> u8 {
        0
    }

    pub const fn f0_max() -> u8 {
        7
    }

    pub const fn f1_min() -> u8 {
        0
    }

    pub const fn f1_max() -> u8 {
        7
    }
}

#[asn(sequence, extensible_after(f0))]

#[derive(Default, Debug, Clone, PartialEq, Hash)]
pub struct Ts2ooe0 {
    #[asn(optional(integer(0..7)))] pub f0: Option<u8>,
    #[asn(optional(integer(0..7)))] pub f1: Option<u8>,
}

impl Ts2ooe0 {
    pub const fn f0_min() -> u8 {
        0
    }

    pub const fn f0_max() -> u8 {
        7
    }

    pub const fn f1_min() -> u8 {
        0
    }

    pub const fn f1_max() -> u8 {
        7
    }
}

#[asn(sequence, extensible_after(f0))]

#[derive(Default, Debug, Clone, PartialEq, Hash)]
pub struct Ts2ooe1 {
    #[asn(optional(integer(0..7)))] pub f0: Option<u8>,
    #[asn(optional(integer(0..7)))] pub f1: Option<u8>,
}

impl Ts2ooe1 {
    pub const fn f0_min() -> u8 {
        0
    }

    pub const fn f0_max() -> u8 {
        7
    }

    pub const fn f1_min() -> u8 {
        0
    }

    pub const fn f1_max() -> u8 {
        7
    }
}

#[asn(sequence, extensible_after(f1))]

#[derive(Default, Debug, Clone, PartialEq, Hash)]
pub struct Ts2ooe2 {
    #[asn(optional(integer(0..7)))] pub f0: Option<u8>,
    #[asn(optional(integer(0..7)))] pub f1: Option<u8>,
}

impl Ts2ooe2 {
    pub const fn f0_min() -> u8 {
        0
    }

    pub const fn f0_max() -> u8 {
        7
    }

    pub const fn f1_min() -> u8 {
        0
    }

    pub const fn f1_max() -> u8 {
        7
    }
}

#[asn(sequence)]

#[derive(Default, Debug, Clone, PartialEq, Hash)]
pub struct Ts2don {
    #[asn(default(integer(0..7), 5))] pub f0: u8,
    #[asn(optional(integer(0..7)))] pub f1: Option<u8>,
}

impl Ts2don {
    pub const fn f0_min() -> u8 {
        0
    }

    pub const fn f0_max() -> u8 {
        7
    }

    pub const fn f1_min() -> u8 {
        0
    }

    pub const fn f1_max() -> u8 {
        7
    }
}

#[asn(sequence, extensible_after(f0))]

#[derive(Default, Debug, Clone, PartialEq, Hash)]
pub struct Ts2doe0 {
    #[asn(default(integer(0..7), 5))] pub f0: u8,
    #[asn(optional(integer(0..7)))] pub f1: Option<u8>,
}

impl Ts2doe0 {
    pub const fn f0_min() -> u8 {
        0
    }

    pub const fn f0_max() -> u8 {
        7
    }

    pub const fn f1_min() -> u8 {
        0
    }

    pub const fn f1_max() -> u8 {
        7
    }
}

#[asn(sequence, extensible_after(f0))]

#[derive(Default, Debug, Clone, PartialEq, Hash)]
pub struct Ts2doe1 {
    #[asn(default(integer(0..7), 5))] pub f0: u8,
    #[asn(optional(integer(0..7)))] pub f1: Option<u8>,
}

impl Ts2doe1 {
    pub const fn f0_min() -> u8 {
        0
    }

    pub const fn f0_max() -> u8 {
        7
    }

    pub const fn f1_min() -> u8 {
        0
    }

    pub const fn f1_max() -> u8 {
        7
    }
}

#[asn(sequence, extensible_after(f1))]

#[derive(Default, Debug, Clone, PartialEq, Hash)]
pub struct Ts2doe2 {
    #[asn(default(integer(0..7), 5))] pub f0: u8,
    #[asn(optional(integer(0..7)))] pub f1: Option<u8>,
}

impl Ts2doe2 {
    pub const fn f0_min() -> u8 {
        0
    }

    pub const fn f0_max() -> u8 {
        7
    }

    pub const fn f1_min() -> u8 {
        0
    }

    pub const fn f1_max() -> u8 {
        7
    }
}

#[asn(sequence)]

#[derive(Default, Debug, Clone, PartialEq, Hash)]
pub struct Ts2mdn {
    #[asn(integer(0..7))] pub f0: u8,
    #[asn(default(integer(0..7), 5))] pub f1: u8,
}

impl Ts2mdn {
    pub const fn f0_min() -> u8 {
        0
    }

    pub const fn f0_max() -> u8 {
        7
    }

    pub const fn f1_min() -> u8 {
        0
    }

    pub const fn f1_max() -> u8 {
        7
    }
}

#[asn(sequence, extensible_after(f0))]

#[derive(Default, Debug, Clone, PartialEq, Hash)]
pub struct Ts2mde0 {
    #[asn(integer(0..7))] pub f0: u8,
    #[asn(default(integer(0..7), 5))] pub f1: u8,
}

impl Ts2mde0 {
    pub const fn f0_min() -> u8 {
        0
    }

    pub const fn f0_max() -> u8 {
        7
    }

    pub const fn f1_min() -> u8 {
        0
    }

    pub const fn f1_max() -> u8 {
        7
    }
}

#[asn(sequence, extensible_after(f0))]

#[derive(Default, Debug, Clone, PartialEq, Hash)]
pub struct Ts2mde1 {
    #[asn(integer(0..7))] pub f0: u8,
    #[asn(default(integer(0..7), 5))] pub f1: u8,
}

impl Ts2mde1 {
    pub const fn f0_min() -> u8 {
        0
    }

    pub const fn f0_max() -> u8 {
        7
    }

    pub const fn f1_min() -> u8 {
        0
    }

    pub const fn f1_max() -> u8 {
        7
    }
}

#[asn(sequence, extensible_after(f1))]

#[derive(Default, Debug, Clone, PartialEq, Hash)]
pub struct Ts2mde2 {
    #[asn(integer(0..7))] pub f0: u8,
    #[asn(default(integer(0..7), 5))] pub f1: u8,
}

impl Ts2mde2 {
    pub const fn f0_min() -> u8 {
        0
    }

    pub const fn f0_max() -> u8 {
        7
    }

    pub const fn f1_min() -> u8 {
        0
    }

    pub const fn f1_max() -> u8 {
        7
    }
}

#[asn(sequence)]

#[derive(Default, Debug, Clone, PartialEq, Hash)]
pub struct Ts2odn {
    #[asn(optional(integer(0..7)))] pub f0: Option<u8>,
    #[asn(default(integer(0..7), 5))] pub f1: u8,
}

impl Ts2odn {
    pub const fn f0_min() -> u8 {
        0
    }

    pub const fn f0_max() -> u8 {
        7
    }

    pub const fn f1_min() -> u8 {
        0
    }

    pub const fn f1_max() -> u8 {
        7
    }
}

#[asn(sequence, extensible_after(f0))]

#[derive(Default, Debug, Clone, PartialEq, Hash)]
pub struct Ts2ode0 {
    #[asn(optional(integer(0..7)))] pub f0: Option<u8>,
    #[asn(default(integer(0..7), 5))] pub f1: u8,
}

impl Ts2ode0 {
    pub const fn f0_min() -> u8 {
        0
    }

    pub const fn f0_max() -> u8 {
        7
    }

    pub const fn f1_min() -> u8 {
        0
    }

    pub const fn f1_max() -> u8 {
        7
    }
}

#[asn(sequence, extensible_after(f0))]

#[derive(Default, Debug, Clone, PartialEq, Hash)]
pub struct Ts2ode1 {
    #[asn(optional(integer(0..7)))] pub f0: Option<u8>,
    #[asn(default(integer(0..7), 5))] pub f1: u8,
}

impl Ts2ode1 {
    pub const fn f0_min() -> u8 {
        0
    }

    pub const fn f0_max() -> u8 {
        7
    }

    pub const fn f1_min() -> u8 {
        0
    }

    pub const fn f1_max() -> u8 {
        7
    }
}

#[asn(sequence, extensible_after(f1))]

#[derive(Default, Debug, Clone, PartialEq, Hash)]
pub struct Ts2ode2 {
    #[asn(optional(integer(0..7)))] pub f0: Option<u8>,
    #[asn(default(integer(0..7), 5))] pub f1: u8,
}

impl Ts2ode2 {
    pub const fn f0_min() -> u8 {
        0
    }

    pub const fn f0_max() -> u8 {
        7
    }

    pub const fn f1_min() -> u8 {
        0
    }

    pub const fn f1_max() -> u8 {
        7
    }
}

#[asn(sequence)]

#[derive(Default, Debug, Clone, PartialEq, Hash)]
pub struct Ts2ddn {
    #[asn(default(integer(0..7), 5))] pub f0: u8,
    #[asn(default(integer(0..7), 5))] pub f1: u8,
}

impl Ts2ddn {
    pub const fn f0_min() -> u8 {
        0
    }

    pub const fn f0_max() -> u8 {
        7
    }

    pub const fn f1_min() -> u8 {
        0
    }

    pub const fn f1_max() -> u8 {
        7
    }
}

#[asn(sequence, extensible_after(f0))]

#[derive(Default, Debug, Clone, PartialEq, Hash)]
pub struct Ts2dde0 {
    #[asn(default(integer(0..7), 5))] pub f0: u8,
    #[asn(default(integer(0..7), 5))] pub f1: u8,
}

impl Ts2dde0 {
    pub const fn f0_min() -> u8 {
        0
    }

    pub const fn f0_max() -> u8 {
        7
    }

    pub const fn f1_min() -> u8 {
        0
    }

    pub const fn f1_max() -> u8 {
        7
    }
}

#[asn(sequence, extensible_after(f0))]

#[derive(Default, Debug, Clone, PartialEq, Hash)]
pub struct Ts2dde1 {
    #[asn(default(integer(0..7), 5))] pub f0: u8,
    #[asn(default(integer(0..7), 5))] pub f1: u8,
}

impl Ts2dde1 {
    pub const fn f0_min() -> u8 {
        0
    }

    pub const fn f0_max() -> u8 {
        7
    }

    pub const fn f1_min() -> u8 {
        0
    }

    pub const fn f1_max() -> u8 {
        7
    }
}

#[asn(sequence, extensible_after(f1))]

#[derive(Default, Debug, Clone, PartialEq, Hash)]
pub struct Ts2dde2 {
    #[asn(default(integer(0..7), 5))] pub f0: u8,
    #[asn(default(integer(0..7), 5))] pub f1: u8,
}

impl Ts2dde2 {
    pub const fn f0_min() -> u8 {
        0
    }

    pub const fn f0_max() -> u8 {
        7
    }

    pub const fn f1_min() -> u8 {
        0
    }

    pub const fn f1_max() -> u8 {
        7
    }
}

#[asn(sequence)]

#[derive(Default, Debug, Clone, PartialEq, Hash)]
pub struct Ts3mmmn {
    #[asn(integer(0..7))] pub f0: u8,
    #[asn(integer(0..7))] pub f1: u8,
    #[asn(integer(0..7))] pub f2: u8,
}

impl Ts3mmmn {
    pub const fn f0_min() -> u8 {
        0
    }

    pub const fn f0_max() -> u8 {
        7
    }

    pub const fn f1_min() -> u8 {
        0
    }

    pub const fn f1_max() -> u8 {
        7
    }

    pub const fn f2_min() -> u8 {
        0
    }

    pub const fn f2_max() -> u8 {
        7
    }
}

#[asn(sequence, extensible_after(f0))]

#[derive(Default, Debug, Clone, PartialEq, Hash)]
pub struct Ts3mmme0 {
    #[asn(integer(0..7))] pub f0: u8,
    #[asn(optional(integer(0..7)))] pub f1: Option<u8>,
    #[asn(optional(integer(0..7)))] pub f2: Option<u8>,
}

impl Ts3mmme0 {
    pub const fn f0_min() -> u8 {
        0
    }

    pub const fn f0_max() -> u8 {
        7
    }

    pub const fn f1_min() -> u8 {
        0
    }

    pub const fn f1_max() -> u8 {
        7
    }

    pub const fn f2_min() -> u8 {
        0
    }

    pub const fn f2_max() -> u8 {
        7
    }
}

#[asn(sequence, extensible_after(f0))]

#[derive(Default, Debug, Clone, PartialEq, Hash)]
pub struct Ts3mmme1 {
    #[asn(integer(0..7))] pub f0: u8,
    #[asn(optional(integer(0..7)))] pub f1: Option<u8>,
    #[asn(optional(integer(0..7)))] pub f2: Option<u8>,
}

impl Ts3mmme1 {
    pub const fn f0_min() -> u8 {
        0
    }

    pub const fn f0_max() -> u8 {
        7
    }

    pub const fn f1_min() -> u8 {
        0
    }

    pub const fn f1_max() -> u8 {
        7
    }

    pub const fn f2_min() -> u8 {
        0
    }

    pub const fn f2_max() -> u8 {
        7
    }
}

#[asn(sequence, extensible_after(f1))]

#[derive(Default, Debug, Clone, PartialEq, Hash)]
pub struct Ts3mmme2 {
    #[asn(integer(0..7))] pub f0: u8,
    #[asn(integer(0..7))] pub f1: u8,
    #[asn(optional(integer(0..7)))] pub f2: Option<u8>,
}

impl Ts3mmme2 {
    pub const fn f0_min() -> u8 {
        0
    }

    pub const fn f0_max() -> u8 {
        7
    }

    pub const fn f1_min() -> u8 {
        0
    }

    pub const fn f1_max() -> u8 {
        7
    }

    pub const fn f2_min() -> u8 {
        0
    }

    pub const fn f2_max() -> u8 {
        7
    }
}

#[asn(sequence, extensible_after(f2))]

#[derive(Default, Debug, Clone, PartialEq, Hash)]
pub struct Ts3mmme3 {
    #[asn(integer(0..7))] pub f0: u8,
    #[asn(integer(0..7))] pub f1: u8,
    #[asn(integer(0..7))] pub f2: u8,
}

impl Ts3mmme3 {
    pub const fn f0_min() -> u8 {
        0
    }

    pub const fn f0_max() -> u8 {
        7
    }

    pub const fn f1_min() -> u8 {
        0
    }

    pub const fn f1_max() -> u8 {
        7
    }

    pub const fn f2_min() -> u8 {
        0
    }

    pub const fn f2_max() -> u8 {
        7
    }
}

#[asn(sequence)]

#[derive(Default, Debug, Clone, PartialEq, Hash)]
pub struct Ts3ommn {
    #[asn(optional(integer(0..7)))] pub f0: Option<u8>,
    #[asn(integer(0..7))] pub f1: u8,
    #[asn(integer(0..7))] pub f2: u8,
}

impl Ts3ommn {
    pub const fn f0_min() -> u8 {
        0
    }

    pub const fn f0_max() -> u8 {
        7
    }

    pub const fn f1_min() -> u8 {
        0
    }

    pub const fn f1_max() -> u8 {
        7
    }

    pub const fn f2_min() -> u8 {
        0
    }

    pub const fn f2_max() -> u8 {
        7
    }
}

#[asn(sequence, extensible_after(f0))]

#[derive(Default, Debug, Clone, PartialEq, Hash)]
pub struct Ts3omme0 {
    #[asn(optional(integer(0..7)))] pub f0: Option<u8>,
    #[asn(optional(integer(0..7)))] pub f1: Option<u8>,
    #[asn(optional(integer(0..7)))] pub f2: Option<u8>,
}

impl Ts3omme0 {
    pub const fn f0_min() -> u8 {
        0
    }

    pub const fn f0_max() -> u8 {
        7
    }

    pub const fn f1_min() -> u8 {
        0
    }

    pub const fn f1_max() -> u8 {
        7
    }

    pub const fn f2_min() -> u8 {
        0
    }

    pub const fn f2_max() -> u8 {
        7
    }
}

#[asn(sequence, extensible_after(f0))]

#[derive(Default, Debug, Clone, PartialEq, Hash)]
pub struct Ts3omme1 {
    #[asn(optional(integer(0..7)))] pub f0: Option<u8>,
    #[asn(optional(integer(0..7)))] pub f1: Option<u8>,
    #[asn(optional(integer(0..7)))] pub f2: Option<u8>,
}

impl Ts3omme1 {
    pub const fn f0_min() -> u8 {
        0
    }

    pub const fn f0_max() -> u8 {
        7
    }

    pub const fn f1_min() -> u8 {
        0
    }

    pub const fn f1_max() -> u8 {
        7
    }

    pub const fn f2_min() -> u8 {
        0
    }

    pub const fn f2_max() -> u8 {
        7
    }
}

#[asn(sequence, extensible_after(f1))]

#[derive(Default, Debug, Clone, PartialEq, Hash)]
pub struct Ts3omme2 {
    #[asn(optional(integer(0..7)))] pub f0: Option<u8>,
    #[asn(integer(0..7))] pub f1: u8,
    #[asn(optional(integer(0..7)))] pub f2: Option<u8>,
}

impl Ts3omme2 {
    pub const fn f0_min() -> u8 {
        0
    }

    pub const fn f0_max() -> u8 {
        7
    }

    pub const fn f1_min() -> u8 {
        0
    }

    pub const fn f1_max() -> u8 {
        7
    }

    pub const fn f2_min() -> u8 {
        0
    }

    pub const fn f2_max() -> u8 {
        7
    }
}

#[asn(sequence, extensible_after(f2))]

#[derive(Default, Debug, Clone, PartialEq, Hash)]
pub struct Ts3omme3 {
    #[asn(optional(integer(0..7)))] pub f0: Option<u8>,
    #[asn(integer(0..7))] pub f1: u8,
    #[asn(integer(0..7))] pub f2: u8,
}

impl Ts3omme3 {
    pub const fn f0_min() -> u8 {
        0
    }

    pub const fn f0_max() -> u8 {
        7
    }

    pub const fn f1_min() -> u8 {
        0
    }

    pub const fn f1_max() -> u8 {
        7
    }

    pub const fn f2_min() -> u8 {
        0
    }

    pub const fn f2_max() -> u8 {
        7
    }
}

#[asn(sequence)]

#[derive(Default, Debug, Clone, PartialEq, Hash)]
pub struct Ts3dmmn {
    #[asn(default(integer(0..7), 5))] pub f0: u8,
    #[asn(integer(0..7))] pub f1: u8,
    #[asn(integer(0..7))] pub f2: u8,
}

impl Ts3dmmn {
    pub const fn f0_min() -> u8 {
        0
    }

    pub const fn f0_max() -> u8 {
        7
    }

    pub const fn f1_min() -> u8 {
        0
    }

    pub const fn f1_max() -> u8 {
        7
    }

    pub const fn f2_min() -> u8 {
        0
    }

    pub const fn f2_max() -> u8 {
        7
    }
}

#[asn(sequence, extensible_after(f0))]

#[derive(Default, Debug, Clone, PartialEq, Hash)]
pub struct Ts3dmme0 {
    #[asn(default(integer(0..7), 5))] pub f0: u8,
    #[asn(optional(integer(0..7)))] pub f1: Option<u8>,
    #[asn(optional(integer(0..7)))] pub f2: Option<u8>,
}

impl Ts3dmme0 {
    pub const fn f0_min() -> u8 {
        0
    }

    pub const fn f0_max() -> u8 {
        7
    }

    pub const fn f1_min() -> u8 {
        0
    }

    pub const fn f1_max() -> u8 {
        7
    }

    pub const fn f2_min() -> u8 {
        0
    }

    pub const fn f2_max() -> u8 {
        7
    }
}

#[asn(sequence, extensible_after(f0))]

#[derive(Default, Debug, Clone, PartialEq, Hash)]
pub struct Ts3dmme1 {
    #[asn(default(integer(0..7), 5))] pub f0: u8,
    #[asn(optional(integer(0..7)))] pub f1: Option<u8>,
    #[asn(optional(integer(0..7)))] pub f2: Option<u8>,
}

impl Ts3dmme1 {
    pub const fn f0_min() -> u8 {
        0
    }

    pub const fn f0_max() -> u8 {
        7
    }

    pub const fn f1_min() -> u8 {
        0
    }

    pub const fn f1_max() -> u8 {
        7
    }

    pub const fn f2_min() -> u8 {
        0
    }

    pub const fn f2_max() -> u8 {
        7
    }
}

#[asn(sequence, extensible_after(f1))]

#[derive(Default, Debug, Clone, PartialEq, Hash)]
pub struct Ts3dmme2 {
    #[asn(default(integer(0..7), 5))] pub f0: u8,
    #[asn(integer(0..7))] pub f1: u8,
    #[asn(optional(integer(0..7)))] pub f2: Option<u8>,
}

impl Ts3dmme2 {
    pub const fn f0_min() -> u8 {
        0
    }

    pub const fn f0_max() -> u8 {
        7
    }

    pub const fn f1_min() -> u8 {
        0
    }

    pub const fn f1_max() -> u8 {
        7
    }

    pub const fn f2_min() -> u8 {
        0
    }

    pub const fn f2_max() -> u8 {
        7
    }
}

#[asn(sequence, extensible_after(f2))]

#[derive(Default, Debug, Clone, PartialEq, Hash)]
pub struct Ts3dmme3 {
    #[asn(default(integer(0..7), 5))] pub f0: u8,
    #[asn(integer(0..7))] pub f1: u8,
    #[asn(integer(0..7))] pub f2: u8,
}

impl Ts3dmme3 {
    pub const fn f0_min() -> u8 {
        0
    }

    pub const fn f0_max() -> u8 {
        7
    }

    pub const fn f1_min() -> u8 {
        0
    }

    pub const fn f1_max() -> u8 {
        7
    }

    pub const fn f2_min() -> u8 {
        0
    }

    pub const fn f2_max() -> u8 {
        7
    }
}

#[asn(sequence)]

#[derive(Default, Debug, Clone, PartialEq, Hash)]
pub struct Ts3momn {
    #[asn(integer(0..7))] pub f0: u8,
    #[asn(optional(integer(0..7)))] pub f1: Option<u8>,
    #[asn(integer(0..7))] pub f2: u8,
}

impl Ts3momn {
    pub const fn f0_min() -> u8 {
        0
    }

    pub const fn f0_max() -> u8 {
        7
    }

    pub const fn f1_min() -> u8 {
        0
    }

    pub const fn f1_max() -> u8 {
        7
    }

    pub const fn f2_min() -> u8 {
        0
    }

    pub const fn f2_max() -> u8 {
        7
    }
}

#[asn(sequence, extensible_after(f0))]

#[derive(Default, Debug, Clone, PartialEq, Hash)]
pub struct Ts3mome0 {
    #[asn(integer(0..7))] pub f0: u8,
    #[asn(optional(integer(0..7)))] pub f1: Option<u8>,
    #[asn(optional(integer(0..7)))] pub f2: Option<u8>,
}

impl Ts3mome0 {
    pub const fn f0_min() -> u8 {
        0
    }

    pub const fn f0_max() -> u8 {
        7
    }

    pub const fn f1_min() -> u8 {
        0
    }

    pub const fn f1_max() -> u8 {
        7
    }

    pub const fn f2_min() -> u8 {
        0
    }

    pub const fn f2_max() -> u8 {
        7
    }
}

#[asn(sequence, extensible_after(f0))]

#[derive(Default, Debug, Clone, PartialEq, Hash)]
pub struct Ts3mome1 {
    #[asn(integer(0..7))] pub f0: u8,
    #[asn(optional(integer(0..7)))] pub f1: Option<u8>,
    #[asn(optional(integer(0..7)))] pub f2: Option<u8>,
}

impl Ts3mome1 {
    pub const fn f0_min() -> u8 {
        0
    }

    pub const fn f0_max() -> u8 {
        7
    }

    pub const fn f1_min() -> u8 {
        0
    }

    pub const fn f1_max() -> u8 {
        7
    }

    pub const fn f2_min() -> u8 {
        0
    }

    pub const fn f2_max() -> u8 {
        7
    }
}

#[asn(sequence, extensible_after(f1))]

#[derive(Default, Debug, Clone, PartialEq, Hash)]
pub struct Ts3mome2 {
    #[asn(integer(0..7))] pub f0: u8,
    #[asn(optional(integer(0..7)))] pub f1: Option<u8>,
    #[asn(optional(integer(0..7)))] pub f2: Option<u8>,
}

impl Ts3mome2 {
    pub const fn f0_min() -> u8 {
        0
    }

    pub const fn f0_max() -> u8 {
        7
    }

    pub const fn f1_min() -> u8 {
        0
    }

    pub const fn f1_max() -> u8 {
        7
    }

    pub const fn f2_min() -> u8 {
        0
    }

    pub const fn f2_max() -> u8 {
        7
    }
}

#[asn(sequence, extensible_after(f2))]

#[derive(Default, Debug, Clone, PartialEq, Hash)]
pub struct Ts3mome3 {
    #[asn(integer(0..7))] pub f0: u8,
    #[asn(optional(integer(0..7)))] pub f1: Option<u8>,
    #[asn(integer(0..7))] pub f2: u8,
}

impl Ts3mome3 {
    pub const fn f0_min() -> u8 {
        0
    }

    pub const fn f0_max() -> u8 {
        7
    }

    pub const fn f1_min() -> u8 {
        0
    }

    pub const fn f1_max() -> u8 {
        7
    }

    pub const fn f2_min() -> u8 {
        0
    }

    pub const fn f2_max() -> u8 {
        7
    }
}

#[asn(sequence)]

#[derive(Default, Debug, Clone, PartialEq, Hash)]
pub struct Ts3oomn {
    #[asn(optional(integer(0..7)))] pub f0: Option<u8>,
    #[asn(optional(integer(0..7)))] pub f1: Option<u8>,
    #[asn(integer(0..7))] pub f2: u8,
}

impl Ts3oomn {
    pub const fn f0_min() -> u8 {
        0
    }

    pub const fn f0_max() -> u8 {
        7
    }

    pub const fn f1_min() -> u8 {
        0
    }

    pub const fn f1_max() -> u8 {
        7
    }

    pub const fn f2_min() -> u8 {
        0
    }

    pub const fn f2_max() -> u8 {
        7
    }
}

#[asn(sequence, extensible_after(f0))]

#[derive(Default, Debug, Clone, PartialEq, Hash)]
pub struct Ts3oome0 {
    #[asn(optional(integer(0..7)))] pub f0: Option<u8>,
    #[asn(optional(integer(0..7)))] pub f1: Option<u8>,
    #[asn(optional(integer(0..7)))] pub f2: Option<u8>,
}

impl Ts3oome0 {
    pub const fn f0_min() -> u8 {
        0
    }

    pub const fn f0_max() -> u8 {
        7
    }

    pub const fn f1_min() -> u8 {
        0
    }

    pub const fn f1_max() -> u8 {
        7
    }

    pub const fn f2_min() -> u8 {
        0
    }

    pub const fn f2_max() -> u8 {
        7
    }
}

#[asn(sequence, extensible_after(f0))]

#[derive(Default, Debug, Clone, PartialEq, Hash)]
pub struct Ts3oome1 {
    #[asn(optional(integer(0..7)))] pub f0: Option<u8>,
    #[asn(optional(integer(0..7)))] pub f1: Option<u8>,
    #[asn(optional(integer(0..7)))] pub f2: Option<u8>,
}

impl Ts3oome1 {
    pub const fn f0_min() -> u8 {
        0
    }

    pub const fn f0_max() -> u8 {
        7
    }

    pub const fn f1_min() -> u8 {
        0
    }

    pub const fn f1_max() -> u8 {
        7
    }

    pub const fn f2_min() -> u8 {
        0
    }

    pub const fn f2_max() -> u8 {
        7
    }
}

#[asn(sequence, extensible_after(f1))]

#[derive(Default, Debug, Clone, PartialEq, Hash)]
pub struct Ts3oome2 {
    #[asn(optional(integer(0..7)))] pub f0: Option<u8>,
    #[asn(optional(integer(0..7)))] pub f1: Option<u8>,
    #[asn(optional(integer(0..7)))] pub f2: Option<u8>,
}

impl Ts3oome2 {
    pub const fn f0_min() -> u8 {
        0
    }

    pub const fn f0_max() -> u8 {
        7
    }

    pub const fn f1_min() -> u8 {
        0
    }

    pub const fn f1_max() -> u8 {
        7
    }

    pub const fn f2_min() -> u8 {
        0
    }

    pub const fn f2_max() -> u8 {
        7
    }
}

#[asn(sequence, extensible_after(f2))]

#[derive(Default, Debug, Clone, PartialEq, Hash)]
pub struct Ts3oome3 {
    #[asn(optional(integer(0..7)))] pub f0: Option<u8>,
    #[asn(optional(integer(0..7)))] pub f1: Option<u8>,
    #[asn(integer(0..7))] pub f2: u8,
}

impl Ts3oome3 {
    pub const fn f0_min() -> u8 {
        0
    }

    pub const fn f0_max() -> u8 {
        7
    }

    pub const fn f1_min() -> u8 {
        0
    }

    pub const fn f1_max() -> u8 {
        7
    }

    pub const fn f2_min() -> u8 {
        0
    }

    pub const fn f2_max() -> u8 {
        7
    }
}

#[asn(sequence)]

#[derive(Default, Debug, Clone, PartialEq, Hash)]
pub struct Ts3domn {
    #[asn(default(integer(0..7), 5))] pub f0: u8,
    #[asn(optional(integer(0..7)))] pub f1: Option<u8>,
    #[asn(integer(0..7))] pub f2: u8,
}

impl Ts3domn {
    pub const fn f0_min() -> u8 {
        0
    }

    pub const fn f0_max() -> u8 {
        7
    }

    pub const fn f1_min() -> u8 {
        0
    }

    pub const fn f1_max() -> u8 {
        7
    }

    pub const fn f2_min() -> u8 {
        0
    }

    pub const fn f2_max() -> u8 {
        7
    }
}

#[asn(sequence, extensible_after(f0))]

#[derive(Default, Debug, Clone, PartialEq, Hash)]
pub struct Ts3dome0 {
    #[asn(default(integer(0..7), 5))] pub f0: u8,
    #[asn(optional(integer(0..7)))] pub f1: Option<u8>,
    #[asn(optional(integer(0..7)))] pub f2: Option<u8>,
}

impl Ts3dome0 {
    pub const fn f0_min() -> u8 {
        0
    }

    pub const fn f0_max() -> u8 {
        7
    }

    pub const fn f1_min() -> u8 {
        0
    }

    pub const fn f1_max() -> u8 {
        7
    }

    pub const fn f2_min() -> u8 {
        0
    }

    pub const fn f2_max() -> u8 {
        7
    }
}

#[asn(sequence, extensible_after(f0))]

#[derive(Default, Debug, Clone, PartialEq, Hash)]
pub struct Ts3dome1 {
    #[asn(default(integer(0..7), 5))] pub f0: u8,
    #[asn(optional(integer(0..7)))] pub f1: Option<u8>,
    #[asn(optional(integer(0..7)))] pub f2: Option<u8>,
}

impl Ts3dome1 {
    pub const fn f0_min() -> u8 {
        0
    }

    pub const fn f0_max() -> u8 {
        7
    }

    pub const fn f1_min() -> u8 {
        0
    }

    pub const fn f1_max() -> u8 {
        7
    }

    pub const fn f2_min() -> u8 {
        0
    }

    pub const fn f2_max() -> u8 {
        7
    }
}

#[asn(sequence, extensible_after(f1))]

#[derive(Default, Debug, Clone, PartialEq, Hash)]
pub struct Ts3dome2 {
    #[asn(default(integer(0..7), 5))] pub f0: u8,
    #[asn(optional(integer(0..7)))] pub f1: Option<u8>,
    #[asn(optional(integer(0..7)))] pub f2: Option<u8>,
}

impl Ts3dome2 {
    pub const fn f0_min() -> u8 {
        0
    }

    pub const fn f0_max() -> u8 {
        7
    }

    pub const fn f1_min() -> u8 {
        0
    }

    pub const fn f1_max() -> u8 {
        7
    }

    pub const fn f2_min() -> u8 {
        0
    }

    pub const fn f2_max() -> u8 {
        7
    }
}

#[asn(sequence, extensible_after(f2))]

#[derive(Default, Debug, Clone, PartialEq, Hash)]
pub struct Ts3dome3 {
    #[asn(default(integer(0..7), 5))] pub f0: u8,
    #[asn(optional(integer(0..7)))] pub f1: Option<u8>,
    #[asn(integer(0..7))] pub f2: u8,
}

impl Ts3dome3 {
    pub const fn f0_min() -> u8 {
        0
    }

    pub const fn f0_max() -> u8 {
        7
    }

    pub const fn f1_min() -> u8 {
        0
    }

    pub const fn f1_max() -> u8 {
        7
    }

    pub const fn f2_min() -> u8 {
        0
    }

    pub const fn f2_max() -> u8 {
        7
    }
}

#[asn(sequence)]

#[derive(Default, Debug, Clone, PartialEq, Hash)]
pub struct Ts3mdmn {
    #[asn(integer(0..7))] pub f0: u8,
    #[asn(default(integer(0..7), 5))] pub f1: u8,
    #[asn(integer(0..7))] pub f2: u8,
}

impl Ts3mdmn {
    pub const fn f0_min() -> u8 {
        0
    }

    pub const fn f0_max() -> u8 {
        7
    }

    pub const fn f1_min() -> u8 {
        0
    }

    pub const fn f1_max() -> u8 {
        7
    }

    pub const fn f2_min() -> u8 {
        0
    }

    pub const fn f2_max() -> u8 {
        7
    }
}

#[asn(sequence, extensible_after(f0))]

#[derive(Default, Debug, Clone, PartialEq, Hash)]
pub struct Ts3mdme0 {
    #[asn(integer(0..7))] pub f0: u8,
    #[asn(default(integer(0..7), 5))] pub f1: u8,
    #[asn(optional(integer(0..7)))] pub f2: Option<u8>,
}

impl Ts3mdme0 {
    pub const fn f0_min() -> u8 {
        0
    }

    pub const fn f0_max() -> u8 {
        7
    }

    pub const fn f1_min() -> u8 {
        0
    }

    pub const fn f1_max() -> u8 {
        7
    }

    pub const fn f2_min() -> u8 {
        0
    }

    pub const fn f2_max() -> u8 {
        7
    }
}

#[asn(sequence, extensible_after(f0))]

#[derive(Default, Debug, Clone, PartialEq, Hash)]
pub struct Ts3mdme1 {
    #[asn(integer(0..7))] pub f0: u8,
    #[asn(default(integer(0..7), 5))] pub f1: u8,
    #[asn(optional(integer(0..7)))] pub f2: Option<u8>,
}

impl Ts3mdme1 {
    pub const fn f0_min() -> u8 {
        0
    }

    pub const fn f0_max() -> u8 {
        7
    }

    pub const fn f1_min() -> u8 {
        0
    }

    pub const fn f1_max() -> u8 {
        7
    }

    pub const fn f2_min() -> u8 {
        0
    }

    pub const fn f2_max() -> u8 {
        7
    }
}

#[asn(sequence, extensible_after(f1))]

#[derive(Default, Debug, Clone, PartialEq, Hash)]
pub struct Ts3mdme2 {
    #[asn(integer(0..7))] pub f0: u8,
    #[asn(default(integer(0..7), 5))] pub f1: u8,
    #[asn(optional(integer(0..7)))] pub f2: Option<u8>,
}

impl Ts3mdme2 {
    pub const fn f0_min() -> u8 {
        0
    }

    pub const fn f0_max() -> u8 {
        7
    }

    pub const fn f1_min() -> u8 {
        0
    }

    pub const fn f1_max() -> u8 {
        7
    }

    pub const fn f2_min() -> u8 {
        0
    }

    pub const fn f2_max() -> u8 {
        7
    }
}

#[asn(sequence, extensible_after(f2))]

#[derive(Default, Debug, Clone, PartialEq, Hash)]
pub struct Ts3mdme3 {
    #[asn(integer(0..7))] pub f0: u8,
    #[asn(default(integer(0..7), 5))] pub f1: u8,
    #[asn(integer(0..7))] pub f2: u8,
}

impl Ts3mdme3 {
    pub const fn f0_min() -> u8 {
        0
    }

    pub const fn f0_max() -> u8 {
        7
    }

    pub const fn f1_min() -> u8 {
        0
    }

    pub const fn f1_max() -> u8 {
        7
    }

    pub const fn f2_min() -> u8 {
        0
    }

    pub const fn f2_max() -> u8 {
        7
    }
}

#[asn(sequence)]

#[derive(Default, Debug, Clone, PartialEq, Hash)]
pub struct Ts3odmn {
    #[asn(optional(integer(0..7)))] pub f0: Option<u8>,
    #[asn(default(integer(0..7), 5))] pub f1: u8,
    #[asn(integer(0..7))] pub f2: u8,
}

impl Ts3odmn {
    pub const fn f0_min() -> u8 {
        0
    }

    pub const fn f0_max() -> u8 {
        7
    }

    pub const fn f1_min() -> u8 {
        0
    }

    pub const fn f1_max() -> u8 {
        7
    }

    pub const fn f2_min() -> u8 {
        0
    }

    pub const fn f2_max() -> u8 {
        7
    }
}

#[asn(sequence, extensible_after(f0))]

#[derive(Default, Debug, Clone, PartialEq, Hash)]
pub struct Ts3odme0 {
    #[asn(optional(integer(0..7)))] pub f0: Option<u8>,
    #[asn(default(integer(0..7), 5))] pub f1: u8,
    #[asn(optional(integer(0..7)))] pub f2: Option<u8>,
}

impl Ts3odme0 {
    pub const fn f0_min() -> u8 {
        0
    }

    pub const fn f0_max() -> u8 {
        7
    }

    pub const fn f1_min() -> u8 {
        0
    }

    pub const fn f1_max() -> u8 {
        7
    }

    pub const fn f2_min() -> u8 {
        0
    }

    pub const fn f2_max() -> u8 {
        7
    }
}

#[asn(sequence, extensible_after(f0))]

#[derive(Default, Debug, Clone, PartialEq, Hash)]
pub struct Ts3odme1 {
    #[asn(optional(integer(0..7)))] pub f0: Option<u8>,
    #[asn(default(integer(0..7), 5))] pub f1: u8,
    #[asn(optional(integer(0..7)))] pub f2: Option<u8>,
}

impl Ts3odme1 {
    pub const fn f0_min() -> u8 {
        0
    }

    pub const fn f0_max() -> u8 {
        7
    }

    pub const fn f1_min() -> u8 {
        0
    }

    pub const fn f1_max() -> u8 {
        7
    }

    pub const fn f2_min() -> u8 {
        0
    }

    pub const fn f2_max() -> u8 {
        7
    }
}

#[asn(sequence, extensible_after(f1))]

#[derive(Default, Debug, Clone, PartialEq, Hash)]
pub struct Ts3odme2 {
    #[asn(optional(integer(0..7)))] pub f0: Option<u8>,
    #[asn(default(integer(0..7), 5))] pub f1: u8,
    #[asn(optional(integer(0..7)))] pub f2: Option<u8>,
}

impl Ts3odme2 {
    pub const fn f0_min() -> u8 {
        0
    }

    pub const fn f0_max() -> u8 {
        7
    }

    pub const fn f1_min() -> u8 {
        0
    }

    pub const fn f1_max() -> u8 {
        7
    }

    pub const fn f2_min() -> u8 {
        0
    }

    pub const fn f2_max() -> u8 {
        7
    }
}

#[asn(sequence, extensible_after(f2))]

#[derive(Default, Debug, Clone, PartialEq, Hash)]
pub struct Ts3odme3 {
    #[asn(optional(integer(0..7)))] pub f0: Option<u8>,
    #[asn(default(integer(0..7), 5))] pub f1: u8,
    #[asn(integer(0..7))] pub f2: u8,
}

impl Ts3odme3 {
    pub const fn f0_min() -> u8 {
        0
    }

    pub const fn f0_max() -> u8 {
        7
    }

    pub const fn f1_min() -> u8 {
        0
    }

    pub const fn f1_max() -> u8 {
        7
    }

    pub const fn f2_min() -> u8 {
        0
    }

    pub const fn f2_max() -> u8 {
        7
    }
}

#[asn(sequence)]

#[derive(Default, Debug, Clone, PartialEq, Hash)]
pub struct Ts3ddmn {
    #[asn(default(integer(0..7), 5))] pub f0: u8,
    #[asn(default(integer(0..7), 5))] pub f1: u8,
    #[asn(integer(0..7))] pub f2: u8,
}

impl Ts3ddmn {
    pub const fn f0_min() -> u8 {
        0
    }

    pub const fn f0_max() -> u8 {
        7
    }

    pub const fn f1_min() -> u8 {
        0
    }

    pub const fn f1_max() -> u8 {
        7
    }

    pub const fn f2_min() -> u8 {
        0
    }

    pub const fn f2_max() -> u8 {
        7
    }
}

#[asn(sequence, extensible_after(f0))]

#[derive(Default, Debug, Clone, PartialEq, Hash)]
pub struct Ts3ddme0 {
    #[asn(default(integer(0..7), 5))] pub f0: u8,
    #[asn(default(integer(0..7), 5))] pub f1: u8,
    #[asn(optional(integer(0..7)))] pub f2: Option<u8>,
}

impl Ts3ddme0 {
    pub const fn f0_min() -> u8 {
        0
    }

    pub const fn f0_max() -> u8 {
        7
    }

    pub const fn f1_min() -> u8 {
        0
    }

    pub const fn f1_max() -> u8 {
        7
    }

    pub const fn f2_min() -> u8 {
        0
    }

    pub const fn f2_max() -> u8 {
        7
    }
}

#[asn(sequence, extensible_after(f0))]

#[derive(Default, Debug, Clone, PartialEq, Hash)]
pub struct Ts3ddme1 {
    #[asn(default(integer(0..7), 5))] pub f0: u8,
    #[asn(default(integer(0..7), 5))] pub f1: u8,
    #[asn(optional(integer(0..7)))] pub f2: Option<u8>,
}

impl Ts3ddme1 {
    pub const fn f0_min() -> u8 {
        0
    }

    pub const fn f0_max() -> u8 {
        7
    }

    pub const fn f1_min() -> u8 {
        0
    }

    pub const fn f1_max() -> u8 {
        7
    }

    pub const fn f2_min() -> u8 {
        0
    }

    pub const fn f2_max() -> u8 {
        7
    }
}

#[asn(sequence, extensible_after(f1))]

#[derive(Default, Debug, Clone, PartialEq, Hash)]
pub struct Ts3ddme2 {
    #[asn(default(integer(0..7), 5))] pub f0: u8,
    #[asn(default(integer(0..7), 5))] pub f1: u8,
    #[asn(optional(integer(0..7)))] pub f2: Option<u8>,
}

impl Ts3ddme2 {
    pub const fn f0_min() -> u8 {
        0
    }

    pub const fn f0_max() -> u8 {
        7
    }

    pub const fn f1_min() -> u8 {
        0
    }

    pub const fn f1_max() -> u8 {
        7
    }

    pub const fn f2_min() -> u8 {
        0
    }

    pub const fn f2_max() -> u8 {
        7
    }
}

#[asn(sequence, extensible_after(f2))]

#[derive(Default, Debug, Clone, PartialEq, Hash)]
pub struct Ts3ddme3 {
    #[asn(default(integer(0..7), 5))] pub f0: u8,
    #[asn(default(integer(0..7), 5))] pub f1: u8,
    #[asn(integer(0..7))] pub f2: u8,
}

impl Ts3ddme3 {
    pub const fn f0_min() -> u8 {
        0
    }

    pub const fn f0_max() -> u8 {
        7
    }

    pub const fn f1_min() -> u8 {
        0
    }

    pub const fn f1_max() -> u8 {
        7
    }

    pub const fn f2_min() -> u8 {
        0
    }

    pub const fn f2_max() -> u8 {
        7
    }
}

#[asn(sequence)]

#[derive(Default, Debug, Clone, PartialEq, Hash)]
pub struct Ts3mmon {
    #[asn(integer(0..7))] pub f0: u8,
    #[asn(integer(0..7))] pub f1: u8,
    #[asn(optional(integer(0..7)))] pub f2: Option<u8>,
}

impl Ts3mmon {
    pub const fn f0_min() -> u8 {
        0
    }

    pub const fn f0_max() -> u8 {
        7
    }

    pub const fn f1_min() -> u8 {
        0
    }

    pub const fn f1_max() -> u8 {
        7
    }

    pub const fn f2_min() -> u8 {
        0
    }

    pub const fn f2_max() -> u8 {
        7
    }
}

#[asn(sequence, extensible_after(f0))]

#[derive(Default, Debug, Clone, PartialEq, Hash)]
pub struct Ts3mmoe0 {
    #[asn(integer(0..7))] pub f0: u8,
    #[asn(optional(integer(0..7)))] pub f1: Option<u8>,
    #[asn(optional(integer(0..7)))] pub f2: Option<u8>,
}

impl Ts3mmoe0 {
    pub const fn f0_min() -> u8 {
        0
    }

    pub const fn f0_max() -> u8 {
        7
    }

    pub const fn f1_min() -> u8 {
        0
    }

    pub const fn f1_max() -> u8 {
        7
    }

    pub const fn f2_min() -> u8 {
        0
    }

    pub const fn f2_max() -> u8 {
        7
    }
}

#[asn(sequence, extensible_after(f0))]

#[derive(Default, Debug, Clone, PartialEq, Hash)]
pub struct Ts3mmoe1 {
    #[asn(integer(0..7))] pub f0: u8,
    #[asn(optional(integer(0..7)))] pub f1: Option<u8>,
    #[asn(optional(integer(0..7)))] pub f2: Option<u8>,
}

impl Ts3mmoe1 {
    pub const fn f0_min() -> u8 {
        0
    }

    pub const fn f0_max() -> u8 {
        7
    }

    pub const fn f1_min() -> u8 {
        0
    }

    pub const fn f1_max() -> u8 {
        7
    }

    pub const fn f2_min() -> u8 {
        0
    }

    pub const fn f2_max() -> u8 {
        7
    }
}

#[asn(sequence, extensible_after(f1))]

#[derive(Default, Debug, Clone, PartialEq, Hash)]
pub struct Ts3mmoe2 {
    #[asn(integer(0..7))] pub f0: u8,
    #[asn(integer(0..7))] pub f1: u8,
    #[asn(optional(integer(0..7)))] pub f2: Option<u8>,
}

impl Ts3mmoe2 {
    pub const fn f0_min() -> u8 {
        0
    }

    pub const fn f0_max() -> u8 {
        7
    }

    pub const fn f1_min() -> u8 {
        0
    }

    pub const fn f1_max() -> u8 {
        7
    }

    pub const fn f2_min() -> u8 {
        0
    }

    pub const fn f2_max() -> u8 {
        7
    }
}

#[asn(sequence, extensible_after(f2))]

#[derive(Default, Debug, Clone, PartialEq, Hash)]
pub struct Ts3mmoe3 {
    #[asn(integer(0..7))] pub f0: u8,
    #[asn(integer(0..7))] pub f1: u8,
    #[asn(optional(integer(0..7)))] pub f2: Option<u8>,
}

impl Ts3mmoe3 {
    pub const fn f0_min() -> u8 {
        0
    }

    pub const fn f0_max() -> u8 {
        7
    }

    pub const fn f1_min() -> u8 {
        0
    }

    pub const fn f1_max() -> u8 {
        7
    }

    pub const fn f2_min() -> u8 {
        0
    }

    pub const fn f2_max() -> u8 {
        7
    }
}

#[asn(sequence)]

#[derive(Default, Debug, Clone, PartialEq, Hash)]
pub struct Ts3omon {
    #[asn(optional(integer(0..7)))] pub f0: Option<u8>,
    #[asn(integer(0..7))] pub f1: u8,
    #[asn(optional(integer(0..7)))] pub f2: Option<u8>,
}

impl Ts3omon {
    pub const fn f0_min() -> u8 {
        0
    }

    pub const fn f0_max() -> u8 {
        7
    }

    pub const fn f1_min() -> u8 {
        0
    }

    pub const fn f1_max() -> u8 {
        7
    }

    pub const fn f2_min() -> u8 {
        0
    }

    pub const fn f2_max() -> u8 {
        7
    }
}

#[asn(sequence, extensible_after(f0))]

#[derive(Default, Debug, Clone, PartialEq, Hash)]
pub struct Ts3omoe0 {
    #[asn(optional(integer(0..7)))] pub f0: Option<u8>,
    #[asn(optional(integer(0..7)))] pub f1: Option<u8>,
    #[asn(optional(integer(0..7)))] pub f2: Option<u8>,
}

impl Ts3omoe0 {
    pub const fn f0_min() -> u8 {
        0
    }

    pub const fn f0_max() -> u8 {
        7
    }

    pub const fn f1_min() -> u8 {
        0
    }

    pub const fn f1_max() -> u8 {
        7
    }

    pub const fn f2_min() -> u8 {
        0
    }

    pub const fn f2_max() -> u8 {
        7
    }
}

#[asn(sequence, extensible_after(f0))]

#[derive(Default, Debug, Clone, PartialEq, Hash)]
pub struct Ts3omoe1 {
    #[asn(optional(integer(0..7)))] pub f0: Option<u8>,
    #[asn(optional(integer(0..7)))] pub f1: Option<u8>,
    #[asn(optional(integer(0..7)))] pub f2: Option<u8>,
}

impl Ts3omoe1 {
    pub const fn f0_min() -> u8 {
        0
    }

    pub const fn f0_max() -> u8 {
        7
    }

    pub const fn f1_min() -> u8 {
        0
    }

    pub const fn f1_max() -> u8 {
        7
    }

    pub const fn f2_min() -> u8 {
        0
    }

    pub const fn f2_max() -> u8 {
        7
    }
}

#[asn(sequence, extensible_after(f1))]

#[derive(Default, Debug, Clone, PartialEq, Hash)]
pub struct Ts3omoe2 {
    #[asn(optional(integer(0..7)))] pub f0: Option<u8>,
    #[asn(integer(0..7))] pub f1: u8,
    #[asn(optional(integer(0..7)))] pub f2: Option<u8>,
}

impl Ts3omoe2 {
    pub const fn f0_min() -> u8 {
        0
    }

    pub const fn f0_max() -> u8 {
        7
    }

    pub const fn f1_min() -> u8 {
        0
    }

    pub const fn f1_max() -> u8 {
        7
    }

    pub const fn f2_min() -> u8 {
        0
    }

    pub const fn f2_max() -> u8 {
        7
    }
}

#[asn(sequence, extensible_after(f2))]

#[derive(Default, Debug, Clone, PartialEq, Hash)]
pub struct Ts3omoe3 {
    #[asn(optional(integer(0..7)))] pub f0: Option<u8>,
    #[asn(integer(0..7))] pub f1: u8,
    #[asn(optional(integer(0..7)))] pub f2: Option<u8>,
}

impl Ts3omoe3 {
    pub const fn f0_min() -> u8 {
        0
    }

    pub const fn f0_max() -> u8 {
        7
    }

    pub const fn f1_min() -> u8 {
        0
    }

    pub const fn f1_max() -> u8 {
        7
    }

    pub const fn f2_min() -> u8 {
        0
    }

    pub const fn f2_max() -> u8 {
        7
    }
}

#[asn(sequence)]

#[derive(Default, Debug, Clone, PartialEq, Hash)]
pub struct Ts3dmon {
    #[asn(default(integer(0..7), 5))] pub f0: u8,
    #[asn(integer(0..7))] pub f1: u8,
    #[asn(optional(integer(0..7)))] pub f2: Option<u8>,
}

impl Ts3dmon {
    pub const fn f0_min() -> u8 {
        0
    }

    pub const fn f0_max() -> u8 {
        7
    }

    pub const fn f1_min() -> u8 {
        0
    }

    pub const fn f1_max() -> u8 {
        7
    }

    pub const fn f2_min() -> u8 {
        0
    }

    pub const fn f2_max() -> u8 {
        7
    }
}

#[asn(sequence, extensible_after(f0))]

#[derive(Default, Debug, Clone, PartialEq, Hash)]
pub struct Ts3dmoe0 {
    #[asn(default(integer(0..7), 5))] pub f0: u8,
    #[asn(optional(integer(0..7)))] pub f1: Option<u8>,
    #[asn(optional(integer(0..7)))] pub f2: Option<u8>,
}

impl Ts3dmoe0 {
    pub const fn f0_min() -> u8 {
        0
    }

    pub const fn f0_max() -> u8 {
        7
    }

    pub const fn f1_min() -> u8 {
        0
    }

    pub const fn f1_max() -> u8 {
        7
    }

    pub const fn f2_min() -> u8 {
        0
    }

    pub const fn f2_max() -> u8 {
        7
    }
}

#[asn(sequence, extensible_after(f0))]

#[derive(Default, Debug, Clone, PartialEq, Hash)]
pub struct Ts3dmoe1 {
    #[asn(default(integer(0..7), 5))] pub f0: u8,
    #[asn(optional(integer(0..7)))] pub f1: Option<u8>,
    #[asn(optional(integer(0..7)))] pub f2: Option<u8>,
}

impl Ts3dmoe1 {
    pub const fn f0_min() -> u8 {
        0
    }

    pub const fn f0_max() -> u8 {
        7
    }

    pub const fn f1_min() -> u8 {
        0
    }

    pub const fn f1_max() -> u8 {
        7
    }

    pub const fn f2_min() -> u8 {
        0
    }

    pub const fn f2_max() -> u8 {
        7
    }
}

#[asn(sequence, extensible_after(f1))]

#[derive(Default, Debug, Clone, PartialEq, Hash)]
pub struct Ts3dmoe2 {
    #[asn(default(integer(0..7), 5))] pub f0: u8,
    #[asn(integer(0..7))] pub f1: u8,
    #[asn(optional(integer(0..7)))] pub f2: Option<u8>,
}

impl Ts3dmoe2 {
    pub const fn f0_min() -> u8 {
        0
    }

    pub const fn f0_max() -> u8 {
        7
    }

    pub const fn f1_min() -> u8 {
        0
    }

    pub const fn f1_max() -> u8 {
        7
    }

    pub const fn f2_min() -> u8 {
        0
    }

    pub const fn f2_max() -> u8 {
        7
    }
}

#[asn(sequence, extensible_after(f2))]

#[derive(Default, Debug, Clone, PartialEq, Hash)]
pub struct Ts3dmoe3 {
    #[asn(default(integer(0..7), 5))] pub f0: u8,
    #[asn(integer(0..7))] pub f1: u8,
    #[asn(optional(integer(0..7)))] pub f2: Option<u8>,
}

impl Ts3dmoe3 {
    pub const fn f0_min() -> u8 {
        0
    }

    pub const fn f0_max() -> u8 {
        7
    }

    pub const fn f1_min() -> u8 {
        0
    }

    pub const fn f1_max() -> u8 {
        7
    }

    pub const fn f2_min() -> u8 {
        0
    }

    pub const fn f2_max() -> u8 {
        7
    }
}

#[asn(sequence)]

#[derive(Default, Debug, Clone, PartialEq, Hash)]
pub struct Ts3moon {
    #[asn(integer(0..7))] pub f0: u8,
    #[asn(optional(integer(0..7)))] pub f1: Option<u8>,
    #[asn(optional(integer(0..7)))] pub f2: Option<u8>,
}

impl Ts3moon {
    pub const fn f0_min() -> u8 {
        0
    }

    pub const fn f0_max() -> u8 {
        7
    }

    pub const fn f1_min() -> u8 {
        0
    }

    pub const fn f1_max() -> u8 {
        7
    }

    pub const fn f2_min() -> u8 {
        0
    }

    pub const fn f2_max() -> u8 {
        7
    }
}

#[asn(sequence, extensible_after(f0))]

#[derive(Default, Debug, Clone, PartialEq, Hash)]
pub struct Ts3mooe0 {
    #[asn(integer(0..7))] pub f0: u8,
    #[asn(optional(integer(0..7)))] pub f1: Option<u8>,
    #[asn(optional(integer(0..7)))] pub f2: Option<u8>,
}

impl Ts3mooe0 {
    pub const fn f0_min() -> u8 {
        0
    }

    pub const fn f0_max() -> u8 {
        7
    }

    pub const fn f1_min() -> u8 {
        0
    }

    pub const fn f1_max() -> u8 {
        7
    }

    pub const fn f2_min() -> u8 {
        0
    }

    pub const fn f2_max() -> u8 {
        7
    }
}

#[asn(sequence, extensible_after(f0))]

#[derive(Default, Debug, Clone, PartialEq, Hash)]
pub struct Ts3mooe1 {
    #[asn(integer(0..7))] pub f0: u8,
    #[asn(optional(integer(0..7)))] pub f1: Option<u8>,
    #[asn(optional(integer(0..7)))] pub f2: Option<u8>,
}

impl Ts3mooe1 {
    pub const fn f0_min() -> u8 {
        0
    }

    pub const fn f0_max() -> u8 {
        7
    }

    pub const fn f1_min() -> u8 {
        0
    }

    pub const fn f1_max() -> u8 {
        7
    }

    pub const fn f2_min() -> u8 {
        0
    }

    pub const fn f2_max() -> u8 {
        7
    }
}

#[asn(sequence, extensible_after(f1))]

#[derive(Default, Debug, Clone, PartialEq, Hash)]
pub struct Ts3mooe2 {
    #[asn(integer(0..7))] pub f0: u8,
    #[asn(optional(integer(0..7)))] pub f1: Option<u8>,
    #[asn(optional(integer(0..7)))] pub f2: Option<u8>,
}

impl Ts3mooe2 {
    pub const fn f0_min() -> u8 {
        0
    }

    pub const fn f0_max() -> u8 {
        7
    }

    pub const fn f1_min() -> u8 {
        0
    }

    pub const fn f1_max() -> u8 {
        7
    }

    pub const fn f2_min() -> u8 {
        0
    }

    pub const fn f2_max() -> u8 {
        7
    }
}

#[asn(sequence, extensible_after(f2))]

#[derive(Default, Debug, Clone, PartialEq, Hash)]
pub struct Ts3mooe3 {
    #[asn(integer(0..7))] pub f0: u8,
    #[asn(optional(integer(0..7)))] pub f1: Option<u8>,
    #[asn(optional(integer(0..7)))] pub f2: Option<u8>,
}

impl Ts3mooe3 {
    pub const fn f0_min() -> u8 {
        0
    }

    pub const fn f0_max() -> u8 {
        7
    }

    pub const fn f1_min() -> u8 {
        0
    }

    pub const fn f1_max() -> u8 {
        7
    }

    pub const fn f2_min() -> u8 {
        0
    }

    pub const fn f2_max() -> u8 {
        7
    }
}

#[asn(sequence)]

#[derive(Default, Debug, Clone, PartialEq, Hash)]
pub struct Ts3ooon {
    #[asn(optional(integer(0..7)))] pub f0: Option<u8>,
    #[asn(optional(integer(0..7)))] pub f1: Option<u8>,
    #[asn(optional(integer(0..7)))] pub f2: Option<u8>,
}

impl Ts3ooon {
    pub const fn f0_min() -> u8 {
        0
    }

    pub const fn f0_max() -> u8 {
        7
    }

    pub const fn f1_min() -> u8 {
        0
    }

    pub const fn f1_max() -> u8 {
        7
    }

    pub const fn f2_min() -> u8 {
        0
    }

    pub const fn f2_max() -> u8 {
        7
    }
}

#[asn(sequence, extensible_after(f0))]

#[derive(Default, Debug, Clone, PartialEq, Hash)]
pub struct Ts3oooe0 {
    #[asn(optional(integer(0..7)))] pub f0: Option<u8>,
    #[asn(optional(integer(0..7)))] pub f1: Option<u8>,
    #[asn(optional(integer(0..7)))] pub f2: Option<u8>,
}

impl Ts3oooe0 {
    pub const fn f0_min() -> u8 {
        0
    }

    pub const fn f0_max() -> u8 {
        7
    }

    pub const fn f1_min() -> u8 {
        0
    }

    pub const fn f1_max() -> u8 {
        7
    }

    pub const fn f2_min() -> u8 {
        0
    }

    pub const fn f2_max() -> u8 {
        7
    }
}

#[asn(sequence, extensible_after(f0))]

#[derive(Default, Debug, Clone, PartialEq, Hash)]
pub struct Ts3oooe1 {
    #[asn(optional(integer(0..7)))] pub f0: Option<u8>,
    #[asn(optional(integer(0..7)))] pub f1: Option<u8>,
    #[asn(optional(integer(0..7)))] pub f2: Option<u8>,
}

impl Ts3oooe1 {
    pub const fn f0_min() -> u8 {
        0
    }

    pub const fn f0_max() -> u8 {
        7
    }

    pub const fn f1_min() -> u8 {
        0
    }

    pub const fn f1_max() -> u8 {
        7
    }

    pub const fn f2_min() -> u8 {
        0
    }

    pub const fn f2_max() -> u8 {
        7
    }
}

#[asn(sequence, extensible_after(f1))]

#[derive(Default, Debug, Clone, PartialEq, Hash)]
pub struct Ts3oooe2 {
    #[asn(optional(integer(0..7)))] pub f0: Option<u8>,
    #[asn(optional(integer(0..7)))] pub f1: Option<u8>,
    #[asn(optional(integer(0..7)))] pub f2: Option<u8>,
}

impl Ts3oooe2 {
    pub const fn f0_min() -> u8 {
        0
    }

    pub const fn f0_max() -> u8 {
        7
    }

    pub const fn f1_min() -> u8 {
        0
    }

    pub const fn f1_max() -> u8 {
        7
    }

    pub const fn f2_min() -> u8 {
        0
    }

    pub const fn f2_max() -> u8 {
        7
    }
}

#[asn(sequence, extensible_after(f2))]

#[derive(Default, Debug, Clone, PartialEq, Hash)]
pub struct Ts3oooe3 {
    #[asn(optional(integer(0..7)))] pub f0: Option<u8>,
    #[asn(optional(integer(0..7)))] pub f1: Option<u8>,
    #[asn(optional(integer(0..7)))] pub f2: Option<u8>,
}

impl Ts3oooe3 {
    pub const fn f0_min() -> u8 {
        0
    }

    pub const fn f0_max() -> u8 {
        7
    }

    pub const fn f1_min() -> u8 {
        0
    }

    pub const fn f1_max() -> u8 {
        7
    }

    pub const fn f2_min() -> u8 {
        0
    }

    pub const fn f2_max() -> u8 {
        7
    }
}

#[asn(sequence)]

#[derive(Default, Debug, Clone, PartialEq, Hash)]
pub struct Ts3doon {
    #[asn(default(integer(0..7), 5))] pub f0: u8,
    #[asn(optional(integer(0..7)))] pub f1: Option<u8>,
    #[asn(optional(integer(0..7)))] pub f2: Option<u8>,
}

impl Ts3doon {
    pub const fn f0_min() -> u8 {
        0
    }

    pub const fn f0_max() -> u8 {
        7
    }

    pub const fn f1_min() -> u8 {
        0
    }

    pub const fn f1_max() -> u8 {
        7
    }

    pub const fn f2_min() -> u8 {
        0
    }

    pub const fn f2_max() -> u8 {
        7
    }
}

#[asn(sequence, extensible_after(f0))]

#[derive(Default, Debug, Clone, PartialEq, Hash)]
pub struct Ts3dooe0 {
    #[asn(default(integer(0..7), 5))] pub f0: u8,
    #[asn(optional(integer(0..7)))] pub f1: Option<u8>,
    #[asn(optional(integer(0..7)))] pub f2: Option<u8>,
}

impl Ts3dooe0 {
    pub const fn f0_min() -> u8 {
        0
    }

    pub const fn f0_max() -> u8 {
        7
    }

    pub const fn f1_min() -> u8 {
        0
    }

    pub const fn f1_max() -> u8 {
        7
    }

    pub const fn f2_min() -> u8 {
        0
    }

    pub const fn f2_max() -> u8 {
        7
    }
}

#[asn(sequence, extensible_after(f0))]

#[derive(Default, Debug, Clone, PartialEq, Hash)]
pub struct Ts3dooe1 {
    #[asn(default(integer(0..7), 5))] pub f0: u8,
    #[asn(optional(integer(0..7)))] pub f1: Option<u8>,
    #[asn(optional(integer(0..7)))] pub f2: Option<u8>,
}

impl Ts3dooe1 {
    pub const fn f0_min() -> u8 {
        0
    }

    pub const fn f0_max() -> u8 {
        7
    }

    pub const fn f1_min() -> u8 {
        0
    }

    pub const fn f1_max() -> u8 {
        7
    }

    pub const fn f2_min() -> u8 {
        0
    }

    pub const fn f2_max() -> u8 {
        7
    }
}

#[asn(sequence, extensible_after(f1))]

#[derive(Default, Debug, Clone, PartialEq, Hash)]
pub struct Ts3dooe2 {
    #[asn(default(integer(0..7), 5))] pub f0: u8,
    #[asn(optional(integer(0..7)))] pub f1: Option<u8>,
    #[asn(optional(integer(0..7)))] pub f2: Option<u8>,
}

impl Ts3dooe2 {
    pub const fn f0_min() -> u8 {
        0
    }

    pub const fn f0_max() -> u8 {
        7
    }

    pub const fn f1_min() -> u8 {
        0
    }

    pub const fn f1_max() -> u8 {
        7
    }

    pub const fn f2_min() -> u8 {
        0
    }

    pub const fn f2_max() -> u8 {
        7
    }
}
// ---- harness conversions (generated by the zoo build script from the items above) ----
impl FromValue for Ts0n { fn from_value(_: &Value) -> Self { Ts0n } }
impl ToValue for Ts0n { fn to_value(&self) -> Value { Value::Seq(vec![]) } }
impl FromValue for Ts1mn {
    fn from_value(v: &Value) -> Self {
        let s = match v { Value::Seq(s) => s, other => panic!("Ts1mn: expected Seq, got {other:?}") };
        assert_eq!(s.len(), 1, "Ts1mn: component count");
        let _ = s;
        Ts1mn {
            f0: FromValue::from_value(s[0].as_ref().expect("component f0 of Ts1mn must be present")),
        }
    }
}
impl ToValue for Ts1mn {
    fn to_value(&self) -> Value {
        Value::Seq(vec![
            Some(self.f0.to_value()),
        ])
    }
}
impl FromValue for Ts1me0 {
    fn from_value(v: &Value) -> Self {
        let s = match v { Value::Seq(s) => s, other => panic!("Ts1me0: expected Seq, got {other:?}") };
        assert_eq!(s.len(), 1, "Ts1me0: component count");
        let _ = s;
        Ts1me0 {
            f0: FromValue::from_value(s[0].as_ref().expect("component f0 of Ts1me0 must be present")),
        }
    }
}
impl ToValue for Ts1me0 {
    fn to_value(&self) -> Value {
        Value::Seq(vec![
            Some(self.f0.to_value()),
        ])
    }
}
impl FromValue for Ts1me1 {
    fn from_value(v: &Value) -> Self {
        let s = match v { Value::Seq(s) => s, other => panic!("Ts1me1: expected Seq, got {other:?}") };
        assert_eq!(s.len(), 1, "Ts1me1: component count");
        let _ = s;
        Ts1me1 {
            f0: FromValue::from_value(s[0].as_ref().expect("component f0 of Ts1me1 must be present")),
        }
    }
}
impl ToValue for Ts1me1 {
    fn to_value(&self) -> Value {
        Value::Seq(vec![
            Some(self.f0.to_value()),
        ])
    }
}
impl FromValue for Ts1on {
    fn from_value(v: &Value) -> Self {
        let s = match v { Value::Seq(s) => s, other => panic!("Ts1on: expected Seq, got {other:?}") };
        assert_eq!(s.len(), 1, "Ts1on: component count");
        let _ = s;
        Ts1on {
            f0: s[0].as_ref().map(FromValue::from_value),
        }
    }
}
impl ToValue for Ts1on {
    fn to_value(&self) -> Value {
        Value::Seq(vec![
            self.f0.as_ref().map(|x| x.to_value()),
        ])
    }
}
impl FromValue for Ts1oe0 {
    fn from_value(v: &Value) -> Self {
        let s = match v { Value::Seq(s) => s, other => panic!("Ts1oe0: expected Seq, got {other:?}") };
        assert_eq!(s.len(), 1, "Ts1oe0: component count");
        let _ = s;
        Ts1oe0 {
            f0: s[0].as_ref().map(FromValue::from_value),
        }
    }
}
impl ToValue for Ts1oe0 {
    fn to_value(&self) -> Value {
        Value::Seq(vec![
            self.f0.as_ref().map(|x| x.to_value()),
        ])
    }
}
impl FromValue for Ts1oe1 {
    fn from_value(v: &Value) -> Self {
        let s = match v { Value::Seq(s) => s, other => panic!("Ts1oe1: expected Seq, got {other:?}") };
        assert_eq!(s.len(), 1, "Ts1oe1: component count");
        let _ = s;
        Ts1oe1 {
            f0: s[0].as_ref().map(FromValue::from_value),
        }
    }
}
impl ToValue for Ts1oe1 {
    fn to_value(&self) -> Value {
        Value::Seq(vec![
            self.f0.as_ref().map(|x| x.to_value()),
        ])
    }
}
impl FromValue for Ts1dn {
    fn from_value(v: &Value) -> Self {
        let s = match v { Value::Seq(s) => s, other => panic!("Ts1dn: expected Seq, got {other:?}") };
        assert_eq!(s.len(), 1, "Ts1dn: component count");
        let _ = s;
        Ts1dn {
            f0: FromValue::from_value(s[0].as_ref().expect("component f0 of Ts1dn must be present")),
        }
    }
}
impl ToValue for Ts1dn {
    fn to_value(&self) -> Value {
        Value::Seq(vec![
            Some(self.f0.to_value()),
        ])
    }
}
impl FromValue for Ts1de0 {
    fn from_value(v: &Value) -> Self {
        let s = match v { Value::Seq(s) => s, other => panic!("Ts1de0: expected Seq, got {other:?}") };
        assert_eq!(s.len(), 1, "Ts1de0: component count");
        let _ = s;
        Ts1de0 {
            f0: FromValue::from_value(s[0].as_ref().expect("component f0 of Ts1de0 must be present")),
        }
    }
}
impl ToValue for Ts1de0 {
    fn to_value(&self) -> Value {
        Value::Seq(vec![
            Some(self.f0.to_value()),
        ])
    }
}
impl FromValue for Ts1de1 {
    fn from_value(v: &Value) -> Self {
        let s = match v { Value::Seq(s) => s, other => panic!("Ts1de1: expected Seq, got {other:?}") };
        assert_eq!(s.len(), 1, "Ts1de1: component count");
        let _ = s;
        Ts1de1 {
            f0: FromValue::from_value(s[0].as_ref().expect("component f0 of Ts1de1 must be present")),
        }
    }
}
impl ToValue for Ts1de1 {
    fn to_value(&self) -> Value {
        Value::Seq(vec![
            Some(self.f0.to_value()),
        ])
    }
}
impl FromValue for Ts2mmn {
    fn from_value(v: &Value) -> Self {
        let s = match v { Value::Seq(s) => s, other => panic!("Ts2mmn: expected Seq, got {other:?}") };
        assert_eq!(s.len(), 2, "Ts2mmn: component count");
        let _ = s;
        Ts2mmn {
            f0: FromValue::from_value(s[0].as_ref().expect("component f0 of Ts2mmn must be present")),
            f1: FromValue::from_value(s[1].as_ref().expect("component f1 of Ts2mmn must be present")),
        }
    }
}
impl ToValue for Ts2mmn {
    fn to_value(&self) -> Value {
        Value::Seq(vec![
            Some(self.f0.to_value()),
            Some(self.f1.to_value()),
        ])
    }
}
impl FromValue for Ts2mme0 {
    fn from_value(v: &Value) -> Self {
        let s = match v { Value::Seq(s) => s, other => panic!("Ts2mme0: expected Seq, got {other:?}") };
        assert_eq!(s.len(), 2, "Ts2mme0: component count");
        let _ = s;
        Ts2mme0 {
            f0: FromValue::from_value(s[0].as_ref().expect("component f0 of Ts2mme0 must be present")),
            f1: s[1].as_ref().map(FromValue::from_value),
        }
    }
}
impl ToValue for Ts2mme0 {
    fn to_value(&self) -> Value {
        Value::Seq(vec![
            Some(self.f0.to_value()),
            self.f1.as_ref().map(|x| x.to_value()),
        ])
    }
}
impl FromValue for Ts2mme1 {
    fn from_value(v: &Value) -> Self {
        let s = match v { Value::Seq(s) => s, other => panic!("Ts2mme1: expected Seq, got {other:?}") };
        assert_eq!(s.len(), 2, "Ts2mme1: component count");
        let _ = s;
        Ts2mme1 {
            f0: FromValue::from_value(s[0].as_ref().expect("component f0 of Ts2mme1 must be present")),
            f1: s[1].as_ref().map(FromValue::from_value),
        }
    }
}
impl ToValue for Ts2mme1 {
    fn to_value(&self) -> Value {
        Value::Seq(vec![
            Some(self.f0.to_value()),
            self.f1.as_ref().map(|x| x.to_value()),
        ])
    }
}
impl FromValue for Ts2mme2 {
    fn from_value(v: &Value) -> Self {
        let s = match v { Value::Seq(s) => s, other => panic!("Ts2mme2: expected Seq, got {other:?}") };
        assert_eq!(s.len(), 2, "Ts2mme2: component count");
        let _ = s;
        Ts2mme2 {
            f0: FromValue::from_value(s[0].as_ref().expect("component f0 of Ts2mme2 must be present")),
            f1: FromValue::from_value(s[1].as_ref().expect("component f1 of Ts2mme2 must be present")),
        }
    }
}
impl ToValue for Ts2mme2 {
    fn to_value(&self) -> Value {
        Value::Seq(vec![
            Some(self.f0.to_value()),
            Some(self.f1.to_value()),
        ])
    }
}
impl FromValue for Ts2omn {
    fn from_value(v: &Value) -> Self {
        let s = match v { Value::Seq(s) => s, other => panic!("Ts2omn: expected Seq, got {other:?}") };
        assert_eq!(s.len(), 2, "Ts2omn: component count");
        let _ = s;
        Ts2omn {
            f0: s[0].as_ref().map(FromValue::from_value),
            f1: FromValue::from_value(s[1].as_ref().expect("component f1 of Ts2omn must be present")),
        }
    }
}
impl ToValue for Ts2omn {
    fn to_value(&self) -> Value {
        Value::Seq(vec![
            self.f0.as_ref().map(|x| x.to_value()),
            Some(self.f1.to_value()),
        ])
    }
}
impl FromValue for Ts2ome0 {
    fn from_value(v: &Value) -> Self {
        let s = match v { Value::Seq(s) => s, other => panic!("Ts2ome0: expected Seq, got {other:?}") };
        assert_eq!(s.len(), 2, "Ts2ome0: component count");
        let _ = s;
        Ts2ome0 {
            f0: s[0].as_ref().map(FromValue::from_value),
            f1: s[1].as_ref().map(FromValue::from_value),
        }
    }
}
impl ToValue for Ts2ome0 {
    fn to_value(&self) -> Value {
        Value::Seq(vec![
            self.f0.as_ref().map(|x| x.to_value()),
            self.f1.as_ref().map(|x| x.to_value()),
        ])
    }
}
impl FromValue for Ts2ome1 {
    fn from_value(v: &Value) -> Self {
        let s = match v { Value::Seq(s) => s, other => panic!("Ts2ome1: expected Seq, got {other:?}") };
        assert_eq!(s.len(), 2, "Ts2ome1: component count");
        let _ = s;
        Ts2ome1 {
            f0: s[0].as_ref().map(FromValue::from_value),
            f1: s[1].as_ref().map(FromValue::from_value),
        }
    }
}
impl ToValue for Ts2ome1 {
    fn to_value(&self) -> Value {
        Value::Seq(vec![
            self.f0.as_ref().map(|x| x.to_value()),
            self.f1.as_ref().map(|x| x.to_value()),
        ])
    }
}
impl FromValue for Ts2ome2 {
    fn from_value(v: &Value) -> Self {
        let s = match v { Value::Seq(s) => s, other => panic!("Ts2ome2: expected Seq, got {other:?}") };
        assert_eq!(s.len(), 2, "Ts2ome2: component count");
        let _ = s;
        Ts2ome2 {
            f0: s[0].as_ref().map(FromValue::from_value),
            f1: FromValue::from_value(s[1].as_ref().expect("component f1 of Ts2ome2 must be present")),
        }
    }
}
impl ToValue for Ts2ome2 {
    fn to_value(&self) -> Value {
        Value::Seq(vec![
            self.f0.as_ref().map(|x| x.to_value()),
            Some(self.f1.to_value()),
        ])
    }
}
impl FromValue for Ts2dmn {
    fn from_value(v: &Value) -> Self {
        let s = match v { Value::Seq(s) => s, other => panic!("Ts2dmn: expected Seq, got {other:?}") };
        assert_eq!(s.len(), 2, "Ts2dmn: component count");
        let _ = s;
        Ts2dmn {
            f0: FromValue::from_value(s[0].as_ref().expect("component f0 of Ts2dmn must be present")),
            f1: FromValue::from_value(s[1].as_ref().expect("component f1 of Ts2dmn must be present")),
        }
    }
}
impl ToValue for Ts2dmn {
    fn to_value(&self) -> Value {
        Value::Seq(vec![
            Some(self.f0.to_value()),
            Some(self.f1.to_value()),
        ])
    }
}
impl FromValue for Ts2dme0 {
    fn from_value(v: &Value) -> Self {
        let s = match v { Value::Seq(s) => s, other => panic!("Ts2dme0: expected Seq, got {other:?}") };
        assert_eq!(s.len(), 2, "Ts2dme0: component count");
        let _ = s;
        Ts2dme0 {
            f0: FromValue::from_value(s[0].as_ref().expect("component f0 of Ts2dme0 must be present")),
            f1: s[1].as_ref().map(FromValue::from_value),
        }
    }
}
impl ToValue for Ts2dme0 {
    fn to_value(&self) -> Value {
        Value::Seq(vec![
            Some(self.f0.to_value()),
            self.f1.as_ref().map(|x| x.to_value()),
        ])
    }
}
impl FromValue for Ts2dme1 {
    fn from_value(v: &Value) -> Self {
        let s = match v { Value::Seq(s) => s, other => panic!("Ts2dme1: expected Seq, got {other:?}") };
        assert_eq!(s.len(), 2, "Ts2dme1: component count");
        let _ = s;
        Ts2dme1 {
            f0: FromValue::from_value(s[0].as_ref().expect("component f0 of Ts2dme1 must be present")),
            f1: s[1].as_ref().map(FromValue::from_value),
        }
    }
}
impl ToValue for Ts2dme1 {
    fn to_value(&self) -> Value {
        Value::Seq(vec![
            Some(self.f0.to_value()),
            self.f1.as_ref().map(|x| x.to_value()),
        ])
    }
}
impl FromValue for Ts2dme2 {
    fn from_value(v: &Value) -> Self {
        let s = match v { Value::Seq(s) => s, other => panic!("Ts2dme2: expected Seq, got {other:?}") };
        assert_eq!(s.len(), 2, "Ts2dme2: component count");
        let _ = s;
        Ts2dme2 {
            f0: FromValue::from_value(s[0].as_ref().expect("component f0 of Ts2dme2 must be present")),
            f1: FromValue::from_value(s[1].as_ref().expect("component f1 of Ts2dme2 must be present")),
        }
    }
}
impl ToValue for Ts2dme2 {
    fn to_value(&self) -> Value {
        Value::Seq(vec![
            Some(self.f0.to_value()),
            Some(self.f1.to_value()),
        ])
    }
}
impl FromValue for Ts2mon {
    fn from_value(v: &Value) -> Self {
        let s = match v { Value::Seq(s) => s, other => panic!("Ts2mon: expected Seq, got {other:?}") };
        assert_eq!(s.len(), 2, "Ts2mon: component count");
        let _ = s;
        Ts2mon {
            f0: FromValue::from_value(s[0].as_ref().expect("component f0 of Ts2mon must be present")),
            f1: s[1].as_ref().map(FromValue::from_value),
        }
    }
}
impl ToValue for Ts2mon {
    fn to_value(&self) -> Value {
        Value::Seq(vec![
            Some(self.f0.to_value()),
            self.f1.as_ref().map(|x| x.to_value()),
        ])
    }
}
impl FromValue for Ts2moe0 {
    fn from_value(v: &Value) -> Self {
        let s = match v { Value::Seq(s) => s, other => panic!("Ts2moe0: expected Seq, got {other:?}") };
        assert_eq!(s.len(), 2, "Ts2moe0: component count");
        let _ = s;
        Ts2moe0 {
            f0: FromValue::from_value(s[0].as_ref().expect("component f0 of Ts2moe0 must be present")),
            f1: s[1].as_ref().map(FromValue::from_value),
        }
    }
}
impl ToValue for Ts2moe0 {
    fn to_value(&self) -> Value {
        Value::Seq(vec![
            Some(self.f0.to_value()),
            self.f1.as_ref().map(|x| x.to_value()),
        ])
    }
}
impl FromValue for Ts2moe1 {
    fn from_value(v: &Value) -> Self {
        let s = match v { Value::Seq(s) => s, other => panic!("Ts2moe1: expected Seq, got {other:?}") };
        assert_eq!(s.len(), 2, "Ts2moe1: component count");
        let _ = s;
        Ts2moe1 {
            f0: FromValue::from_value(s[0].as_ref().expect("component f0 of Ts2moe1 must be present")),
            f1: s[1].as_ref().map(FromValue::from_value),
        }
    }
}
impl ToValue for Ts2moe1 {
    fn to_value(&self) -> Value {
        Value::Seq(vec![
            Some(self.f0.to_value()),
            self.f1.as_ref().map(|x| x.to_value()),
        ])
    }
}
impl FromValue for Ts2moe2 {
    fn from_value(v: &Value) -> Self {
        let s = match v { Value::Seq(s) => s, other => panic!("Ts2moe2: expected Seq, got {other:?}") };
        assert_eq!(s.len(), 2, "Ts2moe2: component count");
        let _ = s;
        Ts2moe2 {
            f0: FromValue::from_value(s[0].as_ref().expect("component f0 of Ts2moe2 must be present")),
            f1: s[1].as_ref().map(FromValue::from_value),
        }
    }
}
impl ToValue for Ts2moe2 {
    fn to_value(&self) -> Value {
        Value::Seq(vec![
            Some(self.f0.to_value()),
            self.f1.as_ref().map(|x| x.to_value()),
        ])
    }
}
impl FromValue for Ts2oon {
    fn from_value(v: &Value) -> Self {
        let s = match v { Value::Seq(s) => s, other => panic!("Ts2oon: expected Seq, got {other:?}") };
        assert_eq!(s.len(), 2, "Ts2oon: component count");
        let _ = s;
        Ts2oon {
            f0: s[0].as_ref().map(FromValue::from_value),
            f1: s[1].as_ref().map(FromValue::from_value),
        }
    }
}
impl ToValue for Ts2oon {
    fn to_value(&self) -> Value {
        Value::Seq(vec![
            self.f0.as_ref().map(|x| x.to_value()),
            self.f1.as_ref().map(|x| x.to_value()),
        ])
    }
}
impl FromValue for Ts2ooe0 {
    fn from_value(v: &Value) -> Self {
        let s = match v { Value::Seq(s) => s, other => panic!("Ts2ooe0: expected Seq, got {other:?}") };
        assert_eq!(s.len(), 2, "Ts2ooe0: component count");
        let _ = s;
        Ts2ooe0 {
            f0: s[0].as_ref().map(FromValue::from_value),
            f1: s[1].as_ref().map(FromValue::from_value),
        }
    }
}
impl ToValue for Ts2ooe0 {
    fn to_value(&self) -> Value {
        Value::Seq(vec![
            self.f0.as_ref().map(|x| x.to_value()),
            self.f1.as_ref().map(|x| x.to_value()),
        ])
    }
}
impl FromValue for Ts2ooe1 {
    fn from_value(v: &Value) -> Self {
        let s = match v { Value::Seq(s) => s, other => panic!("Ts2ooe1: expected Seq, got {other:?}") };
        assert_eq!(s.len(), 2, "Ts2ooe1: component count");
        let _ = s;
        Ts2ooe1 {
            f0: s[0].as_ref().map(FromValue::from_value),
            f1: s[1].as_ref().map(FromValue::from_value),
        }
    }
}
impl ToValue for Ts2ooe1 {
    fn to_value(&self) -> Value {
        Value::Seq(vec![
            self.f0.as_ref().map(|x| x.to_value()),
            self.f1.as_ref().map(|x| x.to_value()),
        ])
    }
}
impl FromValue for Ts2ooe2 {
    fn from_value(v: &Value) -> Self {
        let s = match v { Value::Seq(s) => s, other => panic!("Ts2ooe2: expected Seq, got {other:?}") };
        assert_eq!(s.len(), 2, "Ts2ooe2: component count");
        let _ = s;
        Ts2ooe2 {
            f0: s[0].as_ref().map(FromValue::from_value),
            f1: s[1].as_ref().map(FromValue::from_value),
        }
    }
}
impl ToValue for Ts2ooe2 {
    fn to_value(&self) -> Value {
        Value::Seq(vec![
            self.f0.as_ref().map(|x| x.to_value()),
            self.f1.as_ref().map(|x| x.to_value()),
        ])
    }
}
impl FromValue for Ts2don {
    fn from_value(v: &Value) -> Self {
        let s = match v { Value::Seq(s) => s, other => panic!("Ts2don: expected Seq, got {other:?}") };
        assert_eq!(s.len(), 2, "Ts2don: component count");
        let _ = s;
        Ts2don {
            f0: FromValue::from_value(s[0].as_ref().expect("component f0 of Ts2don must be present")),
            f1: s[1].as_ref().map(FromValue::from_value),
        }
    }
}
impl ToValue for Ts2don {
    fn to_value(&self) -> Value {
        Value::Seq(vec![
            Some(self.f0.to_value()),
            self.f1.as_ref().map(|x| x.to_value()),
        ])
    }
}
impl FromValue for Ts2doe0 {
    fn from_value(v: &Value) -> Self {
        let s = match v { Value::Seq(s) => s, other => panic!("Ts2doe0: expected Seq, got {other:?}") };
        assert_eq!(s.len(), 2, "Ts2doe0: component count");
        let _ = s;
        Ts2doe0 {
            f0: FromValue::from_value(s[0].as_ref().expect("component f0 of Ts2doe0 must be present")),
            f1: s[1].as_ref().map(FromValue::from_value),
        }
    }
}
impl ToValue for Ts2doe0 {
    fn to_value(&self) -> Value {
        Value::Seq(vec![
            Some(self.f0.to_value()),
            self.f1.as_ref().map(|x| x.to_value()),
        ])
    }
}
impl FromValue for Ts2doe1 {
    fn from_value(v: &Value) -> Self {
        let s = match v { Value::Seq(s) => s, other => panic!("Ts2doe1: expected Seq, got {other:?}") };
        assert_eq!(s.len(), 2, "Ts2doe1: component count");
        let _ = s;
        Ts2doe1 {
            f0: FromValue::from_value(s[0].as_ref().expect("component f0 of Ts2doe1 must be present")),
            f1: s[1].as_ref().map(FromValue::from_value),
        }
    }
}
impl ToValue for Ts2doe1 {
    fn to_value(&self) -> Value {
        Value::Seq(vec![
            Some(self.f0.to_value()),
            self.f1.as_ref().map(|x| x.to_value()),
        ])
    }
}
impl FromValue for Ts2doe2 {
    fn from_value(v: &Value) -> Self {
        let s = match v { Value::Seq(s) => s, other => panic!("Ts2doe2: expected Seq, got {other:?}") };
        assert_eq!(s.len(), 2, "Ts2doe2: component count");
        let _ = s;
        Ts2doe2 {
            f0: FromValue::from_value(s[0].as_ref().expect("component f0 of Ts2doe2 must be present")),
            f1: s[1].as_ref().map(FromValue::from_value),
        }
    }
}
impl ToValue for Ts2doe2 {
    fn to_value(&self) -> Value {
        Value::Seq(vec![
            Some(self.f0.to_value()),
            self.f1.as_ref().map(|x| x.to_value()),
        ])
    }
}
impl FromValue for Ts2mdn {
    fn from_value(v: &Value) -> Self {
        let s = match v { Value::Seq(s) => s, other => panic!("Ts2mdn: expected Seq, got {other:?}") };
        assert_eq!(s.len(), 2, "Ts2mdn: component count");
        let _ = s;
        Ts2mdn {
            f0: FromValue::from_value(s[0].as_ref().expect("component f0 of Ts2mdn must be present")),
            f1: FromValue::from_value(s[1].as_ref().expect("component f1 of Ts2mdn must be present")),
        }
    }
}
impl ToValue for Ts2mdn {
    fn to_value(&self) -> Value {
        Value::Seq(vec![
            Some(self.f0.to_value()),
            Some(self.f1.to_value()),
        ])
    }
}
impl FromValue for Ts2mde0 {
    fn from_value(v: &Value) -> Self {
        let s = match v { Value::Seq(s) => s, other => panic!("Ts2mde0: expected Seq, got {other:?}") };
        assert_eq!(s.len(), 2, "Ts2mde0: component count");
        let _ = s;
        Ts2mde0 {
            f0: FromValue::from_value(s[0].as_ref().expect("component f0 of Ts2mde0 must be present")),
            f1: FromValue::from_value(s[1].as_ref().expect("component f1 of Ts2mde0 must be present")),
        }
    }
}
impl ToValue for Ts2mde0 {
    fn to_value(&self) -> Value {
        Value::Seq(vec![
            Some(self.f0.to_value()),
            Some(self.f1.to_value()),
        ])
    }
}
impl FromValue for Ts2mde1 {
    fn from_value(v: &Value) -> Self {
        let s = match v { Value::Seq(s) => s, other => panic!("Ts2mde1: expected Seq, got {other:?}") };
        assert_eq!(s.len(), 2, "Ts2mde1: component count");
        let _ = s;
        Ts2mde1 {
            f0: FromValue::from_value(s[0].as_ref().expect("component f0 of Ts2mde1 must be present")),
            f1: FromValue::from_value(s[1].as_ref().expect("component f1 of Ts2mde1 must be present")),
        }
    }
}
impl ToValue for Ts2mde1 {
    fn to_value(&self) -> Value {
        Value::Seq(vec![
            Some(self.f0.to_value()),
            Some(self.f1.to_value()),
        ])
    }
}
impl FromValue for Ts2mde2 {
    fn from_value(v: &Value) -> Self {
        let s = match v { Value::Seq(s) => s, other => panic!("Ts2mde2: expected Seq, got {other:?}") };
        assert_eq!(s.len(), 2, "Ts2mde2: component count");
        let _ = s;
        Ts2mde2 {
            f0: FromValue::from_value(s[0].as_ref().expect("component f0 of Ts2mde2 must be present")),
            f1: FromValue::from_value(s[1].as_ref().expect("component f1 of Ts2mde2 must be present")),
        }
    }
}
impl ToValue for Ts2mde2 {
    fn to_value(&self) -> Value {
        Value::Seq(vec![
            Some(self.f0.to_value()),
            Some(self.f1.to_value()),
        ])
    }
}
impl FromValue for Ts2odn {
    fn from_value(v: &Value) -> Self {
        let s = match v { Value::Seq(s) => s, other => panic!("Ts2odn: expected Seq, got {other:?}") };
        assert_eq!(s.len(), 2, "Ts2odn: component count");
        let _ = s;
        Ts2odn {
            f0: s[0].as_ref().map(FromValue::from_value),
            f1: FromValue::from_value(s[1].as_ref().expect("component f1 of Ts2odn must be present")),
        }
    }
}
impl ToValue for Ts2odn {
    fn to_value(&self) -> Value {
        Value::Seq(vec![
            self.f0.as_ref().map(|x| x.to_value()),
            Some(self.f1.to_value()),
        ])
    }
}
impl FromValue for Ts2ode0 {
    fn from_value(v: &Value) -> Self {
        let s = match v { Value::Seq(s) => s, other => panic!("Ts2ode0: expected Seq, got {other:?}") };
        assert_eq!(s.len(), 2, "Ts2ode0: component count");
        let _ = s;
        Ts2ode0 {
            f0: s[0].as_ref().map(FromValue::from_value),
            f1: FromValue::from_value(s[1].as_ref().expect("component f1 of Ts2ode0 must be present")),
        }
    }
}
impl ToValue for Ts2ode0 {
    fn to_value(&self) -> Value {
        Value::Seq(vec![
            self.f0.as_ref().map(|x| x.to_value()),
            Some(self.f1.to_value()),
        ])
    }
}
impl FromValue for Ts2ode1 {
    fn from_value(v: &Value) -> Self {
        let s = match v { Value::Seq(s) => s, other => panic!("Ts2ode1: expected Seq, got {other:?}") };
        assert_eq!(s.len(), 2, "Ts2ode1: component count");
        let _ = s;
        Ts2ode1 {
            f0: s[0].as_ref().map(FromValue::from_value),
            f1: FromValue::from_value(s[1].as_ref().expect("component f1 of Ts2ode1 must be present")),
        }
    }
}
impl ToValue for Ts2ode1 {
    fn to_value(&self) -> Value {
        Value::Seq(vec![
            self.f0.as_ref().map(|x| x.to_value()),
            Some(self.f1.to_value()),
        ])
    }
}
impl FromValue for Ts2ode2 {
    fn from_value(v: &Value) -> Self {
        let s = match v { Value::Seq(s) => s, other => panic!("Ts2ode2: expected Seq, got {other:?}") };
        assert_eq!(s.len(), 2, "Ts2ode2: component count");
        let _ = s;
        Ts2ode2 {
            f0: s[0].as_ref().map(FromValue::from_value),
            f1: FromValue::from_value(s[1].as_ref().expect("component f1 of Ts2ode2 must be present")),
        }
    }
}
impl ToValue for Ts2ode2 {
    fn to_value(&self) -> Value {
        Value::Seq(vec![
            self.f0.as_ref().map(|x| x.to_value()),
            Some(self.f1.to_value()),
        ])
    }
}
impl FromValue for Ts2ddn {
    fn from_value(v: &Value) -> Self {
        let s = match v { Value::Seq(s) => s, other => panic!("Ts2ddn: expected Seq, got {other:?}") };
        assert_eq!(s.len(), 2, "Ts2ddn: component count");
        let _ = s;
        Ts2ddn {
            f0: FromValue::from_value(s[0].as_ref().expect("component f0 of Ts2ddn must be present")),
            f1: FromValue::from_value(s[1].as_ref().expect("component f1 of Ts2ddn must be present")),
        }
    }
}
impl ToValue for Ts2ddn {
    fn to_value(&self) -> Value {
        Value::Seq(vec![
            Some(self.f0.to_value()),
            Some(self.f1.to_value()),
        ])
    }
}
impl FromValue for Ts2dde0 {
    fn from_value(v: &Value) -> Self {
        let s = match v { Value::Seq(s) => s, other => panic!("Ts2dde0: expected Seq, got {other:?}") };
        assert_eq!(s.len(), 2, "Ts2dde0: component count");
        let _ = s;
        Ts2dde0 {
            f0: FromValue::from_value(s[0].as_ref().expect("component f0 of Ts2dde0 must be present")),
            f1: FromValue::from_value(s[1].as_ref().expect("component f1 of Ts2dde0 must be present")),
        }
    }
}
impl ToValue for Ts2dde0 {
    fn to_value(&self) -> Value {
        Value::Seq(vec![
            Some(self.f0.to_value()),
            Some(self.f1.to_value()),
        ])
    }
}
impl FromValue for Ts2dde1 {
    fn from_value(v: &Value) -> Self {
        let s = match v { Value::Seq(s) => s, other => panic!("Ts2dde1: expected Seq, got {other:?}") };
        assert_eq!(s.len(), 2, "Ts2dde1: component count");
        let _ = s;
        Ts2dde1 {
            f0: FromValue::from_value(s[0].as_ref().expect("component f0 of Ts2dde1 must be present")),
            f1: FromValue::from_value(s[1].as_ref().expect("component f1 of Ts2dde1 must be present")),
        }
    }
}
impl ToValue for Ts2dde1 {
    fn to_value(&self) -> Value {
        Value::Seq(vec![
            Some(self.f0.to_value()),
            Some(self.f1.to_value()),
        ])
    }
}
impl FromValue for Ts2dde2 {
    fn from_value(v: &Value) -> Self {
        let s = match v { Value::Seq(s) => s, other => panic!("Ts2dde2: expected Seq, got {other:?}") };
        assert_eq!(s.len(), 2, "Ts2dde2: component count");
        let _ = s;
        Ts2dde2 {
            f0: FromValue::from_value(s[0].as_ref().expect("component f0 of Ts2dde2 must be present")),
            f1: FromValue::from_value(s[1].as_ref().expect("component f1 of Ts2dde2 must be present")),
        }
    }
}
impl ToValue for Ts2dde2 {
    fn to_value(&self) -> Value {
        Value::Seq(vec![
            Some(self.f0.to_value()),
            Some(self.f1.to_value()),
        ])
    }
}
impl FromValue for Ts3mmmn {
    fn from_value(v: &Value) -> Self {
        let s = match v { Value::Seq(s) => s, other => panic!("Ts3mmmn: expected Seq, got {other:?}") };
        assert_eq!(s.len(), 3, "Ts3mmmn: component count");
        let _ = s;
        Ts3mmmn {
            f0: FromValue::from_value(s[0].as_ref().expect("component f0 of Ts3mmmn must be present")),
            f1: FromValue::from_value(s[1].as_ref().expect("component f1 of Ts3mmmn must be present")),
            f2: FromValue::from_value(s[2].as_ref().expect("component f2 of Ts3mmmn must be present")),
        }
    }
}
impl ToValue for Ts3mmmn {
    fn to_value(&self) -> Value {
        Value::Seq(vec![
            Some(self.f0.to_value()),
            Some(self.f1.to_value()),
            Some(self.f2.to_value()),
        ])
    }
}
impl FromValue for Ts3mmme0 {
    fn from_value(v: &Value) -> Self {
        let s = match v { Value::Seq(s) => s, other => panic!("Ts3mmme0: expected Seq, got {other:?}") };
        assert_eq!(s.len(), 3, "Ts3mmme0: component count");
        let _ = s;
        Ts3mmme0 {
            f0: FromValue::from_value(s[0].as_ref().expect("component f0 of Ts3mmme0 must be present")),
            f1: s[1].as_ref().map(FromValue::from_value),
            f2: s[2].as_ref().map(FromValue::from_value),
        }
    }
}
impl ToValue for Ts3mmme0 {
    fn to_value(&self) -> Value {
        Value::Seq(vec![
            Some(self.f0.to_value()),
            self.f1.as_ref().map(|x| x.to_value()),
            self.f2.as_ref().map(|x| x.to_value()),
        ])
    }
}
impl FromValue for Ts3mmme1 {
    fn from_value(v: &Value) -> Self {
        let s = match v { Value::Seq(s) => s, other => panic!("Ts3mmme1: expected Seq, got {other:?}") };
        assert_eq!(s.len(), 3, "Ts3mmme1: component count");
        let _ = s;
        Ts3mmme1 {
            f0: FromValue::from_value(s[0].as_ref().expect("component f0 of Ts3mmme1 must be present")),
            f1: s[1].as_ref().map(FromValue::from_value),
            f2: s[2].as_ref().map(FromValue::from_value),
        }
    }
}
impl ToValue for Ts3mmme1 {
    fn to_value(&self) -> Value {
        Value::Seq(vec![
            Some(self.f0.to_value()),
            self.f1.as_ref().map(|x| x.to_value()),
            self.f2.as_ref().map(|x| x.to_value()),
        ])
    }
}
impl FromValue for Ts3mmme2 {
    fn from_value(v: &Value) -> Self {
        let s = match v { Value::Seq(s) => s, other => panic!("Ts3mmme2: expected Seq, got {other:?}") };
        assert_eq!(s.len(), 3, "Ts3mmme2: component count");
        let _ = s;
        Ts3mmme2 {
            f0: FromValue::from_value(s[0].as_ref().expect("component f0 of Ts3mmme2 must be present")),
            f1: FromValue::from_value(s[1].as_ref().expect("component f1 of Ts3mmme2 must be present")),
            f2: s[2].as_ref().map(FromValue::from_value),
        }
    }
}
impl ToValue for Ts3mmme2 {
    fn to_value(&self) -> Value {
        Value::Seq(vec![
            Some(self.f0.to_value()),
            Some(self.f1.to_value()),
            self.f2.as_ref().map(|x| x.to_value()),
        ])
    }
}
impl FromValue for Ts3mmme3 {
    fn from_value(v: &Value) -> Self {
        let s = match v { Value::Seq(s) => s, other => panic!("Ts3mmme3: expected Seq, got {other:?}") };
        assert_eq!(s.len(), 3, "Ts3mmme3: component count");
        let _ = s;
        Ts3mmme3 {
            f0: FromValue::from_value(s[0].as_ref().expect("component f0 of Ts3mmme3 must be present")),
            f1: FromValue::from_value(s[1].as_ref().expect("component f1 of Ts3mmme3 must be present")),
            f2: FromValue::from_value(s[2].as_ref().expect("component f2 of Ts3mmme3 must be present")),
        }
    }
}
impl ToValue for Ts3mmme3 {
    fn to_value(&self) -> Value {
        Value::Seq(vec![
            Some(self.f0.to_value()),
            Some(self.f1.to_value()),
            Some(self.f2.to_value()),
        ])
    }
}
impl FromValue for Ts3ommn {
    fn from_value(v: &Value) -> Self {
        let s = match v { Value::Seq(s) => s, other => panic!("Ts3ommn: expected Seq, got {other:?}") };
        assert_eq!(s.len(), 3, "Ts3ommn: component count");
        let _ = s;
        Ts3ommn {
            f0: s[0].as_ref().map(FromValue::from_value),
            f1: FromValue::from_value(s[1].as_ref().expect("component f1 of Ts3ommn must be present")),
            f2: FromValue::from_value(s[2].as_ref().expect("component f2 of Ts3ommn must be present")),
        }
    }
}
impl ToValue for Ts3ommn {
    fn to_value(&self) -> Value {
        Value::Seq(vec![
            self.f0.as_ref().map(|x| x.to_value()),
            Some(self.f1.to_value()),
            Some(self.f2.to_value()),
        ])
    }
}
impl FromValue for Ts3omme0 {
    fn from_value(v: &Value) -> Self {
        let s = match v { Value::Seq(s) => s, other => panic!("Ts3omme0: expected Seq, got {other:?}") };
        assert_eq!(s.len(), 3, "Ts3omme0: component count");
        let _ = s;
        Ts3omme0 {
            f0: s[0].as_ref().map(FromValue::from_value),
            f1: s[1].as_ref().map(FromValue::from_value),
            f2: s[2].as_ref().map(FromValue::from_value),
        }
    }
}
impl ToValue for Ts3omme0 {
    fn to_value(&self) -> Value {
        Value::Seq(vec![
            self.f0.as_ref().map(|x| x.to_value()),
            self.f1.as_ref().map(|x| x.to_value()),
            self.f2.as_ref().map(|x| x.to_value()),
        ])
    }
}
impl FromValue for Ts3omme1 {
    fn from_value(v: &Value) -> Self {
        let s = match v { Value::Seq(s) => s, other => panic!("Ts3omme1: expected Seq, got {other:?}") };
        assert_eq!(s.len(), 3, "Ts3omme1: component count");
        let _ = s;
        Ts3omme1 {
            f0: s[0].as_ref().map(FromValue::from_value),
            f1: s[1].as_ref().map(FromValue::from_value),
            f2: s[2].as_ref().map(FromValue::from_value),
        }
    }
}
impl ToValue for Ts3omme1 {
    fn to_value(&self) -> Value {
        Value::Seq(vec![
            self.f0.as_ref().map(|x| x.to_value()),
            self.f1.as_ref().map(|x| x.to_value()),
            self.f2.as_ref().map(|x| x.to_value()),
        ])
    }
}
impl FromValue for Ts3omme2 {
    fn from_value(v: &Value) -> Self {
        let s = match v { Value::Seq(s) => s, other => panic!("Ts3omme2: expected Seq, got {other:?}") };
        assert_eq!(s.len(), 3, "Ts3omme2: component count");
        let _ = s;
        Ts3omme2 {
            f0: s[0].as_ref().map(FromValue::from_value),
            f1: FromValue::from_value(s[1].as_ref().expect("component f1 of Ts3omme2 must be present")),
            f2: s[2].as_ref().map(FromValue::from_value),
        }
    }
}
impl ToValue for Ts3omme2 {
    fn to_value(&self) -> Value {
        Value::Seq(vec![
            self.f0.as_ref().map(|x| x.to_value()),
            Some(self.f1.to_value()),
            self.f2.as_ref().map(|x| x.to_value()),
        ])
    }
}
impl FromValue for Ts3omme3 {
    fn from_value(v: &Value) -> Self {
        let s = match v { Value::Seq(s) => s, other => panic!("Ts3omme3: expected Seq, got {other:?}") };
        assert_eq!(s.len(), 3, "Ts3omme3: component count");
        let _ = s;
        Ts3omme3 {
            f0: s[0].as_ref().map(FromValue::from_value),
            f1: FromValue::from_value(s[1].as_ref().expect("component f1 of Ts3omme3 must be present")),
            f2: FromValue::from_value(s[2].as_ref().expect("component f2 of Ts3omme3 must be present")),
        }
    }
}
impl ToValue for Ts3omme3 {
    fn to_value(&self) -> Value {
        Value::Seq(vec![
            self.f0.as_ref().map(|x| x.to_value()),
            Some(self.f1.to_value()),
            Some(self.f2.to_value()),
        ])
    }
}
impl FromValue for Ts3dmmn {
    fn from_value(v: &Value) -> Self {
        let s = match v { Value::Seq(s) => s, other => panic!("Ts3dmmn: expected Seq, got {other:?}") };
        assert_eq!(s.len(), 3, "Ts3dmmn: component count");
        let _ = s;
        Ts3dmmn {
            f0: FromValue::from_value(s[0].as_ref().expect("component f0 of Ts3dmmn must be present")),
            f1: FromValue::from_value(s[1].as_ref().expect("component f1 of Ts3dmmn must be present")),
            f2: FromValue::from_value(s[2].as_ref().expect("component f2 of Ts3dmmn must be present")),
        }
    }
}
impl ToValue for Ts3dmmn {
    fn to_value(&self) -> Value {
        Value::Seq(vec![
            Some(self.f0.to_value()),
            Some(self.f1.to_value()),
            Some(self.f2.to_value()),
        ])
    }
}
impl FromValue for Ts3dmme0 {
    fn from_value(v: &Value) -> Self {
        let s = match v { Value::Seq(s) => s, other => panic!("Ts3dmme0: expected Seq, got {other:?}") };
        assert_eq!(s.len(), 3, "Ts3dmme0: component count");
        let _ = s;
        Ts3dmme0 {
            f0: FromValue::from_value(s[0].as_ref().expect("component f0 of Ts3dmme0 must be present")),
            f1: s[1].as_ref().map(FromValue::from_value),
            f2: s[2].as_ref().map(FromValue::from_value),
        }
    }
}
impl ToValue for Ts3dmme0 {
    fn to_value(&self) -> Value {
        Value::Seq(vec![
            Some(self.f0.to_value()),
            self.f1.as_ref().map(|x| x.to_value()),
            self.f2.as_ref().map(|x| x.to_value()),
        ])
    }
}
impl FromValue for Ts3dmme1 {
    fn from_value(v: &Value) -> Self {
        let s = match v { Value::Seq(s) => s, other => panic!("Ts3dmme1: expected Seq, got {other:?}") };
        assert_eq!(s.len(), 3, "Ts3dmme1: component count");
        let _ = s;
        Ts3dmme1 {
            f0: FromValue::from_value(s[0].as_ref().expect("component f0 of Ts3dmme1 must be present")),
            f1: s[1].as_ref().map(FromValue::from_value),
            f2: s[2].as_ref().map(FromValue::from_value),
        }
    }
}
impl ToValue for Ts3dmme1 {
    fn to_value(&self) -> Value {
        Value::Seq(vec![
            Some(self.f0.to_value()),
            self.f1.as_ref().map(|x| x.to_value()),
            self.f2.as_ref().map(|x| x.to_value()),
        ])
    }
}
impl FromValue for Ts3dmme2 {
    fn from_value(v: &Value) -> Self {
        let s = match v { Value::Seq(s) => s, other => panic!("Ts3dmme2: expected Seq, got {other:?}") };
        assert_eq!(s.len(), 3, "Ts3dmme2: component count");
        let _ = s;
        Ts3dmme2 {
            f0: FromValue::from_value(s[0].as_ref().expect("component f0 of Ts3dmme2 must be present")),
            f1: FromValue::from_value(s[1].as_ref().expect("component f1 of Ts3dmme2 must be present")),
            f2: s[2].as_ref().map(FromValue::from_value),
        }
    }
}
impl ToValue for Ts3dmme2 {
    fn to_value(&self) -> Value {
        Value::Seq(vec![
            Some(self.f0.to_value()),
            Some(self.f1.to_value()),
            self.f2.as_ref().map(|x| x.to_value()),
        ])
    }
}
impl FromValue for Ts3dmme3 {
    fn from_value(v: &Value) -> Self {
        let s = match v { Value::Seq(s) => s, other => panic!("Ts3dmme3: expected Seq, got {other:?}") };
        assert_eq!(s.len(), 3, "Ts3dmme3: component count");
        let _ = s;
        Ts3dmme3 {
            f0: FromValue::from_value(s[0].as_ref().expect("component f0 of Ts3dmme3 must be present")),
            f1: FromValue::from_value(s[1].as_ref().expect("component f1 of Ts3dmme3 must be present")),
            f2: FromValue::from_value(s[2].as_ref().expect("component f2 of Ts3dmme3 must be present")),
        }
    }
}
impl ToValue for Ts3dmme3 {
    fn to_value(&self) -> Value {
        Value::Seq(vec![
            Some(self.f0.to_value()),
            Some(self.f1.to_value()),
            Some(self.f2.to_value()),
        ])
    }
}
impl FromValue for Ts3momn {
    fn from_value(v: &Value) -> Self {
        let s = match v { Value::Seq(s) => s, other => panic!("Ts3momn: expected Seq, got {other:?}") };
        assert_eq!(s.len(), 3, "Ts3momn: component count");
        let _ = s;
        Ts3momn {
            f0: FromValue::from_value(s[0].as_ref().expect("component f0 of Ts3momn must be present")),
            f1: s[1].as_ref().map(FromValue::from_value),
            f2: FromValue::from_value(s[2].as_ref().expect("component f2 of Ts3momn must be present")),
        }
    }
}
impl ToValue for Ts3momn {
    fn to_value(&self) -> Value {
        Value::Seq(vec![
            Some(self.f0.to_value()),
            self.f1.as_ref().map(|x| x.to_value()),
            Some(self.f2.to_value()),
        ])
    }
}
impl FromValue for Ts3mome0 {
    fn from_value(v: &Value) -> Self {
        let s = match v { Value::Seq(s) => s, other => panic!("Ts3mome0: expected Seq, got {other:?}") };
        assert_eq!(s.len(), 3, "Ts3mome0: component count");
        let _ = s;
        Ts3mome0 {
            f0: FromValue::from_value(s[0].as_ref().expect("component f0 of Ts3mome0 must be present")),
            f1: s[1].as_ref().map(FromValue::from_value),
            f2: s[2].as_ref().map(FromValue::from_value),
        }
    }
}
impl ToValue for Ts3mome0 {
    fn to_value(&self) -> Value {
        Value::Seq(vec![
            Some(self.f0.to_value()),
            self.f1.as_ref().map(|x| x.to_value()),
            self.f2.as_ref().map(|x| x.to_value()),
        ])
    }
}
impl FromValue for Ts3mome1 {
    fn from_value(v: &Value) -> Self {
        let s = match v { Value::Seq(s) => s, other => panic!("Ts3mome1: expected Seq, got {other:?}") };
        assert_eq!(s.len(), 3, "Ts3mome1: component count");
        let _ = s;
        Ts3mome1 {
            f0: FromValue::from_value(s[0].as_ref().expect("component f0 of Ts3mome1 must be present")),
            f1: s[1].as_ref().map(FromValue::from_value),
            f2: s[2].as_ref().map(FromValue::from_value),
        }
    }
}
impl ToValue for Ts3mome1 {
    fn to_value(&self) -> Value {
        Value::Seq(vec![
            Some(self.f0.to_value()),
            self.f1.as_ref().map(|x| x.to_value()),
            self.f2.as_ref().map(|x| x.to_value()),
        ])
    }
}
impl FromValue for Ts3mome2 {
    fn from_value(v: &Value) -> Self {
        let s = match v { Value::Seq(s) => s, other => panic!("Ts3mome2: expected Seq, got {other:?}") };
        assert_eq!(s.len(), 3, "Ts3mome2: component count");
        let _ = s;
        Ts3mome2 {
            f0: FromValue::from_value(s[0].as_ref().expect("component f0 of Ts3mome2 must be present")),
            f1: s[1].as_ref().map(FromValue::from_value),
            f2: s[2].as_ref().map(FromValue::from_value),
        }
    }
}
impl ToValue for Ts3mome2 {
    fn to_value(&self) -> Value {
        Value::Seq(vec![
            Some(self.f0.to_value()),
            self.f1.as_ref().map(|x| x.to_value()),
            self.f2.as_ref().map(|x| x.to_value()),
        ])
    }
}
impl FromValue for Ts3mome3 {
    fn from_value(v: &Value) -> Self {
        let s = match v { Value::Seq(s) => s, other => panic!("Ts3mome3: expected Seq, got {other:?}") };
        assert_eq!(s.len(), 3, "Ts3mome3: component count");
        let _ = s;
        Ts3mome3 {
            f0: FromValue::from_value(s[0].as_ref().expect("component f0 of Ts3mome3 must be present")),
            f1: s[1].as_ref().map(FromValue::from_value),
            f2: FromValue::from_value(s[2].as_ref().expect("component f2 of Ts3mome3 must be present")),
        }
    }
}
impl ToValue for Ts3mome3 {
    fn to_value(&self) -> Value {
        Value::Seq(vec![
            Some(self.f0.to_value()),
            self.f1.as_ref().map(|x| x.to_value()),
            Some(self.f2.to_value()),
        ])
    }
}
impl FromValue for Ts3oomn {
    fn from_value(v: &Value) -> Self {
        let s = match v { Value::Seq(s) => s, other => panic!("Ts3oomn: expected Seq, got {other:?}") };
        assert_eq!(s.len(), 3, "Ts3oomn: component count");
        let _ = s;
        Ts3oomn {
            f0: s[0].as_ref().map(FromValue::from_value),
            f1: s[1].as_ref().map(FromValue::from_value),
            f2: FromValue::from_value(s[2].as_ref().expect("component f2 of Ts3oomn must be present")),
        }
    }
}
impl ToValue for Ts3oomn {
    fn to_value(&self) -> Value {
        Value::Seq(vec![
            self.f0.as_ref().map(|x| x.to_value()),
            self.f1.as_ref().map(|x| x.to_value()),
            Some(self.f2.to_value()),
        ])
    }
}
impl FromValue for Ts3oome0 {
    fn from_value(v: &Value) -> Self {
        let s = match v { Value::Seq(s) => s, other => panic!("Ts3oome0: expected Seq, got {other:?}") };
        assert_eq!(s.len(), 3, "Ts3oome0: component count");
        let _ = s;
        Ts3oome0 {
            f0: s[0].as_ref().map(FromValue::from_value),
            f1: s[1].as_ref().map(FromValue::from_value),
            f2: s[2].as_ref().map(FromValue::from_value),
        }
    }
}
impl ToValue for Ts3oome0 {
    fn to_value(&self) -> Value {
        Value::Seq(vec![
            self.f0.as_ref().map(|x| x.to_value()),
            self.f1.as_ref().map(|x| x.to_value()),
            self.f2.as_ref().map(|x| x.to_value()),
        ])
    }
}
impl FromValue for Ts3oome1 {
    fn from_value(v: &Value) -> Self {
        let s = match v { Value::Seq(s) => s, other => panic!("Ts3oome1: expected Seq, got {other:?}") };
        assert_eq!(s.len(), 3, "Ts3oome1: component count");
        let _ = s;
        Ts3oome1 {
            f0: s[0].as_ref().map(FromValue::from_value),
            f1: s[1].as_ref().map(FromValue::from_value),
            f2: s[2].as_ref().map(FromValue::from_value),
        }
    }
}
impl ToValue for Ts3oome1 {
    fn to_value(&self) -> Value {
        Value::Seq(vec![
            self.f0.as_ref().map(|x| x.to_value()),
            self.f1.as_ref().map(|x| x.to_value()),
            self.f2.as_ref().map(|x| x.to_value()),
        ])
    }
}
impl FromValue for Ts3oome2 {
    fn from_value(v: &Value) -> Self {
        let s = match v { Value::Seq(s) => s, other => panic!("Ts3oome2: expected Seq, got {other:?}") };
        assert_eq!(s.len(), 3, "Ts3oome2: component count");
        let _ = s;
        Ts3oome2 {
            f0: s[0].as_ref().map(FromValue::from_value),
            f1: s[1].as_ref().map(FromValue::from_value),
            f2: s[2].as_ref().map(FromValue::from_value),
        }
    }
}
impl ToValue for Ts3oome2 {
    fn to_value(&self) -> Value {
        Value::Seq(vec![
            self.f0.as_ref().map(|x| x.to_value()),
            self.f1.as_ref().map(|x| x.to_value()),
            self.f2.as_ref().map(|x| x.to_value()),
        ])
    }
}
impl FromValue for Ts3oome3 {
    fn from_value(v: &Value) -> Self {
        let s = match v { Value::Seq(s) => s, other => panic!("Ts3oome3: expected Seq, got {other:?}") };
        assert_eq!(s.len(), 3, "Ts3oome3: component count");
        let _ = s;
        Ts3oome3 {
            f0: s[0].as_ref().map(FromValue::from_value),
            f1: s[1].as_ref().map(FromValue::from_value),
            f2: FromValue::from_value(s[2].as_ref().expect("component f2 of Ts3oome3 must be present")),
        }
    }
}
impl ToValue for Ts3oome3 {
    fn to_value(&self) -> Value {
        Value::Seq(vec![
            self.f0.as_ref().map(|x| x.to_value()),
            self.f1.as_ref().map(|x| x.to_value()),
            Some(self.f2.to_value()),
        ])
    }
}
impl FromValue for Ts3domn {
    fn from_value(v: &Value) -> Self {
        let s = match v { Value::Seq(s) => s, other => panic!("Ts3domn: expected Seq, got {other:?}") };
        assert_eq!(s.len(), 3, "Ts3domn: component count");
        let _ = s;
        Ts3domn {
            f0: FromValue::from_value(s[0].as_ref().expect("component f0 of Ts3domn must be present")),
            f1: s[1].as_ref().map(FromValue::from_value),
            f2: FromValue::from_value(s[2].as_ref().expect("component f2 of Ts3domn must be present")),
        }
    }
}
impl ToValue for Ts3domn {
    fn to_value(&self) -> Value {
        Value::Seq(vec![
            Some(self.f0.to_value()),
            self.f1.as_ref().map(|x| x.to_value()),
            Some(self.f2.to_value()),
        ])
    }
}
impl FromValue for Ts3dome0 {
    fn from_value(v: &Value) -> Self {
        let s = match v { Value::Seq(s) => s, other => panic!("Ts3dome0: expected Seq, got {other:?}") };
        assert_eq!(s.len(), 3, "Ts3dome0: component count");
        let _ = s;
        Ts3dome0 {
            f0: FromValue::from_value(s[0].as_ref().expect("component f0 of Ts3dome0 must be present")),
            f1: s[1].as_ref().map(FromValue::from_value),
            f2: s[2].as_ref().map(FromValue::from_value),
        }
    }
}
impl ToValue for Ts3dome0 {
    fn to_value(&self) -> Value {
        Value::Seq(vec![
            Some(self.f0.to_value()),
            self.f1.as_ref().map(|x| x.to_value()),
            self.f2.as_ref().map(|x| x.to_value()),
        ])
    }
}
impl FromValue for Ts3dome1 {
    fn from_value(v: &Value) -> Self {
        let s = match v { Value::Seq(s) => s, other => panic!("Ts3dome1: expected Seq, got {other:?}") };
        assert_eq!(s.len(), 3, "Ts3dome1: component count");
        let _ = s;
        Ts3dome1 {
            f0: FromValue::from_value(s[0].as_ref().expect("component f0 of Ts3dome1 must be present")),
            f1: s[1].as_ref().map(FromValue::from_value),
            f2: s[2].as_ref().map(FromValue::from_value),
        }
    }
}
impl ToValue for Ts3dome1 {
    fn to_value(&self) -> Value {
        Value::Seq(vec![
            Some(self.f0.to_value()),
            self.f1.as_ref().map(|x| x.to_value()),
            self.f2.as_ref().map(|x| x.to_value()),
        ])
    }
}
impl FromValue for Ts3dome2 {
    fn from_value(v: &Value) -> Self {
        let s = match v { Value::Seq(s) => s, other => panic!("Ts3dome2: expected Seq, got {other:?}") };
        assert_eq!(s.len(), 3, "Ts3dome2: component count");
        let _ = s;
        Ts3dome2 {
            f0: FromValue::from_value(s[0].as_ref().expect("component f0 of Ts3dome2 must be present")),
            f1: s[1].as_ref().map(FromValue::from_value),
            f2: s[2].as_ref().map(FromValue::from_value),
        }
    }
}
impl ToValue for Ts3dome2 {
    fn to_value(&self) -> Value {
        Value::Seq(vec![
            Some(self.f0.to_value()),
            self.f1.as_ref().map(|x| x.to_value()),
            self.f2.as_ref().map(|x| x.to_value()),
        ])
    }
}
impl FromValue for Ts3dome3 {
    fn from_value(v: &Value) -> Self {
        let s = match v { Value::Seq(s) => s, other => panic!("Ts3dome3: expected Seq, got {other:?}") };
        assert_eq!(s.len(), 3, "Ts3dome3: component count");
        let _ = s;
        Ts3dome3 {
            f0: FromValue::from_value(s[0].as_ref().expect("component f0 of Ts3dome3 must be present")),
            f1: s[1].as_ref().map(FromValue::from_value),
            f2: FromValue::from_value(s[2].as_ref().expect("component f2 of Ts3dome3 must be present")),
        }
    }
}
impl ToValue for Ts3dome3 {
    fn to_value(&self) -> Value {
        Value::Seq(vec![
            Some(self.f0.to_value()),
            self.f1.as_ref().map(|x| x.to_value()),
            Some(self.f2.to_value()),
        ])
    }
}
impl FromValue for Ts3mdmn {
    fn from_value(v: &Value) -> Self {
        let s = match v { Value::Seq(s) => s, other => panic!("Ts3mdmn: expected Seq, got {other:?}") };
        assert_eq!(s.len(), 3, "Ts3mdmn: component count");
        let _ = s;
        Ts3mdmn {
            f0: FromValue::from_value(s[0].as_ref().expect("component f0 of Ts3mdmn must be present")),
            f1: FromValue::from_value(s[1].as_ref().expect("component f1 of Ts3mdmn must be present")),
            f2: FromValue::from_value(s[2].as_ref().expect("component f2 of Ts3mdmn must be present")),
        }
    }
}
impl ToValue for Ts3mdmn {
    fn to_value(&self) -> Value {
        Value::Seq(vec![
            Some(self.f0.to_value()),
            Some(self.f1.to_value()),
            Some(self.f2.to_value()),
        ])
    }
}
impl FromValue for Ts3mdme0 {
    fn from_value(v: &Value) -> Self {
        let s = match v { Value::Seq(s) => s, other => panic!("Ts3mdme0: expected Seq, got {other:?}") };
        assert_eq!(s.len(), 3, "Ts3mdme0: component count");
        let _ = s;
        Ts3mdme0 {
            f0: FromValue::from_value(s[0].as_ref().expect("component f0 of Ts3mdme0 must be present")),
            f1: FromValue::from_value(s[1].as_ref().expect("component f1 of Ts3mdme0 must be present")),
            f2: s[2].as_ref().map(FromValue::from_value),
        }
    }
}
impl ToValue for Ts3mdme0 {
    fn to_value(&self) -> Value {
        Value::Seq(vec![
            Some(self.f0.to_value()),
            Some(self.f1.to_value()),
            self.f2.as_ref().map(|x| x.to_value()),
        ])
    }
}
impl FromValue for Ts3mdme1 {
    fn from_value(v: &Value) -> Self {
        let s = match v { Value::Seq(s) => s, other => panic!("Ts3mdme1: expected Seq, got {other:?}") };
        assert_eq!(s.len(), 3, "Ts3mdme1: component count");
        let _ = s;
        Ts3mdme1 {
            f0: FromValue::from_value(s[0].as_ref().expect("component f0 of Ts3mdme1 must be present")),
            f1: FromValue::from_value(s[1].as_ref().expect("component f1 of Ts3mdme1 must be present")),
            f2: s[2].as_ref().map(FromValue::from_value),
        }
    }
}
impl ToValue for Ts3mdme1 {
    fn to_value(&self) -> Value {
        Value::Seq(vec![
            Some(self.f0.to_value()),
            Some(self.f1.to_value()),
            self.f2.as_ref().map(|x| x.to_value()),
        ])
    }
}
impl FromValue for Ts3mdme2 {
    fn from_value(v: &Value) -> Self {
        let s = match v { Value::Seq(s) => s, other => panic!("Ts3mdme2: expected Seq, got {other:?}") };
        assert_eq!(s.len(), 3, "Ts3mdme2: component count");
        let _ = s;
        Ts3mdme2 {
            f0: FromValue::from_value(s[0].as_ref().expect("component f0 of Ts3mdme2 must be present")),
            f1: FromValue::from_value(s[1].as_ref().expect("component f1 of Ts3mdme2 must be present")),
            f2: s[2].as_ref().map(FromValue::from_value),
        }
    }
}
impl ToValue for Ts3mdme2 {
    fn to_value(&self) -> Value {
        Value::Seq(vec![
            Some(self.f0.to_value()),
            Some(self.f1.to_value()),
            self.f2.as_ref().map(|x| x.to_value()),
        ])
    }
}
impl FromValue for Ts3mdme3 {
    fn from_value(v: &Value) -> Self {
        let s = match v { Value::Seq(s) => s, other => panic!("Ts3mdme3: expected Seq, got {other:?}") };
        assert_eq!(s.len(), 3, "Ts3mdme3: component count");
        let _ = s;
        Ts3mdme3 {
            f0: FromValue::from_value(s[0].as_ref().expect("component f0 of Ts3mdme3 must be present")),
            f1: FromValue::from_value(s[1].as_ref().expect("component f1 of Ts3mdme3 must be present")),
            f2: FromValue::from_value(s[2].as_ref().expect("component f2 of Ts3mdme3 must be present")),
        }
    }
}
impl ToValue for Ts3mdme3 {
    fn to_value(&self) -> Value {
        Value::Seq(vec![
            Some(self.f0.to_value()),
            Some(self.f1.to_value()),
            Some(self.f2.to_value()),
        ])
    }
}
impl FromValue for Ts3odmn {
    fn from_value(v: &Value) -> Self {
        let s = match v { Value::Seq(s) => s, other => panic!("Ts3odmn: expected Seq, got {other:?}") };
        assert_eq!(s.len(), 3, "Ts3odmn: component count");
        let _ = s;
        Ts3odmn {
            f0: s[0].as_ref().map(FromValue::from_value),
            f1: FromValue::from_value(s[1].as_ref().expect("component f1 of Ts3odmn must be present")),
            f2: FromValue::from_value(s[2].as_ref().expect("component f2 of Ts3odmn must be present")),
        }
    }
}
impl ToValue for Ts3odmn {
    fn to_value(&self) -> Value {
        Value::Seq(vec![
            self.f0.as_ref().map(|x| x.to_value()),
            Some(self.f1.to_value()),
            Some(self.f2.to_value()),
        ])
    }
}
impl FromValue for Ts3odme0 {
    fn from_value(v: &Value) -> Self {
        let s = match v { Value::Seq(s) => s, other => panic!("Ts3odme0: expected Seq, got {other:?}") };
        assert_eq!(s.len(), 3, "Ts3odme0: component count");
        let _ = s;
        Ts3odme0 {
            f0: s[0].as_ref().map(FromValue::from_value),
            f1: FromValue::from_value(s[1].as_ref().expect("component f1 of Ts3odme0 must be present")),
            f2: s[2].as_ref().map(FromValue::from_value),
        }
    }
}
impl ToValue for Ts3odme0 {
    fn to_value(&self) -> Value {
        Value::Seq(vec![
            self.f0.as_ref().map(|x| x.to_value()),
            Some(self.f1.to_value()),
            self.f2.as_ref().map(|x| x.to_value()),
        ])
    }
}
impl FromValue for Ts3odme1 {
    fn from_value(v: &Value) -> Self {
        let s = match v { Value::Seq(s) => s, other => panic!("Ts3odme1: expected Seq, got {other:?}") };
        assert_eq!(s.len(), 3, "Ts3odme1: component count");
        let _ = s;
        Ts3odme1 {
            f0: s[0].as_ref().map(FromValue::from_value),
            f1: FromValue::from_value(s[1].as_ref().expect("component f1 of Ts3odme1 must be present")),
            f2: s[2].as_ref().map(FromValue::from_value),
        }
    }
}
impl ToValue for Ts3odme1 {
    fn to_value(&self) -> Value {
        Value::Seq(vec![
            self.f0.as_ref().map(|x| x.to_value()),
            Some(self.f1.to_value()),
            self.f2.as_ref().map(|x| x.to_value()),
        ])
    }
}
impl FromValue for Ts3odme2 {
    fn from_value(v: &Value) -> Self {
        let s = match v { Value::Seq(s) => s, other => panic!("Ts3odme2: expected Seq, got {other:?}") };
        assert_eq!(s.len(), 3, "Ts3odme2: component count");
        let _ = s;
        Ts3odme2 {
            f0: s[0].as_ref().map(FromValue::from_value),
            f1: FromValue::from_value(s[1].as_ref().expect("component f1 of Ts3odme2 must be present")),
            f2: s[2].as_ref().map(FromValue::from_value),
        }
    }
}
impl ToValue for Ts3odme2 {
    fn to_value(&self) -> Value {
        Value::Seq(vec![
            self.f0.as_ref().map(|x| x.to_value()),
            Some(self.f1.to_value()),
            self.f2.as_ref().map(|x| x.to_value()),
        ])
    }
}
impl FromValue for Ts3odme3 {
    fn from_value(v: &Value) -> Self {
        let s = match v { Value::Seq(s) => s, other => panic!("Ts3odme3: expected Seq, got {other:?}") };
        assert_eq!(s.len(), 3, "Ts3odme3: component count");
        let _ = s;
        Ts3odme3 {
            f0: s[0].as_ref().map(FromValue::from_value),
            f1: FromValue::from_value(s[1].as_ref().expect("component f1 of Ts3odme3 must be present")),
            f2: FromValue::from_value(s[2].as_ref().expect("component f2 of Ts3odme3 must be present")),
        }
    }
}
impl ToValue for Ts3odme3 {
    fn to_value(&self) -> Value {
        Value::Seq(vec![
            self.f0.as_ref().map(|x| x.to_value()),
            Some(self.f1.to_value()),
            Some(self.f2.to_value()),
        ])
    }
}
impl FromValue for Ts3ddmn {
    fn from_value(v: &Value) -> Self {
        let s = match v { Value::Seq(s) => s, other => panic!("Ts3ddmn: expected Seq, got {other:?}") };
        assert_eq!(s.len(), 3, "Ts3ddmn: component count");
        let _ = s;
        Ts3ddmn {
            f0: FromValue::from_value(s[0].as_ref().expect("component f0 of Ts3ddmn must be present")),
            f1: FromValue::from_value(s[1].as_ref().expect("component f1 of Ts3ddmn must be present")),
            f2: FromValue::from_value(s[2].as_ref().expect("component f2 of Ts3ddmn must be present")),
        }
    }
}
impl ToValue for Ts3ddmn {
    fn to_value(&self) -> Value {
        Value::Seq(vec![
            Some(self.f0.to_value()),
            Some(self.f1.to_value()),
            Some(self.f2.to_value()),
        ])
    }
}
impl FromValue for Ts3ddme0 {
    fn from_value(v: &Value) -> Self {
        let s = match v { Value::Seq(s) => s, other => panic!("Ts3ddme0: expected Seq, got {other:?}") };
        assert_eq!(s.len(), 3, "Ts3ddme0: component count");
        let _ = s;
        Ts3ddme0 {
            f0: FromValue::from_value(s[0].as_ref().expect("component f0 of Ts3ddme0 must be present")),
            f1: FromValue::from_value(s[1].as_ref().expect("component f1 of Ts3ddme0 must be present")),
            f2: s[2].as_ref().map(FromValue::from_value),
        }
    }
}
impl ToValue for Ts3ddme0 {
    fn to_value(&self) -> Value {
        Value::Seq(vec![
            Some(self.f0.to_value()),
            Some(self.f1.to_value()),
            self.f2.as_ref().map(|x| x.to_value()),
        ])
    }
}
impl FromValue for Ts3ddme1 {
    fn from_value(v: &Value) -> Self {
        let s = match v { Value::Seq(s) => s, other => panic!("Ts3ddme1: expected Seq, got {other:?}") };
        assert_eq!(s.len(), 3, "Ts3ddme1: component count");
        let _ = s;
        Ts3ddme1 {
            f0: FromValue::from_value(s[0].as_ref().expect("component f0 of Ts3ddme1 must be present")),
            f1: FromValue::from_value(s[1].as_ref().expect("component f1 of Ts3ddme1 must be present")),
            f2: s[2].as_ref().map(FromValue::from_value),
        }
    }
}
impl ToValue for Ts3ddme1 {
    fn to_value(&self) -> Value {
        Value::Seq(vec![
            Some(self.f0.to_value()),
            Some(self.f1.to_value()),
            self.f2.as_ref().map(|x| x.to_value()),
        ])
    }
}
impl FromValue for Ts3ddme2 {
    fn from_value(v: &Value) -> Self {
        let s = match v { Value::Seq(s) => s, other => panic!("Ts3ddme2: expected Seq, got {other:?}") };
        assert_eq!(s.len(), 3, "Ts3ddme2: component count");
        let _ = s;
        Ts3ddme2 {
            f0: FromValue::from_value(s[0].as_ref().expect("component f0 of Ts3ddme2 must be present")),
            f1: FromValue::from_value(s[1].as_ref().expect("component f1 of Ts3ddme2 must be present")),
            f2: s[2].as_ref().map(FromValue::from_value),
        }
    }
}
impl ToValue for Ts3ddme2 {
    fn to_value(&self) -> Value {
        Value::Seq(vec![
            Some(self.f0.to_value()),
            Some(self.f1.to_value()),
            self.f2.as_ref().map(|x| x.to_value()),
        ])
    }
}
impl FromValue for Ts3ddme3 {
    fn from_value(v: &Value) -> Self {
        let s = match v { Value::Seq(s) => s, other => panic!("Ts3ddme3: expected Seq, got {other:?}") };
        assert_eq!(s.len(), 3, "Ts3ddme3: component count");
        let _ = s;
        Ts3ddme3 {
            f0: FromValue::from_value(s[0].as_ref().expect("component f0 of Ts3ddme3 must be present")),
            f1: FromValue::from_value(s[1].as_ref().expect("component f1 of Ts3ddme3 must be present")),
            f2: FromValue::from_value(s[2].as_ref().expect("component f2 of Ts3ddme3 must be present")),
        }
    }
}
impl ToValue for Ts3ddme3 {
    fn to_value(&self) -> Value {
        Value::Seq(vec![
            Some(self.f0.to_value()),
            Some(self.f1.to_value()),
            Some(self.f2.to_value()),
        ])
    }
}
impl FromValue for Ts3mmon {
    fn from_value(v: &Value) -> Self {
        let s = match v { Value::Seq(s) => s, other => panic!("Ts3mmon: expected Seq, got {other:?}") };
        assert_eq!(s.len(), 3, "Ts3mmon: component count");
        let _ = s;
        Ts3mmon {
            f0: FromValue::from_value(s[0].as_ref().expect("component f0 of Ts3mmon must be present")),
            f1: FromValue::from_value(s[1].as_ref().expect("component f1 of Ts3mmon must be present")),
            f2: s[2].as_ref().map(FromValue::from_value),
        }
    }
}
impl ToValue for Ts3mmon {
    fn to_value(&self) -> Value {
        Value::Seq(vec![
            Some(self.f0.to_value()),
            Some(self.f1.to_value()),
            self.f2.as_ref().map(|x| x.to_value()),
        ])
    }
}
impl FromValue for Ts3mmoe0 {
    fn from_value(v: &Value) -> Self {
        let s = match v { Value::Seq(s) => s, other => panic!("Ts3mmoe0: expected Seq, got {other:?}") };
        assert_eq!(s.len(), 3, "Ts3mmoe0: component count");
        let _ = s;
        Ts3mmoe0 {
            f0: FromValue::from_value(s[0].as_ref().expect("component f0 of Ts3mmoe0 must be present")),
            f1: s[1].as_ref().map(FromValue::from_value),
            f2: s[2].as_ref().map(FromValue::from_value),
        }
    }
}
impl ToValue for Ts3mmoe0 {
    fn to_value(&self) -> Value {
        Value::Seq(vec![
            Some(self.f0.to_value()),
            self.f1.as_ref().map(|x| x.to_value()),
            self.f2.as_ref().map(|x| x.to_value()),
        ])
    }
}
impl FromValue for Ts3mmoe1 {
    fn from_value(v: &Value) -> Self {
        let s = match v { Value::Seq(s) => s, other => panic!("Ts3mmoe1: expected Seq, got {other:?}") };
        assert_eq!(s.len(), 3, "Ts3mmoe1: component count");
        let _ = s;
        Ts3mmoe1 {
            f0: FromValue::from_value(s[0].as_ref().expect("component f0 of Ts3mmoe1 must be present")),
            f1: s[1].as_ref().map(FromValue::from_value),
            f2: s[2].as_ref().map(FromValue::from_value),
        }
    }
}
impl ToValue for Ts3mmoe1 {
    fn to_value(&self) -> Value {
        Value::Seq(vec![
            Some(self.f0.to_value()),
            self.f1.as_ref().map(|x| x.to_value()),
            self.f2.as_ref().map(|x| x.to_value()),
        ])
    }
}
impl FromValue for Ts3mmoe2 {
    fn from_value(v: &Value) -> Self {
        let s = match v { Value::Seq(s) => s, other => panic!("Ts3mmoe2: expected Seq, got {other:?}") };
        assert_eq!(s.len(), 3, "Ts3mmoe2: component count");
        let _ = s;
        Ts3mmoe2 {
            f0: FromValue::from_value(s[0].as_ref().expect("component f0 of Ts3mmoe2 must be present")),
            f1: FromValue::from_value(s[1].as_ref().expect("component f1 of Ts3mmoe2 must be present")),
            f2: s[2].as_ref().map(FromValue::from_value),
        }
    }
}
impl ToValue for Ts3mmoe2 {
    fn to_value(&self) -> Value {
        Value::Seq(vec![
            Some(self.f0.to_value()),
            Some(self.f1.to_value()),
            self.f2.as_ref().map(|x| x.to_value()),
        ])
    }
}
impl FromValue for Ts3mmoe3 {
    fn from_value(v: &Value) -> Self {
        let s = match v { Value::Seq(s) => s, other => panic!("Ts3mmoe3: expected Seq, got {other:?}") };
        assert_eq!(s.len(), 3, "Ts3mmoe3: component count");
        let _ = s;
        Ts3mmoe3 {
            f0: FromValue::from_value(s[0].as_ref().expect("component f0 of Ts3mmoe3 must be present")),
            f1: FromValue::from_value(s[1].as_ref().expect("component f1 of Ts3mmoe3 must be present")),
            f2: s[2].as_ref().map(FromValue::from_value),
        }
    }
}
impl ToValue for Ts3mmoe3 {
    fn to_value(&self) -> Value {
        Value::Seq(vec![
            Some(self.f0.to_value()),
            Some(self.f1.to_value()),
            self.f2.as_ref().map(|x| x.to_value()),
        ])
    }
}
impl FromValue for Ts3omon {
    fn from_value(v: &Value) -> Self {
        let s = match v { Value::Seq(s) => s, other => panic!("Ts3omon: expected Seq, got {other:?}") };
        assert_eq!(s.len(), 3, "Ts3omon: component count");
        let _ = s;
        Ts3omon {
            f0: s[0].as_ref().map(FromValue::from_value),
            f1: FromValue::from_value(s[1].as_ref().expect("component f1 of Ts3omon must be present")),
            f2: s[2].as_ref().map(FromValue::from_value),
        }
    }
}
impl ToValue for Ts3omon {
    fn to_value(&self) -> Value {
        Value::Seq(vec![
            self.f0.as_ref().map(|x| x.to_value()),
            Some(self.f1.to_value()),
            self.f2.as_ref().map(|x| x.to_value()),
        ])
    }
}
impl FromValue for Ts3omoe0 {
    fn from_value(v: &Value) -> Self {
        let s = match v { Value::Seq(s) => s, other => panic!("Ts3omoe0: expected Seq, got {other:?}") };
        assert_eq!(s.len(), 3, "Ts3omoe0: component count");
        let _ = s;
        Ts3omoe0 {
            f0: s[0].as_ref().map(FromValue::from_value),
            f1: s[1].as_ref().map(FromValue::from_value),
            f2: s[2].as_ref().map(FromValue::from_value),
        }
    }
}
impl ToValue for Ts3omoe0 {
    fn to_value(&self) -> Value {
        Value::Seq(vec![
            self.f0.as_ref().map(|x| x.to_value()),
            self.f1.as_ref().map(|x| x.to_value()),
            self.f2.as_ref().map(|x| x.to_value()),
        ])
    }
}
impl FromValue for Ts3omoe1 {
    fn from_value(v: &Value) -> Self {
        let s = match v { Value::Seq(s) => s, other => panic!("Ts3omoe1: expected Seq, got {other:?}") };
        assert_eq!(s.len(), 3, "Ts3omoe1: component count");
        let _ = s;
        Ts3omoe1 {
            f0: s[0].as_ref().map(FromValue::from_value),
            f1: s[1].as_ref().map(FromValue::from_value),
            f2: s[2].as_ref().map(FromValue::from_value),
        }
    }
}
impl ToValue for Ts3omoe1 {
    fn to_value(&self) -> Value {
        Value::Seq(vec![
            self.f0.as_ref().map(|x| x.to_value()),
            self.f1.as_ref().map(|x| x.to_value()),
            self.f2.as_ref().map(|x| x.to_value()),
        ])
    }
}
impl FromValue for Ts3omoe2 {
    fn from_value(v: &Value) -> Self {
        let s = match v { Value::Seq(s) => s, other => panic!("Ts3omoe2: expected Seq, got {other:?}") };
        assert_eq!(s.len(), 3, "Ts3omoe2: component count");
        let _ = s;
        Ts3omoe2 {
            f0: s[0].as_ref().map(FromValue::from_value),
            f1: FromValue::from_value(s[1].as_ref().expect("component f1 of Ts3omoe2 must be present")),
            f2: s[2].as_ref().map(FromValue::from_value),
        }
    }
}
impl ToValue for Ts3omoe2 {
    fn to_value(&self) -> Value {
        Value::Seq(vec![
            self.f0.as_ref().map(|x| x.to_value()),
            Some(self.f1.to_value()),
            self.f2.as_ref().map(|x| x.to_value()),
        ])
    }
}
impl FromValue for Ts3omoe3 {
    fn from_value(v: &Value) -> Self {
        let s = match v { Value::Seq(s) => s, other => panic!("Ts3omoe3: expected Seq, got {other:?}") };
        assert_eq!(s.len(), 3, "Ts3omoe3: component count");
        let _ = s;
        Ts3omoe3 {
            f0: s[0].as_ref().map(FromValue::from_value),
            f1: FromValue::from_value(s[1].as_ref().expect("component f1 of Ts3omoe3 must be present")),
            f2: s[2].as_ref().map(FromValue::from_value),
        }
    }
}
impl ToValue for Ts3omoe3 {
    fn to_value(&self) -> Value {
        Value::Seq(vec![
            self.f0.as_ref().map(|x| x.to_value()),
            Some(self.f1.to_value()),
            self.f2.as_ref().map(|x| x.to_value()),
        ])
    }
}
impl FromValue for Ts3dmon {
    fn from_value(v: &Value) -> Self {
        let s = match v { Value::Seq(s) => s, other => panic!("Ts3dmon: expected Seq, got {other:?}") };
        assert_eq!(s.len(), 3, "Ts3dmon: component count");
        let _ = s;
        Ts3dmon {
            f0: FromValue::from_value(s[0].as_ref().expect("component f0 of Ts3dmon must be present")),
            f1: FromValue::from_value(s[1].as_ref().expect("component f1 of Ts3dmon must be present")),
            f2: s[2].as_ref().map(FromValue::from_value),
        }
    }
}
impl ToValue for Ts3dmon {
    fn to_value(&self) -> Value {
        Value::Seq(vec![
            Some(self.f0.to_value()),
            Some(self.f1.to_value()),
            self.f2.as_ref().map(|x| x.to_value()),
        ])
    }
}
impl FromValue for Ts3dmoe0 {
    fn from_value(v: &Value) -> Self {
        let s = match v { Value::Seq(s) => s, other => panic!("Ts3dmoe0: expected Seq, got {other:?}") };
        assert_eq!(s.len(), 3, "Ts3dmoe0: component count");
        let _ = s;
        Ts3dmoe0 {
            f0: FromValue::from_value(s[0].as_ref().expect("component f0 of Ts3dmoe0 must be present")),
            f1: s[1].as_ref().map(FromValue::from_value),
            f2: s[2].as_ref().map(FromValue::from_value),
        }
    }
}
impl ToValue for Ts3dmoe0 {
    fn to_value(&self) -> Value {
        Value::Seq(vec![
            Some(self.f0.to_value()),
            self.f1.as_ref().map(|x| x.to_value()),
            self.f2.as_ref().map(|x| x.to_value()),
        ])
    }
}
impl FromValue for Ts3dmoe1 {
    fn from_value(v: &Value) -> Self {
        let s = match v { Value::Seq(s) => s, other => panic!("Ts3dmoe1: expected Seq, got {other:?}") };
        assert_eq!(s.len(), 3, "Ts3dmoe1: component count");
        let _ = s;
        Ts3dmoe1 {
            f0: FromValue::from_value(s[0].as_ref().expect("component f0 of Ts3dmoe1 must be present")),
            f1: s[1].as_ref().map(FromValue::from_value),
            f2: s[2].as_ref().map(FromValue::from_value),
        }
    }
}
impl ToValue for Ts3dmoe1 {
    fn to_value(&self) -> Value {
        Value::Seq(vec![
            Some(self.f0.to_value()),
            self.f1.as_ref().map(|x| x.to_value()),
            self.f2.as_ref().map(|x| x.to_value()),
        ])
    }
}
impl FromValue for Ts3dmoe2 {
    fn from_value(v: &Value) -> Self {
        let s = match v { Value::Seq(s) => s, other => panic!("Ts3dmoe2: expected Seq, got {other:?}") };
        assert_eq!(s.len(), 3, "Ts3dmoe2: component count");
        let _ = s;
        Ts3dmoe2 {
            f0: FromValue::from_value(s[0].as_ref().expect("component f0 of Ts3dmoe2 must be present")),
            f1: FromValue::from_value(s[1].as_ref().expect("component f1 of Ts3dmoe2 must be present")),
            f2: s[2].as_ref().map(FromValue::from_value),
        }
    }
}
impl ToValue for Ts3dmoe2 {
    fn to_value(&self) -> Value {
        Value::Seq(vec![
            Some(self.f0.to_value()),
            Some(self.f1.to_value()),
            self.f2.as_ref().map(|x| x.to_value()),
        ])
    }
}
impl FromValue for Ts3dmoe3 {
    fn from_value(v: &Value) -> Self {
        let s = match v { Value::Seq(s) => s, other => panic!("Ts3dmoe3: expected Seq, got {other:?}") };
        assert_eq!(s.len(), 3, "Ts3dmoe3: component count");
        let _ = s;
        Ts3dmoe3 {
            f0: FromValue::from_value(s[0].as_ref().expect("component f0 of Ts3dmoe3 must be present")),
            f1: FromValue::from_value(s[1].as_ref().expect("component f1 of Ts3dmoe3 must be present")),
            f2: s[2].as_ref().map(FromValue::from_value),
        }
    }
}
impl ToValue for Ts3dmoe3 {
    fn to_value(&self) -> Value {
        Value::Seq(vec![
            Some(self.f0.to_value()),
            Some(self.f1.to_value()),
            self.f2.as_ref().map(|x| x.to_value()),
        ])
    }
}
impl FromValue for Ts3moon {
    fn from_value(v: &Value) -> Self {
        let s = match v { Value::Seq(s) => s, other => panic!("Ts3moon: expected Seq, got {other:?}") };
        assert_eq!(s.len(), 3, "Ts3moon: component count");
        let _ = s;
        Ts3moon {
            f0: FromValue::from_value(s[0].as_ref().expect("component f0 of Ts3moon must be present")),
            f1: s[1].as_ref().map(FromValue::from_value),
            f2: s[2].as_ref().map(FromValue::from_value),
        }
    }
}
impl ToValue for Ts3moon {
    fn to_value(&self) -> Value {
        Value::Seq(vec![
            Some(self.f0.to_value()),
            self.f1.as_ref().map(|x| x.to_value()),
            self.f2.as_ref().map(|x| x.to_value()),
        ])
    }
}
impl FromValue for Ts3mooe0 {
    fn from_value(v: &Value) -> Self {
        let s = match v { Value::Seq(s) => s, other => panic!("Ts3mooe0: expected Seq, got {other:?}") };
        assert_eq!(s.len(), 3, "Ts3mooe0: component count");
        let _ = s;
        Ts3mooe0 {
            f0: FromValue::from_value(s[0].as_ref().expect("component f0 of Ts3mooe0 must be present")),
            f1: s[1].as_ref().map(FromValue::from_value),
            f2: s[2].as_ref().map(FromValue::from_value),
        }
    }
}
impl ToValue for Ts3mooe0 {
    fn to_value(&self) -> Value {
        Value::Seq(vec![
            Some(self.f0.to_value()),
            self.f1.as_ref().map(|x| x.to_value()),
            self.f2.as_ref().map(|x| x.to_value()),
        ])
    }
}
impl FromValue for Ts3mooe1 {
    fn from_value(v: &Value) -> Self {
        let s = match v { Value::Seq(s) => s, other => panic!("Ts3mooe1: expected Seq, got {other:?}") };
        assert_eq!(s.len(), 3, "Ts3mooe1: component count");
        let _ = s;
        Ts3mooe1 {
            f0: FromValue::from_value(s[0].as_ref().expect("component f0 of Ts3mooe1 must be present")),
            f1: s[1].as_ref().map(FromValue::from_value),
            f2: s[2].as_ref().map(FromValue::from_value),
        }
    }
}
impl ToValue for Ts3mooe1 {
    fn to_value(&self) -> Value {
        Value::Seq(vec![
            Some(self.f0.to_value()),
            self.f1.as_ref().map(|x| x.to_value()),
            self.f2.as_ref().map(|x| x.to_value()),
        ])
    }
}
impl FromValue for Ts3mooe2 {
    fn from_value(v: &Value) -> Self {
        let s = match v { Value::Seq(s) => s, other => panic!("Ts3mooe2: expected Seq, got {other:?}") };
        assert_eq!(s.len(), 3, "Ts3mooe2: component count");
        let _ = s;
        Ts3mooe2 {
            f0: FromValue::from_value(s[0].as_ref().expect("component f0 of Ts3mooe2 must be present")),
            f1: s[1].as_ref().map(FromValue::from_value),
            f2: s[2].as_ref().map(FromValue::from_value),
        }
    }
}
impl ToValue for Ts3mooe2 {
    fn to_value(&self) -> Value {
        Value::Seq(vec![
            Some(self.f0.to_value()),
            self.f1.as_ref().map(|x| x.to_value()),
            self.f2.as_ref().map(|x| x.to_value()),
        ])
    }
}
impl FromValue for Ts3mooe3 {
    fn from_value(v: &Value) -> Self {
        let s = match v { Value::Seq(s) => s, other => panic!("Ts3mooe3: expected Seq, got {other:?}") };
        assert_eq!(s.len(), 3, "Ts3mooe3: component count");
        let _ = s;
        Ts3mooe3 {
            f0: FromValue::from_value(s[0].as_ref().expect("component f0 of Ts3mooe3 must be present")),
            f1: s[1].as_ref().map(FromValue::from_value),
            f2: s[2].as_ref().map(FromValue::from_value),
        }
    }
}
impl ToValue for Ts3mooe3 {
    fn to_value(&self) -> Value {
        Value::Seq(vec![
            Some(self.f0.to_value()),
            self.f1.as_ref().map(|x| x.to_value()),
            self.f2.as_ref().map(|x| x.to_value()),
        ])
    }
}
impl FromValue for Ts3ooon {
    fn from_value(v: &Value) -> Self {
        let s = match v { Value::Seq(s) => s, other => panic!("Ts3ooon: expected Seq, got {other:?}") };
        assert_eq!(s.len(), 3, "Ts3ooon: component count");
        let _ = s;
        Ts3ooon {
            f0: s[0].as_ref().map(FromValue::from_value),
            f1: s[1].as_ref().map(FromValue::from_value),
            f2: s[2].as_ref().map(FromValue::from_value),
        }
    }
}
impl ToValue for Ts3ooon {
    fn to_value(&self) -> Value {
        Value::Seq(vec![
            self.f0.as_ref().map(|x| x.to_value()),
            self.f1.as_ref().map(|x| x.to_value()),
            self.f2.as_ref().map(|x| x.to_value()),
        ])
    }
}
impl FromValue for Ts3oooe0 {
    fn from_value(v: &Value) -> Self {
        let s = match v { Value::Seq(s) => s, other => panic!("Ts3oooe0: expected Seq, got {other:?}") };
        assert_eq!(s.len(), 3, "Ts3oooe0: component count");
        let _ = s;
        Ts3oooe0 {
            f0: s[0].as_ref().map(FromValue::from_value),
            f1: s[1].as_ref().map(FromValue::from_value),
            f2: s[2].as_ref().map(FromValue::from_value),
        }
    }
}
impl ToValue for Ts3oooe0 {
    fn to_value(&self) -> Value {
        Value::Seq(vec![
            self.f0.as_ref().map(|x| x.to_value()),
            self.f1.as_ref().map(|x| x.to_value()),
            self.f2.as_ref().map(|x| x.to_value()),
        ])
    }
}
impl FromValue for Ts3oooe1 {
    fn from_value(v: &Value) -> Self {
        let s = match v { Value::Seq(s) => s, other => panic!("Ts3oooe1: expected Seq, got {other:?}") };
        assert_eq!(s.len(), 3, "Ts3oooe1: component count");
        let _ = s;
        Ts3oooe1 {
            f0: s[0].as_ref().map(FromValue::from_value),
            f1: s[1].as_ref().map(FromValue::from_value),
            f2: s[2].as_ref().map(FromValue::from_value),
        }
    }
}
impl ToValue for Ts3oooe1 {
    fn to_value(&self) -> Value {
        Value::Seq(vec![
            self.f0.as_ref().map(|x| x.to_value()),
            self.f1.as_ref().map(|x| x.to_value()),
            self.f2.as_ref().map(|x| x.to_value()),
        ])
    }
}
impl FromValue for Ts3oooe2 {
    fn from_value(v: &Value) -> Self {
        let s = match v { Value::Seq(s) => s, other => panic!("Ts3oooe2: expected Seq, got {other:?}") };
        assert_eq!(s.len(), 3, "Ts3oooe2: component count");
        let _ = s;
        Ts3oooe2 {
            f0: s[0].as_ref().map(FromValue::from_value),
            f1: s[1].as_ref().map(FromValue::from_value),
            f2: s[2].as_ref().map(FromValue::from_value),
        }
    }
}
impl ToValue for Ts3oooe2 {
    fn to_value(&self) -> Value {
        Value::Seq(vec![
            self.f0.as_ref().map(|x| x.to_value()),
            self.f1.as_ref().map(|x| x.to_value()),
            self.f2.as_ref().map(|x| x.to_value()),
        ])
    }
}
impl FromValue for Ts3oooe3 {
    fn from_value(v: &Value) -> Self {
        let s = match v { Value::Seq(s) => s, other => panic!("Ts3oooe3: expected Seq, got {other:?}") };
        assert_eq!(s.len(), 3, "Ts3oooe3: component count");
        let _ = s;
        Ts3oooe3 {
            f0: s[0].as_ref().map(FromValue::from_value),
            f1: s[1].as_ref().map(FromValue::from_value),
            f2: s[2].as_ref().map(FromValue::from_value),
        }
    }
}
impl ToValue for Ts3oooe3 {
    fn to_value(&self) -> Value {
        Value::Seq(vec![
            self.f0.as_ref().map(|x| x.to_value()),
            self.f1.as_ref().map(|x| x.to_value()),
            self.f2.as_ref().map(|x| x.to_value()),
        ])
    }
}
impl FromValue for Ts3doon {
    fn from_value(v: &Value) -> Self {
        let s = match v { Value::Seq(s) => s, other => panic!("Ts3doon: expected Seq, got {other:?}") };
        assert_eq!(s.len(), 3, "Ts3doon: component count");
        let _ = s;
        Ts3doon {
            f0: FromValue::from_value(s[0].as_ref().expect("component f0 of Ts3doon must be present")),
            f1: s[1].as_ref().map(FromValue::from_value),
            f2: s[2].as_ref().map(FromValue::from_value),
        }
    }
}
impl ToValue for Ts3doon {
    fn to_value(&self) -> Value {
        Value::Seq(vec![
            Some(self.f0.to_value()),
            self.f1.as_ref().map(|x| x.to_value()),
            self.f2.as_ref().map(|x| x.to_value()),
        ])
    }
}
impl FromValue for Ts3dooe0 {
    fn from_value(v: &Value) -> Self {
        let s = match v { Value::Seq(s) => s, other => panic!("Ts3dooe0: expected Seq, got {other:?}") };
        assert_eq!(s.len(), 3, "Ts3dooe0: component count");
        let _ = s;
        Ts3dooe0 {
            f0: FromValue::from_value(s[0].as_ref().expect("component f0 of Ts3dooe0 must be present")),
            f1: s[1].as_ref().map(FromValue::from_value),
            f2: s[2].as_ref().map(FromValue::from_value),
        }
    }
}
impl ToValue for Ts3dooe0 {
    fn to_value(&self) -> Value {
        Value::Seq(vec![
            Some(self.f0.to_value()),
            self.f1.as_ref().map(|x| x.to_value()),
            self.f2.as_ref().map(|x| x.to_value()),
        ])
    }
}
impl FromValue for Ts3dooe1 {
    fn from_value(v: &Value) -> Self {
        let s = match v { Value::Seq(s) => s, other => panic!("Ts3dooe1: expected Seq, got {other:?}") };
        assert_eq!(s.len(), 3, "Ts3dooe1: component count");
        let _ = s;
        Ts3dooe1 {
            f0: FromValue::from_value(s[0].as_ref().expect("component f0 of Ts3dooe1 must be present")),
            f1: s[1].as_ref().map(FromValue::from_value),
            f2: s[2].as_ref().map(FromValue::from_value),
        }
    }
}
impl ToValue for Ts3dooe1 {
    fn to_value(&self) -> Value {
        Value::Seq(vec![
            Some(self.f0.to_value()),
            self.f1.as_ref().map(|x| x.to_value()),
            self.f2.as_ref().map(|x| x.to_value()),
        ])
    }
}
impl FromValue for Ts3dooe2 {
    fn from_value(v: &Value) -> Self {
        let s = match v { Value::Seq(s) => s, other => panic!("Ts3dooe2: expected Seq, got {other:?}") };
        assert_eq!(s.len(), 3, "Ts3dooe2: component count");
        let _ = s;
        Ts3dooe2 {
            f0: FromValue::from_value(s[0].as_ref().expect("component f0 of Ts3dooe2 must be present")),
            f1: s[1].as_ref().map(FromValue::from_value),
            f2: s[2].as_ref().map(FromValue::from_value),
        }
    }
}
impl ToValue for Ts3dooe2 {
    fn to_value(&self) -> Value {
        Value::Seq(vec![
            Some(self.f0.to_value()),
            self.f1.as_ref().map(|x| x.to_value()),
            self.f2.as_ref().map(|x| x.to_value()),
        ])
    }
}

use asn1rs::prelude::*;

#[asn(set)]

#[derive(Default, Debug, Clone, PartialEq, Hash)]
pub struct Tt4oooon {
    #[asn(optional(integer(0..7)))] pub f0: Option<u8>,
    #[asn(optional(integer(0..7)))] pub f1: Option<u8>,
    #[asn(optional(integer(0..7)))] pub f2: Option<u8>,
    #[asn(optional(integer(0..7)))] pub f3: Option<u8>,
}

impl Tt4oooon {
    pub const fn f0_min() -> u8 {
        0
    }

    pub const fn f0_max() -> u8 {
        7
    }

    pub const fn f1_min() -> u8 {
        0
    }

    pub const fn f1_max() -> u8 {
        7
    }

    pub const fn f2_min() -> u8 {
        0
    }

    pub const fn f2_max() -> u8 {
        7
    }

    pub const fn f3_min() -> u8 {
        0
    }

    pub const fn f3_max() -> u8 {
        7
    }
}

#[asn(set, extensible_after(f0))]

#[derive(Default, Debug, Clone, PartialEq, Hash)]
pub struct Tt4ooooe0 {
    #[asn(optional(integer(0..7)))] pub f0: Option<u8>,
    #[asn(optional(integer(0..7)))] pub f1: Option<u8>,
    #[asn(optional(integer(0..7)))] pub f2: Option<u8>,
    #[asn(optional(integer(0..7)))] pub f3: Option<u8>,
}

impl Tt4ooooe0 {
    pub const fn f0_min() -> u8 {
        0
    }

    pub const fn f0_max() -> u8 {
        7
    }

    pub const fn f1_min() -> u8 {
        0
    }

    pub const fn f1_max() -> u8 {
        7
    }

    pub const fn f2_min() -> u8 {
        0
    }

    pub const fn f2_max() -> u8 {
        7
    }

    pub const fn f3_min() -> u8 {
        0
    }

    pub const fn f3_max() -> u8 {
        7
    }
}

#[asn(set, extensible_after(f0))]

#[derive(Default, Debug, Clone, PartialEq, Hash)]
pub struct Tt4ooooe1 {
    #[asn(optional(integer(0..7)))] pub f0: Option<u8>,
    #[asn(optional(integer(0..7)))] pub f1: Option<u8>,
    #[asn(optional(integer(0..7)))] pub f2: Option<u8>,
    #[asn(optional(integer(0..7)))] pub f3: Option<u8>,
}

impl Tt4ooooe1 {
    pub const fn f0_min() -> u8 {
        0
    }

    pub const fn f0_max() -> u8 {
        7
    }

    pub const fn f1_min() -> u8 {
        0
    }

    pub const fn f1_max() -> u8 {
        7
    }

    pub const fn f2_min() -> u8 {
        0
    }

    pub const fn f2_max() -> u8 {
        7
    }

    pub const fn f3_min() -> u8 {
        0
    }

    pub const fn f3_max() -> u8 {
        7
    }
}

#[asn(set, extensible_after(f1))]

#[derive(Default, Debug, Clone, PartialEq, Hash)]
pub struct Tt4ooooe2 {
    #[asn(optional(integer(0..7)))] pub f0: Option<u8>,
    #[asn(optional(integer(0..7)))] pub f1: Option<u8>,
    #[asn(optional(integer(0..7)))] pub f2: Option<u8>,
    #[asn(optional(integer(0..7)))] pub f3: Option<u8>,
}

impl Tt4ooooe2 {
    pub const fn f0_min() -> u8 {
        0
    }

    pub const fn f0_max() -> u8 {
        7
    }

    pub const fn f1_min() -> u8 {
        0
    }

    pub const fn f1_max() -> u8 {
        7
    }

    pub const fn f2_min() -> u8 {
        0
    }

    pub const fn f2_max() -> u8 {
        7
    }

    pub const fn f3_min() -> u8 {
        0
    }

    pub const fn f3_max() -> u8 {
        7
    }
}

#[asn(set, extensible_after(f2))]

#[derive(Default, Debug, Clone, PartialEq, Hash)]
pub struct Tt4ooooe3 {
    #[asn(optional(integer(0..7)))] pub f0: Option<u8>,
    #[asn(optional(integer(0..7)))] pub f1: Option<u8>,
    #[asn(optional(integer(0..7)))] pub f2: Option<u8>,
    #[asn(optional(integer(0..7)))] pub f3: Option<u8>,
}

impl Tt4ooooe3 {
    pub const fn f0_min() -> u8 {
        0
    }

    pub const fn f0_max() -> u8 {
        7
    }

    pub const fn f1_min() -> u8 {
        0
    }

    pub const fn f1_max() -> u8 {
        7
    }

    pub const fn f2_min() -> u8 {
        0
    }

    pub const fn f2_max() -> u8 {
        7
    }

    pub const fn f3_min() -> u8 {
        0
    }

    pub const fn f3_max() -> u8 {
        7
    }
}

#[asn(set, extensible_after(f3))]

#[derive(Default, Debug, Clone, PartialEq, Hash)]
pub struct Tt4ooooe4 {
    #[asn(optional(integer(0..7)))] pub f0: Option<u8>,
    #[asn(optional(integer(0..7)))] pub f1: Option<u8>,
    #[asn(optional(integer(0..7)))] pub f2: Option<u8>,
    #[asn(optional(integer(0..7)))] pub f3: Option<u8>,
}

impl Tt4ooooe4 {
    pub const fn f0_min() -> u8 {
        0
    }

    pub const fn f0_max() -> u8 {
        7
    }

    pub const fn f1_min() -> u8 {
        0
    }

    pub const fn f1_max() -> u8 {
        7
    }

    pub const fn f2_min() -> u8 {
        0
    }

    pub const fn f2_max() -> u8 {
        7
    }

    pub const fn f3_min() -> u8 {
        0
    }

    pub const fn f3_max() -> u8 {
        7
    }
}

#[asn(set)]

#[derive(Default, Debug, Clone, PartialEq, Hash)]
pub struct Tt4dooon {
    #[asn(default(integer(0..7), 5))] pub f0: u8,
    #[asn(optional(integer(0..7)))] pub f1: Option<u8>,
    #[asn(optional(integer(0..7)))] pub f2: Option<u8>,
    #[asn(optional(integer(0..7)))] pub f3: Option<u8>,
}

impl Tt4dooon {
    pub const fn f0_min() -> u8 {
        0
    }

    pub const fn f0_max() -> u8 {
        7
    }

    pub const fn f1_min() -> u8 {
        0
    }

    pub const fn f1_max() -> u8 {
        7
    }

    pub const fn f2_min() -> u8 {
        0
    }

    pub const fn f2_max() -> u8 {
        7
    }

    pub const fn f3_min() -> u8 {
        0
    }

    pub const fn f3_max() -> u8 {
        7
    }
}

#[asn(set, extensible_after(f0))]

#[derive(Default, Debug, Clone, PartialEq, Hash)]
pub struct Tt4doooe0 {
    #[asn(default(integer(0..7), 5))] pub f0: u8,
    #[asn(optional(integer(0..7)))] pub f1: Option<u8>,
    #[asn(optional(integer(0..7)))] pub f2: Option<u8>,
    #[asn(optional(integer(0..7)))] pub f3: Option<u8>,
}

impl Tt4doooe0 {
    pub const fn f0_min() -> u8 {
        0
    }

    pub const fn f0_max() -> u8 {
        7
    }

    pub const fn f1_min() -> u8 {
        0
    }

    pub const fn f1_max() -> u8 {
        7
    }

    pub const fn f2_min() -> u8 {
        0
    }

    pub const fn f2_max() -> u8 {
        7
    }

    pub const fn f3_min() -> u8 {
        0
    }

    pub const fn f3_max() -> u8 {
        7
    }
}

#[asn(set, extensible_after(f0))]

#[derive(Default, Debug, Clone, PartialEq, Hash)]
pub struct Tt4doooe1 {
    #[asn(default(integer(0..7), 5))] pub f0: u8,
    #[asn(optional(integer(0..7)))] pub f1: Option<u8>,
    #[asn(optional(integer(0..7)))] pub f2: Option<u8>,
    #[asn(optional(integer(0..7)))] pub f3: Option<u8>,
}

impl Tt4doooe1 {
    pub const fn f0_min() -> u8 {
        0
    }

    pub const fn f0_max() -> u8 {
        7
    }

    pub const fn f1_min() -> u8 {
        0
    }

    pub const fn f1_max() -> u8 {
        7
    }

    pub const fn f2_min() -> u8 {
        0
    }

    pub const fn f2_max() -> u8 {
        7
    }

    pub const fn f3_min() -> u8 {
        0
    }

    pub const fn f3_max() -> u8 {
        7
    }
}

#[asn(set, extensible_after(f1))]

#[derive(Default, Debug, Clone, PartialEq, Hash)]
pub struct Tt4doooe2 {
    #[asn(default(integer(0..7), 5))] pub f0: u8,
    #[asn(optional(integer(0..7)))] pub f1: Option<u8>,
    #[asn(optional(integer(0..7)))] pub f2: Option<u8>,
    #[asn(optional(integer(0..7)))] pub f3: Option<u8>,
}

impl Tt4doooe2 {
    pub const fn f0_min() -> u8 {
        0
    }

    pub const fn f0_max() -> u8 {
        7
    }

    pub const fn f1_min() -> u8 {
        0
    }

    pub const fn f1_max() -> u8 {
        7
    }

    pub const fn f2_min() -> u8 {
        0
    }

    pub const fn f2_max() -> u8 {
        7
    }

    pub const fn f3_min() -> u8 {
        0
    }

    pub const fn f3_max() -> u8 {
        7
    }
}

#[asn(set, extensible_after(f2))]

#[derive(Default, Debug, Clone, PartialEq, Hash)]
pub struct Tt4doooe3 {
    #[asn(default(integer(0..7), 5))] pub f0: u8,
    #[asn(optional(integer(0..7)))] pub f1: Option<u8>,
    #[asn(optional(integer(0..7)))] pub f2: Option<u8>,
    #[asn(optional(integer(0..7)))] pub f3: Option<u8>,
}

impl Tt4doooe3 {
    pub const fn f0_min() -> u8 {
        0
    }

    pub const fn f0_max() -> u8 {
        7
    }

    pub const fn f1_min() -> u8 {
        0
    }

    pub const fn f1_max() -> u8 {
        7
    }

    pub const fn f2_min() -> u8 {
        0
    }

    pub const fn f2_max() -> u8 {
        7
    }

    pub const fn f3_min() -> u8 {
        0
    }

    pub const fn f3_max() -> u8 {
        7
    }
}

#[asn(set, extensible_after(f3))]

#[derive(Default, Debug, Clone, PartialEq, Hash)]
pub struct Tt4doooe4 {
    #[asn(default(integer(0..7), 5))] pub f0: u8,
    #[asn(optional(integer(0..7)))] pub f1: Option<u8>,
    #[asn(optional(integer(0..7)))] pub f2: Option<u8>,
    #[asn(optional(integer(0..7)))] pub f3: Option<u8>,
}

impl Tt4doooe4 {
    pub const fn f0_min() -> u8 {
        0
    }

    pub const fn f0_max() -> u8 {
        7
    }

    pub const fn f1_min() -> u8 {
        0
    }

    pub const fn f1_max() -> u8 {
        7
    }

    pub const fn f2_min() -> u8 {
        0
    }

    pub const fn f2_max() -> u8 {
        7
    }

    pub const fn f3_min() -> u8 {
        0
    }

    pub const fn f3_max() -> u8 {
        7
    }
}

#[asn(set)]

#[derive(Default, Debug, Clone, PartialEq, Hash)]
pub struct Tt4mdoon {
    #[asn(integer(0..7))] pub f0: u8,
    #[asn(default(integer(0..7), 5))] pub f1: u8,
    #[asn(optional(integer(0..7)))] pub f2: Option<u8>,
    #[asn(optional(integer(0..7)))] pub f3: Option<u8>,
}

impl Tt4mdoon {
    pub const fn f0_min() -> u8 {
        0
    }

    pub const fn f0_max() -> u8 {
        7
    }

    pub const fn f1_min() -> u8 {
        0
    }

    pub const fn f1_max() -> u8 {
        7
    }

    pub const fn f2_min() -> u8 {
        0
    }

    pub const fn f2_max() -> u8 {
        7
    }

    pub const fn f3_min() -> u8 {
        0
    }

    pub const fn f3_max() -> u8 {
        7
    }
}

#[asn(set, extensible_after(f0))]

#[derive(Default, Debug, Clone, PartialEq, Hash)]
pub struct Tt4mdooe0 {
    #[asn(integer(0..7))] pub f0: u8,
    #[asn(default(integer(0..7), 5))] pub f1: u8,
    #[asn(optional(integer(0..7)))] pub f2: Option<u8>,
    #[asn(optional(integer(0..7)))] pub f3: Option<u8>,
}

impl Tt4mdooe0 {
    pub const fn f0_min() -> u8 {
        0
    }

    pub const fn f0_max() -> u8 {
        7
    }

    pub const fn f1_min() -> u8 {
        0
    }

    pub const fn f1_max() -> u8 {
        7
    }

    pub const fn f2_min() -> u8 {
        0
    }

    pub const fn f2_max() -> u8 {
        7
    }

    pub const fn f3_min() -> u8 {
        0
    }

    pub const fn f3_max() -> u8 {
        7
    }
}

#[asn(set, extensible_after(f0))]

#[derive(Default, Debug, Clone, PartialEq, Hash)]
pub struct Tt4mdooe1 {
    #[asn(integer(0..7))] pub f0: u8,
    #[asn(default(integer(0..7), 5))] pub f1: u8,
    #[asn(optional(integer(0..7)))] pub f2: Option<u8>,
    #[asn(optional(integer(0..7)))] pub f3: Option<u8>,
}

impl Tt4mdooe1 {
    pub const fn f0_min() -> u8 {
        0
    }

    pub const fn f0_max() -> u8 {
        7
    }

    pub const fn f1_min() -> u8 {
        0
    }

    pub const fn f1_max() -> u8 {
        7
    }

    pub const fn f2_min() -> u8 {
        0
    }

    pub const fn f2_max() -> u8 {
        7
    }

    pub const fn f3_min() -> u8 {
        0
    }

    pub const fn f3_max() -> u8 {
        7
    }
}

#[asn(set, extensible_after(f1))]

#[derive(Default, Debug, Clone, PartialEq, Hash)]
pub struct Tt4mdooe2 {
    #[asn(integer(0..7))] pub f0: u8,
    #[asn(default(integer(0..7), 5))] pub f1: u8,
    #[asn(optional(integer(0..7)))] pub f2: Option<u8>,
    #[asn(optional(integer(0..7)))] pub f3: Option<u8>,
}

impl Tt4mdooe2 {
    pub const fn f0_min() -> u8 {
        0
    }

    pub const fn f0_max() -> u8 {
        7
    }

    pub const fn f1_min() -> u8 {
        0
    }

    pub const fn f1_max() -> u8 {
        7
    }

    pub const fn f2_min() -> u8 {
        0
    }

    pub const fn f2_max() -> u8 {
        7
    }

    pub const fn f3_min() -> u8 {
        0
    }

    pub const fn f3_max() -> u8 {
        7
    }
}

#[asn(set, extensible_after(f2))]

#[derive(Default, Debug, Clone, PartialEq, Hash)]
pub struct Tt4mdooe3 {
    #[asn(integer(0..7))] pub f0: u8,
    #[asn(default(integer(0..7), 5))] pub f1: u8,
    #[asn(optional(integer(0..7)))] pub f2: Option<u8>,
    #[asn(optional(integer(0..7)))] pub f3: Option<u8>,
}

impl Tt4mdooe3 {
    pub const fn f0_min() -> u8 {
        0
    }

    pub const fn f0_max() -> u8 {
        7
    }

    pub const fn f1_min() -> u8 {
        0
    }

    pub const fn f1_max() -> u8 {
        7
    }

    pub const fn f2_min() -> u8 {
        0
    }

    pub const fn f2_max() -> u8 {
        7
    }

    pub const fn f3_min() -> u8 {
        0
    }

    pub const fn f3_max() -> u8 {
        7
    }
}

#[asn(set, extensible_after(f3))]

#[derive(Default, Debug, Clone, PartialEq, Hash)]
pub struct Tt4mdooe4 {
    #[asn(integer(0..7))] pub f0: u8,
    #[asn(default(integer(0..7), 5))] pub f1: u8,
    #[asn(optional(integer(0..7)))] pub f2: Option<u8>,
    #[asn(optional(integer(0..7)))] pub f3: Option<u8>,
}

impl Tt4mdooe4 {
    pub const fn f0_min() -> u8 {
        0
    }

    pub const fn f0_max() -> u8 {
        7
    }

    pub const fn f1_min() -> u8 {
        0
    }

    pub const fn f1_max() -> u8 {
        7
    }

    pub const fn f2_min() -> u8 {
        0
    }

    pub const fn f2_max() -> u8 {
        7
    }

    pub const fn f3_min() -> u8 {
        0
    }

    pub const fn f3_max() -> u8 {
        7
    }
}

#[asn(set)]

#[derive(Default, Debug, Clone, PartialEq, Hash)]
pub struct Tt4odoon {
    #[asn(optional(integer(0..7)))] pub f0: Option<u8>,
    #[asn(default(integer(0..7), 5))] pub f1: u8,
    #[asn(optional(integer(0..7)))] pub f2: Option<u8>,
    #[asn(optional(integer(0..7)))] pub f3: Option<u8>,
}

impl Tt4odoon {
    pub const fn f0_min() -> u8 {
        0
    }

    pub const fn f0_max() -> u8 {
        7
    }

    pub const fn f1_min() -> u8 {
        0
    }

    pub const fn f1_max() -> u8 {
        7
    }

    pub const fn f2_min() -> u8 {
        0
    }

    pub const fn f2_max() -> u8 {
        7
    }

    pub const fn f3_min() -> u8 {
        0
    }

    pub const fn f3_max() -> u8 {
        7
    }
}

#[asn(set, extensible_after(f0))]

#[derive(Default, Debug, Clone, PartialEq, Hash)]
pub struct Tt4odooe0 {
    #[asn(optional(integer(0..7)))] pub f0: Option<u8>,
    #[asn(default(integer(0..7), 5))] pub f1: u8,
    #[asn(optional(integer(0..7)))] pub f2: Option<u8>,
    #[asn(optional(integer(0..7)))] pub f3: Option<u8>,
}

impl Tt4odooe0 {
    pub const fn f0_min() -> u8 {
        0
    }

    pub const fn f0_max() -> u8 {
        7
    }

    pub const fn f1_min() -> u8 {
        0
    }

    pub const fn f1_max() -> u8 {
        7
    }

    pub const fn f2_min() -> u8 {
        0
    }

    pub const fn f2_max() -> u8 {
        7
    }

    pub const fn f3_min() -> u8 {
        0
    }

    pub const fn f3_max() -> u8 {
        7
    }
}

#[asn(set, extensible_after(f0))]

#[derive(Default, Debug, Clone, PartialEq, Hash)]
pub struct Tt4odooe1 {
    #[asn(optional(integer(0..7)))] pub f0: Option<u8>,
    #[asn(default(integer(0..7), 5))] pub f1: u8,
    #[asn(optional(integer(0..7)))] pub f2: Option<u8>,
    #[asn(optional(integer(0..7)))] pub f3: Option<u8>,
}

impl Tt4odooe1 {
    pub const fn f0_min() -> u8 {
        0
    }

    pub const fn f0_max() -> u8 {
        7
    }

    pub const fn f1_min() -> u8 {
        0
    }

    pub const fn f1_max() -> u8 {
        7
    }

    pub const fn f2_min() -> u8 {
        0
    }

    pub const fn f2_max() -> u8 {
        7
    }

    pub const fn f3_min() -> u8 {
        0
    }

    pub const fn f3_max() -> u8 {
        7
    }
}

#[asn(set, extensible_after(f1))]

#[derive(Default, Debug, Clone, PartialEq, Hash)]
pub struct Tt4odooe2 {
    #[asn(optional(integer(0..7)))] pub f0: Option<u8>,
    #[asn(default(integer(0..7), 5))] pub f1: u8,
    #[asn(optional(integer(0..7)))] pub f2: Option<u8>,
    #[asn(optional(integer(0..7)))] pub f3: Option<u8>,
}

impl Tt4odooe2 {
    pub const fn f0_min() -> u8 {
        0
    }

    pub const fn f0_max() -> u8 {
        7
    }

    pub const fn f1_min() -> u8 {
        0
    }

    pub const fn f1_max() -> u8 {
        7
    }

    pub const fn f2_min() -> u8 {
        0
    }

    pub const fn f2_max() -> u8 {
        7
    }

    pub const fn f3_min() -> u8 {
        0
    }

    pub const fn f3_max() -> u8 {
        7
    }
}

#[asn(set, extensible_after(f2))]

#[derive(Default, Debug, Clone, PartialEq, Hash)]
pub struct Tt4odooe3 {
    #[asn(optional(integer(0..7)))] pub f0: Option<u8>,
    #[asn(default(integer(0..7), 5))] pub f1: u8,
    #[asn(optional(integer(0..7)))] pub f2: Option<u8>,
    #[asn(optional(integer(0..7)))] pub f3: Option<u8>,
}

impl Tt4odooe3 {
    pub const fn f0_min() -> u8 {
        0
    }

    pub const fn f0_max() -> u8 {
        7
    }

    pub const fn f1_min() -> u8 {
        0
    }

    pub const fn f1_max() -> u8 {
        7
    }

    pub const fn f2_min() -> u8 {
        0
    }

    pub const fn f2_max() -> u8 {
        7
    }

    pub const fn f3_min() -> u8 {
        0
    }

    pub const fn f3_max() -> u8 {
        7
    }
}

#[asn(set, extensible_after(f3))]

#[derive(Default, Debug, Clone, PartialEq, Hash)]
pub struct Tt4odooe4 {
    #[asn(optional(integer(0..7)))] pub f0: Option<u8>,
    #[asn(default(integer(0..7), 5))] pub f1: u8,
    #[asn(optional(integer(0..7)))] pub f2: Option<u8>,
    #[asn(optional(integer(0..7)))] pub f3: Option<u8>,
}

impl Tt4odooe4 {
    pub const fn f0_min() -> u8 {
        0
    }

    pub const fn f0_max() -> u8 {
        7
    }

    pub const fn f1_min() -> u8 {
        0
    }

    pub const fn f1_max() -> u8 {
        7
    }

    pub const fn f2_min() -> u8 {
        0
    }

    pub const fn f2_max() -> u8 {
        7
    }

    pub const fn f3_min() -> u8 {
        0
    }

    pub const fn f3_max() -> u8 {
        7
    }
}

#[asn(set)]

#[derive(Default, Debug, Clone, PartialEq, Hash)]
pub struct Tt4ddoon {
    #[asn(default(integer(0..7), 5))] pub f0: u8,
    #[asn(default(integer(0..7), 5))] pub f1: u8,
    #[asn(optional(integer(0..7)))] pub f2: Option<u8>,
    #[asn(optional(integer(0..7)))] pub f3: Option<u8>,
}

impl Tt4ddoon {
    pub const fn f0_min() -> u8 {
        0
    }

    pub const fn f0_max() -> u8 {
        7
    }

    pub const fn f1_min() -> u8 {
        0
    }

    pub const fn f1_max() -> u8 {
        7
    }

    pub const fn f2_min() -> u8 {
        0
    }

    pub const fn f2_max() -> u8 {
        7
    }

    pub const fn f3_min() -> u8 {
        0
    }

    pub const fn f3_max() -> u8 {
        7
    }
}

#[asn(set, extensible_after(f0))]

#[derive(Default, Debug, Clone, PartialEq, Hash)]
pub struct Tt4ddooe0 {
    #[asn(default(integer(0..7), 5))] pub f0: u8,
    #[asn(default(integer(0..7), 5))] pub f1: u8,
    #[asn(optional(integer(0..7)))] pub f2: Option<u8>,
    #[asn(optional(integer(0..7)))] pub f3: Option<u8>,
}

impl Tt4ddooe0 {
    pub const fn f0_min() -> u8 {
        0
    }

    pub const fn f0_max() -> u8 {
        7
    }

    pub const fn f1_min() -> u8 {
        0
    }

    pub const fn f1_max() -> u8 {
        7
    }

    pub const fn f2_min() -> u8 {
        0
    }

    pub const fn f2_max() -> u8 {
        7
    }

    pub const fn f3_min() -> u8 {
        0
    }

    pub const fn f3_max() -> u8 {
        7
    }
}

#[asn(set, extensible_after(f0))]

#[derive(Default, Debug, Clone, PartialEq, Hash)]
pub struct Tt4ddooe1 {
    #[asn(default(integer(0..7), 5))] pub f0: u8,
    #[asn(default(integer(0..7), 5))] pub f1: u8,
    #[asn(optional(integer(0..7)))] pub f2: Option<u8>,
    #[asn(optional(integer(0..7)))] pub f3: Option<u8>,
}

impl Tt4ddooe1 {
    pub const fn f0_min() -> u8 {
        0
    }

    pub const fn f0_max() -> u8 {
        7
    }

    pub const fn f1_min() -> u8 {
        0
    }

    pub const fn f1_max() -> u8 {
        7
    }

    pub const fn f2_min() -> u8 {
        0
    }

    pub const fn f2_max() -> u8 {
        7
    }

    pub const fn f3_min() -> u8 {
        0
    }

    pub const fn f3_max() -> u8 {
        7
    }
}

#[asn(set, extensible_after(f1))]

#[derive(Default, Debug, Clone, PartialEq, Hash)]
pub struct Tt4ddooe2 {
    #[asn(default(integer(0..7), 5))] pub f0: u8,
    #[asn(default(integer(0..7), 5))] pub f1: u8,
    #[asn(optional(integer(0..7)))] pub f2: Option<u8>,
    #[asn(optional(integer(0..7)))] pub f3: Option<u8>,
}

impl Tt4ddooe2 {
    pub const fn f0_min() -> u8 {
        0
    }

    pub const fn f0_max() -> u8 {
        7
    }

    pub const fn f1_min() -> u8 {
        0
    }

    pub const fn f1_max() -> u8 {
        7
    }

    pub const fn f2_min() -> u8 {
        0
    }

    pub const fn f2_max() -> u8 {
        7
    }

    pub const fn f3_min() -> u8 {
        0
    }

    pub const fn f3_max() -> u8 {
        7
    }
}

#[asn(set, extensible_after(f2))]

#[derive(Default, Debug, Clone, PartialEq, Hash)]
pub struct Tt4ddooe3 {
    #[asn(default(integer(0..7), 5))] pub f0: u8,
    #[asn(default(integer(0..7), 5))] pub f1: u8,
    #[asn(optional(integer(0..7)))] pub f2: Option<u8>,
    #[asn(optional(integer(0..7)))] pub f3: Option<u8>,
}

impl Tt4ddooe3 {
    pub const fn f0_min() -> u8 {
        0
    }

    pub const fn f0_max() -> u8 {
        7
    }

    pub const fn f1_min() -> u8 {
        0
    }

    pub const fn f1_max() -> u8 {
        7
    }

    pub const fn f2_min() -> u8 {
        0
    }

    pub const fn f2_max() -> u8 {
        7
    }

    pub const fn f3_min() -> u8 {
        0
    }

    pub const fn f3_max() -> u8 {
        7
    }
}

#[asn(set, extensible_after(f3))]

#[derive(Default, Debug, Clone, PartialEq, Hash)]
pub struct Tt4ddooe4 {
    #[asn(default(integer(0..7), 5))] pub f0: u8,
    #[asn(default(integer(0..7), 5))] pub f1: u8,
    #[asn(optional(integer(0..7)))] pub f2: Option<u8>,
    #[asn(optional(integer(0..7)))] pub f3: Option<u8>,
}

impl Tt4ddooe4 {
    pub const fn f0_min() -> u8 {
        0
    }

    pub const fn f0_max() -> u8 {
        7
    }

    pub const fn f1_min() -> u8 {
        0
    }

    pub const fn f1_max() -> u8 {
        7
    }

    pub const fn f2_min() -> u8 {
        0
    }

    pub const fn f2_max() -> u8 {
        7
    }

    pub const fn f3_min() -> u8 {
        0
    }

    pub const fn f3_max() -> u8 {
        7
    }
}

#[asn(set)]

#[derive(Default, Debug, Clone, PartialEq, Hash)]
pub struct Tt4mmdon {
    #[asn(integer(0..7))] pub f0: u8,
    #[asn(integer(0..7))] pub f1: u8,
    #[asn(default(integer(0..7), 5))] pub f2: u8,
    #[asn(optional(integer(0..7)))] pub f3: Option<u8>,
}

impl Tt4mmdon {
    pub const fn f0_min() -> u8 {
        0
    }

    pub const fn f0_max() -> u8 {
        7
    }

    pub const fn f1_min() -> u8 {
        0
    }

    pub const fn f1_max() -> u8 {
        7
    }

    pub const fn f2_min() -> u8 {
        0
    }

    pub const fn f2_max() -> u8 {
        7
    }

    pub const fn f3_min() -> u8 {
        0
    }

    pub const fn f3_max() -> u8 {
        7
    }
}

#[asn(set, extensible_after(f0))]

#[derive(Default, Debug, Clone, PartialEq, Hash)]
pub struct Tt4mmdoe0 {
    #[asn(integer(0..7))] pub f0: u8,
    #[asn(optional(integer(0..7)))] pub f1: Option<u8>,
    #[asn(default(integer(0..7), 5))] pub f2: u8,
    #[asn(optional(integer(0..7)))] pub f3: Option<u8>,
}

impl Tt4mmdoe0 {
    pub const fn f0_min() -> u8 {
        0
    }

    pub const fn f0_max() -> u8 {
        7
    }

    pub const fn f1_min() -> u8 {
        0
    }

    pub const fn f1_max() -> u8 {
        7
    }

    pub const fn f2_min() -> u8 {
        0
    }

    pub const fn f2_max() -> u8 {
        7
    }

    pub const fn f3_min() -> u8 {
        0
    }

    pub const fn f3_max() -> u8 {
        7
    }
}

#[asn(set, extensible_after(f0))]

#[derive(Default, Debug, Clone, PartialEq, Hash)]
pub struct Tt4mmdoe1 {
    #[asn(integer(0..7))] pub f0: u8,
    #[asn(optional(integer(0..7)))] pub f1: Option<u8>,
    #[asn(default(integer(0..7), 5))] pub f2: u8,
    #[asn(optional(integer(0..7)))] pub f3: Option<u8>,
}

impl Tt4mmdoe1 {
    pub const fn f0_min() -> u8 {
        0
    }

    pub const fn f0_max() -> u8 {
        7
    }

    pub const fn f1_min() -> u8 {
        0
    }

    pub const fn f1_max() -> u8 {
        7
    }

    pub const fn f2_min() -> u8 {
        0
    }

    pub const fn f2_max() -> u8 {
        7
    }

    pub const fn f3_min() -> u8 {
        0
    }

    pub const fn f3_max() -> u8 {
        7
    }
}

#[asn(set, extensible_after(f1))]

#[derive(Default, Debug, Clone, PartialEq, Hash)]
pub struct Tt4mmdoe2 {
    #[asn(integer(0..7))] pub f0: u8,
    #[asn(integer(0..7))] pub f1: u8,
    #[asn(default(integer(0..7), 5))] pub f2: u8,
    #[asn(optional(integer(0..7)))] pub f3: Option<u8>,
}

impl Tt4mmdoe2 {
    pub const fn f0_min() -> u8 {
        0
    }

    pub const fn f0_max() -> u8 {
        7
    }

    pub const fn f1_min() -> u8 {
        0
    }

    pub const fn f1_max() -> u8 {
        7
    }

    pub const fn f2_min() -> u8 {
        0
    }

    pub const fn f2_max() -> u8 {
        7
    }

    pub const fn f3_min() -> u8 {
        0
    }

    pub const fn f3_max() -> u8 {
        7
    }
}

#[asn(set, extensible_after(f2))]

#[derive(Default, Debug, Clone, PartialEq, Hash)]
pub struct Tt4mmdoe3 {
    #[asn(integer(0..7))] pub f0: u8,
    #[asn(integer(0..7))] pub f1: u8,
    #[asn(default(integer(0..7), 5))] pub f2: u8,
    #[asn(optional(integer(0..7)))] pub f3: Option<u8>,
}

impl Tt4mmdoe3 {
    pub const fn f0_min() -> u8 {
        0
    }

    pub const fn f0_max() -> u8 {
        7
    }

    pub const fn f1_min() -> u8 {
        0
    }

    pub const fn f1_max() -> u8 {
        7
    }

    pub const fn f2_min() -> u8 {
        0
    }

    pub const fn f2_max() -> u8 {
        7
    }

    pub const fn f3_min() -> u8 {
        0
    }

    pub const fn f3_max() -> u8 {
        7
    }
}

#[asn(set, extensible_after(f3))]

#[derive(Default, Debug, Clone, PartialEq, Hash)]
pub struct Tt4mmdoe4 {
    #[asn(integer(0..7))] pub f0: u8,
    #[asn(integer(0..7))] pub f1: u8,
    #[asn(default(integer(0..7), 5))] pub f2: u8,
    #[asn(optional(integer(0..7)))] pub f3: Option<u8>,
}

impl Tt4mmdoe4 {
    pub const fn f0_min() -> u8 {
        0
    }

    pub const fn f0_max() -> u8 {
        7
    }

    pub const fn f1_min() -> u8 {
        0
    }

    pub const fn f1_max() -> u8 {
        7
    }

    pub const fn f2_min() -> u8 {
        0
    }

    pub const fn f2_max() -> u8 {
        7
    }

    pub const fn f3_min() -> u8 {
        0
    }

    pub const fn f3_max() -> u8 {
        7
    }
}

#[asn(set)]

#[derive(Default, Debug, Clone, PartialEq, Hash)]
pub struct Tt4omdon {
    #[asn(optional(integer(0..7)))] pub f0: Option<u8>,
    #[asn(integer(0..7))] pub f1: u8,
    #[asn(default(integer(0..7), 5))] pub f2: u8,
    #[asn(optional(integer(0..7)))] pub f3: Option<u8>,
}

impl Tt4omdon {
    pub const fn f0_min() -> u8 {
        0
    }

    pub const fn f0_max() -> u8 {
        7
    }

    pub const fn f1_min() -> u8 {
        0
    }

    pub const fn f1_max() -> u8 {
        7
    }

    pub const fn f2_min() -> u8 {
        0
    }

    pub const fn f2_max() -> u8 {
        7
    }

    pub const fn f3_min() -> u8 {
        0
    }

    pub const fn f3_max() -> u8 {
        7
    }
}

#[asn(set, extensible_after(f0))]

#[derive(Default, Debug, Clone, PartialEq, Hash)]
pub struct Tt4omdoe0 {
    #[asn(optional(integer(0..7)))] pub f0: Option<u8>,
    #[asn(optional(integer(0..7)))] pub f1: Option<u8>,
    #[asn(default(integer(0..7), 5))] pub f2: u8,
    #[asn(optional(integer(0..7)))] pub f3: Option<u8>,
}

impl Tt4omdoe0 {
    pub const fn f0_min() -> u8 {
        0
    }

    pub const fn f0_max() -> u8 {
        7
    }

    pub const fn f1_min() -> u8 {
        0
    }

    pub const fn f1_max() -> u8 {
        7
    }

    pub const fn f2_min() -> u8 {
        0
    }

    pub const fn f2_max() -> u8 {
        7
    }

    pub const fn f3_min() -> u8 {
        0
    }

    pub const fn f3_max() -> u8 {
        7
    }
}

#[asn(set, extensible_after(f0))]

#[derive(Default, Debug, Clone, PartialEq, Hash)]
pub struct Tt4omdoe1 {
    #[asn(optional(integer(0..7)))] pub f0: Option<u8>,
    #[asn(optional(integer(0..7)))] pub f1: Option<u8>,
    #[asn(default(integer(0..7), 5))] pub f2: u8,
    #[asn(optional(integer(0..7)))] pub f3: Option<u8>,
}

impl Tt4omdoe1 {
    pub const fn f0_min() -> u8 {
        0
    }

    pub const fn f0_max() -> u8 {
        7
    }

    pub const fn f1_min() -> u8 {
        0
    }

    pub const fn f1_max() -> u8 {
        7
    }

    pub const fn f2_min() -> u8 {
        0
    }

    pub const fn f2_max() -> u8 {
        7
    }

    pub const fn f3_min() -> u8 {
        0
    }

    pub const fn f3_max() -> u8 {
        7
    }
}

#[asn(set, extensible_after(f1))]

#[derive(Default, Debug, Clone, PartialEq, Hash)]
pub struct Tt4omdoe2 {
    #[asn(optional(integer(0..7)))] pub f0: Option<u8>,
    #[asn(integer(0..7))] pub f1: u8,
    #[asn(default(integer(0..7), 5))] pub f2: u8,
    #[asn(optional(integer(0..7)))] pub f3: Option<u8>,
}

impl Tt4omdoe2 {
    pub const fn f0_min() -> u8 {
        0
    }

    pub const fn f0_max() -> u8 {
        7
    }

    pub const fn f1_min() -> u8 {
        0
    }

    pub const fn f1_max() -> u8 {
        7
    }

    pub const fn f2_min() -> u8 {
        0
    }

    pub const fn f2_max() -> u8 {
        7
    }

    pub const fn f3_min() -> u8 {
        0
    }

    pub const fn f3_max() -> u8 {
        7
    }
}

#[asn(set, extensible_after(f2))]

#[derive(Default, Debug, Clone, PartialEq, Hash)]
pub struct Tt4omdoe3 {
    #[asn(optional(integer(0..7)))] pub f0: Option<u8>,
    #[asn(integer(0..7))] pub f1: u8,
    #[asn(default(integer(0..7), 5))] pub f2: u8,
    #[asn(optional(integer(0..7)))] pub f3: Option<u8>,
}

impl Tt4omdoe3 {
    pub const fn f0_min() -> u8 {
        0
    }

    pub const fn f0_max() -> u8 {
        7
    }

    pub const fn f1_min() -> u8 {
        0
    }

    pub const fn f1_max() -> u8 {
        7
    }

    pub const fn f2_min() -> u8 {
        0
    }

    pub const fn f2_max() -> u8 {
        7
    }

    pub const fn f3_min() -> u8 {
        0
    }

    pub const fn f3_max() -> u8 {
        7
    }
}

#[asn(set, extensible_after(f3))]

#[derive(Default, Debug, Clone, PartialEq, Hash)]
pub struct Tt4omdoe4 {
    #[asn(optional(integer(0..7)))] pub f0: Option<u8>,
    #[asn(integer(0..7))] pub f1: u8,
    #[asn(default(integer(0..7), 5))] pub f2: u8,
    #[asn(optional(integer(0..7)))] pub f3: Option<u8>,
}

impl Tt4omdoe4 {
    pub const fn f0_min() -> u8 {
        0
    }

    pub const fn f0_max() -> u8 {
        7
    }

    pub const fn f1_min() -> u8 {
        0
    }

    pub const fn f1_max() -> u8 {
        7
    }

    pub const fn f2_min() -> u8 {
        0
    }

    pub const fn f2_max() -> u8 {
        7
    }

    pub const fn f3_min() -> u8 {
        0
    }

    pub const fn f3_max() -> u8 {
        7
    }
}

#[asn(set)]

#[derive(Default, Debug, Clone, PartialEq, Hash)]
pub struct Tt4dmdon {
    #[asn(default(integer(0..7), 5))] pub f0: u8,
    #[asn(integer(0..7))] pub f1: u8,
    #[asn(default(integer(0..7), 5))] pub f2: u8,
    #[asn(optional(integer(0..7)))] pub f3: Option<u8>,
}

impl Tt4dmdon {
    pub const fn f0_min() -> u8 {
        0
    }

    pub const fn f0_max() -> u8 {
        7
    }

    pub const fn f1_min() -> u8 {
        0
    }

    pub const fn f1_max() -> u8 {
        7
    }

    pub const fn f2_min() -> u8 {
        0
    }

    pub const fn f2_max() -> u8 {
        7
    }

    pub const fn f3_min() -> u8 {
        0
    }

    pub const fn f3_max() -> u8 {
        7
    }
}

#[asn(set, extensible_after(f0))]

#[derive(Default, Debug, Clone, PartialEq, Hash)]
pub struct Tt4dmdoe0 {
    #[asn(default(integer(0..7), 5))] pub f0: u8,
    #[asn(optional(integer(0..7)))] pub f1: Option<u8>,
    #[asn(default(integer(0..7), 5))] pub f2: u8,
    #[asn(optional(integer(0..7)))] pub f3: Option<u8>,
}

impl Tt4dmdoe0 {
    pub const fn f0_min() -> u8 {
        0
    }

    pub const fn f0_max() -> u8 {
        7
    }

    pub const fn f1_min() -> u8 {
        0
    }

    pub const fn f1_max() -> u8 {
        7
    }

    pub const fn f2_min() -> u8 {
        0
    }

    pub const fn f2_max() -> u8 {
        7
    }

    pub const fn f3_min() -> u8 {
        0
    }

    pub const fn f3_max() -> u8 {
        7
    }
}

#[asn(set, extensible_after(f0))]

#[derive(Default, Debug, Clone, PartialEq, Hash)]
pub struct Tt4dmdoe1 {
    #[asn(default(integer(0..7), 5))] pub f0: u8,
    #[asn(optional(integer(0..7)))] pub f1: Option<u8>,
    #[asn(default(integer(0..7), 5))] pub f2: u8,
    #[asn(optional(integer(0..7)))] pub f3: Option<u8>,
}

impl Tt4dmdoe1 {
    pub const fn f0_min() -> u8 {
        0
    }

    pub const fn f0_max() -> u8 {
        7
    }

    pub const fn f1_min() -> u8 {
        0
    }

    pub const fn f1_max() -> u8 {
        7
    }

    pub const fn f2_min() -> u8 {
        0
    }

    pub const fn f2_max() -> u8 {
        7
    }

    pub const fn f3_min() -> u8 {
        0
    }

    pub const fn f3_max() -> u8 {
        7
    }
}

#[asn(set, extensible_after(f1))]

#[derive(Default, Debug, Clone, PartialEq, Hash)]
pub struct Tt4dmdoe2 {
    #[asn(default(integer(0..7), 5))] pub f0: u8,
    #[asn(integer(0..7))] pub f1: u8,
    #[asn(default(integer(0..7), 5))] pub f2: u8,
    #[asn(optional(integer(0..7)))] pub f3: Option<u8>,
}

impl Tt4dmdoe2 {
    pub const fn f0_min() -> u8 {
        0
    }

    pub const fn f0_max() -> u8 {
        7
    }

    pub const fn f1_min() -> u8 {
        0
    }

    pub const fn f1_max() -> u8 {
        7
    }

    pub const fn f2_min() -> u8 {
        0
    }

    pub const fn f2_max() -> u8 {
        7
    }

    pub const fn f3_min() -> u8 {
        0
    }

    pub const fn f3_max() -> u8 {
        7
    }
}

#[asn(set, extensible_after(f2))]

#[derive(Default, Debug, Clone, PartialEq, Hash)]
pub struct Tt4dmdoe3 {
    #[asn(default(integer(0..7), 5))] pub f0: u8,
    #[asn(integer(0..7))] pub f1: u8,
    #[asn(default(integer(0..7), 5))] pub f2: u8,
    #[asn(optional(integer(0..7)))] pub f3: Option<u8>,
}

impl Tt4dmdoe3 {
    pub const fn f0_min() -> u8 {
        0
    }

    pub const fn f0_max() -> u8 {
        7
    }

    pub const fn f1_min() -> u8 {
        0
    }

    pub const fn f1_max() -> u8 {
        7
    }

    pub const fn f2_min() -> u8 {
        0
    }

    pub const fn f2_max() -> u8 {
        7
    }

    pub const fn f3_min() -> u8 {
        0
    }

    pub const fn f3_max() -> u8 {
        7
    }
}

#[asn(set, extensible_after(f3))]

#[derive(Default, Debug, Clone, PartialEq, Hash)]
pub struct Tt4dmdoe4 {
    #[asn(default(integer(0..7), 5))] pub f0: u8,
    #[asn(integer(0..7))] pub f1: u8,
    #[asn(default(integer(0..7), 5))] pub f2: u8,
    #[asn(optional(integer(0..7)))] pub f3: Option<u8>,
}

impl Tt4dmdoe4 {
    pub const fn f0_min() -> u8 {
        0
    }

    pub const fn f0_max() -> u8 {
        7
    }

    pub const fn f1_min() -> u8 {
        0
    }

    pub const fn f1_max() -> u8 {
        7
    }

    pub const fn f2_min() -> u8 {
        0
    }

    pub const fn f2_max() -> u8 {
        7
    }

    pub const fn f3_min() -> u8 {
        0
    }

    pub const fn f3_max() -> u8 {
        7
    }
}

#[asn(set)]

#[derive(Default, Debug, Clone, PartialEq, Hash)]
pub struct Tt4modon {
    #[asn(integer(0..7))] pub f0: u8,
    #[asn(optional(integer(0..7)))] pub f1: Option<u8>,
    #[asn(default(integer(0..7), 5))] pub f2: u8,
    #[asn(optional(integer(0..7)))] pub f3: Option<u8>,
}

impl Tt4modon {
    pub const fn f0_min() -> u8 {
        0
    }

    pub const fn f0_max() -> u8 {
        7
    }

    pub const fn f1_min() -> u8 {
        0
    }

    pub const fn f1_max() -> u8 {
        7
    }

    pub const fn f2_min() -> u8 {
        0
    }

    pub const fn f2_max() -> u8 {
        7
    }

    pub const fn f3_min() -> u8 {
        0
    }

    pub const fn f3_max() -> u8 {
        7
    }
}

#[asn(set, extensible_after(f0))]

#[derive(Default, Debug, Clone, PartialEq, Hash)]
pub struct Tt4modoe0 {
    #[asn(integer(0..7))] pub f0: u8,
    #[asn(optional(integer(0..7)))] pub f1: Option<u8>,
    #[asn(default(integer(0..7), 5))] pub f2: u8,
    #[asn(optional(integer(0..7)))] pub f3: Option<u8>,
}

impl Tt4modoe0 {
    pub const fn f0_min() -> u8 {
        0
    }

    pub const fn f0_max() -> u8 {
        7
    }

    pub const fn f1_min() -> u8 {
        0
    }

    pub const fn f1_max() -> u8 {
        7
    }

    pub const fn f2_min() -> u8 {
        0
    }

    pub const fn f2_max() -> u8 {
        7
    }

    pub const fn f3_min() -> u8 {
        0
    }

    pub const fn f3_max() -> u8 {
        7
    }
}

#[asn(set, extensible_after(f0))]

#[derive(Default, Debug, Clone, PartialEq, Hash)]
pub struct Tt4modoe1 {
    #[asn(integer(0..7))] pub f0: u8,
    #[asn(optional(integer(0..7)))] pub f1: Option<u8>,
    #[asn(default(integer(0..7), 5))] pub f2: u8,
    #[asn(optional(integer(0..7)))] pub f3: Option<u8>,
}

impl Tt4modoe1 {
    pub const fn f0_min() -> u8 {
        0
    }

    pub const fn f0_max() -> u8 {
        7
    }

    pub const fn f1_min() -> u8 {
        0
    }

    pub const fn f1_max() -> u8 {
        7
    }

    pub const fn f2_min() -> u8 {
        0
    }

    pub const fn f2_max() -> u8 {
        7
    }

    pub const fn f3_min() -> u8 {
        0
    }

    pub const fn f3_max() -> u8 {
        7
    }
}

#[asn(set, extensible_after(f1))]

#[derive(Default, Debug, Clone, PartialEq, Hash)]
pub struct Tt4modoe2 {
    #[asn(integer(0..7))] pub f0: u8,
    #[asn(optional(integer(0..7)))] pub f1: Option<u8>,
    #[asn(default(integer(0..7), 5))] pub f2: u8,
    #[asn(optional(integer(0..7)))] pub f3: Option<u8>,
}

impl Tt4modoe2 {
    pub const fn f0_min() -> u8 {
        0
    }

    pub const fn f0_max() -> u8 {
        7
    }

    pub const fn f1_min() -> u8 {
        0
    }

    pub const fn f1_max() -> u8 {
        7
    }

    pub const fn f2_min() -> u8 {
        0
    }

    pub const fn f2_max() -> u8 {
        7
    }

    pub const fn f3_min() -> u8 {
        0
    }

    pub const fn f3_max() -> u8 {
        7
    }
}

#[asn(set, extensible_after(f2))]

#[derive(Default, Debug, Clone, PartialEq, Hash)]
pub struct Tt4modoe3 {
    #[asn(integer(0..7))] pub f0: u8,
    #[asn(optional(integer(0..7)))] pub f1: Option<u8>,
    #[asn(default(integer(0..7), 5))] pub f2: u8,
    #[asn(optional(integer(0..7)))] pub f3: Option<u8>,
}

impl Tt4modoe3 {
    pub const fn f0_min() -> u8 {
        0
    }

    pub const fn f0_max() -> u8 {
        7
    }

    pub const fn f1_min() -> u8 {
        0
    }

    pub const fn f1_max() -> u8 {
        7
    }

    pub const fn f2_min() -> u8 {
        0
    }

    pub const fn f2_max() -> u8 {
        7
    }

    pub const fn f3_min() -> u8 {
        0
    }

    pub const fn f3_max() -> u8 {
        7
    }
}

#[asn(set, extensible_after(f3))]

#[derive(Default, Debug, Clone, PartialEq, Hash)]
pub struct Tt4modoe4 {
    #[asn(integer(0..7))] pub f0: u8,
    #[asn(optional(integer(0..7)))] pub f1: Option<u8>,
    #[asn(default(integer(0..7), 5))] pub f2: u8,
    #[asn(optional(integer(0..7)))] pub f3: Option<u8>,
}

impl Tt4modoe4 {
    pub const fn f0_min() -> u8 {
        0
    }

    pub const fn f0_max() -> u8 {
        7
    }

    pub const fn f1_min() -> u8 {
        0
    }

    pub const fn f1_max() -> u8 {
        7
    }

    pub const fn f2_min() -> u8 {
        0
    }

    pub const fn f2_max() -> u8 {
        7
    }

    pub const fn f3_min() -> u8 {
        0
    }

    pub const fn f3_max() -> u8 {
        7
    }
}

#[asn(set)]

#[derive(Default, Debug, Clone, PartialEq, Hash)]
pub struct Tt4oodon {
    #[asn(optional(integer(0..7)))] pub f0: Option<u8>,
    #[asn(optional(integer(0..7)))] pub f1: Option<u8>,
    #[asn(default(integer(0..7), 5))] pub f2: u8,
    #[asn(optional(integer(0..7)))] pub f3: Option<u8>,
}

impl Tt4oodon {
    pub const fn f0_min() -> u8 {
        0
    }

    pub const fn f0_max() -> u8 {
        7
    }

    pub const fn f1_min() -> u8 {
        0
    }

    pub const fn f1_max() -> u8 {
        7
    }

    pub const fn f2_min() -> u8 {
        0
    }

    pub const fn f2_max() -> u8 {
        7
    }

    pub const fn f3_min() -> u8 {
        0
    }

    pub const fn f3_max() -> u8 {
        7
    }
}

#[asn(set, extensible_after(f0))]

#[derive(Default, Debug, Clone, PartialEq, Hash)]
pub struct Tt4oodoe0 {
    #[asn(optional(integer(0..7)))] pub f0: Option<u8>,
    #[asn(optional(integer(0..7)))] pub f1: Option<u8>,
    #[asn(default(integer(0..7), 5))] pub f2: u8,
    #[asn(optional(integer(0..7)))] pub f3: Option<u8>,
}

impl Tt4oodoe0 {
    pub const fn f0_min() -> u8 {
        0
    }

    pub const fn f0_max() -> u8 {
        7
    }

    pub const fn f1_min() -> u8 {
        0
    }

    pub const fn f1_max() -> u8 {
        7
    }

    pub const fn f2_min() -> u8 {
        0
    }

    pub const fn f2_max() -> u8 {
        7
    }

    pub const fn f3_min() -> u8 {
        0
    }

    pub const fn f3_max() -> u8 {
        7
    }
}

#[asn(set, extensible_after(f0))]

#[derive(Default, Debug, Clone, PartialEq, Hash)]
pub struct Tt4oodoe1 {
    #[asn(optional(integer(0..7)))] pub f0: Option<u8>,
    #[asn(optional(integer(0..7)))] pub f1: Option<u8>,
    #[asn(default(integer(0..7), 5))] pub f2: u8,
    #[asn(optional(integer(0..7)))] pub f3: Option<u8>,
}

impl Tt4oodoe1 {
    pub const fn f0_min() -> u8 {
        0
    }

    pub const fn f0_max() -> u8 {
        7
    }

    pub const fn f1_min() -> u8 {
        0
    }

    pub const fn f1_max() -> u8 {
        7
    }

    pub const fn f2_min() -> u8 {
        0
    }

    pub const fn f2_max() -> u8 {
        7
    }

    pub const fn f3_min() -> u8 {
        0
    }

    pub const fn f3_max() -> u8 {
        7
    }
}

#[asn(set, extensible_after(f1))]

#[derive(Default, Debug, Clone, PartialEq, Hash)]
pub struct Tt4oodoe2 {
    #[asn(optional(integer(0..7)))] pub f0: Option<u8>,
    #[asn(optional(integer(0..7)))] pub f1: Option<u8>,
    #[asn(default(integer(0..7), 5))] pub f2: u8,
    #[asn(optional(integer(0..7)))] pub f3: Option<u8>,
}

impl Tt4oodoe2 {
    pub const fn f0_min() -> u8 {
        0
    }

    pub const fn f0_max() -> u8 {
        7
    }

    pub const fn f1_min() -> u8 {
        0
    }

    pub const fn f1_max() -> u8 {
        7
    }

    pub const fn f2_min() -> u8 {
        0
    }

    pub const fn f2_max() -> u8 {
        7
    }

    pub const fn f3_min() -> u8 {
        0
    }

    pub const fn f3_max() -> u8 {
        7
    }
}

#[asn(set, extensible_after(f2))]

#[derive(Default, Debug, Clone, PartialEq, Hash)]
pub struct Tt4oodoe3 {
    #[asn(optional(integer(0..7)))] pub f0: Option<u8>,
    #[asn(optional(integer(0..7)))] pub f1: Option<u8>,
    #[asn(default(integer(0..7), 5))] pub f2: u8,
    #[asn(optional(integer(0..7)))] pub f3: Option<u8>,
}

impl Tt4oodoe3 {
    pub const fn f0_min() -> u8 {
        0
    }

    pub const fn f0_max() -> u8 {
        7
    }

    pub const fn f1_min() -> u8 {
        0
    }

    pub const fn f1_max() -> u8 {
        7
    }

    pub const fn f2_min() -> u8 {
        0
    }

    pub const fn f2_max() -> u8 {
        7
    }

    pub const fn f3_min() -> u8 {
        0
    }

    pub const fn f3_max() -> u8 {
        7
    }
}

#[asn(set, extensible_after(f3))]

#[derive(Default, Debug, Clone, PartialEq, Hash)]
pub struct Tt4oodoe4 {
    #[asn(optional(integer(0..7)))] pub f0: Option<u8>,
    #[asn(optional(integer(0..7)))] pub f1: Option<u8>,
    #[asn(default(integer(0..7), 5))] pub f2: u8,
    #[asn(optional(integer(0..7)))] pub f3: Option<u8>,
}

impl Tt4oodoe4 {
    pub const fn f0_min() -> u8 {
        0
    }

    pub const fn f0_max() -> u8 {
        7
    }

    pub const fn f1_min() -> u8 {
        0
    }

    pub const fn f1_max() -> u8 {
        7
    }

    pub const fn f2_min() -> u8 {
        0
    }

    pub const fn f2_max() -> u8 {
        7
    }

    pub const fn f3_min() -> u8 {
        0
    }

    pub const fn f3_max() -> u8 {
        7
    }
}

#[asn(set)]

#[derive(Default, Debug, Clone, PartialEq, Hash)]
pub struct Tt4dodon {
    #[asn(default(integer(0..7), 5))] pub f0: u8,
    #[asn(optional(integer(0..7)))] pub f1: Option<u8>,
    #[asn(default(integer(0..7), 5))] pub f2: u8,
    #[asn(optional(integer(0..7)))] pub f3: Option<u8>,
}

impl Tt4dodon {
    pub const fn f0_min() -> u8 {
        0
    }

    pub const fn f0_max() -> u8 {
        7
    }

    pub const fn f1_min() -> u8 {
        0
    }

    pub const fn f1_max() -> u8 {
        7
    }

    pub const fn f2_min() -> u8 {
        0
    }

    pub const fn f2_max() -> u8 {
        7
    }

    pub const fn f3_min() -> u8 {
        0
    }

    pub const fn f3_max() -> u8 {
        7
    }
}

#[asn(set, extensible_after(f0))]

#[derive(Default, Debug, Clone, PartialEq, Hash)]
pub struct Tt4dodoe0 {
    #[asn(default(integer(0..7), 5))] pub f0: u8,
    #[asn(optional(integer(0..7)))] pub f1: Option<u8>,
    #[asn(default(integer(0..7), 5))] pub f2: u8,
    #[asn(optional(integer(0..7)))] pub f3: Option<u8>,
}

impl Tt4dodoe0 {
    pub const fn f0_min() -> u8 {
        0
    }

    pub const fn f0_max() -> u8 {
        7
    }

    pub const fn f1_min() -> u8 {
        0
    }

    pub const fn f1_max() -> u8 {
        7
    }

    pub const fn f2_min() -> u8 {
        0
    }

    pub const fn f2_max() -> u8 {
        7
    }

    pub const fn f3_min() -> u8 {
        0
    }

    pub const fn f3_max() -> u8 {
        7
    }
}

#[asn(set, extensible_after(f0))]

#[derive(Default, Debug, Clone, PartialEq, Hash)]
pub struct Tt4dodoe1 {
    #[asn(default(integer(0..7), 5))] pub f0: u8,
    #[asn(optional(integer(0..7)))] pub f1: Option<u8>,
    #[asn(default(integer(0..7), 5))] pub f2: u8,
    #[asn(optional(integer(0..7)))] pub f3: Option<u8>,
}

impl Tt4dodoe1 {
    pub const fn f0_min() -> u8 {
        0
    }

    pub const fn f0_max() -> u8 {
        7
    }

    pub const fn f1_min() -> u8 {
        0
    }

    pub const fn f1_max() -> u8 {
        7
    }

    pub const fn f2_min() -> u8 {
        0
    }

    pub const fn f2_max() -> u8 {
        7
    }

    pub const fn f3_min() -> u8 {
        0
    }

    pub const fn f3_max() -> u8 {
        7
    }
}

#[asn(set, extensible_after(f1))]

#[derive(Default, Debug, Clone, PartialEq, Hash)]
pub struct Tt4dodoe2 {
    #[asn(default(integer(0..7), 5))] pub f0: u8,
    #[asn(optional(integer(0..7)))] pub f1: Option<u8>,
    #[asn(default(integer(0..7), 5))] pub f2: u8,
    #[asn(optional(integer(0..7)))] pub f3: Option<u8>,
}

impl Tt4dodoe2 {
    pub const fn f0_min() -> u8 {
        0
    }

    pub const fn f0_max() -> u8 {
        7
    }

    pub const fn f1_min() -> u8 {
        0
    }

    pub const fn f1_max() -> u8 {
        7
    }

    pub const fn f2_min() -> u8 {
        0
    }

    pub const fn f2_max() -> u8 {
        7
    }

    pub const fn f3_min() -> u8 {
        0
    }

    pub const fn f3_max() -> u8 {
        7
    }
}

#[asn(set, extensible_after(f2))]

#[derive(Default, Debug, Clone, PartialEq, Hash)]
pub struct Tt4dodoe3 {
    #[asn(default(integer(0..7), 5))] pub f0: u8,
    #[asn(optional(integer(0..7)))] pub f1: Option<u8>,
    #[asn(default(integer(0..7), 5))] pub f2: u8,
    #[asn(optional(integer(0..7)))] pub f3: Option<u8>,
}

impl Tt4dodoe3 {
    pub const fn f0_min() -> u8 {
        0
    }

    pub const fn f0_max() -> u8 {
        7
    }

    pub const fn f1_min() -> u8 {
        0
    }

    pub const fn f1_max() -> u8 {
        7
    }

    pub const fn f2_min() -> u8 {
        0
    }

    pub const fn f2_max() -> u8 {
        7
    }

    pub const fn f3_min() -> u8 {
        0
    }

    pub const fn f3_max() -> u8 {
        7
    }
}

#[asn(set, extensible_after(f3))]

#[derive(Default, Debug, Clone, PartialEq, Hash)]
pub struct Tt4dodoe4 {
    #[asn(default(integer(0..7), 5))] pub f0: u8,
    #[asn(optional(integer(0..7)))] pub f1: Option<u8>,
    #[asn(default(integer(0..7), 5))] pub f2: u8,
    #[asn(optional(integer(0..7)))] pub f3: Option<u8>,
}

impl Tt4dodoe4 {
    pub const fn f0_min() -> u8 {
        0
    }

    pub const fn f0_max() -> u8 {
        7
    }

    pub const fn f1_min() -> u8 {
        0
    }

    pub const fn f1_max() -> u8 {
        7
    }

    pub const fn f2_min() -> u8 {
        0
    }

    pub const fn f2_max() -> u8 {
        7
    }

    pub const fn f3_min() -> u8 {
        0
    }

    pub const fn f3_max() -> u8 {
        7
    }
}

#[asn(set)]

#[derive(Default, Debug, Clone, PartialEq, Hash)]
pub struct Tt4mddon {
    #[asn(integer(0..7))] pub f0: u8,
    #[asn(default(integer(0..7), 5))] pub f1: u8,
    #[asn(default(integer(0..7), 5))] pub f2: u8,
    #[asn(optional(integer(0..7)))] pub f3: Option<u8>,
}

impl Tt4mddon {
    pub const fn f0_min() -> u8 {
        0
    }

    pub const fn f0_max() -> u8 {
        7
    }

    pub const fn f1_min() -> u8 {
        0
    }

    pub const fn f1_max() -> u8 {
        7
    }

    pub const fn f2_min() -> u8 {
        0
    }

    pub const fn f2_max() -> u8 {
        7
    }

    pub const fn f3_min() -> u8 {
        0
    }

    pub const fn f3_max() -> u8 {
        7
    }
}

#[asn(set, extensible_after(f0))]

#[derive(Default, Debug, Clone, PartialEq, Hash)]
pub struct Tt4mddoe0 {
    #[asn(integer(0..7))] pub f0: u8,
    #[asn(default(integer(0..7), 5))] pub f1: u8,
    #[asn(default(integer(0..7), 5))] pub f2: u8,
    #[asn(optional(integer(0..7)))] pub f3: Option<u8>,
}

impl Tt4mddoe0 {
    pub const fn f0_min() -> u8 {
        0
    }

    pub const fn f0_max() -> u8 {
        7
    }

    pub const fn f1_min() -> u8 {
        0
    }

    pub const fn f1_max() -> u8 {
        7
    }

    pub const fn f2_min() -> u8 {
        0
    }

    pub const fn f2_max() -> u8 {
        7
    }

    pub const fn f3_min() -> u8 {
        0
    }

    pub const fn f3_max() -> u8 {
        7
    }
}

#[asn(set, extensible_after(f0))]

#[derive(Default, Debug, Clone, PartialEq, Hash)]
pub struct Tt4mddoe1 {
    #[asn(integer(0..7))] pub f0: u8,
    #[asn(default(integer(0..7), 5))] pub f1: u8,
    #[asn(default(integer(0..7), 5))] pub f2: u8,
    #[asn(optional(integer(0..7)))] pub f3: Option<u8>,
}

impl Tt4mddoe1 {
    pub const fn f0_min() -> u8 {
        0
    }

    pub const fn f0_max() -> u8 {
        7
    }

    pub const fn f1_min() -> u8 {
        0
    }

    pub const fn f1_max() -> u8 {
        7
    }

    pub const fn f2_min() -> u8 {
        0
    }

    pub const fn f2_max() -> u8 {
        7
    }

    pub const fn f3_min() -> u8 {
        0
    }

    pub const fn f3_max() -> u8 {
        7
    }
}

#[asn(set, extensible_after(f1))]

#[derive(Default, Debug, Clone, PartialEq, Hash)]
pub struct Tt4mddoe2 {
    #[asn(integer(0..7))] pub f0: u8,
    #[asn(default(integer(0..7), 5))] pub f1: u8,
    #[asn(default(integer(0..7), 5))] pub f2: u8,
    #[asn(optional(integer(0..7)))] pub f3: Option<u8>,
}

impl Tt4mddoe2 {
    pub const fn f0_min() -> u8 {
        0
    }

    pub const fn f0_max() -> u8 {
        7
    }

    pub const fn f1_min() -> u8 {
        0
    }

    pub const fn f1_max() -> u8 {
        7
    }

    pub const fn f2_min() -> u8 {
        0
    }

    pub const fn f2_max() -> u8 {
        7
    }

    pub const fn f3_min() -> u8 {
        0
    }

    pub const fn f3_max() -> u8 {
        7
    }
}

#[asn(set, extensible_after(f2))]

#[derive(Default, Debug, Clone, PartialEq, Hash)]
pub struct Tt4mddoe3 {
    #[asn(integer(0..7))] pub f0: u8,
    #[asn(default(integer(0..7), 5))] pub f1: u8,
    #[asn(default(integer(0..7), 5))] pub f2: u8,
    #[asn(optional(integer(0..7)))] pub f3: Option<u8>,
}

impl Tt4mddoe3 {
    pub const fn f0_min() -> u8 {
        0
    }

    pub const fn f0_max() -> u8 {
        7
    }

    pub const fn f1_min() -> u8 {
        0
    }

    pub const fn f1_max() -> u8 {
        7
    }

    pub const fn f2_min() -> u8 {
        0
    }

    pub const fn f2_max() -> u8 {
        7
    }

    pub const fn f3_min() -> u8 {
        0
    }

    pub const fn f3_max() -> u8 {
        7
    }
}

#[asn(set, extensible_after(f3))]

#[derive(Default, Debug, Clone, PartialEq, Hash)]
pub struct Tt4mddoe4 {
    #[asn(integer(0..7))] pub f0: u8,
    #[asn(default(integer(0..7), 5))] pub f1: u8,
    #[asn(default(integer(0..7), 5))] pub f2: u8,
    #[asn(optional(integer(0..7)))] pub f3: Option<u8>,
}

impl Tt4mddoe4 {
    pub const fn f0_min() -> u8 {
        0
    }

    pub const fn f0_max() -> u8 {
        7
    }

    pub const fn f1_min() -> u8 {
        0
    }

    pub const fn f1_max() -> u8 {
        7
    }

    pub const fn f2_min() -> u8 {
        0
    }

    pub const fn f2_max() -> u8 {
        7
    }

    pub const fn f3_min() -> u8 {
        0
    }

    pub const fn f3_max() -> u8 {
        7
    }
}

#[asn(set)]

#[derive(Default, Debug, Clone, PartialEq, Hash)]
pub struct Tt4oddon {
    #[asn(optional(integer(0..7)))] pub f0: Option<u8>,
    #[asn(default(integer(0..7), 5))] pub f1: u8,
    #[asn(default(integer(0..7), 5))] pub f2: u8,
    #[asn(optional(integer(0..7)))] pub f3: Option<u8>,
}

impl Tt4oddon {
    pub const fn f0_min() -> u8 {
        0
    }

    pub const fn f0_max() -> u8 {
        7
    }

    pub const fn f1_min() -> u8 {
        0
    }

    pub const fn f1_max() -> u8 {
        7
    }

    pub const fn f2_min() -> u8 {
        0
    }

    pub const fn f2_max() -> u8 {
        7
    }

    pub const fn f3_min() -> u8 {
        0
    }

    pub const fn f3_max() -> u8 {
        7
    }
}

#[asn(set, extensible_after(f0))]

#[derive(Default, Debug, Clone, PartialEq, Hash)]
pub struct Tt4oddoe0 {
    #[asn(optional(integer(0..7)))] pub f0: Option<u8>,
    #[asn(default(integer(0..7), 5))] pub f1: u8,
    #[asn(default(integer(0..7), 5))] pub f2: u8,
    #[asn(optional(integer(0..7)))] pub f3: Option<u8>,
}

impl Tt4oddoe0 {
    pub const fn f0_min() -> u8 {
        0
    }

    pub const fn f0_max() -> u8 {
        7
    }

    pub const fn f1_min() -> u8 {
        0
    }

    pub const fn f1_max() -> u8 {
        7
    }

    pub const fn f2_min() -> u8 {
        0
    }

    pub const fn f2_max() -> u8 {
        7
    }

    pub const fn f3_min() -> u8 {
        0
    }

    pub const fn f3_max() -> u8 {
        7
    }
}

#[asn(set, extensible_after(f0))]

#[derive(Default, Debug, Clone, PartialEq, Hash)]
pub struct Tt4oddoe1 {
    #[asn(optional(integer(0..7)))] pub f0: Option<u8>,
    #[asn(default(integer(0..7), 5))] pub f1: u8,
    #[asn(default(integer(0..7), 5))] pub f2: u8,
    #[asn(optional(integer(0..7)))] pub f3: Option<u8>,
}

impl Tt4oddoe1 {
    pub const fn f0_min() -> u8 {
        0
    }

    pub const fn f0_max() -> u8 {
        7
    }

    pub const fn f1_min() -> u8 {
        0
    }

    pub const fn f1_max() -> u8 {
        7
    }

    pub const fn f2_min() -> u8 {
        0
    }

    pub const fn f2_max() -> u8 {
        7
    }

    pub const fn f3_min() -> u8 {
        0
    }

    pub const fn f3_max() -> u8 {
        7
    }
}

#[asn(set, extensible_after(f1))]

#[derive(Default, Debug, Clone, PartialEq, Hash)]
pub struct Tt4oddoe2 {
    #[asn(optional(integer(0..7)))] pub f0: Option<u8>,
    #[asn(default(integer(0..7), 5))] pub f1: u8,
    #[asn(default(integer(0..7), 5))] pub f2: u8,
    #[asn(optional(integer(0..7)))] pub f3: Option<u8>,
}

impl Tt4oddoe2 {
    pub const fn f0_min() -> u8 {
        0
    }

    pub const fn f0_max() -> u8 {
        7
    }

    pub const fn f1_min() -> u8 {
        0
    }

    pub const fn f1_max() -> u8 {
        7
    }

    pub const fn f2_min() -> u8 {
        0
    }

    pub const fn f2_max() -> u8 {
        7
    }

    pub const fn f3_min() -> u8 {
        0
    }

    pub const fn f3_max() -> u8 {
        7
    }
}

#[asn(set, extensible_after(f2))]

#[derive(Default, Debug, Clone, PartialEq, Hash)]
pub struct Tt4oddoe3 {
    #[asn(optional(integer(0..7)))] pub f0: Option<u8>,
    #[asn(default(integer(0..7), 5))] pub f1: u8,
    #[asn(default(integer(0..7), 5))] pub f2: u8,
    #[asn(optional(integer(0..7)))] pub f3: Option<u8>,
}

impl Tt4oddoe3 {
    pub const fn f0_min() -> u8 {
        0
    }

    pub const fn f0_max() -> u8 {
        7
    }

    pub const fn f1_min() -> u8 {
        0
    }

    pub const fn f1_max() -> u8 {
        7
    }

    pub const fn f2_min() -> u8 {
        0
    }

    pub const fn f2_max() -> u8 {
        7
    }

    pub const fn f3_min() -> u8 {
        0
    }

    pub const fn f3_max() -> u8 {
        7
    }
}

#[asn(set, extensible_after(f3))]

#[derive(Default, Debug, Clone, PartialEq, Hash)]
pub struct Tt4oddoe4 {
    #[asn(optional(integer(0..7)))] pub f0: Option<u8>,
    #[asn(default(integer(0..7), 5))] pub f1: u8,
    #[asn(default(integer(0..7), 5))] pub f2: u8,
    #[asn(optional(integer(0..7)))] pub f3: Option<u8>,
}

impl Tt4oddoe4 {
    pub const fn f0_min() -> u8 {
        0
    }

    pub const fn f0_max() -> u8 {
        7
    }

    pub const fn f1_min() -> u8 {
        0
    }

    pub const fn f1_max() -> u8 {
        7
    }

    pub const fn f2_min() -> u8 {
        0
    }

    pub const fn f2_max() -> u8 {
        7
    }

    pub const fn f3_min() -> u8 {
        0
    }

    pub const fn f3_max() -> u8 {
        7
    }
}

#[asn(set)]

#[derive(Default, Debug, Clone, PartialEq, Hash)]
pub struct Tt4dddon {
    #[asn(default(integer(0..7), 5))] pub f0: u8,
    #[asn(default(integer(0..7), 5))] pub f1: u8,
    #[asn(default(integer(0..7), 5))] pub f2: u8,
    #[asn(optional(integer(0..7)))] pub f3: Option<u8>,
}

impl Tt4dddon {
    pub const fn f0_min() -> u8 {
        0
    }

    pub const fn f0_max() -> u8 {
        7
    }

    pub const fn f1_min() -> u8 {
        0
    }

    pub const fn f1_max() -> u8 {
        7
    }

    pub const fn f2_min() -> u8 {
        0
    }

    pub const fn f2_max() -> u8 {
        7
    }

    pub const fn f3_min() -> u8 {
        0
    }

    pub const fn f3_max() -> u8 {
        7
    }
}

#[asn(set, extensible_after(f0))]

#[derive(Default, Debug, Clone, PartialEq, Hash)]
pub struct Tt4dddoe0 {
    #[asn(default(integer(0..7), 5))] pub f0: u8,
    #[asn(default(integer(0..7), 5))] pub f1: u8,
    #[asn(default(integer(0..7), 5))] pub f2: u8,
    #[asn(optional(integer(0..7)))] pub f3: Option<u8>,
}

impl Tt4dddoe0 {
    pub const fn f0_min() -> u8 {
        0
    }

    pub const fn f0_max() -> u8 {
        7
    }

    pub const fn f1_min() -> u8 {
        0
    }

    pub const fn f1_max() -> u8 {
        7
    }

    pub const fn f2_min() -> u8 {
        0
    }

    pub const fn f2_max() -> u8 {
        7
    }

    pub const fn f3_min() -> u8 {
        0
    }

    pub const fn f3_max() -> u8 {
        7
    }
}

#[asn(set, extensible_after(f0))]

#[derive(Default, Debug, Clone, PartialEq, Hash)]
pub struct Tt4dddoe1 {
    #[asn(default(integer(0..7), 5))] pub f0: u8,
    #[asn(default(integer(0..7), 5))] pub f1: u8,
    #[asn(default(integer(0..7), 5))] pub f2: u8,
    #[asn(optional(integer(0..7)))] pub f3: Option<u8>,
}

impl Tt4dddoe1 {
    pub const fn f0_min() -> u8 {
        0
    }

    pub const fn f0_max() -> u8 {
        7
    }

    pub const fn f1_min() -> u8 {
        0
    }

    pub const fn f1_max() -> u8 {
        7
    }

    pub const fn f2_min() -> u8 {
        0
    }

    pub const fn f2_max() -> u8 {
        7
    }

    pub const fn f3_min() -> u8 {
        0
    }

    pub const fn f3_max() -> u8 {
        7
    }
}

#[asn(set, extensible_after(f1))]

#[derive(Default, Debug, Clone, PartialEq, Hash)]
pub struct Tt4dddoe2 {
    #[asn(default(integer(0..7), 5))] pub f0: u8,
    #[asn(default(integer(0..7), 5))] pub f1: u8,
    #[asn(default(integer(0..7), 5))] pub f2: u8,
    #[asn(optional(integer(0..7)))] pub f3: Option<u8>,
}

impl Tt4dddoe2 {
    pub const fn f0_min() -> u8 {
        0
    }

    pub const fn f0_max() -> u8 {
        7
    }

    pub const fn f1_min() -> u8 {
        0
    }

    pub const fn f1_max() -> u8 {
        7
    }

    pub const fn f2_min() -> u8 {
        0
    }

    pub const fn f2_max() -> u8 {
        7
    }

    pub const fn f3_min() -> u8 {
        0
    }

    pub const fn f3_max() -> u8 {
        7
    }
}

#[asn(set, extensible_after(f2))]

#[derive(Default, Debug, Clone, PartialEq, Hash)]
pub struct Tt4dddoe3 {
    #[asn(default(integer(0..7), 5))] pub f0: u8,
    #[asn(default(integer(0..7), 5))] pub f1: u8,
    #[asn(default(integer(0..7), 5))] pub f2: u8,
    #[asn(optional(integer(0..7)))] pub f3: Option<u8>,
}

impl Tt4dddoe3 {
    pub const fn f0_min() -> u8 {
        0
    }

    pub const fn f0_max() -> u8 {
        7
    }

    pub const fn f1_min() -> u8 {
        0
    }

    pub const fn f1_max() -> u8 {
        7
    }

    pub const fn f2_min() -> u8 {
        0
    }

    pub const fn f2_max() -> u8 {
        7
    }

    pub const fn f3_min() -> u8 {
        0
    }

    pub const fn f3_max() -> u8 {
        7
    }
}

#[asn(set, extensible_after(f3))]

#[derive(Default, Debug, Clone, PartialEq, Hash)]
pub struct Tt4dddoe4 {
    #[asn(default(integer(0..7), 5))] pub f0: u8,
    #[asn(default(integer(0..7), 5))] pub f1: u8,
    #[asn(default(integer(0..7), 5))] pub f2: u8,
    #[asn(optional(integer(0..7)))] pub f3: Option<u8>,
}

impl Tt4dddoe4 {
    pub const fn f0_min() -> u8 {
        0
    }

    pub const fn f0_max() -> u8 {
        7
    }

    pub const fn f1_min() -> u8 {
        0
    }

    pub const fn f1_max() -> u8 {
        7
    }

    pub const fn f2_min() -> u8 {
        0
    }

    pub const fn f2_max() -> u8 {
        7
    }

    pub const fn f3_min() -> u8 {
        0
    }

    pub const fn f3_max() -> u8 {
        7
    }
}

#[asn(set)]

#[derive(Default, Debug, Clone, PartialEq, Hash)]
pub struct Tt4mmmdn {
    #[asn(integer(0..7))] pub f0: u8,
    #[asn(integer(0..7))] pub f1: u8,
    #[asn(integer(0..7))] pub f2: u8,
    #[asn(default(integer(0..7), 5))] pub f3: u8,
}

impl Tt4mmmdn {
    pub const fn f0_min() -> u8 {
        0
    }

    pub const fn f0_max() -> u8 {
        7
    }

    pub const fn f1_min() -> u8 {
        0
    }

    pub const fn f1_max() -> u8 {
        7
    }

    pub const fn f2_min() -> u8 {
        0
    }

    pub const fn f2_max() -> u8 {
        7
    }

    pub const fn f3_min() -> u8 {
        0
    }

    pub const fn f3_max() -> u8 {
        7
    }
}

#[asn(set, extensible_after(f0))]

#[derive(Default, Debug, Clone, PartialEq, Hash)]
pub struct Tt4mmmde0 {
    #[asn(integer(0..7))] pub f0: u8,
    #[asn(optional(integer(0..7)))] pub f1: Option<u8>,
    #[asn(optional(integer(0..7)))] pub f2: Option<u8>,
    #[asn(default(integer(0..7), 5))] pub f3: u8,
}

impl Tt4mmmde0 {
    pub const fn f0_min() -> u8 {
        0
    }

    pub const fn f0_max() -> u8 {
        7
    }

    pub const fn f1_min() -> u8 {
        0
    }

    pub const fn f1_max() -> u8 {
        7
    }

    pub const fn f2_min() -> u8 {
        0
    }

    pub const fn f2_max() -> u8 {
        7
    }

    pub const fn f3_min() -> u8 {
        0
    }

    pub const fn f3_max() -> u8 {
        7
    }
}

#[asn(set, extensible_after(f0))]

#[derive(Default, Debug, Clone, PartialEq, Hash)]
pub struct Tt4mmmde1 {
    #[asn(integer(0..7))] pub f0: u8,
    #[asn(optional(integer(0..7)))] pub f1: Option<u8>,
    #[asn(optional(integer(0..7)))] pub f2: Option<u8>,
    #[asn(default(integer(0..7), 5))] pub f3: u8,
}

impl Tt4mmmde1 {
    pub const fn f0_min() -> u8 {
        0
    }

    pub const fn f0_max() -> u8 {
        7
    }

    pub const fn f1_min() -> u8 {
        0
    }

    pub const fn f1_max() -> u8 {
        7
    }

    pub const fn f2_min() -> u8 {
        0
    }

    pub const fn f2_max() -> u8 {
        7
    }

    pub const fn f3_min() -> u8 {
        0
    }

    pub const fn f3_max() -> u8 {
        7
    }
}

#[asn(set, extensible_after(f1))]

#[derive(Default, Debug, Clone, PartialEq, Hash)]
pub struct Tt4mmmde2 {
    #[asn(integer(0..7))] pub f0: u8,
    #[asn(integer(0..7))] pub f1: u8,
    #[asn(optional(integer(0..7)))] pub f2: Option<u8>,
    #[asn(default(integer(0..7), 5))] pub f3: u8,
}

impl Tt4mmmde2 {
    pub const fn f0_min() -> u8 {
        0
    }

    pub const fn f0_max() -> u8 {
        7
    }

    pub const fn f1_min() -> u8 {
        0
    }

    pub const fn f1_max() -> u8 {
        7
    }

    pub const fn f2_min() -> u8 {
        0
    }

    pub const fn f2_max() -> u8 {
        7
    }

    pub const fn f3_min() -> u8 {
        0
    }

    pub const fn f3_max() -> u8 {
        7
    }
}

#[asn(set, extensible_after(f2))]

#[derive(Default, Debug, Clone, PartialEq, Hash)]
pub struct Tt4mmmde3 {
    #[asn(integer(0..7))] pub f0: u8,
    #[asn(integer(0..7))] pub f1: u8,
    #[asn(integer(0..7))] pub f2: u8,
    #[asn(default(integer(0..7), 5))] pub f3: u8,
}

impl Tt4mmmde3 {
    pub const fn f0_min() -> u8 {
        0
    }

    pub const fn f0_max() -> u8 {
        7
    }

    pub const fn f1_min() -> u8 {
        0
    }

    pub const fn f1_max() -> u8 {
        7
    }

    pub const fn f2_min() -> u8 {
        0
    }

    pub const fn f2_max() -> u8 {
        7
    }

    pub const fn f3_min() -> u8 {
        0
    }

    pub const fn f3_max() -> u8 {
        7
    }
}

#[asn(set, extensible_after(f3))]

#[derive(Default, Debug, Clone, PartialEq, Hash)]
pub struct Tt4mmmde4 {
    #[asn(integer(0..7))] pub f0: u8,
    #[asn(integer(0..7))] pub f1: u8,
    #[asn(integer(0..7))] pub f2: u8,
    #[asn(default(integer(0..7), 5))] pub f3: u8,
}

impl Tt4mmmde4 {
    pub const fn f0_min() -> u8 {
        0
    }

    pub const fn f0_max() -> u8 {
        7
    }

    pub const fn f1_min() -> u8 {
        0
    }

    pub const fn f1_max() -> u8 {
        7
    }

    pub const fn f2_min() -> u8 {
        0
    }

    pub const fn f2_max() -> u8 {
        7
    }

    pub const fn f3_min() -> u8 {
        0
    }

    pub const fn f3_max() -> u8 {
        7
    }
}

#[asn(set)]

#[derive(Default, Debug, Clone, PartialEq, Hash)]
pub struct Tt4ommdn {
    #[asn(optional(integer(0..7)))] pub f0: Option<u8>,
    #[asn(integer(0..7))] pub f1: u8,
    #[asn(integer(0..7))] pub f2: u8,
    #[asn(default(integer(0..7), 5))] pub f3: u8,
}

impl Tt4ommdn {
    pub const fn f0_min() -> u8 {
        0
    }

    pub const fn f0_max() -> u8 {
        7
    }

    pub const fn f1_min() -> u8 {
        0
    }

    pub const fn f1_max() -> u8 {
        7
    }

    pub const fn f2_min() -> u8 {
        0
    }

    pub const fn f2_max() -> u8 {
        7
    }

    pub const fn f3_min() -> u8 {
        0
    }

    pub const fn f3_max() -> u8 {
        7
    }
}

#[asn(set, extensible_after(f0))]

#[derive(Default, Debug, Clone, PartialEq, Hash)]
pub struct Tt4ommde0 {
    #[asn(optional(integer(0..7)))] pub f0: Option<u8>,
    #[asn(optional(integer(0..7)))] pub f1: Option<u8>,
    #[asn(optional(integer(0..7)))] pub f2: Option<u8>,
    #[asn(default(integer(0..7), 5))] pub f3: u8,
}

impl Tt4ommde0 {
    pub const fn f0_min() -> u8 {
        0
    }

    pub const fn f0_max() -> u8 {
        7
    }

    pub const fn f1_min() -> u8 {
        0
    }

    pub const fn f1_max() -> u8 {
        7
    }

    pub const fn f2_min() -> u8 {
        0
    }

    pub const fn f2_max() -> u8 {
        7
    }

    pub const fn f3_min() -> u8 {
        0
    }

    pub const fn f3_max() -> u8 {
        7
    }
}

#[asn(set, extensible_after(f0))]

#[derive(Default, Debug, Clone, PartialEq, Hash)]
pub struct Tt4ommde1 {
    #[asn(optional(integer(0..7)))] pub f0: Option<u8>,
    #[asn(optional(integer(0..7)))] pub f1: Option<u8>,
    #[asn(optional(integer(0..7)))] pub f2: Option<u8>,
    #[asn(default(integer(0..7), 5))] pub f3: u8,
}

impl Tt4ommde1 {
    pub const fn f0_min() -> u8 {
        0
    }

    pub const fn f0_max() -> u8 {
        7
    }

    pub const fn f1_min() -> u8 {
        0
    }

    pub const fn f1_max() -> u8 {
        7
    }

    pub const fn f2_min() -> u8 {
        0
    }

    pub const fn f2_max() -> u8 {
        7
    }

    pub const fn f3_min() -> u8 {
        0
    }

    pub const fn f3_max() -> u8 {
        7
    }
}

#[asn(set, extensible_after(f1))]

#[derive(Default, Debug, Clone, PartialEq, Hash)]
pub struct Tt4ommde2 {
    #[asn(optional(integer(0..7)))] pub f0: Option<u8>,
    #[asn(integer(0..7))] pub f1: u8,
    #[asn(optional(integer(0..7)))] pub f2: Option<u8>,
    #[asn(default(integer(0..7), 5))] pub f3: u8,
}

impl Tt4ommde2 {
    pub const fn f0_min() -> u8 {
        0
    }

    pub const fn f0_max() -> u8 {
        7
    }

    pub const fn f1_min() -> u8 {
        0
    }

    pub const fn f1_max() -> u8 {
        7
    }

    pub const fn f2_min() -> u8 {
        0
    }

    pub const fn f2_max() -> u8 {
        7
    }

    pub const fn f3_min() -> u8 {
        0
    }

    pub const fn f3_max() -> u8 {
        7
    }
}

#[asn(set, extensible_after(f2))]

#[derive(Default, Debug, Clone, PartialEq, Hash)]
pub struct Tt4ommde3 {
    #[asn(optional(integer(0..7)))] pub f0: Option<u8>,
    #[asn(integer(0..7))] pub f1: u8,
    #[asn(integer(0..7))] pub f2: u8,
    #[asn(default(integer(0..7), 5))] pub f3: u8,
}

impl Tt4ommde3 {
    pub const fn f0_min() -> u8 {
        0
    }

    pub const fn f0_max() -> u8 {
        7
    }

    pub const fn f1_min() -> u8 {
        0
    }

    pub const fn f1_max() -> u8 {
        7
    }

    pub const fn f2_min() -> u8 {
        0
    }

    pub const fn f2_max() -> u8 {
        7
    }

    pub const fn f3_min() -> u8 {
        0
    }

    pub const fn f3_max() -> u8 {
        7
    }
}

#[asn(set, extensible_after(f3))]

#[derive(Default, Debug, Clone, PartialEq, Hash)]
pub struct Tt4ommde4 {
    #[asn(optional(integer(0..7)))] pub f0: Option<u8>,
    #[asn(integer(0..7))] pub f1: u8,
    #[asn(integer(0..7))] pub f2: u8,
    #[asn(default(integer(0..7), 5))] pub f3: u8,
}

impl Tt4ommde4 {
    pub const fn f0_min() -> u8 {
        0
    }

    pub const fn f0_max() -> u8 {
        7
    }

    pub const fn f1_min() -> u8 {
        0
    }

    pub const fn f1_max() -> u8 {
        7
    }

    pub const fn f2_min() -> u8 {
        0
    }

    pub const fn f2_max() -> u8 {
        7
    }

    pub const fn f3_min() -> u8 {
        0
    }

    pub const fn f3_max() -> u8 {
        7
    }
}

#[asn(set)]

#[derive(Default, Debug, Clone, PartialEq, Hash)]
pub struct Tt4dmmdn {
    #[asn(default(integer(0..7), 5))] pub f0: u8,
    #[asn(integer(0..7))] pub f1: u8,
    #[asn(integer(0..7))] pub f2: u8,
    #[asn(default(integer(0..7), 5))] pub f3: u8,
}

impl Tt4dmmdn {
    pub const fn f0_min() -> u8 {
        0
    }

    pub const fn f0_max() -> u8 {
        7
    }

    pub const fn f1_min() -> u8 {
        0
    }

    pub const fn f1_max() -> u8 {
        7
    }

    pub const fn f2_min() -> u8 {
        0
    }

    pub const fn f2_max() -> u8 {
        7
    }

    pub const fn f3_min() -> u8 {
        0
    }

    pub const fn f3_max() -> u8 {
        7
    }
}

#[asn(set, extensible_after(f0))]

#[derive(Default, Debug, Clone, PartialEq, Hash)]
pub struct Tt4dmmde0 {
    #[asn(default(integer(0..7), 5))] pub f0: u8,
    #[asn(optional(integer(0..7)))] pub f1: Option<u8>,
    #[asn(optional(integer(0..7)))] pub f2: Option<u8>,
    #[asn(default(integer(0..7), 5))] pub f3: u8,
}

impl Tt4dmmde0 {
    pub const fn f0_min() -> u8 {
        0
    }

    pub const fn f0_max() -> u8 {
        7
    }

    pub const fn f1_min() -> u8 {
        0
    }

    pub const fn f1_max() -> u8 {
        7
    }

    pub const fn f2_min() -> u8 {
        0
    }

    pub const fn f2_max() -> u8 {
        7
    }

    pub const fn f3_min() -> u8 {
        0
    }

    pub const fn f3_max() -> u8 {
        7
    }
}

#[asn(set, extensible_after(f0))]

#[derive(Default, Debug, Clone, PartialEq, Hash)]
pub struct Tt4dmmde1 {
    #[asn(default(integer(0..7), 5))] pub f0: u8,
    #[asn(optional(integer(0..7)))] pub f1: Option<u8>,
    #[asn(optional(integer(0..7)))] pub f2: Option<u8>,
    #[asn(default(integer(0..7), 5))] pub f3: u8,
}

impl Tt4dmmde1 {
    pub const fn f0_min() -> u8 {
        0
    }

    pub const fn f0_max() -> u8 {
        7
    }

    pub const fn f1_min() -> u8 {
        0
    }

    pub const fn f1_max() -> u8 {
        7
    }

    pub const fn f2_min() -> u8 {
        0
    }

    pub const fn f2_max() -> u8 {
        7
    }

    pub const fn f3_min() -> u8 {
        0
    }

    pub const fn f3_max() -> u8 {
        7
    }
}

#[asn(set, extensible_after(f1))]

#[derive(Default, Debug, Clone, PartialEq, Hash)]
pub struct Tt4dmmde2 {
    #[asn(default(integer(0..7), 5))] pub f0: u8,
    #[asn(integer(0..7))] pub f1: u8,
    #[asn(optional(integer(0..7)))] pub f2: Option<u8>,
    #[asn(default(integer(0..7), 5))] pub f3: u8,
}

impl Tt4dmmde2 {
    pub const fn f0_min() -> u8 {
        0
    }

    pub const fn f0_max() -> u8 {
        7
    }

    pub const fn f1_min() -> u8 {
        0
    }

    pub const fn f1_max() -> u8 {
        7
    }

    pub const fn f2_min() -> u8 {
        0
    }

    pub const fn f2_max() -> u8 {
        7
    }

    pub const fn f3_min() -> u8 {
        0
    }

    pub const fn f3_max() -> u8 {
        7
    }
}

#[asn(set, extensible_after(f2))]

#[derive(Default, Debug, Clone, PartialEq, Hash)]
pub struct Tt4dmmde3 {
    #[asn(default(integer(0..7), 5))] pub f0: u8,
    #[asn(integer(0..7))] pub f1: u8,
    #[asn(integer(0..7))] pub f2: u8,
    #[asn(default(integer(0..7), 5))] pub f3: u8,
}

impl Tt4dmmde3 {
    pub const fn f0_min() -> u8 {
        0
    }

    pub const fn f0_max() -> u8 {
        7
    }

    pub const fn f1_min() -> u8 {
        0
    }

    pub const fn f1_max() -> u8 {
        7
    }

    pub const fn f2_min() -> u8 {
        0
    }

    pub const fn f2_max() -> u8 {
        7
    }

    pub const fn f3_min() -> u8 {
        0
    }

    pub const fn f3_max() -> u8 {
        7
    }
}

#[asn(set, extensible_after(f3))]

#[derive(Default, Debug, Clone, PartialEq, Hash)]
pub struct Tt4dmmde4 {
    #[asn(default(integer(0..7), 5))] pub f0: u8,
    #[asn(integer(0..7))] pub f1: u8,
    #[asn(integer(0..7))] pub f2: u8,
    #[asn(default(integer(0..7), 5))] pub f3: u8,
}

impl Tt4dmmde4 {
    pub const fn f0_min() -> u8 {
        0
    }

    pub const fn f0_max() -> u8 {
        7
    }

    pub const fn f1_min() -> u8 {
        0
    }

    pub const fn f1_max() -> u8 {
        7
    }

    pub const fn f2_min() -> u8 {
        0
    }

    pub const fn f2_max() -> u8 {
        7
    }

    pub const fn f3_min() -> u8 {
        0
    }

    pub const fn f3_max() -> u8 {
        7
    }
}

#[asn(set)]

#[derive(Default, Debug, Clone, PartialEq, Hash)]
pub struct Tt4momdn {
    #[asn(integer(0..7))] pub f0: u8,
    #[asn(optional(integer(0..7)))] pub f1: Option<u8>,
    #[asn(integer(0..7))] pub f2: u8,
    #[asn(default(integer(0..7), 5))] pub f3: u8,
}

impl Tt4momdn {
    pub const fn f0_min() -> u8 {
        0
    }

    pub const fn f0_max() -> u8 {
        7
    }

    pub const fn f1_min() -> u8 {
        0
    }

    pub const fn f1_max() -> u8 {
        7
    }

    pub const fn f2_min() -> u8 {
        0
    }

    pub const fn f2_max() -> u8 {
        7
    }

    pub const fn f3_min() -> u8 {
        0
    }

    pub const fn f3_max() -> u8 {
        7
    }
}

#[asn(set, extensible_after(f0))]

#[derive(Default, Debug, Clone, PartialEq, Hash)]
pub struct Tt4momde0 {
    #[asn(integer(0..7))] pub f0: u8,
    #[asn(optional(integer(0..7)))] pub f1: Option<u8>,
    #[asn(optional(integer(0..7)))] pub f2: Option<u8>,
    #[asn(default(integer(0..7), 5))] pub f3: u8,
}

impl Tt4momde0 {
    pub const fn f0_min() -> u8 {
        0
    }

    pub const fn f0_max() -> u8 {
        7
    }

    pub const fn f1_min() -> u8 {
        0
    }

    pub const fn f1_max() -> u8 {
        7
    }

    pub const fn f2_min() -> u8 {
        0
    }

    pub const fn f2_max() -> u8 {
        7
    }

    pub const fn f3_min() -> u8 {
        0
    }

    pub const fn f3_max() -> u8 {
        7
    }
}

#[asn(set, extensible_after(f0))]

#[derive(Default, Debug, Clone, PartialEq, Hash)]
pub struct Tt4momde1 {
    #[asn(integer(0..7))] pub f0: u8,
    #[asn(optional(integer(0..7)))] pub f1: Option<u8>,
    #[asn(optional(integer(0..7)))] pub f2: Option<u8>,
    #[asn(default(integer(0..7), 5))] pub f3: u8,
}

impl Tt4momde1 {
    pub const fn f0_min() -> u8 {
        0
    }

    pub const fn f0_max() -> u8 {
        7
    }

    pub const fn f1_min() -> u8 {
        0
    }

    pub const fn f1_max() -> u8 {
        7
    }

    pub const fn f2_min() -> u8 {
        0
    }

    pub const fn f2_max() -> u8 {
        7
    }

    pub const fn f3_min() -> u8 {
        0
    }

    pub const fn f3_max() -> u8 {
        7
    }
}

#[asn(set, extensible_after(f1))]

#[derive(Default, Debug, Clone, PartialEq, Hash)]
pub struct Tt4momde2 {
    #[asn(integer(0..7))] pub f0: u8,
    #[asn(optional(integer(0..7)))] pub f1: Option<u8>,
    #[asn(optional(integer(0..7)))] pub f2: Option<u8>,
    #[asn(default(integer(0..7), 5))] pub f3: u8,
}

impl Tt4momde2 {
    pub const fn f0_min() -> u8 {
        0
    }

    pub const fn f0_max() -> u8 {
        7
    }

    pub const fn f1_min() -> u8 {
        0
    }

    pub const fn f1_max() -> u8 {
        7
    }

    pub const fn f2_min() -> u8 {
        0
    }

    pub const fn f2_max() -> u8 {
        7
    }

    pub const fn f3_min() -> u8 {
        0
    }

    pub const fn f3_max() -> u8 {
        7
    }
}

#[asn(set, extensible_after(f2))]

#[derive(Default, Debug, Clone, PartialEq, Hash)]
pub struct Tt4momde3 {
    #[asn(integer(0..7))] pub f0: u8,
    #[asn(optional(integer(0..7)))] pub f1: Option<u8>,
    #[asn(integer(0..7))] pub f2: u8,
    #[asn(default(integer(0..7), 5))] pub f3: u8,
}

impl Tt4momde3 {
    pub const fn f0_min() -> u8 {
        0
    }

    pub const fn f0_max() -> u8 {
        7
    }

    pub const fn f1_min() -> u8 {
        0
    }

    pub const fn f1_max() -> u8 {
        7
    }

    pub const fn f2_min() -> u8 {
        0
    }

    pub const fn f2_max() -> u8 {
        7
    }

    pub const fn f3_min() -> u8 {
        0
    }

    pub const fn f3_max() -> u8 {
        7
    }
}

#[asn(set, extensible_after(f3))]

#[derive(Default, Debug, Clone, PartialEq, Hash)]
pub struct Tt4momde4 {
    #[asn(integer(0..7))] pub f0: u8,
    #[asn(optional(integer(0..7)))] pub f1: Option<u8>,
    #[asn(integer(0..7))] pub f2: u8,
    #[asn(default(integer(0..7), 5))] pub f3: u8,
}

impl Tt4momde4 {
    pub const fn f0_min() -> u8 {
        0
    }

    pub const fn f0_max() -> u8 {
        7
    }

    pub const fn f1_min() -> u8 {
        0
    }

    pub const fn f1_max() -> u8 {
        7
    }

    pub const fn f2_min() -> u8 {
        0
    }

    pub const fn f2_max() -> u8 {
        7
    }

    pub const fn f3_min() -> u8 {
        0
    }

    pub const fn f3_max() -> u8 {
        7
    }
}

#[asn(set)]

#[derive(Default, Debug, Clone, PartialEq, Hash)]
pub struct Tt4oomdn {
    #[asn(optional(integer(0..7)))] pub f0: Option<u8>,
    #[asn(optional(integer(0..7)))] pub f1: Option<u8>,
    #[asn(integer(0..7))] pub f2: u8,
    #[asn(default(integer(0..7), 5))] pub f3: u8,
}

impl Tt4oomdn {
    pub const fn f0_min() -> u8 {
        0
    }

    pub const fn f0_max() -> u8 {
        7
    }

    pub const fn f1_min() -> u8 {
        0
    }

    pub const fn f1_max() -> u8 {
        7
    }

    pub const fn f2_min() -> u8 {
        0
    }

    pub const fn f2_max() -> u8 {
        7
    }

    pub const fn f3_min() -> u8 {
        0
    }

    pub const fn f3_max() -> u8 {
        7
    }
}

#[asn(set, extensible_after(f0))]

#[derive(Default, Debug, Clone, PartialEq, Hash)]
pub struct Tt4oomde0 {
    #[asn(optional(integer(0..7)))] pub f0: Option<u8>,
    #[asn(optional(integer(0..7)))] pub f1: Option<u8>,
    #[asn(optional(integer(0..7)))] pub f2: Option<u8>,
    #[asn(default(integer(0..7), 5))] pub f3: u8,
}

impl Tt4oomde0 {
    pub const fn f0_min() -> u8 {
        0
    }

    pub const fn f0_max() -> u8 {
        7
    }

    pub const fn f1_min() -> u8 {
        0
    }

    pub const fn f1_max() -> u8 {
        7
    }

    pub const fn f2_min() -> u8 {
        0
    }

    pub const fn f2_max() -> u8 {
        7
    }

    pub const fn f3_min() -> u8 {
        0
    }

    pub const fn f3_max() -> u8 {
        7
    }
}

#[asn(set, extensible_after(f0))]

#[derive(Default, Debug, Clone, PartialEq, Hash)]
pub struct Tt4oomde1 {
    #[asn(optional(integer(0..7)))] pub f0: Option<u8>,
    #[asn(optional(integer(0..7)))] pub f1: Option<u8>,
    #[asn(optional(integer(0..7)))] pub f2: Option<u8>,
    #[asn(default(integer(0..7), 5))] pub f3: u8,
}

impl Tt4oomde1 {
    pub const fn f0_min() -> u8 {
        0
    }

    pub const fn f0_max() -> u8 {
        7
    }

    pub const fn f1_min() -> u8 {
        0
    }

    pub const fn f1_max() -> u8 {
        7
    }

    pub const fn f2_min() -> u8 {
        0
    }

    pub const fn f2_max() -> u8 {
        7
    }

    pub const fn f3_min() -> u8 {
        0
    }

    pub const fn f3_max() -> u8 {
        7
    }
}

#[asn(set, extensible_after(f1))]

#[derive(Default, Debug, Clone, PartialEq, Hash)]
pub struct Tt4oomde2 {
    #[asn(optional(integer(0..7)))] pub f0: Option<u8>,
    #[asn(optional(integer(0..7)))] pub f1: Option<u8>,
    #[asn(optional(integer(0..7)))] pub f2: Option<u8>,
    #[asn(default(integer(0..7), 5))] pub f3: u8,
}

impl Tt4oomde2 {
    pub const fn f0_min() -> u8 {
        0
    }

    pub const fn f0_max() -> u8 {
        7
    }

    pub const fn f1_min() -> u8 {
        0
    }

    pub const fn f1_max() -> u8 {
        7
    }

    pub const fn f2_min() -> u8 {
        0
    }

    pub const fn f2_max() -> u8 {
        7
    }

    pub const fn f3_min() -> u8 {
        0
    }

    pub const fn f3_max() -> u8 {
        7
    }
}

#[asn(set, extensible_after(f2))]

#[derive(Default, Debug, Clone, PartialEq, Hash)]
pub struct Tt4oomde3 {
    #[asn(optional(integer(0..7)))] pub f0: Option<u8>,
    #[asn(optional(integer(0..7)))] pub f1: Option<u8>,
    #[asn(integer(0..7))] pub f2: u8,
    #[asn(default(integer(0..7), 5))] pub f3: u8,
}

impl Tt4oomde3 {
    pub const fn f0_min() -> u8 {
        0
    }

    pub const fn f0_max() -> u8 {
        7
    }

    pub const fn f1_min() -> u8 {
        0
    }

    pub const fn f1_max() -> u8 {
        7
    }

    pub const fn f2_min() -> u8 {
        0
    }

    pub const fn f2_max() -> u8 {
        7
    }

    pub const fn f3_min() -> u8 {
        0
    }

    pub const fn f3_max() -> u8 {
        7
    }
}

#[asn(set, extensible_after(f3))]

#[derive(Default, Debug, Clone, PartialEq, Hash)]
pub struct Tt4oomde4 {
    #[asn(optional(integer(0..7)))] pub f0: Option<u8>,
    #[asn(optional(integer(0..7)))] pub f1: Option<u8>,
    #[asn(integer(0..7))] pub f2: u8,
    #[asn(default(integer(0..7), 5))] pub f3: u8,
}

impl Tt4oomde4 {
    pub const fn f0_min() -> u8 {
        0
    }

    pub const fn f0_max() -> u8 {
        7
    }

    pub const fn f1_min() -> u8 {
        0
    }

    pub const fn f1_max() -> u8 {
        7
    }

    pub const fn f2_min() -> u8 {
        0
    }

    pub const fn f2_max() -> u8 {
        7
    }

    pub const fn f3_min() -> u8 {
        0
    }

    pub const fn f3_max() -> u8 {
        7
    }
}

#[asn(set)]

#[derive(Default, Debug, Clone, PartialEq, Hash)]
pub struct Tt4domdn {
    #[asn(default(integer(0..7), 5))] pub f0: u8,
    #[asn(optional(integer(0..7)))] pub f1: Option<u8>,
    #[asn(integer(0..7))] pub f2: u8,
    #[asn(default(integer(0..7), 5))] pub f3: u8,
}

impl Tt4domdn {
    pub const fn f0_min() -> u8 {
        0
    }

    pub const fn f0_max() -> u8 {
        7
    }

    pub const fn f1_min() -> u8 {
        0
    }

    pub const fn f1_max() -> u8 {
        7
    }

    pub const fn f2_min() -> u8 {
        0
    }

    pub const fn f2_max() -> u8 {
        7
    }

    pub const fn f3_min() -> u8 {
        0
    }

    pub const fn f3_max() -> u8 {
        7
    }
}

#[asn(set, extensible_after(f0))]

#[derive(Default, Debug, Clone, PartialEq, Hash)]
pub struct Tt4domde0 {
    #[asn(default(integer(0..7), 5))] pub f0: u8,
    #[asn(optional(integer(0..7)))] pub f1: Option<u8>,
    #[asn(optional(integer(0..7)))] pub f2: Option<u8>,
    #[asn(default(integer(0..7), 5))] pub f3: u8,
}

impl Tt4domde0 {
    pub const fn f0_min() -> u8 {
        0
    }

    pub const fn f0_max() -> u8 {
        7
    }

    pub const fn f1_min() -> u8 {
        0
    }

    pub const fn f1_max() -> u8 {
        7
    }

    pub const fn f2_min() -> u8 {
        0
    }

    pub const fn f2_max() -> u8 {
        7
    }

    pub const fn f3_min() -> u8 {
        0
    }

    pub const fn f3_max() -> u8 {
        7
    }
}

#[asn(set, extensible_after(f0))]

#[derive(Default, Debug, Clone, PartialEq, Hash)]
pub struct Tt4domde1 {
    #[asn(default(integer(0..7), 5))] pub f0: u8,
    #[asn(optional(integer(0..7)))] pub f1: Option<u8>,
    #[asn(optional(integer(0..7)))] pub f2: Option<u8>,
    #[asn(default(integer(0..7), 5))] pub f3: u8,
}

impl Tt4domde1 {
    pub const fn f0_min() -> u8 {
        0
    }

    pub const fn f0_max() -> u8 {
        7
    }

    pub const fn f1_min() -> u8 {
        0
    }

    pub const fn f1_max() -> u8 {
        7
    }

    pub const fn f2_min() -> u8 {
        0
    }

    pub const fn f2_max() -> u8 {
        7
    }

    pub const fn f3_min() -> u8 {
        0
    }

    pub const fn f3_max() -> u8 {
        7
    }
}

#[asn(set, extensible_after(f1))]

#[derive(Default, Debug, Clone, PartialEq, Hash)]
pub struct Tt4domde2 {
    #[asn(default(integer(0..7), 5))] pub f0: u8,
    #[asn(optional(integer(0..7)))] pub f1: Option<u8>,
    #[asn(optional(integer(0..7)))] pub f2: Option<u8>,
    #[asn(default(integer(0..7), 5))] pub f3: u8,
}

impl Tt4domde2 {
    pub const fn f0_min() -> u8 {
        0
    }

    pub const fn f0_max() -> u8 {
        7
    }

    pub const fn f1_min() -> u8 {
        0
    }

    pub const fn f1_max() -> u8 {
        7
    }

    pub const fn f2_min() -> u8 {
        0
    }

    pub const fn f2_max() -> u8 {
        7
    }

    pub const fn f3_min() -> u8 {
        0
    }

    pub const fn f3_max() -> u8 {
        7
    }
}

#[asn(set, extensible_after(f2))]

#[derive(Default, Debug, Clone, PartialEq, Hash)]
pub struct Tt4domde3 {
    #[asn(default(integer(0..7), 5))] pub f0: u8,
    #[asn(optional(integer(0..7)))] pub f1: Option<u8>,
    #[asn(integer(0..7))] pub f2: u8,
    #[asn(default(integer(0..7), 5))] pub f3: u8,
}

impl Tt4domde3 {
    pub const fn f0_min() -> u8 {
        0
    }

    pub const fn f0_max() -> u8 {
        7
    }

    pub const fn f1_min() -> u8 {
        0
    }

    pub const fn f1_max() -> u8 {
        7
    }

    pub const fn f2_min() -> u8 {
        0
    }

    pub const fn f2_max() -> u8 {
        7
    }

    pub const fn f3_min() -> u8 {
        0
    }

    pub const fn f3_max() -> u8 {
        7
    }
}

#[asn(set, extensible_after(f3))]

#[derive(Default, Debug, Clone, PartialEq, Hash)]
pub struct Tt4domde4 {
    #[asn(default(integer(0..7), 5))] pub f0: u8,
    #[asn(optional(integer(0..7)))] pub f1: Option<u8>,
    #[asn(integer(0..7))] pub f2: u8,
    #[asn(default(integer(0..7), 5))] pub f3: u8,
}

impl Tt4domde4 {
    pub const fn f0_min() -> u8 {
        0
    }

    pub const fn f0_max() -> u8 {
        7
    }

    pub const fn f1_min() -> u8 {
        0
    }

    pub const fn f1_max() -> u8 {
        7
    }

    pub const fn f2_min() -> u8 {
        0
    }

    pub const fn f2_max() -> u8 {
        7
    }

    pub const fn f3_min() -> u8 {
        0
    }

    pub const fn f3_max() -> u8 {
        7
    }
}
// ---- harness conversions (generated by the zoo build script from the items above) ----
impl FromValue for Tt4oooon {
    fn from_value(v: &Value) -> Self {
        let s = match v { Value::Seq(s) => s, other => panic!("Tt4oooon: expected Seq, got {other:?}") };
        assert_eq!(s.len(), 4, "Tt4oooon: component count");
        let _ = s;
        Tt4oooon {
            f0: s[0].as_ref().map(FromValue::from_value),
            f1: s[1].as_ref().map(FromValue::from_value),
            f2: s[2].as_ref().map(FromValue::from_value),
            f3: s[3].as_ref().map(FromValue::from_value),
        }
    }
}
impl ToValue for Tt4oooon {
    fn to_value(&self) -> Value {
        Value::Seq(vec![
            self.f0.as_ref().map(|x| x.to_value()),
            self.f1.as_ref().map(|x| x.to_value()),
            self.f2.as_ref().map(|x| x.to_value()),
            self.f3.as_ref().map(|x| x.to_value()),
        ])
    }
}
impl FromValue for Tt4ooooe0 {
    fn from_value(v: &Value) -> Self {
        let s = match v { Value::Seq(s) => s, other => panic!("Tt4ooooe0: expected Seq, got {other:?}") };
        assert_eq!(s.len(), 4, "Tt4ooooe0: component count");
        let _ = s;
        Tt4ooooe0 {
            f0: s[0].as_ref().map(FromValue::from_value),
            f1: s[1].as_ref().map(FromValue::from_value),
            f2: s[2].as_ref().map(FromValue::from_value),
            f3: s[3].as_ref().map(FromValue::from_value),
        }
    }
}
impl ToValue for Tt4ooooe0 {
    fn to_value(&self) -> Value {
        Value::Seq(vec![
            self.f0.as_ref().map(|x| x.to_value()),
            self.f1.as_ref().map(|x| x.to_value()),
            self.f2.as_ref().map(|x| x.to_value()),
            self.f3.as_ref().map(|x| x.to_value()),
        ])
    }
}
impl FromValue for Tt4ooooe1 {
    fn from_value(v: &Value) -> Self {
        let s = match v { Value::Seq(s) => s, other => panic!("Tt4ooooe1: expected Seq, got {other:?}") };
        assert_eq!(s.len(), 4, "Tt4ooooe1: component count");
        let _ = s;
        Tt4ooooe1 {
            f0: s[0].as_ref().map(FromValue::from_value),
            f1: s[1].as_ref().map(FromValue::from_value),
            f2: s[2].as_ref().map(FromValue::from_value),
            f3: s[3].as_ref().map(FromValue::from_value),
        }
    }
}
impl ToValue for Tt4ooooe1 {
    fn to_value(&self) -> Value {
        Value::Seq(vec![
            self.f0.as_ref().map(|x| x.to_value()),
            self.f1.as_ref().map(|x| x.to_value()),
            self.f2.as_ref().map(|x| x.to_value()),
            self.f3.as_ref().map(|x| x.to_value()),
        ])
    }
}
impl FromValue for Tt4ooooe2 {
    fn from_value(v: &Value) -> Self {
        let s = match v { Value::Seq(s) => s, other => panic!("Tt4ooooe2: expected Seq, got {other:?}") };
        assert_eq!(s.len(), 4, "Tt4ooooe2: component count");
        let _ = s;
        Tt4ooooe2 {
            f0: s[0].as_ref().map(FromValue::from_value),
            f1: s[1].as_ref().map(FromValue::from_value),
            f2: s[2].as_ref().map(FromValue::from_value),
            f3: s[3].as_ref().map(FromValue::from_value),
        }
    }
}
impl ToValue for Tt4ooooe2 {
    fn to_value(&self) -> Value {
        Value::Seq(vec![
            self.f0.as_ref().map(|x| x.to_value()),
            self.f1.as_ref().map(|x| x.to_value()),
            self.f2.as_ref().map(|x| x.to_value()),
            self.f3.as_ref().map(|x| x.to_value()),
        ])
    }
}
impl FromValue for Tt4ooooe3 {
    fn from_value(v: &Value) -> Self {
        let s = match v { Value::Seq(s) => s, other => panic!("Tt4ooooe3: expected Seq, got {other:?}") };
        assert_eq!(s.len(), 4, "Tt4ooooe3: component count");
        let _ = s;
        Tt4ooooe3 {
            f0: s[0].as_ref().map(FromValue::from_value),
            f1: s[1].as_ref().map(FromValue::from_value),
            f2: s[2].as_ref().map(FromValue::from_value),
            f3: s[3].as_ref().map(FromValue::from_value),
        }
    }
}
impl ToValue for Tt4ooooe3 {
    fn to_value(&self) -> Value {
        Value::Seq(vec![
            self.f0.as_ref().map(|x| x.to_value()),
            self.f1.as_ref().map(|x| x.to_value()),
            self.f2.as_ref().map(|x| x.to_value()),
            self.f3.as_ref().map(|x| x.to_value()),
        ])
    }
}
impl FromValue for Tt4ooooe4 {
    fn from_value(v: &Value) -> Self {
        let s = match v { Value::Seq(s) => s, other => panic!("Tt4ooooe4: expected Seq, got {other:?}") };
        assert_eq!(s.len(), 4, "Tt4ooooe4: component count");
        let _ = s;
        Tt4ooooe4 {
            f0: s[0].as_ref().map(FromValue::from_value),
            f1: s[1].as_ref().map(FromValue::from_value),
            f2: s[2].as_ref().map(FromValue::from_value),
            f3: s[3].as_ref().map(FromValue::from_value),
        }
    }
}
impl ToValue for Tt4ooooe4 {
    fn to_value(&self) -> Value {
        Value::Seq(vec![
            self.f0.as_ref().map(|x| x.to_value()),
            self.f1.as_ref().map(|x| x.to_value()),
            self.f2.as_ref().map(|x| x.to_value()),
            self.f3.as_ref().map(|x| x.to_value()),
        ])
    }
}
impl FromValue for Tt4dooon {
    fn from_value(v: &Value) -> Self {
        let s = match v { Value::Seq(s) => s, other => panic!("Tt4dooon: expected Seq, got {other:?}") };
        assert_eq!(s.len(), 4, "Tt4dooon: component count");
        let _ = s;
        Tt4dooon {
            f0: FromValue::from_value(s[0].as_ref().expect("component f0 of Tt4dooon must be present")),
            f1: s[1].as_ref().map(FromValue::from_value),
            f2: s[2].as_ref().map(FromValue::from_value),
            f3: s[3].as_ref().map(FromValue::from_value),
        }
    }
}
impl ToValue for Tt4dooon {
    fn to_value(&self) -> Value {
        Value::Seq(vec![
            Some(self.f0.to_value()),
            self.f1.as_ref().map(|x| x.to_value()),
            self.f2.as_ref().map(|x| x.to_value()),
            self.f3.as_ref().map(|x| x.to_value()),
        ])
    }
}
impl FromValue for Tt4doooe0 {
    fn from_value(v: &Value) -> Self {
        let s = match v { Value::Seq(s) => s, other => panic!("Tt4doooe0: expected Seq, got {other:?}") };
        assert_eq!(s.len(), 4, "Tt4doooe0: component count");
        let _ = s;
        Tt4doooe0 {
            f0: FromValue::from_value(s[0].as_ref().expect("component f0 of Tt4doooe0 must be present")),
            f1: s[1].as_ref().map(FromValue::from_value),
            f2: s[2].as_ref().map(FromValue::from_value),
            f3: s[3].as_ref().map(FromValue::from_value),
        }
    }
}
impl ToValue for Tt4doooe0 {
    fn to_value(&self) -> Value {
        Value::Seq(vec![
            Some(self.f0.to_value()),
            self.f1.as_ref().map(|x| x.to_value()),
            self.f2.as_ref().map(|x| x.to_value()),
            self.f3.as_ref().map(|x| x.to_value()),
        ])
    }
}
impl FromValue for Tt4doooe1 {
    fn from_value(v: &Value) -> Self {
        let s = match v { Value::Seq(s) => s, other => panic!("Tt4doooe1: expected Seq, got {other:?}") };
        assert_eq!(s.len(), 4, "Tt4doooe1: component count");
        let _ = s;
        Tt4doooe1 {
            f0: FromValue::from_value(s[0].as_ref().expect("component f0 of Tt4doooe1 must be present")),
            f1: s[1].as_ref().map(FromValue::from_value),
            f2: s[2].as_ref().map(FromValue::from_value),
            f3: s[3].as_ref().map(FromValue::from_value),
        }
    }
}
impl ToValue for Tt4doooe1 {
    fn to_value(&self) -> Value {
        Value::Seq(vec![
            Some(self.f0.to_value()),
            self.f1.as_ref().map(|x| x.to_value()),
            self.f2.as_ref().map(|x| x.to_value()),
            self.f3.as_ref().map(|x| x.to_value()),
        ])
    }
}
impl FromValue for Tt4doooe2 {
    fn from_value(v: &Value) -> Self {
        let s = match v { Value::Seq(s) => s, other => panic!("Tt4doooe2: expected Seq, got {other:?}") };
        assert_eq!(s.len(), 4, "Tt4doooe2: component count");
        let _ = s;
        Tt4doooe2 {
            f0: FromValue::from_value(s[0].as_ref().expect("component f0 of Tt4doooe2 must be present")),
            f1: s[1].as_ref().map(FromValue::from_value),
            f2: s[2].as_ref().map(FromValue::from_value),
            f3: s[3].as_ref().map(FromValue::from_value),
        }
    }
}
impl ToValue for Tt4doooe2 {
    fn to_value(&self) -> Value {
        Value::Seq(vec![
            Some(self.f0.to_value()),
            self.f1.as_ref().map(|x| x.to_value()),
            self.f2.as_ref().map(|x| x.to_value()),
            self.f3.as_ref().map(|x| x.to_value()),
        ])
    }
}
impl FromValue for Tt4doooe3 {
    fn from_value(v: &Value) -> Self {
        let s = match v { Value::Seq(s) => s, other => panic!("Tt4doooe3: expected Seq, got {other:?}") };
        assert_eq!(s.len(), 4, "Tt4doooe3: component count");
        let _ = s;
        Tt4doooe3 {
            f0: FromValue::from_value(s[0].as_ref().expect("component f0 of Tt4doooe3 must be present")),
            f1: s[1].as_ref().map(FromValue::from_value),
            f2: s[2].as_ref().map(FromValue::from_value),
            f3: s[3].as_ref().map(FromValue::from_value),
        }
    }
}
impl ToValue for Tt4doooe3 {
    fn to_value(&self) -> Value {
        Value::Seq(vec![
            Some(self.f0.to_value()),
            self.f1.as_ref().map(|x| x.to_value()),
            self.f2.as_ref().map(|x| x.to_value()),
            self.f3.as_ref().map(|x| x.to_value()),
        ])
    }
}
impl FromValue for Tt4doooe4 {
    fn from_value(v: &Value) -> Self {
        let s = match v { Value::Seq(s) => s, other => panic!("Tt4doooe4: expected Seq, got {other:?}") };
        assert_eq!(s.len(), 4, "Tt4doooe4: component count");
        let _ = s;
        Tt4doooe4 {
            f0: FromValue::from_value(s[0].as_ref().expect("component f0 of Tt4doooe4 must be present")),
            f1: s[1].as_ref().map(FromValue::from_value),
            f2: s[2].as_ref().map(FromValue::from_value),
            f3: s[3].as_ref().map(FromValue::from_value),
        }
    }
}
impl ToValue for Tt4doooe4 {
    fn to_value(&self) -> Value {
        Value::Seq(vec![
            Some(self.f0.to_value()),
            self.f1.as_ref().map(|x| x.to_value()),
            self.f2.as_ref().map(|x| x.to_value()),
            self.f3.as_ref().map(|x| x.to_value()),
        ])
    }
}
impl FromValue for Tt4mdoon {
    fn from_value(v: &Value) -> Self {
        let s = match v { Value::Seq(s) => s, other => panic!("Tt4mdoon: expected Seq, got {other:?}") };
        assert_eq!(s.len(), 4, "Tt4mdoon: component count");
        let _ = s;
        Tt4mdoon {
            f0: FromValue::from_value(s[0].as_ref().expect("component f0 of Tt4mdoon must be present")),
            f1: FromValue::from_value(s[1].as_ref().expect("component f1 of Tt4mdoon must be present")),
            f2: s[2].as_ref().map(FromValue::from_value),
            f3: s[3].as_ref().map(FromValue::from_value),
        }
    }
}
impl ToValue for Tt4mdoon {
    fn to_value(&self) -> Value {
        Value::Seq(vec![
            Some(self.f0.to_value()),
            Some(self.f1.to_value()),
            self.f2.as_ref().map(|x| x.to_value()),
            self.f3.as_ref().map(|x| x.to_value()),
        ])
    }
}
impl FromValue for Tt4mdooe0 {
    fn from_value(v: &Value) -> Self {
        let s = match v { Value::Seq(s) => s, other => panic!("Tt4mdooe0: expected Seq, got {other:?}") };
        assert_eq!(s.len(), 4, "Tt4mdooe0: component count");
        let _ = s;
        Tt4mdooe0 {
            f0: FromValue::from_value(s[0].as_ref().expect("component f0 of Tt4mdooe0 must be present")),
            f1: FromValue::from_value(s[1].as_ref().expect("component f1 of Tt4mdooe0 must be present")),
            f2: s[2].as_ref().map(FromValue::from_value),
            f3: s[3].as_ref().map(FromValue::from_value),
        }
    }
}
impl ToValue for Tt4mdooe0 {
    fn to_value(&self) -> Value {
        Value::Seq(vec![
            Some(self.f0.to_value()),
            Some(self.f1.to_value()),
            self.f2.as_ref().map(|x| x.to_value()),
            self.f3.as_ref().map(|x| x.to_value()),
        ])
    }
}
impl FromValue for Tt4mdooe1 {
    fn from_value(v: &Value) -> Self {
        let s = match v { Value::Seq(s) => s, other => panic!("Tt4mdooe1: expected Seq, got {other:?}") };
        assert_eq!(s.len(), 4, "Tt4mdooe1: component count");
        let _ = s;
        Tt4mdooe1 {
            f0: FromValue::from_value(s[0].as_ref().expect("component f0 of Tt4mdooe1 must be present")),
            f1: FromValue::from_value(s[1].as_ref().expect("component f1 of Tt4mdooe1 must be present")),
            f2: s[2].as_ref().map(FromValue::from_value),
            f3: s[3].as_ref().map(FromValue::from_value),
        }
    }
}
impl ToValue for Tt4mdooe1 {
    fn to_value(&self) -> Value {
        Value::Seq(vec![
            Some(self.f0.to_value()),
            Some(self.f1.to_value()),
            self.f2.as_ref().map(|x| x.to_value()),
            self.f3.as_ref().map(|x| x.to_value()),
        ])
    }
}
impl FromValue for Tt4mdooe2 {
    fn from_value(v: &Value) -> Self {
        let s = match v { Value::Seq(s) => s, other => panic!("Tt4mdooe2: expected Seq, got {other:?}") };
        assert_eq!(s.len(), 4, "Tt4mdooe2: component count");
        let _ = s;
        Tt4mdooe2 {
            f0: FromValue::from_value(s[0].as_ref().expect("component f0 of Tt4mdooe2 must be present")),
            f1: FromValue::from_value(s[1].as_ref().expect("component f1 of Tt4mdooe2 must be present")),
            f2: s[2].as_ref().map(FromValue::from_value),
            f3: s[3].as_ref().map(FromValue::from_value),
        }
    }
}
impl ToValue for Tt4mdooe2 {
    fn to_value(&self) -> Value {
        Value::Seq(vec![
            Some(self.f0.to_value()),
            Some(self.f1.to_value()),
            self.f2.as_ref().map(|x| x.to_value()),
            self.f3.as_ref().map(|x| x.to_value()),
        ])
    }
}
impl FromValue for Tt4mdooe3 {
    fn from_value(v: &Value) -> Self {
        let s = match v { Value::Seq(s) => s, other => panic!("Tt4mdooe3: expected Seq, got {other:?}") };
        assert_eq!(s.len(), 4, "Tt4mdooe3: component count");
        let _ = s;
        Tt4mdooe3 {
            f0: FromValue::from_value(s[0].as_ref().expect("component f0 of Tt4mdooe3 must be present")),
            f1: FromValue::from_value(s[1].as_ref().expect("component f1 of Tt4mdooe3 must be present")),
            f2: s[2].as_ref().map(FromValue::from_value),
            f3: s[3].as_ref().map(FromValue::from_value),
        }
    }
}
impl ToValue for Tt4mdooe3 {
    fn to_value(&self) -> Value {
        Value::Seq(vec![
            Some(self.f0.to_value()),
            Some(self.f1.to_value()),
            self.f2.as_ref().map(|x| x.to_value()),
            self.f3.as_ref().map(|x| x.to_value()),
        ])
    }
}
impl FromValue for Tt4mdooe4 {
    fn from_value(v: &Value) -> Self {
        let s = match v { Value::Seq(s) => s, other => panic!("Tt4mdooe4: expected Seq, got {other:?}") };
        assert_eq!(s.len(), 4, "Tt4mdooe4: component count");
        let _ = s;
        Tt4mdooe4 {
            f0: FromValue::from_value(s[0].as_ref().expect("component f0 of Tt4mdooe4 must be present")),
            f1: FromValue::from_value(s[1].as_ref().expect("component f1 of Tt4mdooe4 must be present")),
            f2: s[2].as_ref().map(FromValue::from_value),
            f3: s[3].as_ref().map(FromValue::from_value),
        }
    }
}
impl ToValue for Tt4mdooe4 {
    fn to_value(&self) -> Value {
        Value::Seq(vec![
            Some(self.f0.to_value()),
            Some(self.f1.to_value()),
            self.f2.as_ref().map(|x| x.to_value()),
            self.f3.as_ref().map(|x| x.to_value()),
        ])
    }
}
impl FromValue for Tt4odoon {
    fn from_value(v: &Value) -> Self {
        let s = match v { Value::Seq(s) => s, other => panic!("Tt4odoon: expected Seq, got {other:?}") };
        assert_eq!(s.len(), 4, "Tt4odoon: component count");
        let _ = s;
        Tt4odoon {
            f0: s[0].as_ref().map(FromValue::from_value),
            f1: FromValue::from_value(s[1].as_ref().expect("component f1 of Tt4odoon must be present")),
            f2: s[2].as_ref().map(FromValue::from_value),
            f3: s[3].as_ref().map(FromValue::from_value),
        }
    }
}
impl ToValue for Tt4odoon {
    fn to_value(&self) -> Value {
        Value::Seq(vec![
            self.f0.as_ref().map(|x| x.to_value()),
            Some(self.f1.to_value()),
            self.f2.as_ref().map(|x| x.to_value()),
            self.f3.as_ref().map(|x| x.to_value()),
        ])
    }
}
impl FromValue for Tt4odooe0 {
    fn from_value(v: &Value) -> Self {
        let s = match v { Value::Seq(s) => s, other => panic!("Tt4odooe0: expected Seq, got {other:?}") };
        assert_eq!(s.len(), 4, "Tt4odooe0: component count");
        let _ = s;
        Tt4odooe0 {
            f0: s[0].as_ref().map(FromValue::from_value),
            f1: FromValue::from_value(s[1].as_ref().expect("component f1 of Tt4odooe0 must be present")),
            f2: s[2].as_ref().map(FromValue::from_value),
            f3: s[3].as_ref().map(FromValue::from_value),
        }
    }
}
impl ToValue for Tt4odooe0 {
    fn to_value(&self) -> Value {
        Value::Seq(vec![
            self.f0.as_ref().map(|x| x.to_value()),
            Some(self.f1.to_value()),
            self.f2.as_ref().map(|x| x.to_value()),
            self.f3.as_ref().map(|x| x.to_value()),
        ])
    }
}
impl FromValue for Tt4odooe1 {
    fn from_value(v: &Value) -> Self {
        let s = match v { Value::Seq(s) => s, other => panic!("Tt4odooe1: expected Seq, got {other:?}") };
        assert_eq!(s.len(), 4, "Tt4odooe1: component count");
        let _ = s;
        Tt4odooe1 {
            f0: s[0].as_ref().map(FromValue::from_value),
            f1: FromValue::from_value(s[1].as_ref().expect("component f1 of Tt4odooe1 must be present")),
            f2: s[2].as_ref().map(FromValue::from_value),
            f3: s[3].as_ref().map(FromValue::from_value),
        }
    }
}
impl ToValue for Tt4odooe1 {
    fn to_value(&self) -> Value {
        Value::Seq(vec![
            self.f0.as_ref().map(|x| x.to_value()),
            Some(self.f1.to_value()),
            self.f2.as_ref().map(|x| x.to_value()),
            self.f3.as_ref().map(|x| x.to_value()),
        ])
    }
}
impl FromValue for Tt4odooe2 {
    fn from_value(v: &Value) -> Self {
        let s = match v { Value::Seq(s) => s, other => panic!("Tt4odooe2: expected Seq, got {other:?}") };
        assert_eq!(s.len(), 4, "Tt4odooe2: component count");
        let _ = s;
        Tt4odooe2 {
            f0: s[0].as_ref().map(FromValue::from_value),
            f1: FromValue::from_value(s[1].as_ref().expect("component f1 of Tt4odooe2 must be present")),
            f2: s[2].as_ref().map(FromValue::from_value),
            f3: s[3].as_ref().map(FromValue::from_value),
        }
    }
}
impl ToValue for Tt4odooe2 {
    fn to_value(&self) -> Value {
        Value::Seq(vec![
            self.f0.as_ref().map(|x| x.to_value()),
            Some(self.f1.to_value()),
            self.f2.as_ref().map(|x| x.to_value()),
            self.f3.as_ref().map(|x| x.to_value()),
        ])
    }
}
impl FromValue for Tt4odooe3 {
    fn from_value(v: &Value) -> Self {
        let s = match v { Value::Seq(s) => s, other => panic!("Tt4odooe3: expected Seq, got {other:?}") };
        assert_eq!(s.len(), 4, "Tt4odooe3: component count");
        let _ = s;
        Tt4odooe3 {
            f0: s[0].as_ref().map(FromValue::from_value),
            f1: FromValue::from_value(s[1].as_ref().expect("component f1 of Tt4odooe3 must be present")),
            f2: s[2].as_ref().map(FromValue::from_value),
            f3: s[3].as_ref().map(FromValue::from_value),
        }
    }
}
impl ToValue for Tt4odooe3 {
    fn to_value(&self) -> Value {
        Value::Seq(vec![
            self.f0.as_ref().map(|x| x.to_value()),
            Some(self.f1.to_value()),
            self.f2.as_ref().map(|x| x.to_value()),
            self.f3.as_ref().map(|x| x.to_value()),
        ])
    }
}
impl FromValue for Tt4odooe4 {
    fn from_value(v: &Value) -> Self {
        let s = match v { Value::Seq(s) => s, other => panic!("Tt4odooe4: expected Seq, got {other:?}") };
        assert_eq!(s.len(), 4, "Tt4odooe4: component count");
        let _ = s;
        Tt4odooe4 {
            f0: s[0].as_ref().map(FromValue::from_value),
            f1: FromValue::from_value(s[1].as_ref().expect("component f1 of Tt4odooe4 must be present")),
            f2: s[2].as_ref().map(FromValue::from_value),
            f3: s[3].as_ref().map(FromValue::from_value),
        }
    }
}
impl ToValue for Tt4odooe4 {
    fn to_value(&self) -> Value {
        Value::Seq(vec![
            self.f0.as_ref().map(|x| x.to_value()),
            Some(self.f1.to_value()),
            self.f2.as_ref().map(|x| x.to_value()),
            self.f3.as_ref().map(|x| x.to_value()),
        ])
    }
}
impl FromValue for Tt4ddoon {
    fn from_value(v: &Value) -> Self {
        let s = match v { Value::Seq(s) => s, other => panic!("Tt4ddoon: expected Seq, got {other:?}") };
        assert_eq!(s.len(), 4, "Tt4ddoon: component count");
        let _ = s;
        Tt4ddoon {
            f0: FromValue::from_value(s[0].as_ref().expect("component f0 of Tt4ddoon must be present")),
            f1: FromValue::from_value(s[1].as_ref().expect("component f1 of Tt4ddoon must be present")),
            f2: s[2].as_ref().map(FromValue::from_value),
            f3: s[3].as_ref().map(FromValue::from_value),
        }
    }
}
impl ToValue for Tt4ddoon {
    fn to_value(&self) -> Value {
        Value::Seq(vec![
            Some(self.f0.to_value()),
            Some(self.f1.to_value()),
            self.f2.as_ref().map(|x| x.to_value()),
            self.f3.as_ref().map(|x| x.to_value()),
        ])
    }
}
impl FromValue for Tt4ddooe0 {
    fn from_value(v: &Value) -> Self {
        let s = match v { Value::Seq(s) => s, other => panic!("Tt4ddooe0: expected Seq, got {other:?}") };
        assert_eq!(s.len(), 4, "Tt4ddooe0: component count");
        let _ = s;
        Tt4ddooe0 {
            f0: FromValue::from_value(s[0].as_ref().expect("component f0 of Tt4ddooe0 must be present")),
            f1: FromValue::from_value(s[1].as_ref().expect("component f1 of Tt4ddooe0 must be present")),
            f2: s[2].as_ref().map(FromValue::from_value),
            f3: s[3].as_ref().map(FromValue::from_value),
        }
    }
}
impl ToValue for Tt4ddooe0 {
    fn to_value(&self) -> Value {
        Value::Seq(vec![
            Some(self.f0.to_value()),
            Some(self.f1.to_value()),
            self.f2.as_ref().map(|x| x.to_value()),
            self.f3.as_ref().map(|x| x.to_value()),
        ])
    }
}
impl FromValue for Tt4ddooe1 {
    fn from_value(v: &Value) -> Self {
        let s = match v { Value::Seq(s) => s, other => panic!("Tt4ddooe1: expected Seq, got {other:?}") };
        assert_eq!(s.len(), 4, "Tt4ddooe1: component count");
        let _ = s;
        Tt4ddooe1 {
            f0: FromValue::from_value(s[0].as_ref().expect("component f0 of Tt4ddooe1 must be present")),
            f1: FromValue::from_value(s[1].as_ref().expect("component f1 of Tt4ddooe1 must be present")),
            f2: s[2].as_ref().map(FromValue::from_value),
            f3: s[3].as_ref().map(FromValue::from_value),
        }
    }
}
impl ToValue for Tt4ddooe1 {
    fn to_value(&self) -> Value {
        Value::Seq(vec![
            Some(self.f0.to_value()),
            Some(self.f1.to_value()),
            self.f2.as_ref().map(|x| x.to_value()),
            self.f3.as_ref().map(|x| x.to_value()),
        ])
    }
}
impl FromValue for Tt4ddooe2 {
    fn from_value(v: &Value) -> Self {
        let s = match v { Value::Seq(s) => s, other => panic!("Tt4ddooe2: expected Seq, got {other:?}") };
        assert_eq!(s.len(), 4, "Tt4ddooe2: component count");
        let _ = s;
        Tt4ddooe2 {
            f0: FromValue::from_value(s[0].as_ref().expect("component f0 of Tt4ddooe2 must be present")),
            f1: FromValue::from_value(s[1].as_ref().expect("component f1 of Tt4ddooe2 must be present")),
            f2: s[2].as_ref().map(FromValue::from_value),
            f3: s[3].as_ref().map(FromValue::from_value),
        }
    }
}
impl ToValue for Tt4ddooe2 {
    fn to_value(&self) -> Value {
        Value::Seq(vec![
            Some(self.f0.to_value()),
            Some(self.f1.to_value()),
            self.f2.as_ref().map(|x| x.to_value()),
            self.f3.as_ref().map(|x| x.to_value()),
        ])
    }
}
impl FromValue for Tt4ddooe3 {
    fn from_value(v: &Value) -> Self {
        let s = match v { Value::Seq(s) => s, other => panic!("Tt4ddooe3: expected Seq, got {other:?}") };
        assert_eq!(s.len(), 4, "Tt4ddooe3: component count");
        let _ = s;
        Tt4ddooe3 {
            f0: FromValue::from_value(s[0].as_ref().expect("component f0 of Tt4ddooe3 must be present")),
            f1: FromValue::from_value(s[1].as_ref().expect("component f1 of Tt4ddooe3 must be present")),
            f2: s[2].as_ref().map(FromValue::from_value),
            f3: s[3].as_ref().map(FromValue::from_value),
        }
    }
}
impl ToValue for Tt4ddooe3 {
    fn to_value(&self) -> Value {
        Value::Seq(vec![
            Some(self.f0.to_value()),
            Some(self.f1.to_value()),
            self.f2.as_ref().map(|x| x.to_value()),
            self.f3.as_ref().map(|x| x.to_value()),
        ])
    }
}
impl FromValue for Tt4ddooe4 {
    fn from_value(v: &Value) -> Self {
        let s = match v { Value::Seq(s) => s, other => panic!("Tt4ddooe4: expected Seq, got {other:?}") };
        assert_eq!(s.len(), 4, "Tt4ddooe4: component count");
        let _ = s;
        Tt4ddooe4 {
            f0: FromValue::from_value(s[0].as_ref().expect("component f0 of Tt4ddooe4 must be present")),
            f1: FromValue::from_value(s[1].as_ref().expect("component f1 of Tt4ddooe4 must be present")),
            f2: s[2].as_ref().map(FromValue::from_value),
            f3: s[3].as_ref().map(FromValue::from_value),
        }
    }
}
impl ToValue for Tt4ddooe4 {
    fn to_value(&self) -> Value {
        Value::Seq(vec![
            Some(self.f0.to_value()),
            Some(self.f1.to_value()),
            self.f2.as_ref().map(|x| x.to_value()),
            self.f3.as_ref().map(|x| x.to_value()),
        ])
    }
}
impl FromValue for Tt4mmdon {
    fn from_value(v: &Value) -> Self {
        let s = match v { Value::Seq(s) => s, other => panic!("Tt4mmdon: expected Seq, got {other:?}") };
        assert_eq!(s.len(), 4, "Tt4mmdon: component count");
        let _ = s;
        Tt4mmdon {
            f0: FromValue::from_value(s[0].as_ref().expect("component f0 of Tt4mmdon must be present")),
            f1: FromValue::from_value(s[1].as_ref().expect("component f1 of Tt4mmdon must be present")),
            f2: FromValue::from_value(s[2].as_ref().expect("component f2 of Tt4mmdon must be present")),
            f3: s[3].as_ref().map(FromValue::from_value),
        }
    }
}
impl ToValue for Tt4mmdon {
    fn to_value(&self) -> Value {
        Value::Seq(vec![
            Some(self.f0.to_value()),
            Some(self.f1.to_value()),
            Some(self.f2.to_value()),
            self.f3.as_ref().map(|x| x.to_value()),
        ])
    }
}
impl FromValue for Tt4mmdoe0 {
    fn from_value(v: &Value) -> Self {
        let s = match v { Value::Seq(s) => s, other => panic!("Tt4mmdoe0: expected Seq, got {other:?}") };
        assert_eq!(s.len(), 4, "Tt4mmdoe0: component count");
        let _ = s;
        Tt4mmdoe0 {
            f0: FromValue::from_value(s[0].as_ref().expect("component f0 of Tt4mmdoe0 must be present")),
            f1: s[1].as_ref().map(FromValue::from_value),
            f2: FromValue::from_value(s[2].as_ref().expect("component f2 of Tt4mmdoe0 must be present")),
            f3: s[3].as_ref().map(FromValue::from_value),
        }
    }
}
impl ToValue for Tt4mmdoe0 {
    fn to_value(&self) -> Value {
        Value::Seq(vec![
            Some(self.f0.to_value()),
            self.f1.as_ref().map(|x| x.to_value()),
            Some(self.f2.to_value()),
            self.f3.as_ref().map(|x| x.to_value()),
        ])
    }
}
impl FromValue for Tt4mmdoe1 {
    fn from_value(v: &Value) -> Self {
        let s = match v { Value::Seq(s) => s, other => panic!("Tt4mmdoe1: expected Seq, got {other:?}") };
        assert_eq!(s.len(), 4, "Tt4mmdoe1: component count");
        let _ = s;
        Tt4mmdoe1 {
            f0: FromValue::from_value(s[0].as_ref().expect("component f0 of Tt4mmdoe1 must be present")),
            f1: s[1].as_ref().map(FromValue::from_value),
            f2: FromValue::from_value(s[2].as_ref().expect("component f2 of Tt4mmdoe1 must be present")),
            f3: s[3].as_ref().map(FromValue::from_value),
        }
    }
}
impl ToValue for Tt4mmdoe1 {
    fn to_value(&self) -> Value {
        Value::Seq(vec![
            Some(self.f0.to_value()),
            self.f1.as_ref().map(|x| x.to_value()),
            Some(self.f2.to_value()),
            self.f3.as_ref().map(|x| x.to_value()),
        ])
    }
}
impl FromValue for Tt4mmdoe2 {
    fn from_value(v: &Value) -> Self {
        let s = match v { Value::Seq(s) => s, other => panic!("Tt4mmdoe2: expected Seq, got {other:?}") };
        assert_eq!(s.len(), 4, "Tt4mmdoe2: component count");
        let _ = s;
        Tt4mmdoe2 {
            f0: FromValue::from_value(s[0].as_ref().expect("component f0 of Tt4mmdoe2 must be present")),
            f1: FromValue::from_value(s[1].as_ref().expect("component f1 of Tt4mmdoe2 must be present")),
            f2: FromValue::from_value(s[2].as_ref().expect("component f2 of Tt4mmdoe2 must be present")),
            f3: s[3].as_ref().map(FromValue::from_value),
        }
    }
}
impl ToValue for Tt4mmdoe2 {
    fn to_value(&self) -> Value {
        Value::Seq(vec![
            Some(self.f0.to_value()),
            Some(self.f1.to_value()),
            Some(self.f2.to_value()),
            self.f3.as_ref().map(|x| x.to_value()),
        ])
    }
}
impl FromValue for Tt4mmdoe3 {
    fn from_value(v: &Value) -> Self {
        let s = match v { Value::Seq(s) => s, other => panic!("Tt4mmdoe3: expected Seq, got {other:?}") };
        assert_eq!(s.len(), 4, "Tt4mmdoe3: component count");
        let _ = s;
        Tt4mmdoe3 {
            f0: FromValue::from_value(s[0].as_ref().expect("component f0 of Tt4mmdoe3 must be present")),
            f1: FromValue::from_value(s[1].as_ref().expect("component f1 of Tt4mmdoe3 must be present")),
            f2: FromValue::from_value(s[2].as_ref().expect("component f2 of Tt4mmdoe3 must be present")),
            f3: s[3].as_ref().map(FromValue::from_value),
        }
    }
}
impl ToValue for Tt4mmdoe3 {
    fn to_value(&self) -> Value {
        Value::Seq(vec![
            Some(self.f0.to_value()),
            Some(self.f1.to_value()),
            Some(self.f2.to_value()),
            self.f3.as_ref().map(|x| x.to_value()),
        ])
    }
}
impl FromValue for Tt4mmdoe4 {
    fn from_value(v: &Value) -> Self {
        let s = match v { Value::Seq(s) => s, other => panic!("Tt4mmdoe4: expected Seq, got {other:?}") };
        assert_eq!(s.len(), 4, "Tt4mmdoe4: component count");
        let _ = s;
        Tt4mmdoe4 {
            f0: FromValue::from_value(s[0].as_ref().expect("component f0 of Tt4mmdoe4 must be present")),
            f1: FromValue::from_value(s[1].as_ref().expect("component f1 of Tt4mmdoe4 must be present")),
            f2: FromValue::from_value(s[2].as_ref().expect("component f2 of Tt4mmdoe4 must be present")),
            f3: s[3].as_ref().map(FromValue::from_value),
        }
    }
}
impl ToValue for Tt4mmdoe4 {
    fn to_value(&self) -> Value {
        Value::Seq(vec![
            Some(self.f0.to_value()),
            Some(self.f1.to_value()),
            Some(self.f2.to_value()),
            self.f3.as_ref().map(|x| x.to_value()),
        ])
    }
}
impl FromValue for Tt4omdon {
    fn from_value(v: &Value) -> Self {
        let s = match v { Value::Seq(s) => s, other => panic!("Tt4omdon: expected Seq, got {other:?}") };
        assert_eq!(s.len(), 4, "Tt4omdon: component count");
        let _ = s;
        Tt4omdon {
            f0: s[0].as_ref().map(FromValue::from_value),
            f1: FromValue::from_value(s[1].as_ref().expect("component f1 of Tt4omdon must be present")),
            f2: FromValue::from_value(s[2].as_ref().expect("component f2 of Tt4omdon must be present")),
            f3: s[3].as_ref().map(FromValue::from_value),
        }
    }
}
impl ToValue for Tt4omdon {
    fn to_value(&self) -> Value {
        Value::Seq(vec![
            self.f0.as_ref().map(|x| x.to_value()),
            Some(self.f1.to_value()),
            Some(self.f2.to_value()),
            self.f3.as_ref().map(|x| x.to_value()),
        ])
    }
}
impl FromValue for Tt4omdoe0 {
    fn from_value(v: &Value) -> Self {
        let s = match v { Value::Seq(s) => s, other => panic!("Tt4omdoe0: expected Seq, got {other:?}") };
        assert_eq!(s.len(), 4, "Tt4omdoe0: component count");
        let _ = s;
        Tt4omdoe0 {
            f0: s[0].as_ref().map(FromValue::from_value),
            f1: s[1].as_ref().map(FromValue::from_value),
            f2: FromValue::from_value(s[2].as_ref().expect("component f2 of Tt4omdoe0 must be present")),
            f3: s[3].as_ref().map(FromValue::from_value),
        }
    }
}
impl ToValue for Tt4omdoe0 {
    fn to_value(&self) -> Value {
        Value::Seq(vec![
            self.f0.as_ref().map(|x| x.to_value()),
            self.f1.as_ref().map(|x| x.to_value()),
            Some(self.f2.to_value()),
            self.f3.as_ref().map(|x| x.to_value()),
        ])
    }
}
impl FromValue for Tt4omdoe1 {
    fn from_value(v: &Value) -> Self {
        let s = match v { Value::Seq(s) => s, other => panic!("Tt4omdoe1: expected Seq, got {other:?}") };
        assert_eq!(s.len(), 4, "Tt4omdoe1: component count");
        let _ = s;
        Tt4omdoe1 {
            f0: s[0].as_ref().map(FromValue::from_value),
            f1: s[1].as_ref().map(FromValue::from_value),
            f2: FromValue::from_value(s[2].as_ref().expect("component f2 of Tt4omdoe1 must be present")),
            f3: s[3].as_ref().map(FromValue::from_value),
        }
    }
}
impl ToValue for Tt4omdoe1 {
    fn to_value(&self) -> Value {
        Value::Seq(vec![
            self.f0.as_ref().map(|x| x.to_value()),
            self.f1.as_ref().map(|x| x.to_value()),
            Some(self.f2.to_value()),
            self.f3.as_ref().map(|x| x.to_value()),
        ])
    }
}
impl FromValue for Tt4omdoe2 {
    fn from_value(v: &Value) -> Self {
        let s = match v { Value::Seq(s) => s, other => panic!("Tt4omdoe2: expected Seq, got {other:?}") };
        assert_eq!(s.len(), 4, "Tt4omdoe2: component count");
        let _ = s;
        Tt4omdoe2 {
            f0: s[0].as_ref().map(FromValue::from_value),
            f1: FromValue::from_value(s[1].as_ref().expect("component f1 of Tt4omdoe2 must be present")),
            f2: FromValue::from_value(s[2].as_ref().expect("component f2 of Tt4omdoe2 must be present")),
            f3: s[3].as_ref().map(FromValue::from_value),
        }
    }
}
impl ToValue for Tt4omdoe2 {
    fn to_value(&self) -> Value {
        Value::Seq(vec![
            self.f0.as_ref().map(|x| x.to_value()),
            Some(self.f1.to_value()),
            Some(self.f2.to_value()),
            self.f3.as_ref().map(|x| x.to_value()),
        ])
    }
}
impl FromValue for Tt4omdoe3 {
    fn from_value(v: &Value) -> Self {
        let s = match v { Value::Seq(s) => s, other => panic!("Tt4omdoe3: expected Seq, got {other:?}") };
        assert_eq!(s.len(), 4, "Tt4omdoe3: component count");
        let _ = s;
        Tt4omdoe3 {
            f0: s[0].as_ref().map(FromValue::from_value),
            f1: FromValue::from_value(s[1].as_ref().expect("component f1 of Tt4omdoe3 must be present")),
            f2: FromValue::from_value(s[2].as_ref().expect("component f2 of Tt4omdoe3 must be present")),
            f3: s[3].as_ref().map(FromValue::from_value),
        }
    }
}
impl ToValue for Tt4omdoe3 {
    fn to_value(&self) -> Value {
        Value::Seq(vec![
            self.f0.as_ref().map(|x| x.to_value()),
            Some(self.f1.to_value()),
            Some(self.f2.to_value()),
            self.f3.as_ref().map(|x| x.to_value()),
        ])
    }
}
impl FromValue for Tt4omdoe4 {
    fn from_value(v: &Value) -> Self {
        let s = match v { Value::Seq(s) => s, other => panic!("Tt4omdoe4: expected Seq, got {other:?}") };
        assert_eq!(s.len(), 4, "Tt4omdoe4: component count");
        let _ = s;
        Tt4omdoe4 {
            f0: s[0].as_ref().map(FromValue::from_value),
            f1: FromValue::from_value(s[1].as_ref().expect("component f1 of Tt4omdoe4 must be present")),
            f2: FromValue::from_value(s[2].as_ref().expect("component f2 of Tt4omdoe4 must be present")),
            f3: s[3].as_ref().map(FromValue::from_value),
        }
    }
}
impl ToValue for Tt4omdoe4 {
    fn to_value(&self) -> Value {
        Value::Seq(vec![
            self.f0.as_ref().map(|x| x.to_value()),
            Some(self.f1.to_value()),
            Some(self.f2.to_value()),
            self.f3.as_ref().map(|x| x.to_value()),
        ])
    }
}
impl FromValue for Tt4dmdon {
    fn from_value(v: &Value) -> Self {
        let s = match v { Value::Seq(s) => s, other => panic!("Tt4dmdon: expected Seq, got {other:?}") };
        assert_eq!(s.len(), 4, "Tt4dmdon: component count");
        let _ = s;
        Tt4dmdon {
            f0: FromValue::from_value(s[0].as_ref().expect("component f0 of Tt4dmdon must be present")),
            f1: FromValue::from_value(s[1].as_ref().expect("component f1 of Tt4dmdon must be present")),
            f2: FromValue::from_value(s[2].as_ref().expect("component f2 of Tt4dmdon must be present")),
            f3: s[3].as_ref().map(FromValue::from_value),
        }
    }
}
impl ToValue for Tt4dmdon {
    fn to_value(&self) -> Value {
        Value::Seq(vec![
            Some(self.f0.to_value()),
            Some(self.f1.to_value()),
            Some(self.f2.to_value()),
            self.f3.as_ref().map(|x| x.to_value()),
        ])
    }
}
impl FromValue for Tt4dmdoe0 {
    fn from_value(v: &Value) -> Self {
        let s = match v { Value::Seq(s) => s, other => panic!("Tt4dmdoe0: expected Seq, got {other:?}") };
        assert_eq!(s.len(), 4, "Tt4dmdoe0: component count");
        let _ = s;
        Tt4dmdoe0 {
            f0: FromValue::from_value(s[0].as_ref().expect("component f0 of Tt4dmdoe0 must be present")),
            f1: s[1].as_ref().map(FromValue::from_value),
            f2: FromValue::from_value(s[2].as_ref().expect("component f2 of Tt4dmdoe0 must be present")),
            f3: s[3].as_ref().map(FromValue::from_value),
        }
    }
}
impl ToValue for Tt4dmdoe0 {
    fn to_value(&self) -> Value {
        Value::Seq(vec![
            Some(self.f0.to_value()),
            self.f1.as_ref().map(|x| x.to_value()),
            Some(self.f2.to_value()),
            self.f3.as_ref().map(|x| x.to_value()),
        ])
    }
}
impl FromValue for Tt4dmdoe1 {
    fn from_value(v: &Value) -> Self {
        let s = match v { Value::Seq(s) => s, other => panic!("Tt4dmdoe1: expected Seq, got {other:?}") };
        assert_eq!(s.len(), 4, "Tt4dmdoe1: component count");
        let _ = s;
        Tt4dmdoe1 {
            f0: FromValue::from_value(s[0].as_ref().expect("component f0 of Tt4dmdoe1 must be present")),
            f1: s[1].as_ref().map(FromValue::from_value),
            f2: FromValue::from_value(s[2].as_ref().expect("component f2 of Tt4dmdoe1 must be present")),
            f3: s[3].as_ref().map(FromValue::from_value),
        }
    }
}
impl ToValue for Tt4dmdoe1 {
    fn to_value(&self) -> Value {
        Value::Seq(vec![
            Some(self.f0.to_value()),
            self.f1.as_ref().map(|x| x.to_value()),
            Some(self.f2.to_value()),
            self.f3.as_ref().map(|x| x.to_value()),
        ])
    }
}
impl FromValue for Tt4dmdoe2 {
    fn from_value(v: &Value) -> Self {
        let s = match v { Value::Seq(s) => s, other => panic!("Tt4dmdoe2: expected Seq, got {other:?}") };
        assert_eq!(s.len(), 4, "Tt4dmdoe2: component count");
        let _ = s;
        Tt4dmdoe2 {
            f0: FromValue::from_value(s[0].as_ref().expect("component f0 of Tt4dmdoe2 must be present")),
            f1: FromValue::from_value(s[1].as_ref().expect("component f1 of Tt4dmdoe2 must be present")),
            f2: FromValue::from_value(s[2].as_ref().expect("component f2 of Tt4dmdoe2 must be present")),
            f3: s[3].as_ref().map(FromValue::from_value),
        }
    }
}
impl ToValue for Tt4dmdoe2 {
    fn to_value(&self) -> Value {
        Value::Seq(vec![
            Some(self.f0.to_value()),
            Some(self.f1.to_value()),
            Some(self.f2.to_value()),
            self.f3.as_ref().map(|x| x.to_value()),
        ])
    }
}
impl FromValue for Tt4dmdoe3 {
    fn from_value(v: &Value) -> Self {
        let s = match v { Value::Seq(s) => s, other => panic!("Tt4dmdoe3: expected Seq, got {other:?}") };
        assert_eq!(s.len(), 4, "Tt4dmdoe3: component count");
        let _ = s;
        Tt4dmdoe3 {
            f0: FromValue::from_value(s[0].as_ref().expect("component f0 of Tt4dmdoe3 must be present")),
            f1: FromValue::from_value(s[1].as_ref().expect("component f1 of Tt4dmdoe3 must be present")),
            f2: FromValue::from_value(s[2].as_ref().expect("component f2 of Tt4dmdoe3 must be present")),
            f3: s[3].as_ref().map(FromValue::from_value),
        }
    }
}
impl ToValue for Tt4dmdoe3 {
    fn to_value(&self) -> Value {
        Value::Seq(vec![
            Some(self.f0.to_value()),
            Some(self.f1.to_value()),
            Some(self.f2.to_value()),
            self.f3.as_ref().map(|x| x.to_value()),
        ])
    }
}
impl FromValue for Tt4dmdoe4 {
    fn from_value(v: &Value) -> Self {
        let s = match v { Value::Seq(s) => s, other => panic!("Tt4dmdoe4: expected Seq, got {other:?}") };
        assert_eq!(s.len(), 4, "Tt4dmdoe4: component count");
        let _ = s;
        Tt4dmdoe4 {
            f0: FromValue::from_value(s[0].as_ref().expect("component f0 of Tt4dmdoe4 must be present")),
            f1: FromValue::from_value(s[1].as_ref().expect("component f1 of Tt4dmdoe4 must be present")),
            f2: FromValue::from_value(s[2].as_ref().expect("component f2 of Tt4dmdoe4 must be present")),
            f3: s[3].as_ref().map(FromValue::from_value),
        }
    }
}
impl ToValue for Tt4dmdoe4 {
    fn to_value(&self) -> Value {
        Value::Seq(vec![
            Some(self.f0.to_value()),
            Some(self.f1.to_value()),
            Some(self.f2.to_value()),
            self.f3.as_ref().map(|x| x.to_value()),
        ])
    }
}
impl FromValue for Tt4modon {
    fn from_value(v: &Value) -> Self {
        let s = match v { Value::Seq(s) => s, other => panic!("Tt4modon: expected Seq, got {other:?}") };
        assert_eq!(s.len(), 4, "Tt4modon: component count");
        let _ = s;
        Tt4modon {
            f0: FromValue::from_value(s[0].as_ref().expect("component f0 of Tt4modon must be present")),
            f1: s[1].as_ref().map(FromValue::from_value),
            f2: FromValue::from_value(s[2].as_ref().expect("component f2 of Tt4modon must be present")),
            f3: s[3].as_ref().map(FromValue::from_value),
        }
    }
}
impl ToValue for Tt4modon {
    fn to_value(&self) -> Value {
        Value::Seq(vec![
            Some(self.f0.to_value()),
            self.f1.as_ref().map(|x| x.to_value()),
            Some(self.f2.to_value()),
            self.f3.as_ref().map(|x| x.to_value()),
        ])
    }
}
impl FromValue for Tt4modoe0 {
    fn from_value(v: &Value) -> Self {
        let s = match v { Value::Seq(s) => s, other => panic!("Tt4modoe0: expected Seq, got {other:?}") };
        assert_eq!(s.len(), 4, "Tt4modoe0: component count");
        let _ = s;
        Tt4modoe0 {
            f0: FromValue::from_value(s[0].as_ref().expect("component f0 of Tt4modoe0 must be present")),
            f1: s[1].as_ref().map(FromValue::from_value),
            f2: FromValue::from_value(s[2].as_ref().expect("component f2 of Tt4modoe0 must be present")),
            f3: s[3].as_ref().map(FromValue::from_value),
        }
    }
}
impl ToValue for Tt4modoe0 {
    fn to_value(&self) -> Value {
        Value::Seq(vec![
            Some(self.f0.to_value()),
            self.f1.as_ref().map(|x| x.to_value()),
            Some(self.f2.to_value()),
            self.f3.as_ref().map(|x| x.to_value()),
        ])
    }
}
impl FromValue for Tt4modoe1 {
    fn from_value(v: &Value) -> Self {
        let s = match v { Value::Seq(s) => s, other => panic!("Tt4modoe1: expected Seq, got {other:?}") };
        assert_eq!(s.len(), 4, "Tt4modoe1: component count");
        let _ = s;
        Tt4modoe1 {
            f0: FromValue::from_value(s[0].as_ref().expect("component f0 of Tt4modoe1 must be present")),
            f1: s[1].as_ref().map(FromValue::from_value),
            f2: FromValue::from_value(s[2].as_ref().expect("component f2 of Tt4modoe1 must be present")),
            f3: s[3].as_ref().map(FromValue::from_value),
        }
    }
}
impl ToValue for Tt4modoe1 {
    fn to_value(&self) -> Value {
        Value::Seq(vec![
            Some(self.f0.to_value()),
            self.f1.as_ref().map(|x| x.to_value()),
            Some(self.f2.to_value()),
            self.f3.as_ref().map(|x| x.to_value()),
        ])
    }
}
impl FromValue for Tt4modoe2 {
    fn from_value(v: &Value) -> Self {
        let s = match v { Value::Seq(s) => s, other => panic!("Tt4modoe2: expected Seq, got {other:?}") };
        assert_eq!(s.len(), 4, "Tt4modoe2: component count");
        let _ = s;
        Tt4modoe2 {
            f0: FromValue::from_value(s[0].as_ref().expect("component f0 of Tt4modoe2 must be present")),
            f1: s[1].as_ref().map(FromValue::from_value),
            f2: FromValue::from_value(s[2].as_ref().expect("component f2 of Tt4modoe2 must be present")),
            f3: s[3].as_ref().map(FromValue::from_value),
        }
    }
}
impl ToValue for Tt4modoe2 {
    fn to_value(&self) -> Value {
        Value::Seq(vec![
            Some(self.f0.to_value()),
            self.f1.as_ref().map(|x| x.to_value()),
            Some(self.f2.to_value()),
            self.f3.as_ref().map(|x| x.to_value()),
        ])
    }
}
impl FromValue for Tt4modoe3 {
    fn from_value(v: &Value) -> Self {
        let s = match v { Value::Seq(s) => s, other => panic!("Tt4modoe3: expected Seq, got {other:?}") };
        assert_eq!(s.len(), 4, "Tt4modoe3: component count");
        let _ = s;
        Tt4modoe3 {
            f0: FromValue::from_value(s[0].as_ref().expect("component f0 of Tt4modoe3 must be present")),
            f1: s[1].as_ref().map(FromValue::from_value),
            f2: FromValue::from_value(s[2].as_ref().expect("component f2 of Tt4modoe3 must be present")),
            f3: s[3].as_ref().map(FromValue::from_value),
        }
    }
}
impl ToValue for Tt4modoe3 {
    fn to_value(&self) -> Value {
        Value::Seq(vec![
            Some(self.f0.to_value()),
            self.f1.as_ref().map(|x| x.to_value()),
            Some(self.f2.to_value()),
            self.f3.as_ref().map(|x| x.to_value()),
        ])
    }
}
impl FromValue for Tt4modoe4 {
    fn from_value(v: &Value) -> Self {
        let s = match v { Value::Seq(s) => s, other => panic!("Tt4modoe4: expected Seq, got {other:?}") };
        assert_eq!(s.len(), 4, "Tt4modoe4: component count");
        let _ = s;
        Tt4modoe4 {
            f0: FromValue::from_value(s[0].as_ref().expect("component f0 of Tt4modoe4 must be present")),
            f1: s[1].as_ref().map(FromValue::from_value),
            f2: FromValue::from_value(s[2].as_ref().expect("component f2 of Tt4modoe4 must be present")),
            f3: s[3].as_ref().map(FromValue::from_value),
        }
    }
}
impl ToValue for Tt4modoe4 {
    fn to_value(&self) -> Value {
        Value::Seq(vec![
            Some(self.f0.to_value()),
            self.f1.as_ref().map(|x| x.to_value()),
            Some(self.f2.to_value()),
            self.f3.as_ref().map(|x| x.to_value()),
        ])
    }
}
impl FromValue for Tt4oodon {
    fn from_value(v: &Value) -> Self {
        let s = match v { Value::Seq(s) => s, other => panic!("Tt4oodon: expected Seq, got {other:?}") };
        assert_eq!(s.len(), 4, "Tt4oodon: component count");
        let _ = s;
        Tt4oodon {
            f0: s[0].as_ref().map(FromValue::from_value),
            f1: s[1].as_ref().map(FromValue::from_value),
            f2: FromValue::from_value(s[2].as_ref().expect("component f2 of Tt4oodon must be present")),
            f3: s[3].as_ref().map(FromValue::from_value),
        }
    }
}
impl ToValue for Tt4oodon {
    fn to_value(&self) -> Value {
        Value::Seq(vec![
            self.f0.as_ref().map(|x| x.to_value()),
            self.f1.as_ref().map(|x| x.to_value()),
            Some(self.f2.to_value()),
            self.f3.as_ref().map(|x| x.to_value()),
        ])
    }
}
impl FromValue for Tt4oodoe0 {
    fn from_value(v: &Value) -> Self {
        let s = match v { Value::Seq(s) => s, other => panic!("Tt4oodoe0: expected Seq, got {other:?}") };
        assert_eq!(s.len(), 4, "Tt4oodoe0: component count");
        let _ = s;
        Tt4oodoe0 {
            f0: s[0].as_ref().map(FromValue::from_value),
            f1: s[1].as_ref().map(FromValue::from_value),
            f2: FromValue::from_value(s[2].as_ref().expect("component f2 of Tt4oodoe0 must be present")),
            f3: s[3].as_ref().map(FromValue::from_value),
        }
    }
}
impl ToValue for Tt4oodoe0 {
    fn to_value(&self) -> Value {
        Value::Seq(vec![
            self.f0.as_ref().map(|x| x.to_value()),
            self.f1.as_ref().map(|x| x.to_value()),
            Some(self.f2.to_value()),
            self.f3.as_ref().map(|x| x.to_value()),
        ])
    }
}
impl FromValue for Tt4oodoe1 {
    fn from_value(v: &Value) -> Self {
        let s = match v { Value::Seq(s) => s, other => panic!("Tt4oodoe1: expected Seq, got {other:?}") };
        assert_eq!(s.len(), 4, "Tt4oodoe1: component count");
        let _ = s;
        Tt4oodoe1 {
            f0: s[0].as_ref().map(FromValue::from_value),
            f1: s[1].as_ref().map(FromValue::from_value),
            f2: FromValue::from_value(s[2].as_ref().expect("component f2 of Tt4oodoe1 must be present")),
            f3: s[3].as_ref().map(FromValue::from_value),
        }
    }
}
impl ToValue for Tt4oodoe1 {
    fn to_value(&self) -> Value {
        Value::Seq(vec![
            self.f0.as_ref().map(|x| x.to_value()),
            self.f1.as_ref().map(|x| x.to_value()),
            Some(self.f2.to_value()),
            self.f3.as_ref().map(|x| x.to_value()),
        ])
    }
}
impl FromValue for Tt4oodoe2 {
    fn from_value(v: &Value) -> Self {
        let s = match v { Value::Seq(s) => s, other => panic!("Tt4oodoe2: expected Seq, got {other:?}") };
        assert_eq!(s.len(), 4, "Tt4oodoe2: component count");
        let _ = s;
        Tt4oodoe2 {
            f0: s[0].as_ref().map(FromValue::from_value),
            f1: s[1].as_ref().map(FromValue::from_value),
            f2: FromValue::from_value(s[2].as_ref().expect("component f2 of Tt4oodoe2 must be present")),
            f3: s[3].as_ref().map(FromValue::from_value),
        }
    }
}
impl ToValue for Tt4oodoe2 {
    fn to_value(&self) -> Value {
        Value::Seq(vec![
            self.f0.as_ref().map(|x| x.to_value()),
            self.f1.as_ref().map(|x| x.to_value()),
            Some(self.f2.to_value()),
            self.f3.as_ref().map(|x| x.to_value()),
        ])
    }
}
impl FromValue for Tt4oodoe3 {
    fn from_value(v: &Value) -> Self {
        let s = match v { Value::Seq(s) => s, other => panic!("Tt4oodoe3: expected Seq, got {other:?}") };
        assert_eq!(s.len(), 4, "Tt4oodoe3: component count");
        let _ = s;
        Tt4oodoe3 {
            f0: s[0].as_ref().map(FromValue::from_value),
            f1: s[1].as_ref().map(FromValue::from_value),
            f2: FromValue::from_value(s[2].as_ref().expect("component f2 of Tt4oodoe3 must be present")),
            f3: s[3].as_ref().map(FromValue::from_value),
        }
    }
}
impl ToValue for Tt4oodoe3 {
    fn to_value(&self) -> Value {
        Value::Seq(vec![
            self.f0.as_ref().map(|x| x.to_value()),
            self.f1.as_ref().map(|x| x.to_value()),
            Some(self.f2.to_value()),
            self.f3.as_ref().map(|x| x.to_value()),
        ])
    }
}
impl FromValue for Tt4oodoe4 {
    fn from_value(v: &Value) -> Self {
        let s = match v { Value::Seq(s) => s, other => panic!("Tt4oodoe4: expected Seq, got {other:?}") };
        assert_eq!(s.len(), 4, "Tt4oodoe4: component count");
        let _ = s;
        Tt4oodoe4 {
            f0: s[0].as_ref().map(FromValue::from_value),
            f1: s[1].as_ref().map(FromValue::from_value),
            f2: FromValue::from_value(s[2].as_ref().expect("component f2 of Tt4oodoe4 must be present")),
            f3: s[3].as_ref().map(FromValue::from_value),
        }
    }
}
impl ToValue for Tt4oodoe4 {
    fn to_value(&self) -> Value {
        Value::Seq(vec![
            self.f0.as_ref().map(|x| x.to_value()),
            self.f1.as_ref().map(|x| x.to_value()),
            Some(self.f2.to_value()),
            self.f3.as_ref().map(|x| x.to_value()),
        ])
    }
}
impl FromValue for Tt4dodon {
    fn from_value(v: &Value) -> Self {
        let s = match v { Value::Seq(s) => s, other => panic!("Tt4dodon: expected Seq, got {other:?}") };
        assert_eq!(s.len(), 4, "Tt4dodon: component count");
        let _ = s;
        Tt4dodon {
            f0: FromValue::from_value(s[0].as_ref().expect("component f0 of Tt4dodon must be present")),
            f1: s[1].as_ref().map(FromValue::from_value),
            f2: FromValue::from_value(s[2].as_ref().expect("component f2 of Tt4dodon must be present")),
            f3: s[3].as_ref().map(FromValue::from_value),
        }
    }
}
impl ToValue for Tt4dodon {
    fn to_value(&self) -> Value {
        Value::Seq(vec![
            Some(self.f0.to_value()),
            self.f1.as_ref().map(|x| x.to_value()),
            Some(self.f2.to_value()),
            self.f3.as_ref().map(|x| x.to_value()),
        ])
    }
}
impl FromValue for Tt4dodoe0 {
    fn from_value(v: &Value) -> Self {
        let s = match v { Value::Seq(s) => s, other => panic!("Tt4dodoe0: expected Seq, got {other:?}") };
        assert_eq!(s.len(), 4, "Tt4dodoe0: component count");
        let _ = s;
        Tt4dodoe0 {
            f0: FromValue::from_value(s[0].as_ref().expect("component f0 of Tt4dodoe0 must be present")),
            f1: s[1].as_ref().map(FromValue::from_value),
            f2: FromValue::from_value(s[2].as_ref().expect("component f2 of Tt4dodoe0 must be present")),
            f3: s[3].as_ref().map(FromValue::from_value),
        }
    }
}
impl ToValue for Tt4dodoe0 {
    fn to_value(&self) -> Value {
        Value::Seq(vec![
            Some(self.f0.to_value()),
            self.f1.as_ref().map(|x| x.to_value()),
            Some(self.f2.to_value()),
            self.f3.as_ref().map(|x| x.to_value()),
        ])
    }
}
impl FromValue for Tt4dodoe1 {
    fn from_value(v: &Value) -> Self {
        let s = match v { Value::Seq(s) => s, other => panic!("Tt4dodoe1: expected Seq, got {other:?}") };
        assert_eq!(s.len(), 4, "Tt4dodoe1: component count");
        let _ = s;
        Tt4dodoe1 {
            f0: FromValue::from_value(s[0].as_ref().expect("component f0 of Tt4dodoe1 must be present")),
            f1: s[1].as_ref().map(FromValue::from_value),
            f2: FromValue::from_value(s[2].as_ref().expect("component f2 of Tt4dodoe1 must be present")),
            f3: s[3].as_ref().map(FromValue::from_value),
        }
    }
}
impl ToValue for Tt4dodoe1 {
    fn to_value(&self) -> Value {
        Value::Seq(vec![
            Some(self.f0.to_value()),
            self.f1.as_ref().map(|x| x.to_value()),
            Some(self.f2.to_value()),
            self.f3.as_ref().map(|x| x.to_value()),
        ])
    }
}
impl FromValue for Tt4dodoe2 {
    fn from_value(v: &Value) -> Self {
        let s = match v { Value::Seq(s) => s, other => panic!("Tt4dodoe2: expected Seq, got {other:?}") };
        assert_eq!(s.len(), 4, "Tt4dodoe2: component count");
        let _ = s;
        Tt4dodoe2 {
            f0: FromValue::from_value(s[0].as_ref().expect("component f0 of Tt4dodoe2 must be present")),
            f1: s[1].as_ref().map(FromValue::from_value),
            f2: FromValue::from_value(s[2].as_ref().expect("component f2 of Tt4dodoe2 must be present")),
            f3: s[3].as_ref().map(FromValue::from_value),
        }
    }
}
impl ToValue for Tt4dodoe2 {
    fn to_value(&self) -> Value {
        Value::Seq(vec![
            Some(self.f0.to_value()),
            self.f1.as_ref().map(|x| x.to_value()),
            Some(self.f2.to_value()),
            self.f3.as_ref().map(|x| x.to_value()),
        ])
    }
}
impl FromValue for Tt4dodoe3 {
    fn from_value(v: &Value) -> Self {
        let s = match v { Value::Seq(s) => s, other => panic!("Tt4dodoe3: expected Seq, got {other:?}") };
        assert_eq!(s.len(), 4, "Tt4dodoe3: component count");
        let _ = s;
        Tt4dodoe3 {
            f0: FromValue::from_value(s[0].as_ref().expect("component f0 of Tt4dodoe3 must be present")),
            f1: s[1].as_ref().map(FromValue::from_value),
            f2: FromValue::from_value(s[2].as_ref().expect("component f2 of Tt4dodoe3 must be present")),
            f3: s[3].as_ref().map(FromValue::from_value),
        }
    }
}
impl ToValue for Tt4dodoe3 {
    fn to_value(&self) -> Value {
        Value::Seq(vec![
            Some(self.f0.to_value()),
            self.f1.as_ref().map(|x| x.to_value()),
            Some(self.f2.to_value()),
            self.f3.as_ref().map(|x| x.to_value()),
        ])
    }
}
impl FromValue for Tt4dodoe4 {
    fn from_value(v: &Value) -> Self {
        let s = match v { Value::Seq(s) => s, other => panic!("Tt4dodoe4: expected Seq, got {other:?}") };
        assert_eq!(s.len(), 4, "Tt4dodoe4: component count");
        let _ = s;
        Tt4dodoe4 {
            f0: FromValue::from_value(s[0].as_ref().expect("component f0 of Tt4dodoe4 must be present")),
            f1: s[1].as_ref().map(FromValue::from_value),
            f2: FromValue::from_value(s[2].as_ref().expect("component f2 of Tt4dodoe4 must be present")),
            f3: s[3].as_ref().map(FromValue::from_value),
        }
    }
}
impl ToValue for Tt4dodoe4 {
    fn to_value(&self) -> Value {
        Value::Seq(vec![
            Some(self.f0.to_value()),
            self.f1.as_ref().map(|x| x.to_value()),
            Some(self.f2.to_value()),
            self.f3.as_ref().map(|x| x.to_value()),
        ])
    }
}
impl FromValue for Tt4mddon {
    fn from_value(v: &Value) -> Self {
        let s = match v { Value::Seq(s) => s, other => panic!("Tt4mddon: expected Seq, got {other:?}") };
        assert_eq!(s.len(), 4, "Tt4mddon: component count");
        let _ = s;
        Tt4mddon {
            f0: FromValue::from_value(s[0].as_ref().expect("component f0 of Tt4mddon must be present")),
            f1: FromValue::from_value(s[1].as_ref().expect("component f1 of Tt4mddon must be present")),
            f2: FromValue::from_value(s[2].as_ref().expect("component f2 of Tt4mddon must be present")),
            f3: s[3].as_ref().map(FromValue::from_value),
        }
    }
}
impl ToValue for Tt4mddon {
    fn to_value(&self) -> Value {
        Value::Seq(vec![
            Some(self.f0.to_value()),
            Some(self.f1.to_value()),
            Some(self.f2.to_value()),
            self.f3.as_ref().map(|x| x.to_value()),
        ])
    }
}
impl FromValue for Tt4mddoe0 {
    fn from_value(v: &Value) -> Self {
        let s = match v { Value::Seq(s) => s, other => panic!("Tt4mddoe0: expected Seq, got {other:?}") };
        assert_eq!(s.len(), 4, "Tt4mddoe0: component count");
        let _ = s;
        Tt4mddoe0 {
            f0: FromValue::from_value(s[0].as_ref().expect("component f0 of Tt4mddoe0 must be present")),
            f1: FromValue::from_value(s[1].as_ref().expect("component f1 of Tt4mddoe0 must be present")),
            f2: FromValue::from_value(s[2].as_ref().expect("component f2 of Tt4mddoe0 must be present")),
            f3: s[3].as_ref().map(FromValue::from_value),
        }
    }
}
impl ToValue for Tt4mddoe0 {
    fn to_value(&self) -> Value {
        Value::Seq(vec![
            Some(self.f0.to_value()),
            Some(self.f1.to_value()),
            Some(self.f2.to_value()),
            self.f3.as_ref().map(|x| x.to_value()),
        ])
    }
}
impl FromValue for Tt4mddoe1 {
    fn from_value(v: &Value) -> Self {
        let s = match v { Value::Seq(s) => s, other => panic!("Tt4mddoe1: expected Seq, got {other:?}") };
        assert_eq!(s.len(), 4, "Tt4mddoe1: component count");
        let _ = s;
        Tt4mddoe1 {
            f0: FromValue::from_value(s[0].as_ref().expect("component f0 of Tt4mddoe1 must be present")),
            f1: FromValue::from_value(s[1].as_ref().expect("component f1 of Tt4mddoe1 must be present")),
            f2: FromValue::from_value(s[2].as_ref().expect("component f2 of Tt4mddoe1 must be present")),
            f3: s[3].as_ref().map(FromValue::from_value),
        }
    }
}
impl ToValue for Tt4mddoe1 {
    fn to_value(&self) -> Value {
        Value::Seq(vec![
            Some(self.f0.to_value()),
            Some(self.f1.to_value()),
            Some(self.f2.to_value()),
            self.f3.as_ref().map(|x| x.to_value()),
        ])
    }
}
impl FromValue for Tt4mddoe2 {
    fn from_value(v: &Value) -> Self {
        let s = match v { Value::Seq(s) => s, other => panic!("Tt4mddoe2: expected Seq, got {other:?}") };
        assert_eq!(s.len(), 4, "Tt4mddoe2: component count");
        let _ = s;
        Tt4mddoe2 {
            f0: FromValue::from_value(s[0].as_ref().expect("component f0 of Tt4mddoe2 must be present")),
            f1: FromValue::from_value(s[1].as_ref().expect("component f1 of Tt4mddoe2 must be present")),
            f2: FromValue::from_value(s[2].as_ref().expect("component f2 of Tt4mddoe2 must be present")),
            f3: s[3].as_ref().map(FromValue::from_value),
        }
    }
}
impl ToValue for Tt4mddoe2 {
    fn to_value(&self) -> Value {
        Value::Seq(vec![
            Some(self.f0.to_value()),
            Some(self.f1.to_value()),
            Some(self.f2.to_value()),
            self.f3.as_ref().map(|x| x.to_value()),
        ])
    }
}
impl FromValue for Tt4mddoe3 {
    fn from_value(v: &Value) -> Self {
        let s = match v { Value::Seq(s) => s, other => panic!("Tt4mddoe3: expected Seq, got {other:?}") };
        assert_eq!(s.len(), 4, "Tt4mddoe3: component count");
        let _ = s;
        Tt4mddoe3 {
            f0: FromValue::from_value(s[0].as_ref().expect("component f0 of Tt4mddoe3 must be present")),
            f1: FromValue::from_value(s[1].as_ref().expect("component f1 of Tt4mddoe3 must be present")),
            f2: FromValue::from_value(s[2].as_ref().expect("component f2 of Tt4mddoe3 must be present")),
            f3: s[3].as_ref().map(FromValue::from_value),
        }
    }
}
impl ToValue for Tt4mddoe3 {
    fn to_value(&self) -> Value {
        Value::Seq(vec![
            Some(self.f0.to_value()),
            Some(self.f1.to_value()),
            Some(self.f2.to_value()),
            self.f3.as_ref().map(|x| x.to_value()),
        ])
    }
}
impl FromValue for Tt4mddoe4 {
    fn from_value(v: &Value) -> Self {
        let s = match v { Value::Seq(s) => s, other => panic!("Tt4mddoe4: expected Seq, got {other:?}") };
        assert_eq!(s.len(), 4, "Tt4mddoe4: component count");
        let _ = s;
        Tt4mddoe4 {
            f0: FromValue::from_value(s[0].as_ref().expect("component f0 of Tt4mddoe4 must be present")),
            f1: FromValue::from_value(s[1].as_ref().expect("component f1 of Tt4mddoe4 must be present")),
            f2: FromValue::from_value(s[2].as_ref().expect("component f2 of Tt4mddoe4 must be present")),
            f3: s[3].as_ref().map(FromValue::from_value),
        }
    }
}
impl ToValue for Tt4mddoe4 {
    fn to_value(&self) -> Value {
        Value::Seq(vec![
            Some(self.f0.to_value()),
            Some(self.f1.to_value()),
            Some(self.f2.to_value()),
            self.f3.as_ref().map(|x| x.to_value()),
        ])
    }
}
impl FromValue for Tt4oddon {
    fn from_value(v: &Value) -> Self {
        let s = match v { Value::Seq(s) => s, other => panic!("Tt4oddon: expected Seq, got {other:?}") };
        assert_eq!(s.len(), 4, "Tt4oddon: component count");
        let _ = s;
        Tt4oddon {
            f0: s[0].as_ref().map(FromValue::from_value),
            f1: FromValue::from_value(s[1].as_ref().expect("component f1 of Tt4oddon must be present")),
            f2: FromValue::from_value(s[2].as_ref().expect("component f2 of Tt4oddon must be present")),
            f3: s[3].as_ref().map(FromValue::from_value),
        }
    }
}
impl ToValue for Tt4oddon {
    fn to_value(&self) -> Value {
        Value::Seq(vec![
            self.f0.as_ref().map(|x| x.to_value()),
            Some(self.f1.to_value()),
            Some(self.f2.to_value()),
            self.f3.as_ref().map(|x| x.to_value()),
        ])
    }
}
impl FromValue for Tt4oddoe0 {
    fn from_value(v: &Value) -> Self {
        let s = match v { Value::Seq(s) => s, other => panic!("Tt4oddoe0: expected Seq, got {other:?}") };
        assert_eq!(s.len(), 4, "Tt4oddoe0: component count");
        let _ = s;
        Tt4oddoe0 {
            f0: s[0].as_ref().map(FromValue::from_value),
            f1: FromValue::from_value(s[1].as_ref().expect("component f1 of Tt4oddoe0 must be present")),
            f2: FromValue::from_value(s[2].as_ref().expect("component f2 of Tt4oddoe0 must be present")),
            f3: s[3].as_ref().map(FromValue::from_value),
        }
    }
}
impl ToValue for Tt4oddoe0 {
    fn to_value(&self) -> Value {
        Value::Seq(vec![
            self.f0.as_ref().map(|x| x.to_value()),
            Some(self.f1.to_value()),
            Some(self.f2.to_value()),
            self.f3.as_ref().map(|x| x.to_value()),
        ])
    }
}
impl FromValue for Tt4oddoe1 {
    fn from_value(v: &Value) -> Self {
        let s = match v { Value::Seq(s) => s, other => panic!("Tt4oddoe1: expected Seq, got {other:?}") };
        assert_eq!(s.len(), 4, "Tt4oddoe1: component count");
        let _ = s;
        Tt4oddoe1 {
            f0: s[0].as_ref().map(FromValue::from_value),
            f1: FromValue::from_value(s[1].as_ref().expect("component f1 of Tt4oddoe1 must be present")),
            f2: FromValue::from_value(s[2].as_ref().expect("component f2 of Tt4oddoe1 must be present")),
            f3: s[3].as_ref().map(FromValue::from_value),
        }
    }
}
impl ToValue for Tt4oddoe1 {
    fn to_value(&self) -> Value {
        Value::Seq(vec![
            self.f0.as_ref().map(|x| x.to_value()),
            Some(self.f1.to_value()),
            Some(self.f2.to_value()),
            self.f3.as_ref().map(|x| x.to_value()),
        ])
    }
}
impl FromValue for Tt4oddoe2 {
    fn from_value(v: &Value) -> Self {
        let s = match v { Value::Seq(s) => s, other => panic!("Tt4oddoe2: expected Seq, got {other:?}") };
        assert_eq!(s.len(), 4, "Tt4oddoe2: component count");
        let _ = s;
        Tt4oddoe2 {
            f0: s[0].as_ref().map(FromValue::from_value),
            f1: FromValue::from_value(s[1].as_ref().expect("component f1 of Tt4oddoe2 must be present")),
            f2: FromValue::from_value(s[2].as_ref().expect("component f2 of Tt4oddoe2 must be present")),
            f3: s[3].as_ref().map(FromValue::from_value),
        }
    }
}
impl ToValue for Tt4oddoe2 {
    fn to_value(&self) -> Value {
        Value::Seq(vec![
            self.f0.as_ref().map(|x| x.to_value()),
            Some(self.f1.to_value()),
            Some(self.f2.to_value()),
            self.f3.as_ref().map(|x| x.to_value()),
        ])
    }
}
impl FromValue for Tt4oddoe3 {
    fn from_value(v: &Value) -> Self {
        let s = match v { Value::Seq(s) => s, other => panic!("Tt4oddoe3: expected Seq, got {other:?}") };
        assert_eq!(s.len(), 4, "Tt4oddoe3: component count");
        let _ = s;
        Tt4oddoe3 {
            f0: s[0].as_ref().map(FromValue::from_value),
            f1: FromValue::from_value(s[1].as_ref().expect("component f1 of Tt4oddoe3 must be present")),
            f2: FromValue::from_value(s[2].as_ref().expect("component f2 of Tt4oddoe3 must be present")),
            f3: s[3].as_ref().map(FromValue::from_value),
        }
    }
}
impl ToValue for Tt4oddoe3 {
    fn to_value(&self) -> Value {
        Value::Seq(vec![
            self.f0.as_ref().map(|x| x.to_value()),
            Some(self.f1.to_value()),
            Some(self.f2.to_value()),
            self.f3.as_ref().map(|x| x.to_value()),
        ])
    }
}
impl FromValue for Tt4oddoe4 {
    fn from_value(v: &Value) -> Self {
        let s = match v { Value::Seq(s) => s, other => panic!("Tt4oddoe4: expected Seq, got {other:?}") };
        assert_eq!(s.len(), 4, "Tt4oddoe4: component count");
        let _ = s;
        Tt4oddoe4 {
            f0: s[0].as_ref().map(FromValue::from_value),
            f1: FromValue::from_value(s[1].as_ref().expect("component f1 of Tt4oddoe4 must be present")),
            f2: FromValue::from_value(s[2].as_ref().expect("component f2 of Tt4oddoe4 must be present")),
            f3: s[3].as_ref().map(FromValue::from_value),
        }
    }
}
impl ToValue for Tt4oddoe4 {
    fn to_value(&self) -> Value {
        Value::Seq(vec![
            self.f0.as_ref().map(|x| x.to_value()),
            Some(self.f1.to_value()),
            Some(self.f2.to_value()),
            self.f3.as_ref().map(|x| x.to_value()),
        ])
    }
}
impl FromValue for Tt4dddon {
    fn from_value(v: &Value) -> Self {
        let s = match v { Value::Seq(s) => s, other => panic!("Tt4dddon: expected Seq, got {other:?}") };
        assert_eq!(s.len(), 4, "Tt4dddon: component count");
        let _ = s;
        Tt4dddon {
            f0: FromValue::from_value(s[0].as_ref().expect("component f0 of Tt4dddon must be present")),
            f1: FromValue::from_value(s[1].as_ref().expect("component f1 of Tt4dddon must be present")),
            f2: FromValue::from_value(s[2].as_ref().expect("component f2 of Tt4dddon must be present")),
            f3: s[3].as_ref().map(FromValue::from_value),
        }
    }
}
impl ToValue for Tt4dddon {
    fn to_value(&self) -> Value {
        Value::Seq(vec![
            Some(self.f0.to_value()),
            Some(self.f1.to_value()),
            Some(self.f2.to_value()),
            self.f3.as_ref().map(|x| x.to_value()),
        ])
    }
}
impl FromValue for Tt4dddoe0 {
    fn from_value(v: &Value) -> Self {
        let s = match v { Value::Seq(s) => s, other => panic!("Tt4dddoe0: expected Seq, got {other:?}") };
        assert_eq!(s.len(), 4, "Tt4dddoe0: component count");
        let _ = s;
        Tt4dddoe0 {
            f0: FromValue::from_value(s[0].as_ref().expect("component f0 of Tt4dddoe0 must be present")),
            f1: FromValue::from_value(s[1].as_ref().expect("component f1 of Tt4dddoe0 must be present")),
            f2: FromValue::from_value(s[2].as_ref().expect("component f2 of Tt4dddoe0 must be present")),
            f3: s[3].as_ref().map(FromValue::from_value),
        }
    }
}
impl ToValue for Tt4dddoe0 {
    fn to_value(&self) -> Value {
        Value::Seq(vec![
            Some(self.f0.to_value()),
            Some(self.f1.to_value()),
            Some(self.f2.to_value()),
            self.f3.as_ref().map(|x| x.to_value()),
        ])
    }
}
impl FromValue for Tt4dddoe1 {
    fn from_value(v: &Value) -> Self {
        let s = match v { Value::Seq(s) => s, other => panic!("Tt4dddoe1: expected Seq, got {other:?}") };
        assert_eq!(s.len(), 4, "Tt4dddoe1: component count");
        let _ = s;
        Tt4dddoe1 {
            f0: FromValue::from_value(s[0].as_ref().expect("component f0 of Tt4dddoe1 must be present")),
            f1: FromValue::from_value(s[1].as_ref().expect("component f1 of Tt4dddoe1 must be present")),
            f2: FromValue::from_value(s[2].as_ref().expect("component f2 of Tt4dddoe1 must be present")),
            f3: s[3].as_ref().map(FromValue::from_value),
        }
    }
}
impl ToValue for Tt4dddoe1 {
    fn to_value(&self) -> Value {
        Value::Seq(vec![
            Some(self.f0.to_value()),
            Some(self.f1.to_value()),
            Some(self.f2.to_value()),
            self.f3.as_ref().map(|x| x.to_value()),
        ])
    }
}
impl FromValue for Tt4dddoe2 {
    fn from_value(v: &Value) -> Self {
        let s = match v { Value::Seq(s) => s, other => panic!("Tt4dddoe2: expected Seq, got {other:?}") };
        assert_eq!(s.len(), 4, "Tt4dddoe2: component count");
        let _ = s;
        Tt4dddoe2 {
            f0: FromValue::from_value(s[0].as_ref().expect("component f0 of Tt4dddoe2 must be present")),
            f1: FromValue::from_value(s[1].as_ref().expect("component f1 of Tt4dddoe2 must be present")),
            f2: FromValue::from_value(s[2].as_ref().expect("component f2 of Tt4dddoe2 must be present")),
            f3: s[3].as_ref().map(FromValue::from_value),
        }
    }
}
impl ToValue for Tt4dddoe2 {
    fn to_value(&self) -> Value {
        Value::Seq(vec![
            Some(self.f0.to_value()),
            Some(self.f1.to_value()),
            Some(self.f2.to_value()),
            self.f3.as_ref().map(|x| x.to_value()),
        ])
    }
}
impl FromValue for Tt4dddoe3 {
    fn from_value(v: &Value) -> Self {
        let s = match v { Value::Seq(s) => s, other => panic!("Tt4dddoe3: expected Seq, got {other:?}") };
        assert_eq!(s.len(), 4, "Tt4dddoe3: component count");
        let _ = s;
        Tt4dddoe3 {
            f0: FromValue::from_value(s[0].as_ref().expect("component f0 of Tt4dddoe3 must be present")),
            f1: FromValue::from_value(s[1].as_ref().expect("component f1 of Tt4dddoe3 must be present")),
            f2: FromValue::from_value(s[2].as_ref().expect("component f2 of Tt4dddoe3 must be present")),
            f3: s[3].as_ref().map(FromValue::from_value),
        }
    }
}
impl ToValue for Tt4dddoe3 {
    fn to_value(&self) -> Value {
        Value::Seq(vec![
            Some(self.f0.to_value()),
            Some(self.f1.to_value()),
            Some(self.f2.to_value()),
            self.f3.as_ref().map(|x| x.to_value()),
        ])
    }
}
impl FromValue for Tt4dddoe4 {
    fn from_value(v: &Value) -> Self {
        let s = match v { Value::Seq(s) => s, other => panic!("Tt4dddoe4: expected Seq, got {other:?}") };
        assert_eq!(s.len(), 4, "Tt4dddoe4: component count");
        let _ = s;
        Tt4dddoe4 {
            f0: FromValue::from_value(s[0].as_ref().expect("component f0 of Tt4dddoe4 must be present")),
            f1: FromValue::from_value(s[1].as_ref().expect("component f1 of Tt4dddoe4 must be present")),
            f2: FromValue::from_value(s[2].as_ref().expect("component f2 of Tt4dddoe4 must be present")),
            f3: s[3].as_ref().map(FromValue::from_value),
        }
    }
}
impl ToValue for Tt4dddoe4 {
    fn to_value(&self) -> Value {
        Value::Seq(vec![
            Some(self.f0.to_value()),
            Some(self.f1.to_value()),
            Some(self.f2.to_value()),
            self.f3.as_ref().map(|x| x.to_value()),
        ])
    }
}
impl FromValue for Tt4mmmdn {
    fn from_value(v: &Value) -> Self {
        let s = match v { Value::Seq(s) => s, other => panic!("Tt4mmmdn: expected Seq, got {other:?}") };
        assert_eq!(s.len(), 4, "Tt4mmmdn: component count");
        let _ = s;
        Tt4mmmdn {
            f0: FromValue::from_value(s[0].as_ref().expect("component f0 of Tt4mmmdn must be present")),
            f1: FromValue::from_value(s[1].as_ref().expect("component f1 of Tt4mmmdn must be present")),
            f2: FromValue::from_value(s[2].as_ref().expect("component f2 of Tt4mmmdn must be present")),
            f3: FromValue::from_value(s[3].as_ref().expect("component f3 of Tt4mmmdn must be present")),
        }
    }
}
impl ToValue for Tt4mmmdn {
    fn to_value(&self) -> Value {
        Value::Seq(vec![
            Some(self.f0.to_value()),
            Some(self.f1.to_value()),
            Some(self.f2.to_value()),
            Some(self.f3.to_value()),
        ])
    }
}
impl FromValue for Tt4mmmde0 {
    fn from_value(v: &Value) -> Self {
        let s = match v { Value::Seq(s) => s, other => panic!("Tt4mmmde0: expected Seq, got {other:?}") };
        assert_eq!(s.len(), 4, "Tt4mmmde0: component count");
        let _ = s;
        Tt4mmmde0 {
            f0: FromValue::from_value(s[0].as_ref().expect("component f0 of Tt4mmmde0 must be present")),
            f1: s[1].as_ref().map(FromValue::from_value),
            f2: s[2].as_ref().map(FromValue::from_value),
            f3: FromValue::from_value(s[3].as_ref().expect("component f3 of Tt4mmmde0 must be present")),
        }
    }
}
impl ToValue for Tt4mmmde0 {
    fn to_value(&self) -> Value {
        Value::Seq(vec![
            Some(self.f0.to_value()),
            self.f1.as_ref().map(|x| x.to_value()),
            self.f2.as_ref().map(|x| x.to_value()),
            Some(self.f3.to_value()),
        ])
    }
}
impl FromValue for Tt4mmmde1 {
    fn from_value(v: &Value) -> Self {
        let s = match v { Value::Seq(s) => s, other => panic!("Tt4mmmde1: expected Seq, got {other:?}") };
        assert_eq!(s.len(), 4, "Tt4mmmde1: component count");
        let _ = s;
        Tt4mmmde1 {
            f0: FromValue::from_value(s[0].as_ref().expect("component f0 of Tt4mmmde1 must be present")),
            f1: s[1].as_ref().map(FromValue::from_value),
            f2: s[2].as_ref().map(FromValue::from_value),
            f3: FromValue::from_value(s[3].as_ref().expect("component f3 of Tt4mmmde1 must be present")),
        }
    }
}
impl ToValue for Tt4mmmde1 {
    fn to_value(&self) -> Value {
        Value::Seq(vec![
            Some(self.f0.to_value()),
            self.f1.as_ref().map(|x| x.to_value()),
            self.f2.as_ref().map(|x| x.to_value()),
            Some(self.f3.to_value()),
        ])
    }
}
impl FromValue for Tt4mmmde2 {
    fn from_value(v: &Value) -> Self {
        let s = match v { Value::Seq(s) => s, other => panic!("Tt4mmmde2: expected Seq, got {other:?}") };
        assert_eq!(s.len(), 4, "Tt4mmmde2: component count");
        let _ = s;
        Tt4mmmde2 {
            f0: FromValue::from_value(s[0].as_ref().expect("component f0 of Tt4mmmde2 must be present")),
            f1: FromValue::from_value(s[1].as_ref().expect("component f1 of Tt4mmmde2 must be present")),
            f2: s[2].as_ref().map(FromValue::from_value),
            f3: FromValue::from_value(s[3].as_ref().expect("component f3 of Tt4mmmde2 must be present")),
        }
    }
}
impl ToValue for Tt4mmmde2 {
    fn to_value(&self) -> Value {
        Value::Seq(vec![
            Some(self.f0.to_value()),
            Some(self.f1.to_value()),
            self.f2.as_ref().map(|x| x.to_value()),
            Some(self.f3.to_value()),
        ])
    }
}
impl FromValue for Tt4mmmde3 {
    fn from_value(v: &Value) -> Self {
        let s = match v { Value::Seq(s) => s, other => panic!("Tt4mmmde3: expected Seq, got {other:?}") };
        assert_eq!(s.len(), 4, "Tt4mmmde3: component count");
        let _ = s;
        Tt4mmmde3 {
            f0: FromValue::from_value(s[0].as_ref().expect("component f0 of Tt4mmmde3 must be present")),
            f1: FromValue::from_value(s[1].as_ref().expect("component f1 of Tt4mmmde3 must be present")),
            f2: FromValue::from_value(s[2].as_ref().expect("component f2 of Tt4mmmde3 must be present")),
            f3: FromValue::from_value(s[3].as_ref().expect("component f3 of Tt4mmmde3 must be present")),
        }
    }
}
impl ToValue for Tt4mmmde3 {
    fn to_value(&self) -> Value {
        Value::Seq(vec![
            Some(self.f0.to_value()),
            Some(self.f1.to_value()),
            Some(self.f2.to_value()),
            Some(self.f3.to_value()),
        ])
    }
}
impl FromValue for Tt4mmmde4 {
    fn from_value(v: &Value) -> Self {
        let s = match v { Value::Seq(s) => s, other => panic!("Tt4mmmde4: expected Seq, got {other:?}") };
        assert_eq!(s.len(), 4, "Tt4mmmde4: component count");
        let _ = s;
        Tt4mmmde4 {
            f0: FromValue::from_value(s[0].as_ref().expect("component f0 of Tt4mmmde4 must be present")),
            f1: FromValue::from_value(s[1].as_ref().expect("component f1 of Tt4mmmde4 must be present")),
            f2: FromValue::from_value(s[2].as_ref().expect("component f2 of Tt4mmmde4 must be present")),
            f3: FromValue::from_value(s[3].as_ref().expect("component f3 of Tt4mmmde4 must be present")),
        }
    }
}
impl ToValue for Tt4mmmde4 {
    fn to_value(&self) -> Value {
        Value::Seq(vec![
            Some(self.f0.to_value()),
            Some(self.f1.to_value()),
            Some(self.f2.to_value()),
            Some(self.f3.to_value()),
        ])
    }
}
impl FromValue for Tt4ommdn {
    fn from_value(v: &Value) -> Self {
        let s = match v { Value::Seq(s) => s, other => panic!("Tt4ommdn: expected Seq, got {other:?}") };
        assert_eq!(s.len(), 4, "Tt4ommdn: component count");
        let _ = s;
        Tt4ommdn {
            f0: s[0].as_ref().map(FromValue::from_value),
            f1: FromValue::from_value(s[1].as_ref().expect("component f1 of Tt4ommdn must be present")),
            f2: FromValue::from_value(s[2].as_ref().expect("component f2 of Tt4ommdn must be present")),
            f3: FromValue::from_value(s[3].as_ref().expect("component f3 of Tt4ommdn must be present")),
        }
    }
}
impl ToValue for Tt4ommdn {
    fn to_value(&self) -> Value {
        Value::Seq(vec![
            self.f0.as_ref().map(|x| x.to_value()),
            Some(self.f1.to_value()),
            Some(self.f2.to_value()),
            Some(self.f3.to_value()),
        ])
    }
}
impl FromValue for Tt4ommde0 {
    fn from_value(v: &Value) -> Self {
        let s = match v { Value::Seq(s) => s, other => panic!("Tt4ommde0: expected Seq, got {other:?}") };
        assert_eq!(s.len(), 4, "Tt4ommde0: component count");
        let _ = s;
        Tt4ommde0 {
            f0: s[0].as_ref().map(FromValue::from_value),
            f1: s[1].as_ref().map(FromValue::from_value),
            f2: s[2].as_ref().map(FromValue::from_value),
            f3: FromValue::from_value(s[3].as_ref().expect("component f3 of Tt4ommde0 must be present")),
        }
    }
}
impl ToValue for Tt4ommde0 {
    fn to_value(&self) -> Value {
        Value::Seq(vec![
            self.f0.as_ref().map(|x| x.to_value()),
            self.f1.as_ref().map(|x| x.to_value()),
            self.f2.as_ref().map(|x| x.to_value()),
            Some(self.f3.to_value()),
        ])
    }
}
impl FromValue for Tt4ommde1 {
    fn from_value(v: &Value) -> Self {
        let s = match v { Value::Seq(s) => s, other => panic!("Tt4ommde1: expected Seq, got {other:?}") };
        assert_eq!(s.len(), 4, "Tt4ommde1: component count");
        let _ = s;
        Tt4ommde1 {
            f0: s[0].as_ref().map(FromValue::from_value),
            f1: s[1].as_ref().map(FromValue::from_value),
            f2: s[2].as_ref().map(FromValue::from_value),
            f3: FromValue::from_value(s[3].as_ref().expect("component f3 of Tt4ommde1 must be present")),
        }
    }
}
impl ToValue for Tt4ommde1 {
    fn to_value(&self) -> Value {
        Value::Seq(vec![
            self.f0.as_ref().map(|x| x.to_value()),
            self.f1.as_ref().map(|x| x.to_value()),
            self.f2.as_ref().map(|x| x.to_value()),
            Some(self.f3.to_value()),
        ])
    }
}
impl FromValue for Tt4ommde2 {
    fn from_value(v: &Value) -> Self {
        let s = match v { Value::Seq(s) => s, other => panic!("Tt4ommde2: expected Seq, got {other:?}") };
        assert_eq!(s.len(), 4, "Tt4ommde2: component count");
        let _ = s;
        Tt4ommde2 {
            f0: s[0].as_ref().map(FromValue::from_value),
            f1: FromValue::from_value(s[1].as_ref().expect("component f1 of Tt4ommde2 must be present")),
            f2: s[2].as_ref().map(FromValue::from_value),
            f3: FromValue::from_value(s[3].as_ref().expect("component f3 of Tt4ommde2 must be present")),
        }
    }
}
impl ToValue for Tt4ommde2 {
    fn to_value(&self) -> Value {
        Value::Seq(vec![
            self.f0.as_ref().map(|x| x.to_value()),
            Some(self.f1.to_value()),
            self.f2.as_ref().map(|x| x.to_value()),
            Some(self.f3.to_value()),
        ])
    }
}
impl FromValue for Tt4ommde3 {
    fn from_value(v: &Value) -> Self {
        let s = match v { Value::Seq(s) => s, other => panic!("Tt4ommde3: expected Seq, got {other:?}") };
        assert_eq!(s.len(), 4, "Tt4ommde3: component count");
        let _ = s;
        Tt4ommde3 {
            f0: s[0].as_ref().map(FromValue::from_value),
            f1: FromValue::from_value(s[1].as_ref().expect("component f1 of Tt4ommde3 must be present")),
            f2: FromValue::from_value(s[2].as_ref().expect("component f2 of Tt4ommde3 must be present")),
            f3: FromValue::from_value(s[3].as_ref().expect("component f3 of Tt4ommde3 must be present")),
        }
    }
}
impl ToValue for Tt4ommde3 {
    fn to_value(&self) -> Value {
        Value::Seq(vec![
            self.f0.as_ref().map(|x| x.to_value()),
            Some(self.f1.to_value()),
            Some(self.f2.to_value()),
            Some(self.f3.to_value()),
        ])
    }
}
impl FromValue for Tt4ommde4 {
    fn from_value(v: &Value) -> Self {
        let s = match v { Value::Seq(s) => s, other => panic!("Tt4ommde4: expected Seq, got {other:?}") };
        assert_eq!(s.len(), 4, "Tt4ommde4: component count");
        let _ = s;
        Tt4ommde4 {
            f0: s[0].as_ref().map(FromValue::from_value),
            f1: FromValue::from_value(s[1].as_ref().expect("component f1 of Tt4ommde4 must be present")),
            f2: FromValue::from_value(s[2].as_ref().expect("component f2 of Tt4ommde4 must be present")),
            f3: FromValue::from_value(s[3].as_ref().expect("component f3 of Tt4ommde4 must be present")),
        }
    }
}
impl ToValue for Tt4ommde4 {
    fn to_value(&self) -> Value {
        Value::Seq(vec![
            self.f0.as_ref().map(|x| x.to_value()),
            Some(self.f1.to_value()),
            Some(self.f2.to_value()),
            Some(self.f3.to_value()),
        ])
    }
}
impl FromValue for Tt4dmmdn {
    fn from_value(v: &Value) -> Self {
        let s = match v { Value::Seq(s) => s, other => panic!("Tt4dmmdn: expected Seq, got {other:?}") };
        assert_eq!(s.len(), 4, "Tt4dmmdn: component count");
        let _ = s;
        Tt4dmmdn {
            f0: FromValue::from_value(s[0].as_ref().expect("component f0 of Tt4dmmdn must be present")),
            f1: FromValue::from_value(s[1].as_ref().expect("component f1 of Tt4dmmdn must be present")),
            f2: FromValue::from_value(s[2].as_ref().expect("component f2 of Tt4dmmdn must be present")),
            f3: FromValue::from_value(s[3].as_ref().expect("component f3 of Tt4dmmdn must be present")),
        }
    }
}
impl ToValue for Tt4dmmdn {
    fn to_value(&self) -> Value {
        Value::Seq(vec![
            Some(self.f0.to_value()),
            Some(self.f1.to_value()),
            Some(self.f2.to_value()),
            Some(self.f3.to_value()),
        ])
    }
}
impl FromValue for Tt4dmmde0 {
    fn from_value(v: &Value) -> Self {
        let s = match v { Value::Seq(s) => s, other => panic!("Tt4dmmde0: expected Seq, got {other:?}") };
        assert_eq!(s.len(), 4, "Tt4dmmde0: component count");
        let _ = s;
        Tt4dmmde0 {
            f0: FromValue::from_value(s[0].as_ref().expect("component f0 of Tt4dmmde0 must be present")),
            f1: s[1].as_ref().map(FromValue::from_value),
            f2: s[2].as_ref().map(FromValue::from_value),
            f3: FromValue::from_value(s[3].as_ref().expect("component f3 of Tt4dmmde0 must be present")),
        }
    }
}
impl ToValue for Tt4dmmde0 {
    fn to_value(&self) -> Value {
        Value::Seq(vec![
            Some(self.f0.to_value()),
            self.f1.as_ref().map(|x| x.to_value()),
            self.f2.as_ref().map(|x| x.to_value()),
            Some(self.f3.to_value()),
        ])
    }
}
impl FromValue for Tt4dmmde1 {
    fn from_value(v: &Value) -> Self {
        let s = match v { Value::Seq(s) => s, other => panic!("Tt4dmmde1: expected Seq, got {other:?}") };
        assert_eq!(s.len(), 4, "Tt4dmmde1: component count");
        let _ = s;
        Tt4dmmde1 {
            f0: FromValue::from_value(s[0].as_ref().expect("component f0 of Tt4dmmde1 must be present")),
            f1: s[1].as_ref().map(FromValue::from_value),
            f2: s[2].as_ref().map(FromValue::from_value),
            f3: FromValue::from_value(s[3].as_ref().expect("component f3 of Tt4dmmde1 must be present")),
        }
    }
}
impl ToValue for Tt4dmmde1 {
    fn to_value(&self) -> Value {
        Value::Seq(vec![
            Some(self.f0.to_value()),
            self.f1.as_ref().map(|x| x.to_value()),
            self.f2.as_ref().map(|x| x.to_value()),
            Some(self.f3.to_value()),
        ])
    }
}
impl FromValue for Tt4dmmde2 {
    fn from_value(v: &Value) -> Self {
        let s = match v { Value::Seq(s) => s, other => panic!("Tt4dmmde2: expected Seq, got {other:?}") };
        assert_eq!(s.len(), 4, "Tt4dmmde2: component count");
        let _ = s;
        Tt4dmmde2 {
            f0: FromValue::from_value(s[0].as_ref().expect("component f0 of Tt4dmmde2 must be present")),
            f1: FromValue::from_value(s[1].as_ref().expect("component f1 of Tt4dmmde2 must be present")),
            f2: s[2].as_ref().map(FromValue::from_value),
            f3: FromValue::from_value(s[3].as_ref().expect("component f3 of Tt4dmmde2 must be present")),
        }
    }
}
impl ToValue for Tt4dmmde2 {
    fn to_value(&self) -> Value {
        Value::Seq(vec![
            Some(self.f0.to_value()),
            Some(self.f1.to_value()),
            self.f2.as_ref().map(|x| x.to_value()),
            Some(self.f3.to_value()),
        ])
    }
}
impl FromValue for Tt4dmmde3 {
    fn from_value(v: &Value) -> Self {
        let s = match v { Value::Seq(s) => s, other => panic!("Tt4dmmde3: expected Seq, got {other:?}") };
        assert_eq!(s.len(), 4, "Tt4dmmde3: component count");
        let _ = s;
        Tt4dmmde3 {
            f0: FromValue::from_value(s[0].as_ref().expect("component f0 of Tt4dmmde3 must be present")),
            f1: FromValue::from_value(s[1].as_ref().expect("component f1 of Tt4dmmde3 must be present")),
            f2: FromValue::from_value(s[2].as_ref().expect("component f2 of Tt4dmmde3 must be present")),
            f3: FromValue::from_value(s[3].as_ref().expect("component f3 of Tt4dmmde3 must be present")),
        }
    }
}
impl ToValue for Tt4dmmde3 {
    fn to_value(&self) -> Value {
        Value::Seq(vec![
            Some(self.f0.to_value()),
            Some(self.f1.to_value()),
            Some(self.f2.to_value()),
            Some(self.f3.to_value()),
        ])
    }
}
impl FromValue for Tt4dmmde4 {
    fn from_value(v: &Value) -> Self {
        let s = match v { Value::Seq(s) => s, other => panic!("Tt4dmmde4: expected Seq, got {other:?}") };
        assert_eq!(s.len(), 4, "Tt4dmmde4: component count");
        let _ = s;
        Tt4dmmde4 {
            f0: FromValue::from_value(s[0].as_ref().expect("component f0 of Tt4dmmde4 must be present")),
            f1: FromValue::from_value(s[1].as_ref().expect("component f1 of Tt4dmmde4 must be present")),
            f2: FromValue::from_value(s[2].as_ref().expect("component f2 of Tt4dmmde4 must be present")),
            f3: FromValue::from_value(s[3].as_ref().expect("component f3 of Tt4dmmde4 must be present")),
        }
    }
}
impl ToValue for Tt4dmmde4 {
    fn to_value(&self) -> Value {
        Value::Seq(vec![
            Some(self.f0.to_value()),
            Some(self.f1.to_value()),
            Some(self.f2.to_value()),
            Some(self.f3.to_value()),
        ])
    }
}
impl FromValue for Tt4momdn {
    fn from_value(v: &Value) -> Self {
        let s = match v { Value::Seq(s) => s, other => panic!("Tt4momdn: expected Seq, got {other:?}") };
        assert_eq!(s.len(), 4, "Tt4momdn: component count");
        let _ = s;
        Tt4momdn {
            f0: FromValue::from_value(s[0].as_ref().expect("component f0 of Tt4momdn must be present")),
            f1: s[1].as_ref().map(FromValue::from_value),
            f2: FromValue::from_value(s[2].as_ref().expect("component f2 of Tt4momdn must be present")),
            f3: FromValue::from_value(s[3].as_ref().expect("component f3 of Tt4momdn must be present")),
        }
    }
}
impl ToValue for Tt4momdn {
    fn to_value(&self) -> Value {
        Value::Seq(vec![
            Some(self.f0.to_value()),
            self.f1.as_ref().map(|x| x.to_value()),
            Some(self.f2.to_value()),
            Some(self.f3.to_value()),
        ])
    }
}
impl FromValue for Tt4momde0 {
    fn from_value(v: &Value) -> Self {
        let s = match v { Value::Seq(s) => s, other => panic!("Tt4momde0: expected Seq, got {other:?}") };
        assert_eq!(s.len(), 4, "Tt4momde0: component count");
        let _ = s;
        Tt4momde0 {
            f0: FromValue::from_value(s[0].as_ref().expect("component f0 of Tt4momde0 must be present")),
            f1: s[1].as_ref().map(FromValue::from_value),
            f2: s[2].as_ref().map(FromValue::from_value),
            f3: FromValue::from_value(s[3].as_ref().expect("component f3 of Tt4momde0 must be present")),
        }
    }
}
impl ToValue for Tt4momde0 {
    fn to_value(&self) -> Value {
        Value::Seq(vec![
            Some(self.f0.to_value()),
            self.f1.as_ref().map(|x| x.to_value()),
            self.f2.as_ref().map(|x| x.to_value()),
            Some(self.f3.to_value()),
        ])
    }
}
impl FromValue for Tt4momde1 {
    fn from_value(v: &Value) -> Self {
        let s = match v { Value::Seq(s) => s, other => panic!("Tt4momde1: expected Seq, got {other:?}") };
        assert_eq!(s.len(), 4, "Tt4momde1: component count");
        let _ = s;
        Tt4momde1 {
            f0: FromValue::from_value(s[0].as_ref().expect("component f0 of Tt4momde1 must be present")),
            f1: s[1].as_ref().map(FromValue::from_value),
            f2: s[2].as_ref().map(FromValue::from_value),
            f3: FromValue::from_value(s[3].as_ref().expect("component f3 of Tt4momde1 must be present")),
        }
    }
}
impl ToValue for Tt4momde1 {
    fn to_value(&self) -> Value {
        Value::Seq(vec![
            Some(self.f0.to_value()),
            self.f1.as_ref().map(|x| x.to_value()),
            self.f2.as_ref().map(|x| x.to_value()),
            Some(self.f3.to_value()),
        ])
    }
}
impl FromValue for Tt4momde2 {
    fn from_value(v: &Value) -> Self {
        let s = match v { Value::Seq(s) => s, other => panic!("Tt4momde2: expected Seq, got {other:?}") };
        assert_eq!(s.len(), 4, "Tt4momde2: component count");
        let _ = s;
        Tt4momde2 {
            f0: FromValue::from_value(s[0].as_ref().expect("component f0 of Tt4momde2 must be present")),
            f1: s[1].as_ref().map(FromValue::from_value),
            f2: s[2].as_ref().map(FromValue::from_value),
            f3: FromValue::from_value(s[3].as_ref().expect("component f3 of Tt4momde2 must be present")),
        }
    }
}
impl ToValue for Tt4momde2 {
    fn to_value(&self) -> Value {
        Value::Seq(vec![
            Some(self.f0.to_value()),
            self.f1.as_ref().map(|x| x.to_value()),
            self.f2.as_ref().map(|x| x.to_value()),
            Some(self.f3.to_value()),
        ])
    }
}
impl FromValue for Tt4momde3 {
    fn from_value(v: &Value) -> Self {
        let s = match v { Value::Seq(s) => s, other => panic!("Tt4momde3: expected Seq, got {other:?}") };
        assert_eq!(s.len(), 4, "Tt4momde3: component count");
        let _ = s;
        Tt4momde3 {
            f0: FromValue::from_value(s[0].as_ref().expect("component f0 of Tt4momde3 must be present")),
            f1: s[1].as_ref().map(FromValue::from_value),
            f2: FromValue::from_value(s[2].as_ref().expect("component f2 of Tt4momde3 must be present")),
            f3: FromValue::from_value(s[3].as_ref().expect("component f3 of Tt4momde3 must be present")),
        }
    }
}
impl ToValue for Tt4momde3 {
    fn to_value(&self) -> Value {
        Value::Seq(vec![
            Some(self.f0.to_value()),
            self.f1.as_ref().map(|x| x.to_value()),
            Some(self.f2.to_value()),
            Some(self.f3.to_value()),
        ])
    }
}
impl FromValue for Tt4momde4 {
    fn from_value(v: &Value) -> Self {
        let s = match v { Value::Seq(s) => s, other => panic!("Tt4momde4: expected Seq, got {other:?}") };
        assert_eq!(s.len(), 4, "Tt4momde4: component count");
        let _ = s;
        Tt4momde4 {
            f0: FromValue::from_value(s[0].as_ref().expect("component f0 of Tt4momde4 must be present")),
            f1: s[1].as_ref().map(FromValue::from_value),
            f2: FromValue::from_value(s[2].as_ref().expect("component f2 of Tt4momde4 must be present")),
            f3: FromValue::from_value(s[3].as_ref().expect("component f3 of Tt4momde4 must be present")),
        }
    }
}
impl ToValue for Tt4momde4 {
    fn to_value(&self) -> Value {
        Value::Seq(vec![
            Some(self.f0.to_value()),
            self.f1.as_ref().map(|x| x.to_value()),
            Some(self.f2.to_value()),
            Some(self.f3.to_value()),
        ])
    }
}
impl FromValue for Tt4oomdn {
    fn from_value(v: &Value) -> Self {
        let s = match v { Value::Seq(s) => s, other => panic!("Tt4oomdn: expected Seq, got {other:?}") };
        assert_eq!(s.len(), 4, "Tt4oomdn: component count");
        let _ = s;
        Tt4oomdn {
            f0: s[0].as_ref().map(FromValue::from_value),
            f1: s[1].as_ref().map(FromValue::from_value),
            f2: FromValue::from_value(s[2].as_ref().expect("component f2 of Tt4oomdn must be present")),
            f3: FromValue::from_value(s[3].as_ref().expect("component f3 of Tt4oomdn must be present")),
        }
    }
}
impl ToValue for Tt4oomdn {
    fn to_value(&self) -> Value {
        Value::Seq(vec![
            self.f0.as_ref().map(|x| x.to_value()),
            self.f1.as_ref().map(|x| x.to_value()),
            Some(self.f2.to_value()),
            Some(self.f3.to_value()),
        ])
    }
}
impl FromValue for Tt4oomde0 {
    fn from_value(v: &Value) -> Self {
        let s = match v { Value::Seq(s) => s, other => panic!("Tt4oomde0: expected Seq, got {other:?}") };
        assert_eq!(s.len(), 4, "Tt4oomde0: component count");
        let _ = s;
        Tt4oomde0 {
            f0: s[0].as_ref().map(FromValue::from_value),
            f1: s[1].as_ref().map(FromValue::from_value),
            f2: s[2].as_ref().map(FromValue::from_value),
            f3: FromValue::from_value(s[3].as_ref().expect("component f3 of Tt4oomde0 must be present")),
        }
    }
}
impl ToValue for Tt4oomde0 {
    fn to_value(&self) -> Value {
        Value::Seq(vec![
            self.f0.as_ref().map(|x| x.to_value()),
            self.f1.as_ref().map(|x| x.to_value()),
            self.f2.as_ref().map(|x| x.to_value()),
            Some(self.f3.to_value()),
        ])
    }
}
impl FromValue for Tt4oomde1 {
    fn from_value(v: &Value) -> Self {
        let s = match v { Value::Seq(s) => s, other => panic!("Tt4oomde1: expected Seq, got {other:?}") };
        assert_eq!(s.len(), 4, "Tt4oomde1: component count");
        let _ = s;
        Tt4oomde1 {
            f0: s[0].as_ref().map(FromValue::from_value),
            f1: s[1].as_ref().map(FromValue::from_value),
            f2: s[2].as_ref().map(FromValue::from_value),
            f3: FromValue::from_value(s[3].as_ref().expect("component f3 of Tt4oomde1 must be present")),
        }
    }
}
impl ToValue for Tt4oomde1 {
    fn to_value(&self) -> Value {
        Value::Seq(vec![
            self.f0.as_ref().map(|x| x.to_value()),
            self.f1.as_ref().map(|x| x.to_value()),
            self.f2.as_ref().map(|x| x.to_value()),
            Some(self.f3.to_value()),
        ])
    }
}
impl FromValue for Tt4oomde2 {
    fn from_value(v: &Value) -> Self {
        let s = match v { Value::Seq(s) => s, other => panic!("Tt4oomde2: expected Seq, got {other:?}") };
        assert_eq!(s.len(), 4, "Tt4oomde2: component count");
        let _ = s;
        Tt4oomde2 {
            f0: s[0].as_ref().map(FromValue::from_value),
            f1: s[1].as_ref().map(FromValue::from_value),
            f2: s[2].as_ref().map(FromValue::from_value),
            f3: FromValue::from_value(s[3].as_ref().expect("component f3 of Tt4oomde2 must be present")),
        }
    }
}
impl ToValue for Tt4oomde2 {
    fn to_value(&self) -> Value {
        Value::Seq(vec![
            self.f0.as_ref().map(|x| x.to_value()),
            self.f1.as_ref().map(|x| x.to_value()),
            self.f2.as_ref().map(|x| x.to_value()),
            Some(self.f3.to_value()),
        ])
    }
}
impl FromValue for Tt4oomde3 {
    fn from_value(v: &Value) -> Self {
        let s = match v { Value::Seq(s) => s, other => panic!("Tt4oomde3: expected Seq, got {other:?}") };
        assert_eq!(s.len(), 4, "Tt4oomde3: component count");
        let _ = s;
        Tt4oomde3 {
            f0: s[0].as_ref().map(FromValue::from_value),
            f1: s[1].as_ref().map(FromValue::from_value),
            f2: FromValue::from_value(s[2].as_ref().expect("component f2 of Tt4oomde3 must be present")),
            f3: FromValue::from_value(s[3].as_ref().expect("component f3 of Tt4oomde3 must be present")),
        }
    }
}
impl ToValue for Tt4oomde3 {
    fn to_value(&self) -> Value {
        Value::Seq(vec![
            self.f0.as_ref().map(|x| x.to_value()),
            self.f1.as_ref().map(|x| x.to_value()),
            Some(self.f2.to_value()),
            Some(self.f3.to_value()),
        ])
    }
}
impl FromValue for Tt4oomde4 {
    fn from_value(v: &Value) -> Self {
        let s = match v { Value::Seq(s) => s, other => panic!("Tt4oomde4: expected Seq, got {other:?}") };
        assert_eq!(s.len(), 4, "Tt4oomde4: component count");
        let _ = s;
        Tt4oomde4 {
            f0: s[0].as_ref().map(FromValue::from_value),
            f1: s[1].as_ref().map(FromValue::from_value),
            f2: FromValue::from_value(s[2].as_ref().expect("component f2 of Tt4oomde4 must be present")),
            f3: FromValue::from_value(s[3].as_ref().expect("component f3 of Tt4oomde4 must be present")),
        }
    }
}
impl ToValue for Tt4oomde4 {
    fn to_value(&self) -> Value {
        Value::Seq(vec![
            self.f0.as_ref().map(|x| x.to_value()),
            self.f1.as_ref().map(|x| x.to_value()),
            Some(self.f2.to_value()),
            Some(self.f3.to_value()),
        ])
    }
}
impl FromValue for Tt4domdn {
    fn from_value(v: &Value) -> Self {
        let s = match v { Value::Seq(s) => s, other => panic!("Tt4domdn: expected Seq, got {other:?}") };
        assert_eq!(s.len(), 4, "Tt4domdn: component count");
        let _ = s;
        Tt4domdn {
            f0: FromValue::from_value(s[0].as_ref().expect("component f0 of Tt4domdn must be present")),
            f1: s[1].as_ref().map(FromValue::from_value),
            f2: FromValue::from_value(s[2].as_ref().expect("component f2 of Tt4domdn must be present")),
            f3: FromValue::from_value(s[3].as_ref().expect("component f3 of Tt4domdn must be present")),
        }
    }
}
impl ToValue for Tt4domdn {
    fn to_value(&self) -> Value {
        Value::Seq(vec![
            Some(self.f0.to_value()),
            self.f1.as_ref().map(|x| x.to_value()),
            Some(self.f2.to_value()),
            Some(self.f3.to_value()),
        ])
    }
}
impl FromValue for Tt4domde0 {
    fn from_value(v: &Value) -> Self {
        let s = match v { Value::Seq(s) => s, other => panic!("Tt4domde0: expected Seq, got {other:?}") };
        assert_eq!(s.len(), 4, "Tt4domde0: component count");
        let _ = s;
        Tt4domde0 {
            f0: FromValue::from_value(s[0].as_ref().expect("component f0 of Tt4domde0 must be present")),
            f1: s[1].as_ref().map(FromValue::from_value),
            f2: s[2].as_ref().map(FromValue::from_value),
            f3: FromValue::from_value(s[3].as_ref().expect("component f3 of Tt4domde0 must be present")),
        }
    }
}
impl ToValue for Tt4domde0 {
    fn to_value(&self) -> Value {
        Value::Seq(vec![
            Some(self.f0.to_value()),
            self.f1.as_ref().map(|x| x.to_value()),
            self.f2.as_ref().map(|x| x.to_value()),
            Some(self.f3.to_value()),
        ])
    }
}
impl FromValue for Tt4domde1 {
    fn from_value(v: &Value) -> Self {
        let s = match v { Value::Seq(s) => s, other => panic!("Tt4domde1: expected Seq, got {other:?}") };
        assert_eq!(s.len(), 4, "Tt4domde1: component count");
        let _ = s;
        Tt4domde1 {
            f0: FromValue::from_value(s[0].as_ref().expect("component f0 of Tt4domde1 must be present")),
            f1: s[1].as_ref().map(FromValue::from_value),
            f2: s[2].as_ref().map(FromValue::from_value),
            f3: FromValue::from_value(s[3].as_ref().expect("component f3 of Tt4domde1 must be present")),
        }
    }
}
impl ToValue for Tt4domde1 {
    fn to_value(&self) -> Value {
        Value::Seq(vec![
            Some(self.f0.to_value()),
            self.f1.as_ref().map(|x| x.to_value()),
            self.f2.as_ref().map(|x| x.to_value()),
            Some(self.f3.to_value()),
        ])
    }
}
impl FromValue for Tt4domde2 {
    fn from_value(v: &Value) -> Self {
        let s = match v { Value::Seq(s) => s, other => panic!("Tt4domde2: expected Seq, got {other:?}") };
        assert_eq!(s.len(), 4, "Tt4domde2: component count");
        let _ = s;
        Tt4domde2 {
            f0: FromValue::from_value(s[0].as_ref().expect("component f0 of Tt4domde2 must be present")),
            f1: s[1].as_ref().map(FromValue::from_value),
            f2: s[2].as_ref().map(FromValue::from_value),
            f3: FromValue::from_value(s[3].as_ref().expect("component f3 of Tt4domde2 must be present")),
        }
    }
}
impl ToValue for Tt4domde2 {
    fn to_value(&self) -> Value {
        Value::Seq(vec![
            Some(self.f0.to_value()),
            self.f1.as_ref().map(|x| x.to_value()),
            self.f2.as_ref().map(|x| x.to_value()),
            Some(self.f3.to_value()),
        ])
    }
}
impl FromValue for Tt4domde3 {
    fn from_value(v: &Value) -> Self {
        let s = match v { Value::Seq(s) => s, other => panic!("Tt4domde3: expected Seq, got {other:?}") };
        assert_eq!(s.len(), 4, "Tt4domde3: component count");
        let _ = s;
        Tt4domde3 {
            f0: FromValue::from_value(s[0].as_ref().expect("component f0 of Tt4domde3 must be present")),
            f1: s[1].as_ref().map(FromValue::from_value),
            f2: FromValue::from_value(s[2].as_ref().expect("component f2 of Tt4domde3 must be present")),
            f3: FromValue::from_value(s[3].as_ref().expect("component f3 of Tt4domde3 must be present")),
        }
    }
}
impl ToValue for Tt4domde3 {
    fn to_value(&self) -> Value {
        Value::Seq(vec![
            Some(self.f0.to_value()),
            self.f1.as_ref().map(|x| x.to_value()),
            Some(self.f2.to_value()),
            Some(self.f3.to_value()),
        ])
    }
}
impl FromValue for Tt4domde4 {
    fn from_value(v: &Value) -> Self {
        let s = match v { Value::Seq(s) => s, other => panic!("Tt4domde4: expected Seq, got {other:?}") };
        assert_eq!(s.len(), 4, "Tt4domde4: component count");
        let _ = s;
        Tt4domde4 {
            f0: FromValue::from_value(s[0].as_ref().expect("component f0 of Tt4domde4 must be present")),
            f1: s[1].as_ref().map(FromValue::from_value),
            f2: FromValue::from_value(s[2].as_ref().expect("component f2 of Tt4domde4 must be present")),
            f3: FromValue::from_value(s[3].as_ref().expect("component f3 of Tt4domde4 must be present")),
        }
    }
}
impl ToValue for Tt4domde4 {
    fn to_value(&self) -> Value {
        Value::Seq(vec![
            Some(self.f0.to_value()),
            self.f1.as_ref().map(|x| x.to_value()),
            Some(self.f2.to_value()),
            Some(self.f3.to_value()),
        ])
    }
}
